/* "mini" verification profile: same sources, smaller memory geometry and fewer iterations.
   Program sizes, program count, superscalar latency, cache accesses, jump bits and all
   instruction frequencies are NOT overridden and therefore still come from /repo. */
#undef  RANDOMX_ARGON_MEMORY
#define RANDOMX_ARGON_MEMORY       256
#undef  RANDOMX_DATASET_BASE_SIZE
#define RANDOMX_DATASET_BASE_SIZE  262144
#undef  RANDOMX_DATASET_EXTRA_SIZE
#define RANDOMX_DATASET_EXTRA_SIZE 65472   /* 1023 extra items: dataset offsets cross the 8-bit boundaries (127/128/255/256 items) */
#undef  RANDOMX_PROGRAM_ITERATIONS
#define RANDOMX_PROGRAM_ITERATIONS 16
#undef  RANDOMX_SCRATCHPAD_L3
#define RANDOMX_SCRATCHPAD_L3      65536
#undef  RANDOMX_SCRATCHPAD_L2
#define RANDOMX_SCRATCHPAD_L2      16384
#undef  RANDOMX_SCRATCHPAD_L1
#define RANDOMX_SCRATCHPAD_L1      4096
