/* "iter" verification profile: production geometry, 16 loop iterations per program. */
#undef  RANDOMX_PROGRAM_ITERATIONS
#define RANDOMX_PROGRAM_ITERATIONS 16
