// c19_families.hpp - deterministic enumeration of the program buffers of property C19.
#pragma once
#include "emu/a64/c19_engine.hpp"

namespace c19 {

struct Word { uint8_t op, dst, src, mod; uint32_t imm; };
using IT = randomx::InstructionType;

struct OpTable {
	uint8_t type_of[256]; int first[30]; int count[30];
	OpTable() {
		const int ceil[30] = { randomx::ceil_IADD_RS, randomx::ceil_IADD_M, randomx::ceil_ISUB_R, randomx::ceil_ISUB_M, randomx::ceil_IMUL_R, randomx::ceil_IMUL_M, randomx::ceil_IMULH_R, randomx::ceil_IMULH_M,
			randomx::ceil_ISMULH_R, randomx::ceil_ISMULH_M, randomx::ceil_IMUL_RCP, randomx::ceil_INEG_R, randomx::ceil_IXOR_R, randomx::ceil_IXOR_M, randomx::ceil_IROR_R, randomx::ceil_IROL_R, randomx::ceil_ISWAP_R,
			randomx::ceil_FSWAP_R, randomx::ceil_FADD_R, randomx::ceil_FADD_M, randomx::ceil_FSUB_R, randomx::ceil_FSUB_M, randomx::ceil_FSCAL_R, randomx::ceil_FMUL_R, randomx::ceil_FDIV_M, randomx::ceil_FSQRT_R,
			randomx::ceil_CBRANCH, randomx::ceil_CFROUND, randomx::ceil_ISTORE, randomx::ceil_NOP };
		int lo = 0;
		for (int t = 0; t < 30; ++t) { first[t] = lo; count[t] = ceil[t] - lo; for (int o = lo; o < ceil[t] && o < 256; ++o) type_of[o] = (uint8_t)t; lo = ceil[t]; }
	}
	uint8_t op(IT t, int k = 0) const { int i = (int)t; return (uint8_t)(first[i] + (count[i] ? k % count[i] : 0)); }
};
inline const OpTable& optab() { static OpTable t; return t; }
inline const char* type_name(int t) {
	static const char* n[30] = { "IADD_RS","IADD_M","ISUB_R","ISUB_M","IMUL_R","IMUL_M","IMULH_R","IMULH_M","ISMULH_R","ISMULH_M","IMUL_RCP","INEG_R","IXOR_R","IXOR_M","IROR_R","IROL_R","ISWAP_R",
		"FSWAP_R","FADD_R","FADD_M","FSUB_R","FSUB_M","FSCAL_R","FMUL_R","FDIV_M","FSQRT_R","CBRANCH","CFROUND","ISTORE","NOP" };
	return n[t];
}
inline Word W(IT t, int dst, int src, int mod, uint32_t imm, int k = 0) { return Word{ optab().op(t, k), (uint8_t)dst, (uint8_t)src, (uint8_t)mod, imm }; }
inline Word filler() { return W(IT::IMUL_RCP, 0, 0, 0, 0); }     // IMUL_RCP imm=0: no code, no register use in either engine
inline bool is_filler(const Word& w) { Word f = filler(); return !memcmp(&w, &f, sizeof w); }
inline void put(uint8_t* prog, int slot, const Word& w) { uint8_t* p = prog + 128 + 8 * slot; p[0] = w.op; p[1] = w.dst; p[2] = w.src; p[3] = w.mod; memcpy(p + 4, &w.imm, 4); }
inline Word get(const uint8_t* prog, int slot) { const uint8_t* p = prog + 128 + 8 * slot; Word w{ p[0], p[1], p[2], p[3], 0 }; memcpy(&w.imm, p + 4, 4); return w; }
inline int prog_size(int version) { return version == 2 ? RANDOMX_PROGRAM_SIZE_V2 : RANDOMX_PROGRAM_SIZE_V1; }
// the part of the 384-word buffer a v1 program must ignore mirrors the program's own first words instead of holding fillers (a translator that looks past the
// end of the program must not get away with it; in a real hash that part holds generator output) - DESIGN.md 8.12, lesson 9
inline void mirror_tail(uint8_t* prog, int version) { if (version != 1) return; for (int s = RANDOMX_PROGRAM_SIZE_V1; s < RANDOMX_PROGRAM_MAX_SIZE; ++s) memcpy(prog + 128 + 8 * s, prog + 128 + 8 * (s - RANDOMX_PROGRAM_SIZE_V1), 8); }
inline void blank(const Env& e, CaseSpec& c) { memcpy(c.prog, e.cfg[c.cfg], 128); for (int i = 0; i < RANDOMX_PROGRAM_MAX_SIZE; ++i) put(c.prog, i, filler()); }
inline void set_combo(CaseSpec& c, unsigned k, bool light_ok) {   // 128 combinations of aes x mode x cfg x scratchpad x entry rounding mode
	k %= 128; c.aes = k & 1; c.mode = (k >> 1) & 1; c.cfg = (k >> 2) & 3; c.sp = (k >> 4) & 1; c.rm = (k >> 5) & 3;
	if (!light_ok) c.mode = 0;
}
inline std::string word_str(const Word& w) {
	char b[96]; int t = optab().type_of[w.op];
	snprintf(b, sizeof b, "%s(op=%u dst=%u src=%u mod=0x%02x imm32=0x%08x)", type_name(t), w.op, w.dst, w.src, w.mod, w.imm); return b;
}

// ------------------------------------------------------------------ immediates and mod bytes
inline std::vector<uint32_t> imm_set(bool thorough) {
	std::vector<uint32_t> v = { 0, 1, 2, 3, 13, 14, 31, 32, 63, 64, 65, 0xFF, 0x100, 0xFFF, 0x1000, 0x1001, 0xFFFF, 0x10000, 0x10001, 0xFFF000, 0xFFFFFF, 0x1000000, 0x1000001, 0xFF000001u,
		0x7FFFFFFF, 0x80000000u, 0x80000001u, 0xFFFFFFFFu, 0xFFFFFFFEu, 16376, 16384, 16392, 262136, 262144, 2097144, 2097152, 2097160, 0x12345678, 0xDEADBEEFu, 3234567890u, 0x55555555, 0xFFFF0000u, 0x00FFF001,
		0x7F, 0x80, 0xFFFFFF80u, 0xFFFFFF7Fu, 0x7FFF, 0x8000, 0xFFFF8000u };   // narrow two's-complement edges a size optimisation could introduce (DESIGN.md 8.7)
	if (thorough) {
		for (uint32_t x : { 12u, 33u, 62u, 0xAAAAAAAAu, 0xFFFFF000u, 0xFF000000u, 0x00FF00FFu, 0x80008000u, 0x7FFF8000u, 0xFFFF8000u, 0xFFFF7FFFu, 262152u, 0x001FFFF8u, 0x003FFFF8u }) v.push_back(x);
		for (int k = 1; k <= 32; ++k) { uint64_t p = 1ull << k; v.push_back((uint32_t)(p - 1)); v.push_back((uint32_t)p); v.push_back((uint32_t)(p + 1)); v.push_back((uint32_t)(0 - p)); v.push_back((uint32_t)(0 - p - 1)); v.push_back((uint32_t)(1 - p)); }
	}
	std::vector<uint32_t> out; std::set<uint32_t> seen;
	for (uint32_t x : v) if (seen.insert(x).second) out.push_back(x);
	return out;
}
inline std::vector<uint8_t> mod_set(bool thorough) {
	std::vector<uint8_t> v;
	if (thorough) { for (int i = 0; i < 256; ++i) v.push_back((uint8_t)i); return v; }
	// every mod.mem (0..3), every mod.shift (0..3), mod.cond 0,1,7,8,13,14,15
	return { 0x00, 0x01, 0x02, 0x03, 0x04, 0x08, 0x0C, 0x15, 0x7A, 0x8F, 0xD0, 0xD1, 0xE0, 0xE3, 0xF0, 0xFF };
}

// ------------------------------------------------------------------ family (a): every instruction word
struct FamA {
	std::vector<uint32_t> imms; std::vector<uint8_t> mods; uint64_t N, rot;
	FamA(bool thorough, uint64_t seed) : imms(imm_set(thorough)), mods(mod_set(thorough)) { N = 256ull * 65 * mods.size() * imms.size(); rot = (seed * 7919ull) % N; }
	Word word(int packing, uint64_t raw) const {
		uint64_t idx = (raw + rot) % N; uint64_t I = imms.size(), M = mods.size(); unsigned op, pair, mi, ii;
		if (packing == 0) { ii = (unsigned)(idx % I); mi = (unsigned)((idx / I) % M); pair = (unsigned)((idx / (I * M)) % 65); op = (unsigned)(idx / (I * M * 65)); }
		else { op = (unsigned)(idx % 256); pair = (unsigned)((idx / 256) % 65); ii = (unsigned)((idx / (256 * 65)) % I); mi = (unsigned)(idx / (256ull * 65 * I)); }
		Word w; w.op = (uint8_t)op; w.mod = mods[mi]; w.imm = imms[ii];
		if (pair < 64) { w.dst = (uint8_t)(pair >> 3); w.src = (uint8_t)(pair & 7); } else { w.dst = (uint8_t)(0xF8 | (op & 7)); w.src = (uint8_t)(0xF8 | ((op >> 3) & 7)); }
		return w;
	}
	uint64_t programs(int version) const { uint64_t s = (uint64_t)prog_size(version); return (N + s - 1) / s; }
	void build(const Env& e, CaseSpec& c, int packing, uint64_t k) const {
		blank(e, c); uint64_t s = (uint64_t)prog_size(c.version);
		for (uint64_t i = 0; i < s && k * s + i < N; ++i) put(c.prog, (int)i, word(packing, k * s + i));
		mirror_tail(c.prog, c.version);
	}
};

// ------------------------------------------------------------------ family (b): sequences over a representative alphabet
inline std::vector<Word> alphabet() {
	const uint32_t L1 = 1, L2 = 0;   // mod.mem != 0 -> L1, == 0 -> L2
	std::vector<Word> a = {
		W(IT::IADD_RS, 1, 2, 0x00, 0), W(IT::IADD_RS, 1, 2, 0x0C, 0), W(IT::IADD_RS, 5, 2, 0x04, 0x80000000u), W(IT::IADD_RS, 5, 5, 0x08, 0x12345678), W(IT::IADD_RS, 1, 1, 0x04, 7), W(IT::IADD_RS, 5, 1, 0x00, 0x00000FFF),
		W(IT::IADD_M, 1, 2, L1, 0x1000), W(IT::IADD_M, 1, 2, L2, 0xFFFFFFF8u), W(IT::IADD_M, 1, 1, 0, 0x001FFFF8), W(IT::IADD_M, 1, 1, 0, 0x00012340),
		W(IT::ISUB_R, 1, 2, 0, 0), W(IT::ISUB_R, 1, 1, 0, 1), W(IT::ISUB_R, 1, 1, 0, 0x80000000u), W(IT::ISUB_R, 1, 1, 0, 0xFFFFFFFFu), W(IT::ISUB_R, 2, 2, 0, 0x01000000),
		W(IT::ISUB_M, 2, 1, L1, 0x3FF8), W(IT::ISUB_M, 2, 2, 0, 0x00200008),
		W(IT::IMUL_R, 1, 2, 0, 0), W(IT::IMUL_R, 1, 1, 0, 0xFFFF), W(IT::IMUL_R, 1, 1, 0, 0x10000), W(IT::IMUL_R, 2, 2, 0, 0x80000000u),
		W(IT::IMUL_M, 1, 2, L2, 0x7FFFFFFF), W(IT::IMUL_M, 1, 1, 0, 0x000FFFF8),
		W(IT::IMULH_R, 1, 2, 0, 0), W(IT::IMULH_R, 1, 1, 0, 0), W(IT::IMULH_M, 1, 2, L1, 8), W(IT::IMULH_M, 1, 1, 0, 0xFFFFFFFFu),
		W(IT::ISMULH_R, 1, 2, 0, 0), W(IT::ISMULH_R, 2, 2, 0, 0), W(IT::ISMULH_M, 1, 2, L1, 0x2000), W(IT::ISMULH_M, 2, 2, 0, 0x40),
		W(IT::IMUL_RCP, 1, 0, 0, 3), W(IT::IMUL_RCP, 2, 0, 0, 0xFFFFFFFFu), W(IT::IMUL_RCP, 1, 0, 0, 0x80000000u), W(IT::IMUL_RCP, 1, 0, 0, 0x80000001u),
		W(IT::INEG_R, 1, 0, 0, 0), W(IT::INEG_R, 2, 0, 0, 0),
		W(IT::IXOR_R, 1, 2, 0, 0), W(IT::IXOR_R, 1, 1, 0, 0xFFFF0000u), W(IT::IXOR_R, 2, 2, 0, 0x7FFFFFFF), W(IT::IXOR_R, 1, 1, 0, 0x3C),
		W(IT::IXOR_M, 1, 2, L1, 0x10), W(IT::IXOR_M, 1, 1, 0, 0x00100000),
		W(IT::IROR_R, 1, 2, 0, 0), W(IT::IROR_R, 1, 1, 0, 0), W(IT::IROR_R, 1, 1, 0, 63), W(IT::IROR_R, 2, 2, 0, 13),
		W(IT::IROL_R, 1, 2, 0, 0), W(IT::IROL_R, 1, 1, 0, 0), W(IT::IROL_R, 1, 1, 0, 1), W(IT::IROL_R, 2, 2, 0, 64),
		W(IT::ISWAP_R, 1, 2, 0, 0), W(IT::ISWAP_R, 1, 1, 0, 0), W(IT::ISWAP_R, 2, 1, 0, 0),
		W(IT::FSWAP_R, 0, 0, 0, 0), W(IT::FSWAP_R, 5, 0, 0, 0),
		W(IT::FADD_R, 0, 1, 0, 0), W(IT::FADD_R, 1, 0, 0, 0), W(IT::FADD_M, 0, 1, L1, 0x100), W(IT::FADD_M, 0, 2, L2, 0xFFFFF000u),
		W(IT::FSUB_R, 0, 1, 0, 0), W(IT::FSUB_M, 0, 1, L1, 0x3FF8),
		W(IT::FSCAL_R, 0, 0, 0, 0), W(IT::FSCAL_R, 1, 0, 0, 0),
		W(IT::FMUL_R, 0, 1, 0, 0), W(IT::FMUL_R, 1, 2, 0, 0),
		W(IT::FDIV_M, 0, 1, L1, 0x1008), W(IT::FDIV_M, 1, 2, L2, 0x0003FFF8),
		W(IT::FSQRT_R, 0, 0, 0, 0), W(IT::FSQRT_R, 1, 0, 0, 0),
		W(IT::CBRANCH, 1, 0, 0x00, 0), W(IT::CBRANCH, 1, 0, 0xF0, 0xFFFFFFFFu), W(IT::CBRANCH, 2, 0, 0x70, 0x00800000), W(IT::CBRANCH, 2, 0, 0x00, 0x7FFFFF00),
		W(IT::CFROUND, 0, 1, 0, 0), W(IT::CFROUND, 0, 1, 0, 13), W(IT::CFROUND, 0, 2, 0, 62), W(IT::CFROUND, 0, 1, 0, 2),
		W(IT::ISTORE, 1, 2, 0x01, 0x20), W(IT::ISTORE, 1, 2, 0x00, 0xFFFFFFF0u), W(IT::ISTORE, 1, 2, 0xD1, 0x4000), W(IT::ISTORE, 1, 2, 0xE0, 0x001FFFF8), W(IT::ISTORE, 2, 1, 0xF3, 0x00200000), W(IT::ISTORE, 1, 1, 0x02, 0),
	};
	return a;
}
struct FamB {
	std::vector<Word> alpha; int L; uint64_t nseq;
	explicit FamB(bool thorough) : alpha(alphabet()), L(thorough ? 3 : 2) { nseq = 1; for (int i = 0; i < L; ++i) nseq *= alpha.size(); }
	uint64_t jobs() const { return nseq * 3 * 2; }      // x 3 positions x 2 versions
	void build(const Env& e, CaseSpec& c, uint64_t job) const {
		c.version = 1 + (int)(job & 1); uint64_t r = job >> 1; int pos = (int)(r % 3); uint64_t s = r / 3;
		blank(e, c); int S = prog_size(c.version); int at = pos == 0 ? 0 : pos == 1 ? S / 2 - 1 : S - L;
		for (int i = L - 1; i >= 0; --i) { put(c.prog, at + i, alpha[s % alpha.size()]); s /= alpha.size(); }
		mirror_tail(c.prog, c.version);
	}
};

// ------------------------------------------------------------------ family (c): saturated / branch-distance / threshold / rounding programs
struct NamedProg { std::string name; std::vector<Word> w[2]; };   // [version-1]
inline std::vector<NamedProg> family_c() {
	std::vector<NamedProg> out;
	auto sat = [&](const std::string& n, Word w, bool rotate) {
		NamedProg p; p.name = n;
		for (int v = 0; v < 2; ++v) for (int i = 0; i < prog_size(v + 1); ++i) { Word x = w; if (rotate) { x.dst = (uint8_t)((w.dst + i) & 7); x.src = (uint8_t)((w.src + 3 * i) & 7); x.imm = w.imm + 0x01010101u * (uint32_t)i; } p.w[v].push_back(x); }
		out.push_back(p);
	};
	// longest encoding of every type
	const Word longest[] = {
		W(IT::IADD_RS, 5, 2, 0x0C, 0x12345678), W(IT::IADD_RS, 5, 2, 0x0C, 0x87654321u), W(IT::IADD_M, 1, 2, 0x00, 0x0003FFFF), W(IT::IADD_M, 1, 1, 0x00, 0x001FFFF8),
		W(IT::ISUB_R, 1, 1, 0, 0x12345678), W(IT::ISUB_R, 1, 1, 0, 0x00FFFFFF), W(IT::ISUB_M, 1, 2, 0x01, 0x00003FFF), W(IT::IMUL_R, 1, 1, 0, 0x12345679), W(IT::IMUL_R, 1, 1, 0, 0x87654321u), W(IT::IMUL_M, 1, 2, 0x00, 0x0003FFFF),
		W(IT::IMULH_R, 1, 2, 0, 0), W(IT::IMULH_M, 1, 2, 0, 0x0003FFFF), W(IT::ISMULH_R, 1, 2, 0, 0), W(IT::ISMULH_M, 1, 2, 0, 0x0003FFFF), W(IT::IMUL_RCP, 1, 0, 0, 3), W(IT::INEG_R, 1, 0, 0, 0),
		W(IT::IXOR_R, 1, 1, 0, 0x12345678), W(IT::IXOR_R, 1, 1, 0, 0x87654321u), W(IT::IXOR_M, 1, 2, 0x00, 0x0003FFFF), W(IT::IROR_R, 1, 2, 0, 0), W(IT::IROL_R, 1, 2, 0, 0), W(IT::ISWAP_R, 1, 2, 0, 0), W(IT::FSWAP_R, 1, 0, 0, 0),
		W(IT::FADD_R, 0, 1, 0, 0), W(IT::FADD_M, 0, 1, 0x00, 0x0003FFFF), W(IT::FSUB_R, 0, 1, 0, 0), W(IT::FSUB_M, 0, 1, 0x00, 0x0003FFFF), W(IT::FSCAL_R, 0, 0, 0, 0), W(IT::FMUL_R, 0, 1, 0, 0), W(IT::FDIV_M, 0, 1, 0x00, 0x0003FFFF),
		W(IT::FSQRT_R, 0, 0, 0, 0), W(IT::CBRANCH, 1, 0, 0xF0, 0x12345678), W(IT::CBRANCH, 1, 0, 0x00, 0x87654321u), W(IT::CFROUND, 0, 1, 0, 13), W(IT::ISTORE, 1, 2, 0xE0, 0x001FFFFF), W(IT::ISTORE, 1, 2, 0x01, 0x00003FFF) };
	for (const Word& w : longest) { std::string n = std::string("saturated:") + type_name(optab().type_of[w.op]) + (w.imm & 0x80000000u ? ":neg" : ""); sat(n, w, false); sat(n + ":rot", w, true); }
	// branch distance: r3 := 0; r3 ^= 0xFF<<shift; body of FDIV_M; CBRANCH r3 at slot k (taken exactly once per iteration, target = slot 2)
	for (int k : { 2, 3, 8, 40, 75, 100, 255, 383 }) for (int cond : { 0, 7, 15 }) {
		NamedProg p; p.name = "branch-distance:k=" + std::to_string(k) + ":cond=" + std::to_string(cond);
		for (int v = 0; v < 2; ++v) {
			int S = prog_size(v + 1); if (k >= S) { continue; }
			std::vector<Word>& w = p.w[v]; w.assign((size_t)S, filler());
			w[0] = W(IT::IMUL_R, 3, 3, 0, 0); w[1] = W(IT::IXOR_R, 3, 3, 0, 0xFFu << (cond + 8));
			for (int i = 2; i < k; ++i) w[(size_t)i] = W(IT::FDIV_M, i & 3, 4 + (i & 3), 0x00, 0x0003FFFF);
			w[(size_t)k] = W(IT::CBRANCH, 3, 0, cond << 4, 0);
			if (k + 1 < S) w[(size_t)k + 1] = W(IT::IADD_RS, 4, 3, 0, 0);
		}
		out.push_back(p);
	}
	{ NamedProg p; p.name = "branch-distance:k=1";   // CBRANCH directly after the writer
	  for (int v = 0; v < 2; ++v) { p.w[v].assign((size_t)prog_size(v + 1), filler()); p.w[v][0] = W(IT::IXOR_R, 3, 3, 0, 0xFF00); p.w[v][1] = W(IT::CBRANCH, 3, 0, 0, 0); } out.push_back(p); }
	// last-writer bookkeeping with the branch FORCED taken (added after seeded change agent3_C19, DESIGN.md 8.9):
	// r := 0; r ^= 0xFF << b; X (non-idempotent, reads r); N (an instruction that touches r but must not count as a
	// modification of it); Y; CBRANCH r with imm 0 -> taken exactly once per iteration, correct target = slot 2 (so X runs twice).
	for (int r = 0; r < 8; ++r) for (int cond : { 0, 9, 15 }) {
		const int o = (r + 1) & 7, q = (r + 2) & 7;
		const Word cands[] = { W(IT::IMUL_RCP, r, 0, 0, 0), W(IT::IMUL_RCP, r, 0, 0, 1), W(IT::IMUL_RCP, r, 0, 0, 0x80000000u), W(IT::IMUL_RCP, r, 0, 0, 65536), W(IT::ISWAP_R, r, r, 0, 0),
			W(IT::ISTORE, r, o, 0x01, 0x40), W(IT::ISTORE, o, r, 0xE0, 0x80), W(IT::CFROUND, 0, r, 0, 7), W(IT::FADD_M, 1, r, 0x01, 0x100), W(IT::FDIV_M, 2, r, 0x00, 0x208), W(IT::IADD_M, o, r, 0x01, 0x18), W(IT::IXOR_R, o, r, 0, 0),
			W(IT::FSWAP_R, r, 0, 0, 0), W(IT::IMUL_RCP, o, 0, 0, 5), filler() };
		int ci = 0;
		for (const Word& N : cands) {
			NamedProg p; p.name = "writer-taken:r" + std::to_string(r) + ":cond=" + std::to_string(cond) + ":cand=" + std::to_string(ci++);
			for (int v = 0; v < 2; ++v) { int S = prog_size(v + 1); std::vector<Word>& w = p.w[v]; w.assign((size_t)S, filler());
				w[0] = W(IT::IMUL_R, r, r, 0, 0); w[1] = W(IT::IXOR_R, r, r, 0, 0xFFu << (cond + 8));
				w[2] = W(IT::IADD_RS, q, r, 0x04, 0); w[3] = N; w[4] = W(IT::ISTORE, q, o, 0x01, 0x1238); w[5] = W(IT::CBRANCH, r, 0, cond << 4, 0); w[6] = W(IT::IADD_RS, o, q, 0, 0); }
			out.push_back(p);
		}
	}
	// entry at a branch target: r := 0; r ^= 0xFF << b (last writer of r); A (any alphabet word that does not write r); clobbers; CBRANCH r taken once -> the code of A is
	// entered from the branch without passing through the writer: nothing the translator assumed between the two may matter (DESIGN.md 8.13)
	{ std::vector<Word> al = alphabet(); int ai = 0;
	  for (const Word& a0 : al) { ++ai; if (optab().type_of[a0.op] == (int)IT::CBRANCH) continue;
		for (int r : { 1, 6 }) for (int cond : { 0, 15 }) {
			Word A = a0; if ((A.dst & 7) == r) A.dst = (uint8_t)((A.dst & 0xF8) | ((r + 1) & 7)); if (optab().type_of[A.op] == (int)IT::ISWAP_R && (A.src & 7) == r) A.src = (uint8_t)((r + 2) & 7);
			NamedProg p; p.name = "entry:r" + std::to_string(r) + ":cond=" + std::to_string(cond) + ":word=" + std::to_string(ai);
			for (int v = 0; v < 2; ++v) { int S = prog_size(v + 1); std::vector<Word>& w = p.w[v]; w.assign((size_t)S, filler());
				w[0] = W(IT::IMUL_R, r, r, 0, 0); w[1] = W(IT::IXOR_R, r, r, 0, 0xFFu << (cond + 8)); w[2] = A;
				w[3] = W(IT::IMULH_R, (r + 2) & 7, (r + 3) & 7, 0, 0); w[4] = W(IT::ISMULH_M, (r + 3) & 7, (r + 5) & 7, 0x01, 0x100); w[5] = W(IT::ISTORE, (r + 1) & 7, (r + 2) & 7, 0x01, 0x1238);
				w[6] = W(IT::CBRANCH, r, 0, cond << 4, 0); w[7] = W(IT::IADD_RS, (r + 1) & 7, (r + 3) & 7, 0, 0); }
			out.push_back(p);
		} } }
	// exactly k effective IMUL_RCP (12 literal registers, then ldr-literal form)
	for (int k : { 0, 1, 2, 3, 4, 5, 6, 7, 8, 9, 10, 11, 12, 13, 14, 64, 65, 255, 256, 384 }) {
		NamedProg p; p.name = "imul_rcp-count:k=" + std::to_string(k);
		for (int v = 0; v < 2; ++v) { int S = prog_size(v + 1); if (k > S) continue; p.w[v].assign((size_t)S, filler());
			for (int i = 0; i < k; ++i) p.w[v][(size_t)i] = W(IT::IMUL_RCP, i & 7, 0, 0, 3 + 2 * (uint32_t)i, i);
			if (k < S) p.w[v][(size_t)S - 1] = W(IT::FDIV_M, 0, 1, 0, 0x3FFFF); }
		out.push_back(p);
	}
	// exactly k instructions needing a 32-bit literal (64 lanes of v0..v15, then movz/movn+movk)
	for (int k : { 1, 63, 64, 65, 66, 128, 384 }) for (int sign = 0; sign < 3; ++sign) {
		NamedProg p; p.name = "imm32-literal-count:k=" + std::to_string(k) + (sign == 0 ? ":pos" : sign == 1 ? ":neg" : ":mixed");
		for (int v = 0; v < 2; ++v) { int S = prog_size(v + 1); if (k > S) continue; p.w[v].assign((size_t)S, filler());
			for (int i = 0; i < k; ++i) { bool neg = sign == 1 || (sign == 2 && (i & 1)); uint32_t imm = (neg ? 0x80000000u : 0) | (0x10000u + 0x10001u * (uint32_t)i);
				IT t = (i % 3 == 0) ? IT::IXOR_R : (i % 3 == 1) ? IT::IMUL_R : IT::ISUB_R; p.w[v][(size_t)i] = W(t, i & 7, i & 7, 0, imm, i); } }
		out.push_back(p);
	}
	// rounding-mode control: r1 := K exactly, CFROUND r1 ror rot, then inexact FP work in that mode
	for (uint32_t K : { 0u, 1u, 2u, 3u, 4u, 0x3Fu, 0x41u, 0x80000002u }) for (uint32_t rot : { 0u, 1u, 13u, 63u }) {
		NamedProg p; p.name = "cfround:K=" + std::to_string(K) + ":rot=" + std::to_string(rot);
		for (int v = 0; v < 2; ++v) { int S = prog_size(v + 1); p.w[v].assign((size_t)S, filler()); std::vector<Word>& w = p.w[v];
			w[0] = W(IT::IMUL_R, 1, 1, 0, 0); w[1] = W(IT::IXOR_R, 1, 1, 0, K); w[2] = W(IT::IROL_R, 1, 1, 0, rot); w[3] = W(IT::CFROUND, 0, 1, 0, rot);
			w[4] = W(IT::FADD_M, 0, 2, 1, 0x100); w[5] = W(IT::FDIV_M, 0, 3, 1, 0x208); w[6] = W(IT::FSQRT_R, 1, 0, 0, 0); w[7] = W(IT::FMUL_R, 2, 1, 0, 0); w[8] = W(IT::FSUB_R, 1, 2, 0, 0); w[9] = W(IT::FADD_R, 2, 3, 0, 0);
			w[10] = W(IT::FDIV_M, 3, 4, 0, 0x1230); w[(size_t)S - 1] = W(IT::FSQRT_R, 3, 0, 0, 0); }
		out.push_back(p);
	}
	{ // largest possible code + literal pool: IMUL_RCP (code + literal growing towards each other) interleaved with FDIV_M
		NamedProg p; p.name = "max-code-and-literals";
		for (int v = 0; v < 2; ++v) { int S = prog_size(v + 1); for (int i = 0; i < S; ++i) p.w[v].push_back((i & 1) ? W(IT::FDIV_M, i & 3, i & 7, 0, 0x3FFFF) : W(IT::IMUL_RCP, i & 7, 0, 0, 0xFFFFFFFFu - 2 * (uint32_t)i, i)); }
		out.push_back(p);
	}
	return out;
}
inline bool build_c(const Env& e, CaseSpec& c, const NamedProg& p) {
	const std::vector<Word>& w = p.w[c.version - 1]; if (w.empty()) return false;
	blank(e, c); for (size_t i = 0; i < w.size(); ++i) put(c.prog, (int)i, w[i]);
	mirror_tail(c.prog, c.version);
	return true;
}

// ------------------------------------------------------------------ family (d): programs from the real generator (sampling, counted separately)
inline void build_random(const Env& e, CaseSpec& c, uint64_t n) {
	alignas(16) uint64_t seed[8] = { 0x6a09e667f3bcc908ull ^ n, 0xbb67ae8584caa73bull + n, n, ~n, n * 3, n * 5, n * 7, n * 11 };
	alignas(64) uint8_t buf[PROG_BYTES];
	fillAes4Rx4<false>(seed, PROG_BYTES, buf);
	memcpy(c.prog, buf, PROG_BYTES);
	(void)e;
	// keep the dataset offset entropy but make sure the rare huge values do not matter: initialize() reduces it modulo the extra items
}

} // namespace c19
