#!/usr/bin/env python3
"""Build the C19 check (ARM64 JIT == interpreter, by emulation) from the CURRENT working tree of the repository.

usage: build.py <profile> <outdir>            profile = iter | full | mini ;  env RX_REPO=/path/to/tree (default /repo)

Steps (every command is printed; the JIT .cpp and .S are recompiled on every invocation):
  1. clang --target=aarch64-linux-gnu   jit_compiler_a64_static.S  -> a64_static.o      (same -D flags as the C++)
  2. relocation audit of a64_static.o (only PC-relative relocation types are allowed), ld.lld flat link at 0,
     llvm-objcopy -O binary -> a64_static.bin, llvm-nm -> symbol offsets
  3. generated host assembly a64_blob.S: .incbin of the blob + every extern "C" symbol of jit_compiler_a64_static.hpp
  4. encoding-template audit: every `constexpr uint32_t X = 0x..` of namespace ARMV8A and every commented inline
     constant of jit_compiler_a64.cpp is disassembled with llvm-objdump and compared with the mnemonic that the
     name/comment claims -> c19_templates.json (embedded into the executable as a string)
  0. RX_REPO/src is copied to <outdir>/c19_src_snapshot; everything below is built from that one snapshot
  5. g++ (host) of jit_compiler_a64.cpp with the forward-declaration shim, the emulator, the self-test, the harness;
     link with the host library (oracle) of the same profile built from the same snapshot into <outdir>/c19_private_lib
     (bin/rxbuild.py's build_lib is reused with its directories redirected; /verif/build/lib is never touched)
  6. <outdir>/c19 --selftest ; <outdir>/c19 --bindcheck  (emulator decoder vs llvm-objdump on every distinct
     instruction word met while running sample programs) -> <outdir>/c19.bind.json
With profile iter the sibling executable <outdir>/c19.full (2048 iterations) is built as well.
"""
import json, os, re, shlex, subprocess, sys, shutil

HERE = os.path.dirname(os.path.abspath(__file__))
VERIF = os.path.abspath(os.path.join(HERE, "..", "..", ".."))
REPO = os.environ.get("RX_REPO", "/repo")
SRC = os.path.join(REPO, "src")     # replaced by the snapshot directory in main()
sys.path.insert(0, os.path.join(VERIF, "bin"))
import rxbuild  # noqa: E402

def tool(*names):
    for n in names:
        p = shutil.which(n)
        if p: return p
    raise SystemExit("build.py: none of %s found" % (names,))

CLANG = tool("clang", "clang-14"); LLD = tool("ld.lld", "ld.lld-14"); OBJCOPY = tool("llvm-objcopy", "llvm-objcopy-14")
NM = tool("llvm-nm", "llvm-nm-14"); OBJDUMP = tool("llvm-objdump", "llvm-objdump-14"); READOBJ = tool("llvm-readobj", "llvm-readobj-14")

def run(cmd, **kw):
    print("+ " + " ".join(shlex.quote(c) for c in cmd), flush=True)
    r = subprocess.run(cmd, stdout=subprocess.PIPE, stderr=subprocess.STDOUT, text=True, **kw)
    if r.returncode != 0:
        sys.stderr.write(r.stdout); raise SystemExit("build.py: command failed (%d)" % r.returncode)
    return r.stdout

def disasm_words(words, work, tag):
    """llvm-objdump -d of a list of 32-bit words placed at offsets 0,4,8,...; returns list of text lines"""
    s = os.path.join(work, tag + ".s"); o = os.path.join(work, tag + ".o")
    with open(s, "w") as f:
        f.write(".text\n" + "".join(".inst 0x%08x\n" % w for w in words))
    run([CLANG, "--target=aarch64-linux-gnu", "-march=armv8-a+crypto", "-c", s, "-o", o])
    out = run([OBJDUMP, "-d", "--triple=aarch64", "--mattr=+crypto", "--no-show-raw-insn", o])
    lines = []
    for ln in out.splitlines():
        m = re.match(r"^\s*([0-9a-f]+):\s+(.*)$", ln)
        if m: lines.append(m.group(2).strip())
    assert len(lines) == len(words), (len(lines), len(words))
    return lines

# expected mnemonic (as llvm prints it) for the named templates of namespace ARMV8A
NAMED = {"B": "b", "EOR": "eor", "EOR32": "eor", "ADD": "add", "SUB": "sub", "MUL": "mul", "UMULH": "umulh", "SMULH": "smulh", "MOVZ": "mov|movz", "MOVN": "mov|movn",
         "MOVK": "movk", "ADD_IMM_LO": "add", "ADD_IMM_HI": "add", "LDR_LITERAL": "ldr", "ROR": "ror", "ROR_IMM": "ror|extr", "MOV_REG": "mov", "MOV_VREG_EL": "mov|ins",
         "FADD": "fadd", "FSUB": "fsub", "FEOR": "eor", "FMUL": "fmul", "FDIV": "fdiv", "FSQRT": "fsqrt"}
EXTRA = {"EOR32": r"\bw\d+", "ADD_IMM_HI": r"lsl #12", "FADD": r"\.2d", "FSUB": r"\.2d", "FMUL": r"\.2d", "FDIV": r"\.2d", "FSQRT": r"\.2d", "FEOR": r"\.16b", "MOV_VREG_EL": r"\.d\["}
ALIAS = {"tst": "ands", "beq": "b.eq", "bne": "b.ne", "mov": "orr|ins|movz|movn|umov", "bfi": "bfm|bfi", "cmp": "subs", "lsr": "ubfm", "mul": "madd", "neg": "sub", "ror": "extr|rorv"}

def template_audit(work):
    text = open(os.path.join(SRC, "jit_compiler_a64.cpp")).read()
    items = []   # (label, word, expected regex for mnemonic, extra regex)
    for m in re.finditer(r"constexpr\s+uint32_t\s+(\w+)\s*=\s*(0x[0-9A-Fa-f]+)\s*;", text):
        name, val = m.group(1), int(m.group(2), 16)
        if name in NAMED: items.append((name, val, NAMED[name], EXTRA.get(name)))
        elif name == "t": pass
        else: items.append((name, val, None, None))
    # inline constants: an 8-digit hex constant, claimed by the nearest pure comment line above it ("// <mnemonic> ...",
    # or the first quoted instruction in it) or by a trailing comment on the same line
    lines = text.splitlines()
    def claim(c):
        q = re.search(r'"\s*([a-z][a-z0-9.]*)\s', c)
        if q: return q.group(1)
        w = re.match(r"\s*([a-z][a-z0-9.]*)\s", c + " ")
        return w.group(1) if w else None
    for i, ln in enumerate(lines):
        code = ln.split("//")[0]
        for m in re.finditer(r"0x[0-9A-Fa-f]{8}\b", code):
            nm = re.search(r"constexpr\s+uint32_t\s+(\w+)\s*=", code)
            if nm and nm.group(1) in NAMED: continue
            com = None
            if "//" in ln: com = claim(ln.split("//", 1)[1])
            j = i - 1
            while com is None and j >= 0 and i - j <= 3:
                st = lines[j].strip()
                if st.startswith("//"): com = claim(st[2:]); break
                if st == "": j -= 1; continue
                break
            items.append(("line %d" % (i + 1), int(m.group(0), 16), com, None))
    dis = disasm_words([v for _, v, _, _ in items], work, "templates")
    res = {"checked": 0, "mismatch": [], "undefined": [], "no_claim": 0, "items": []}
    for (label, val, exp, extra), d in zip(items, dis):
        mn = d.split()[0] if d else ""
        res["items"].append({"where": label, "word": "0x%08x" % val, "llvm": d, "claim": exp})
        if "<unknown>" in d or mn in ("udf", ".inst", ".word"):
            res["undefined"].append("%s 0x%08x" % (label, val)); continue
        if exp is None: res["no_claim"] += 1; continue
        res["checked"] += 1
        ok = False
        for e in exp.split("|"):
            cands = {e} | set(ALIAS.get(e, "").split("|"))
            if mn in cands or mn.split(".")[0] in cands: ok = True
            if e in ALIAS.get(mn, "").split("|"): ok = True
        if ok and extra and not re.search(extra, d): ok = False
        if not ok: res["mismatch"].append("%s 0x%08x: source says '%s', llvm-objdump says '%s'" % (label, val, exp, d))
    return res

def build(profile, outdir):
    os.makedirs(outdir, exist_ok=True)
    work = os.path.join(outdir, "c19_work." + profile); os.makedirs(work, exist_ok=True)
    d = rxbuild.parse_variant(profile)
    defs = rxbuild.defines(d)
    # 1. cross-assemble the static runtime
    aobj = os.path.join(work, "a64_static.o")
    run([CLANG, "--target=aarch64-linux-gnu", "-c", "-I", SRC] + defs + [os.path.join(SRC, "jit_compiler_a64_static.S"), "-o", aobj])
    # 2. relocation audit, flat link, symbols
    rel = run([READOBJ, "-r", aobj])
    allowed = {"R_AARCH64_JUMP26", "R_AARCH64_CALL26", "R_AARCH64_CONDBR19", "R_AARCH64_ADR_PREL_LO21", "R_AARCH64_LD_PREL_LO19", "R_AARCH64_TSTBR14"}
    for m in re.finditer(r"(R_AARCH64_\w+)", rel):
        if m.group(1) not in allowed: raise SystemExit("build.py: position-dependent relocation %s in the static runtime" % m.group(1))
    elf = os.path.join(work, "a64_static.elf"); blob = os.path.join(work, "a64_static.bin")
    run([LLD, "-Ttext=0", "-e", "0", "--no-dynamic-linker", "-static", aobj, "-o", elf])
    if "R_AARCH64" in run([READOBJ, "-r", elf]): raise SystemExit("build.py: unresolved relocations remain after the flat link")
    run([OBJCOPY, "-O", "binary", "-j", ".text", elf, blob])
    syms = {}
    for ln in run([NM, elf]).splitlines():
        p = ln.split()
        if len(p) == 3 and p[1] in "tT": syms[p[2]] = int(p[0], 16)
    hdr = open(os.path.join(SRC, "jit_compiler_a64_static.hpp")).read()
    names = re.findall(r"void\s+(randomx_\w+)\s*\(", hdr)
    bs = os.path.join(work, "a64_blob.S")
    with open(bs, "w") as f:
        f.write("/* generated by build.py: AArch64 static runtime embedded as data for the host-compiled back-end */\n")
        f.write("\t.section .rodata\n\t.balign 64\n\t.globl rx_a64_blob\nrx_a64_blob:\n\t.incbin \"%s\"\n\t.globl rx_a64_blob_end\nrx_a64_blob_end:\n" % blob)
        for n in names:
            if n not in syms: raise SystemExit("build.py: symbol %s of jit_compiler_a64_static.hpp not defined by the .S" % n)
            f.write("\t.globl %s\n\t.set %s, rx_a64_blob + %d\n" % (n, n, syms[n]))
        f.write("\t.section .note.GNU-stack,\"\",@progbits\n")
    # 4. template audit
    ta = template_audit(work)
    ta["repo"] = REPO; ta["profile"] = profile
    with open(os.path.join(work, "c19_templates.json"), "w") as f: json.dump(ta, f)
    brief = {k: ta[k] for k in ("checked", "mismatch", "undefined", "no_claim", "repo", "profile")}
    with open(os.path.join(work, "c19_build_info.hpp"), "w") as f:
        f.write("#pragma once\nstatic const char* const C19_TEMPLATE_AUDIT = %s;\n" % json.dumps(json.dumps(brief)))
    print("template audit: %d checked, %d mismatches, %d undefined, %d without a claim" % (ta["checked"], len(ta["mismatch"]), len(ta["undefined"]), ta["no_claim"]))
    for m in ta["mismatch"] + ta["undefined"]: print("  TEMPLATE WARNING: " + m)
    # 5. host library (oracle) from the SAME snapshot, private to <outdir>, + executable
    rxbuild.REPO = os.path.dirname(SRC); rxbuild.SRC = SRC
    rxbuild.BUILD = os.path.join(outdir, "c19_private_lib")
    lib = rxbuild.build_lib(profile)
    print("host library: " + lib)
    exe = os.path.join(outdir, "c19" if profile != "full" or os.environ.get("C19_FULL_AS_MAIN") else "c19.full")
    common = ["-O2", "-maes", "-frounding-math", "-fno-access-control", "-DNDEBUG", "-I", SRC, "-I", os.path.join(VERIF, "src"), "-I", work,
              "-include", os.path.join(HERE, "shim.hpp"), '-DC19_PROFILE="%s"' % profile] + defs
    tus = ((os.path.join(SRC, "jit_compiler_a64.cpp"), "c++11"), (os.path.join(HERE, "a64emu.cpp"), "c++17"), (os.path.join(HERE, "a64selftest.cpp"), "c++17"),
           (os.path.join(VERIF, "src", "checks", "c19.cpp"), "c++17"))
    objs = [os.path.join(work, os.path.basename(src) + ".o") for src, _ in tus]
    import concurrent.futures as cf
    jobs = [["g++", "-std=" + std, "-c", src, "-o", o] + common for (src, std), o in zip(tus, objs)]
    with cf.ThreadPoolExecutor(4) as ex: list(ex.map(run, jobs))
    bo = os.path.join(work, "a64_blob.o")
    run(["gcc", "-c", bs, "-o", bo])
    run(["g++"] + objs + [bo, lib, "-o", exe, "-lpthread"])
    # 6. self-test and decoder binding
    print(run([exe, "--selftest"]).strip())
    # the binding check translates many programs with the library's compiler: if the LIBRARY crashes there (signal), that is for the check proper to report
    # as a verdict with a replay, not a build failure; a bindcheck that runs and finds a decoder disagreement still stops the build
    r = subprocess.run([exe, "--bindcheck", work], stdout=subprocess.PIPE, stderr=subprocess.STDOUT, text=True)
    if r.returncode < 0: print("build.py: bindcheck terminated by signal %d (left to the check proper)" % -r.returncode)
    elif r.returncode != 0: sys.stderr.write(r.stdout); raise SystemExit("build.py: command failed (%d)" % r.returncode)
    else: print(r.stdout.strip())
    print("built " + exe)
    return exe

def snapshot(outdir):
    """Copy RX_REPO/src once; the oracle library, the JIT back-end and the static runtime are all built from this copy,
    so a build is internally consistent even if the tree is edited while it runs."""
    global SRC
    snap = os.path.join(outdir, "c19_src_snapshot")
    if os.path.exists(snap): shutil.rmtree(snap)
    os.makedirs(outdir, exist_ok=True)
    shutil.copytree(os.path.join(REPO, "src"), os.path.join(snap, "src"), ignore=shutil.ignore_patterns("tests"))
    SRC = os.path.join(snap, "src")
    print("snapshot of %s/src -> %s" % (REPO, SRC))

if __name__ == "__main__":
    if len(sys.argv) != 3: print(__doc__); sys.exit(2)
    prof, out = sys.argv[1], os.path.abspath(sys.argv[2])
    snapshot(out)
    build(prof, out)
    if prof == "iter": build("full", out)
