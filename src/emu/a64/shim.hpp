// shim.hpp - the only thing jit_compiler_a64.{hpp,cpp} needs to compile on a non-ARM host: on aarch64 common.hpp forward-declares
// the class before jit_compiler_a64.hpp uses it in a member-pointer typedef.  randomx::JitCompiler stays the host back-end.
#pragma once
namespace randomx { class JitCompilerA64; }
