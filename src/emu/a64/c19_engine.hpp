#include <new>
// c19_engine.hpp - glue between the repository's interpreter (oracle), the host-compiled ARM64 JIT back-end
// and the A64 subset emulator: builds the shared memory images and runs ONE program buffer through both engines.
// Compiled with -fno-access-control (program injection into the real VM classes).
#pragma once
#include "common/vf.hpp"
#include "emu/a64/a64emu.hpp"
#include "jit_compiler_a64.hpp"
#include "jit_compiler_a64_static.hpp"
#include "vm_interpreted.hpp"
#include "vm_interpreted_light.hpp"
#include "dataset.hpp"
#include "aes_hash.hpp"
#include "soft_aes.h"
#include "program.hpp"
#include "randomx.h"
#include "intrin_portable.h"
#include "bytecode_machine.hpp"
#include "superscalar.hpp"
#include <sys/syscall.h>

#ifndef C19_PROFILE
#define C19_PROFILE "iter"
#endif

namespace c19 {

using Alloc = randomx::AlignedAllocator<randomx::CacheLineSize>;
constexpr size_t PROG_BYTES = sizeof(randomx::Program);
constexpr size_t SP_BYTES = randomx::ScratchpadSize;

// symbol offsets inside the static blob (same arithmetic as jit_compiler_a64.cpp)
inline size_t sym_off(void (*f)()) { return (size_t)((const uint8_t*)f - (const uint8_t*)(void*)randomx_program_aarch64); }
inline size_t code_size() { return sym_off(randomx_init_dataset_aarch64_end); }
inline size_t prologue_size() { return sym_off(randomx_program_aarch64_vm_instructions); }
inline size_t literals_end() { return sym_off(randomx_program_aarch64_imul_rcp_literals_end); }
inline size_t calc_item_size() {   // replica of CalcDatasetItemSize (file-static in the .cpp): size of the buffer tail the JIT allocates
	auto d = [](void (*a)(), void (*b)()) { return (size_t)((const uint8_t*)a - (const uint8_t*)b); };
	return d(randomx_calc_dataset_item_aarch64_prefetch, randomx_calc_dataset_item_aarch64) +
		RANDOMX_CACHE_ACCESSES * (d(randomx_calc_dataset_item_aarch64_mix, randomx_calc_dataset_item_aarch64_prefetch) + 4 +
			((RANDOMX_SUPERSCALAR_LATENCY * 3) + 2) * 16 +
			d(randomx_calc_dataset_item_aarch64_store_result, randomx_calc_dataset_item_aarch64_mix) + 4) +
		d(randomx_calc_dataset_item_aarch64_end, randomx_calc_dataset_item_aarch64_store_result);
}

// ------------------------------------------------------------------ shared images (built before fork)
struct Env {
	uint8_t* dataset = nullptr;            // DatasetSize bytes of address space, content = staggered view of a small random file
	randomx_dataset ds;
	randomx_cache* cache = nullptr;        // real cache, key "test key 000"
	uint8_t* sp_img[2] = { nullptr, nullptr };
	uint64_t cfg[4][16];
};

inline uint8_t* map_dataset_image(uint64_t seed) {
	const size_t CH = 2u << 20;   // 2 MiB chunks, chunk i shows the file at offset i*4096 -> no two dataset lines alias the same bytes at the same offset
	const size_t total = (size_t)randomx::DatasetSize;
	const size_t nch = (total + CH - 1) / CH;
	const size_t fsz = CH + nch * 4096;
	int fd = (int)syscall(SYS_memfd_create, "c19ds", 0);
	if (fd < 0 || ftruncate(fd, (off_t)fsz)) { perror("memfd"); exit(2); }
	uint8_t* f = (uint8_t*)mmap(nullptr, fsz, PROT_READ | PROT_WRITE, MAP_SHARED, fd, 0);
	if (f == MAP_FAILED) { perror("mmap"); exit(2); }
	vf::Rng r(seed ^ 0xD5D5);
	for (size_t i = 0; i < fsz; i += 8) { uint64_t v = r.next(); memcpy(f + i, &v, 8); }
	munmap(f, fsz);
	uint8_t* base = (uint8_t*)mmap(nullptr, nch * CH, PROT_NONE, MAP_PRIVATE | MAP_ANONYMOUS | MAP_NORESERVE, -1, 0);
	if (base == MAP_FAILED) { perror("mmap reserve"); exit(2); }
	for (size_t i = 0; i < nch; ++i)
		if (mmap(base + i * CH, CH, PROT_READ, MAP_SHARED | MAP_FIXED, fd, (off_t)(i * 4096)) == MAP_FAILED) { perror("mmap chunk"); exit(2); }
	close(fd);
	return base;
}

inline void make_env(Env& e, bool need_cache) {
	e.dataset = map_dataset_image(19);
	e.ds.memory = e.dataset; e.ds.dealloc = nullptr;
	if (need_cache) {
		randomx_flags fl = randomx_get_flags();
		fl = (randomx_flags)(fl & (RANDOMX_FLAG_ARGON2_AVX2 | RANDOMX_FLAG_ARGON2_SSSE3));
		e.cache = randomx_alloc_cache(fl);
		if (!e.cache) { fprintf(stderr, "c19: cache allocation failed\n"); exit(2); }
		randomx_init_cache(e.cache, "test key 000", 12);
	}
	// scratchpad image 0: AES-filled exactly as a real hash does
	e.sp_img[0] = (uint8_t*)Alloc::allocMemory(SP_BYTES);
	e.sp_img[1] = (uint8_t*)Alloc::allocMemory(SP_BYTES);
	alignas(16) uint64_t seed[8] = { 0x0123456789abcdefull, 0xfedcba9876543210ull, 1, 2, 3, 4, 5, 6 };
	fillAes1Rx4<false>(seed, SP_BYTES, e.sp_img[0]);
	// image 1: boundary patterns (0 / all-ones / int32 min,max / +-1 / sign bits), position dependent, with a unique word every 64 bytes
	static const uint64_t pat[16] = { 0, ~0ull, 0x8000000080000000ull, 0x7fffffff7fffffffull, 0x0000000100000001ull, 0xffffffff00000000ull, 0x00000000ffffffffull, 0x8000000000000000ull,
		0x7fffffffffffffffull, 0x0000000080000000ull, 0x8000000000000001ull, 0xfffffffffffffffeull, 0x00000001ffffffffull, 0xffffffff80000000ull, 0x7fffffff00000000ull, 0x0000003c00000003ull };
	for (size_t i = 0; i < SP_BYTES / 8; ++i) {
		uint64_t h = (uint64_t)i * 0x9E3779B97F4A7C15ull; uint64_t v = pat[(h >> 40) & 15];
		if ((i & 7) == 5) v = h;             // position-unique word
		if ((i & 7) == 2) v = (h >> 58);      // small values: make CFROUND v2's "(x & 60) == 0" condition reachable
		memcpy(e.sp_img[1] + 8 * i, &v, 8);
	}
	// configuration blocks (the 16 entropy words of a program buffer)
	vf::Rng r(1919);
	for (int c = 0; c < 4; ++c) for (int i = 0; i < 16; ++i) e.cfg[c][i] = c == 0 ? 0 : c == 1 ? ~0ull : r.next();
	const uint64_t rr[4] = { 0, 15, 5, 10 };
	const uint64_t dso[4] = { 0, randomx::DatasetExtraItems, 12345, randomx::DatasetExtraItems - 1 };
	for (int c = 0; c < 4; ++c) { e.cfg[c][12] = (e.cfg[c][12] & ~15ull) | rr[c]; e.cfg[c][13] = dso[c]; }
	e.cfg[0][8] = 0; e.cfg[0][10] = 0;
	e.cfg[2][8] = 0x00000000801fffc0ull; e.cfg[2][10] = 0x7fffffc0;   // ma near the top of the base size, mx boundary
}

// ------------------------------------------------------------------ one case
struct CaseSpec {
	int version = 1;   // 1 | 2
	int aes = 0;       // 0 soft, 1 hard
	int mode = 0;      // 0 full memory (dataset image), 1 light (real cache, emitted SuperscalarHash)
	int cfg = 0, sp = 0, rm = 0;
	const char* family = "";
	uint8_t prog[PROG_BYTES];
};
struct Outcome {
	bool agree = true;
	std::string what;          // first difference, human readable
	std::string cls;           // reg | scratchpad | fprc | mxma | abi | emu:<stop>
	uint64_t guest_insns = 0;
};

inline randomx_flags case_flags(const CaseSpec& c) {
	int f = 0;
	if (c.version == 2) f |= RANDOMX_FLAG_V2;
	if (c.aes) f |= RANDOMX_FLAG_HARD_AES;
	if (c.mode == 0) f |= RANDOMX_FLAG_FULL_MEM;
	return (randomx_flags)f;
}

class Engine {
public:
	Env& env;
	randomx::InterpretedVm<Alloc, true>* vs[2];    // [mode] soft AES
	randomx::InterpretedVm<Alloc, false>* vh[2];   // [mode] hard AES
	randomx::JitCompilerA64 jit;
	a64::Emu emu;
	uint8_t* jsp;                 // scratchpad of the emulated JIT
	uint8_t* stack; size_t stack_size = 64 * 1024;
	alignas(64) randomx::RegisterFile jreg;
	randomx::MemoryRegisters jmem;
	uint8_t dirty[SP_BYTES / 4096];
	int isp_img = -1, jsp_img = -1;       // which pristine image each scratchpad currently holds (-1 unknown)
	bool isp_clean = false;
	uint64_t total_insns = 0;
	randomx_cache* ss_cache = nullptr;    // cache whose SuperscalarHash is currently compiled into the JIT buffer
	size_t buf_size;
	uint64_t compiled = 0;                // programs translated by this compiler object so far

	explicit Engine(Env& e) : env(e) {
		for (int m = 0; m < 2; ++m) {
			if (m == 1 && !env.cache) { vs[m] = nullptr; vh[m] = nullptr; continue; }
			if (m == 0) { vs[m] = new randomx::InterpretedVm<Alloc, true>(RANDOMX_FLAG_FULL_MEM); vh[m] = new randomx::InterpretedVm<Alloc, false>(RANDOMX_FLAG_FULL_MEM); vs[m]->setDataset(&env.ds); vh[m]->setDataset(&env.ds); }
			else { vs[m] = new randomx::InterpretedLightVm<Alloc, true>(RANDOMX_FLAG_DEFAULT); vh[m] = new randomx::InterpretedLightVm<Alloc, false>(RANDOMX_FLAG_DEFAULT); vs[m]->setCache(env.cache); vh[m]->setCache(env.cache); }
		}
		// one interpreter scratchpad shared by the four VM objects
		isp = (uint8_t*)Alloc::allocMemory(SP_BYTES);
		for (int m = 0; m < 2; ++m) if (vs[m]) { vs[m]->scratchpad = isp; vh[m]->scratchpad = isp; }
		jsp = (uint8_t*)Alloc::allocMemory(SP_BYTES);
		stack = (uint8_t*)Alloc::allocMemory(stack_size);
		buf_size = code_size() + calc_item_size();
		emu.set_code(jit.getCode(), buf_size);
		if (env.cache) use_cache(env.cache);
	}
	// a brand-new compiler object (nothing left over from earlier programs), as a VM gets when it is created
	void reset_jit() { compiled = 0; jit.~JitCompilerA64(); new (&jit) randomx::JitCompilerA64(); emu.set_code(jit.getCode(), buf_size); randomx_cache* c = ss_cache; ss_cache = nullptr; if (c) use_cache(c); }
	void use_cache(randomx_cache* c) { if (ss_cache != c) { jit.generateSuperscalarHash(c->programs, c->reciprocalCache); ss_cache = c; } }
	uint8_t* isp;

	template<bool soft> void interp(randomx::InterpretedVm<Alloc, soft>* vm, const CaseSpec& c, randomx::ProgramConfiguration& cfg, uint64_t& dsoff, uint32_t& mx0, uint32_t& ma0, randomx::RegisterFile*& out, uint32_t& mx1, uint32_t& ma1, unsigned& rm_exit) {
		memcpy(&vm->program, c.prog, PROG_BYTES);
		vm->vmFlags = case_flags(c);
		memset(&vm->reg, 0xCC, sizeof vm->reg);
		vm->randomx_vm::initialize();
		cfg = vm->config; dsoff = vm->datasetOffset; mx0 = vm->mem.mx; ma0 = vm->mem.ma;
		unsigned saved = _mm_getcsr();
		rx_set_rounding_mode((uint32_t)c.rm);
		vm->execute();
		rm_exit = (_mm_getcsr() >> 13) & 3;
		_mm_setcsr(saved);
		out = &vm->reg; mx1 = vm->mem.mx; ma1 = vm->mem.ma;
	}

	void reset_scratchpads(int img) {
		const uint8_t* src = env.sp_img[img];
		if (jsp_img != img) { memcpy(jsp, src, SP_BYTES); jsp_img = img; }
		else for (size_t p = 0; p < sizeof dirty; ++p) if (dirty[p]) memcpy(jsp + p * 4096, src + p * 4096, 4096);
		if (isp_img != img || !isp_clean) { memcpy(isp, src, SP_BYTES); isp_img = img; }
		else for (size_t p = 0; p < sizeof dirty; ++p) if (dirty[p]) memcpy(isp + p * 4096, src + p * 4096, 4096);
		memset(dirty, 0, sizeof dirty);
		isp_clean = false;
	}

	// Runs the case through both engines.  keep_state: leave jreg/scratchpads as they are afterwards (for reports).
	Outcome run(const CaseSpec& c) {
		Outcome o;
		reset_scratchpads(c.sp);
		randomx::ProgramConfiguration cfg; uint64_t dsoff; uint32_t mx0, ma0, mx1, ma1; unsigned rm_exit; randomx::RegisterFile* ireg;
		if (c.aes) interp<false>(vh[c.mode], c, cfg, dsoff, mx0, ma0, ireg, mx1, ma1, rm_exit);
		else interp<true>(vs[c.mode], c, cfg, dsoff, mx0, ma0, ireg, mx1, ma1, rm_exit);
		// ---- JIT side: replica of CompiledVm::run / CompiledLightVm::run / CompiledVm::execute for __aarch64__
		alignas(64) randomx::Program jprog; memcpy(&jprog, c.prog, PROG_BYTES);
		jit.setFlags(case_flags(c)); ++compiled;
		if (c.mode == 0) { jit.generateProgram(jprog, cfg); jmem.memory = env.ds.memory + dsoff; }
		else { use_cache(env.cache); jit.generateProgramLight(jprog, cfg, (uint32_t)dsoff); jmem.memory = env.cache->memory; }
		jmem.mx = mx0; jmem.ma = ma0;
		memset(&jreg, 0xCC, sizeof jreg);
		memcpy(jreg.a, ireg->a, sizeof jreg.a);                     // randomx_vm::initialize() of the compiled VM (same code, same program)
		memcpy(jreg.f, cfg.eMask, sizeof(cfg.eMask));               // CompiledVm::execute(), #if defined(__aarch64__)
		emu.clear_ranges();
		emu.add_range(jsp, SP_BYTES, a64::PERM_R | a64::PERM_W, "scratchpad", dirty);
		emu.add_range(jit.getCode(), buf_size, a64::PERM_R | a64::PERM_X, "code");
		emu.add_range(stack, stack_size, a64::PERM_R | a64::PERM_W, "stack");
		emu.add_range(&jreg, sizeof jreg, a64::PERM_R | a64::PERM_W, "regfile");
		emu.add_range(&jmem, sizeof jmem, a64::PERM_R, "memregs");
		if (c.mode == 0) emu.add_range(env.dataset, (size_t)randomx::DatasetSize, a64::PERM_R, "dataset");
		else emu.add_range(env.cache->memory, randomx::CacheSize, a64::PERM_R, "cache");
		if (c.version == 2 && !c.aes) { emu.add_range(&randomx_aes_lut_enc[0][0], sizeof(randomx_aes_lut_enc), a64::PERM_R, "aes_lut_enc"); emu.add_range(&randomx_aes_lut_dec[0][0], sizeof(randomx_aes_lut_dec), a64::PERM_R, "aes_lut_dec"); }
		a64::Cpu& cpu = emu.cpu;
		memset(&cpu, 0, sizeof cpu);
		for (int i = 4; i < 31; ++i) cpu.x[i] = 0xA5A5000000000000ull + i;        // junk in every register the callee may assume nothing about
		for (int i = 0; i < 32; ++i) { cpu.v[i].d[0] = 0xB6B6000000000000ull + i; cpu.v[i].d[1] = 0xC7C7000000000000ull + i; }
		static const unsigned rm2arm[4] = { 0, 2, 1, 3 };              // RandomX mode (nearest, down, up, zero) -> FPCR.RMode (RN=0, RP=1, RM=2, RZ=3)
		cpu.fpcr = rm2arm[c.rm & 3] << 22;
		uint64_t stack_top = (uint64_t)(uintptr_t)(stack + stack_size - 256);
		const uint64_t limit = (uint64_t)RANDOMX_PROGRAM_ITERATIONS * 400000ull + 1000000ull;
		a64::Stop st = emu.call((uint64_t)(uintptr_t)jit.getCode(), (uint64_t)(uintptr_t)&jreg, (uint64_t)(uintptr_t)&jmem, (uint64_t)(uintptr_t)jsp, RANDOMX_PROGRAM_ITERATIONS, stack_top, limit);
		o.guest_insns = emu.icount; total_insns += emu.icount;
		char b[512];
		if (st != a64::STOP_RET) {
			o.agree = false; jsp_img = -1;
			static const char* sn[] = { "ret", "unknown-instruction", "out-of-buffer-access", "fetch-outside-code", "instruction-limit", "sp-misaligned", "fpcr", "unpredictable" };
			o.cls = std::string("emu:") + sn[st];
			o.what = "emulated JIT code stopped: " + emu.error;
			isp_clean = false;
			return o;
		}
		// ---- comparison
		if (memcmp(&jreg, ireg, sizeof jreg)) {
			o.agree = false; o.cls = "reg";
			const uint64_t* a = (const uint64_t*)&jreg; const uint64_t* e = (const uint64_t*)ireg;
			for (int i = 0; i < 32; ++i) if (a[i] != e[i]) {
				const char* grp = i < 8 ? "r" : i < 16 ? "f" : i < 24 ? "e" : "a"; int idx = i < 8 ? i : ((i - 8) % 8) / 2;
				snprintf(b, sizeof b, "register file differs: %s%d%s interpreter=0x%016llx jit(a64)=0x%016llx", grp, idx, i < 8 ? "" : (i & 1 ? ".hi" : ".lo"), (unsigned long long)e[i], (unsigned long long)a[i]);
				o.what = b; break;
			}
		}
		bool sp_equal = memcmp(jsp, isp, SP_BYTES) == 0;
		isp_clean = sp_equal;
		if (!sp_equal && o.agree) {
			o.agree = false; o.cls = "scratchpad";
			for (size_t i = 0; i < SP_BYTES; i += 8) if (memcmp(jsp + i, isp + i, 8)) {
				uint64_t x, y; memcpy(&x, isp + i, 8); memcpy(&y, jsp + i, 8);
				snprintf(b, sizeof b, "scratchpad differs at offset 0x%zx: interpreter=0x%016llx jit(a64)=0x%016llx", i, (unsigned long long)x, (unsigned long long)y);
				o.what = b; break;
			}
		}
		static const unsigned arm2rm[4] = { 0, 2, 1, 3 };
		unsigned jrm = arm2rm[(cpu.fpcr >> 22) & 3];
		if (o.agree && jrm != rm_exit) { o.agree = false; o.cls = "fprc"; snprintf(b, sizeof b, "rounding mode at exit differs: interpreter=%u jit(a64)=%u (FPCR=0x%08x)", rm_exit, jrm, cpu.fpcr); o.what = b; }
		if (o.agree && cpu.x[9] != (((uint64_t)ma1 << 32) | mx1)) { o.agree = false; o.cls = "mxma"; snprintf(b, sizeof b, "mx/ma at exit differ: interpreter ma:mx=%08x:%08x jit x9=0x%016llx", ma1, mx1, (unsigned long long)cpu.x[9]); o.what = b; }
		if (o.agree) {   // AAPCS64: sp, x19..x29 and the low halves of v8..v15 are callee-saved
			bool ok = cpu.sp == stack_top;
			for (int i = 19; i <= 29; ++i) ok = ok && cpu.x[i] == 0xA5A5000000000000ull + i;
			for (int i = 8; i <= 15; ++i) ok = ok && cpu.v[i].d[0] == 0xB6B6000000000000ull + i;
			if (!ok) { o.agree = false; o.cls = "abi"; o.what = "callee-saved state (sp, x19-x29, d8-d15) not restored by the emitted function"; }
		}
		return o;
	}
};

} // namespace c19
