// a64emu.hpp - instruction-subset AArch64 emulator for property C19.
//
// Implements EXACTLY the A64 instruction forms that /repo/src/jit_compiler_a64.cpp can emit and that
// /repo/src/jit_compiler_a64_static.S contains (list: see kind_name() / README section in build.py).
// Any other encoding stops the run with STOP_UNKNOWN ("unknown A64 instruction").  Guest memory is host
// memory (identity mapping); every fetch/load/store is checked against a whitelist of registered ranges.
#pragma once
#include <cstdint>
#include <cstddef>
#include <string>
#include <vector>

namespace a64 {

enum Kind : uint16_t {
	K_INVALID = 0,
	// integer, immediate
	K_ADDSUB_IMM, K_LOGIC_IMM, K_MOVWIDE, K_BFM, K_UBFM, K_EXTR, K_ADR,
	// branches / system
	K_B, K_BL, K_BCOND, K_RET, K_MRS_FPCR, K_MSR_FPCR,
	// loads / stores
	K_LDR_LIT_X, K_LDR_LIT_Q,
	K_LDP_X, K_STP_X, K_LDPSW, K_LDP_D, K_STP_D, K_LDP_Q, K_STP_Q,
	K_LDR_X_UOFF, K_STR_X_UOFF, K_LDR_Q_UOFF, K_PRFM_UOFF,
	K_LDR_X_IDX, K_STR_X_IDX,
	K_LDR_X_REG, K_STR_X_REG, K_LDR_W_REG,
	// integer, register
	K_LOGIC_SREG, K_ADDSUB_SREG, K_MADD, K_UMULH, K_SMULH, K_RORV, K_RBIT,
	// SIMD moves
	K_INS_GEN, K_INS_ELEM, K_UMOV, K_SMOV, K_FMOV_SW,
	K_ORR_V, K_EOR_V, K_BIF_V, K_MOVI,
	// AES
	K_AESE, K_AESD, K_AESMC, K_AESIMC,
	// FP .2d
	K_FADD, K_FSUB, K_FMUL, K_FDIV, K_FSQRT, K_SCVTF,
	K_COUNT
};
const char* kind_name(int k);

struct Op {
	uint32_t raw;
	uint16_t kind;
	uint8_t valid;
	uint8_t sf;        // 1 = 64-bit
	uint8_t rd, rn, rm, ra;
	uint8_t a, b, c, d;   // small per-kind fields (opc, shift type, S flag, index, mode ...)
	int64_t imm;
	uint64_t mask, mask2;
};

struct VReg { uint64_t d[2]; };

enum { PERM_R = 1, PERM_W = 2, PERM_X = 4 };

struct Range {
	uint64_t lo, hi;       // [lo, hi)
	int perm;
	const char* name;
	uint8_t* dirty;        // optional: one byte per 4 KiB page (relative to lo), set on store
};

enum Stop { STOP_RET = 0, STOP_UNKNOWN, STOP_MEM, STOP_FETCH, STOP_LIMIT, STOP_SPALIGN, STOP_FPCR, STOP_UNPREDICTABLE };

struct Cpu {
	uint64_t x[32];        // x[31] is kept 0 (XZR); SP is separate
	uint64_t sp;
	uint64_t pc;
	VReg v[32];
	uint32_t n, z, c, vf;  // NZCV
	uint32_t fpcr;
};

class Emu {
public:
	Cpu cpu;
	std::vector<Range> ranges;
	// result of the last run
	std::string error;
	uint64_t fault_pc = 0, fault_addr = 0;
	uint32_t fault_insn = 0;
	uint64_t icount = 0;
	uint64_t kind_count[K_COUNT];
	uint64_t fp_special = 0;     // results/operands that were NaN or subnormal (RandomX never produces them)

	Emu();
	~Emu();
	void clear_ranges() { ranges.clear(); }
	void add_range(const void* p, size_t n, int perm, const char* name, uint8_t* dirty = nullptr);
	// code window with decode cache (the only executable range)
	void set_code(const void* base, size_t size);
	// Run from `entry` until a `ret` to `sentinel` (initial x30 is set to it by the caller through call()).
	Stop run(uint64_t entry, uint64_t max_insns);
	// AAPCS64 call: x0..x3 args, sp = stack_top (16-byte aligned), x30 = sentinel.
	Stop call(uint64_t entry, uint64_t a0, uint64_t a1, uint64_t a2, uint64_t a3, uint64_t stack_top, uint64_t max_insns);

	static const uint64_t SENTINEL = 0xDEADC0DE00000000ull;

	// decoding (static, usable by the self-test and the binding check)
	static bool decode(uint32_t w, Op& o);
	static std::string describe(uint32_t w, uint64_t pc);   // LLVM "no-aliases" style text, "" if unknown
	// single-step one instruction word on this->cpu at cpu.pc (word need not be in the code window); for the self-test.
	Stop step_word(uint32_t w);
	// record of distinct executed words (enabled on demand)
	bool record_words = false;
	std::vector<uint32_t> seen_words;
private:
	const uint8_t* code_lo = nullptr; size_t code_size = 0;
	Op* cache = nullptr;
	bool chk(uint64_t a, unsigned n, int perm);
	template<bool WR> bool chkfast(uint64_t a, unsigned n);
	int last_r = 0, last_w = 0;
	Stop exec(const Op& o);
	void set_host_fp();
	unsigned host_csr_saved = 0;
	Stop fail(Stop s, const char* what, uint64_t addr);
};

// independent software AES round primitives (ARMv8 AESE/AESD/AESMC/AESIMC semantics), exposed for the self-test
void aes_e(uint8_t st[16], const uint8_t key[16]);
void aes_d(uint8_t st[16], const uint8_t key[16]);
void aes_mc(uint8_t out[16], const uint8_t in[16]);
void aes_imc(uint8_t out[16], const uint8_t in[16]);
// ARM ARM DecodeBitMasks; returns false for reserved encodings
bool decode_bit_masks(unsigned N, unsigned imms, unsigned immr, bool immediate, unsigned datasize, uint64_t& wmask, uint64_t& tmask);

} // namespace a64
