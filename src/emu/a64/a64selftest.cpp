// a64selftest.cpp - binds the emulator's semantics to independent formulas, one block per supported
// instruction form, over boundary operands.  Encodings are assembled here from the Arm ARM field layouts
// (independently of Emu::decode); formulas deliberately use a different computation style than the emulator
// (bit loops, 32-bit limbs, compiler overflow builtins, AES-NI, known IEEE answers).
#include "a64emu.hpp"
#include <cstdio>
#include <cstring>
#include <cstdint>
#include <vector>
#include <cfenv>
#include <cmath>
#include <wmmintrin.h>
#include <emmintrin.h>

using namespace a64;

namespace {

struct T {
	Emu e; long checks = 0, fails = 0; int forms = 0; bool verbose = false; const char* form = "";
	void begin(const char* f) { form = f; ++forms; }
	void eq(uint64_t got, uint64_t want, const char* what, uint32_t w = 0) {
		++checks;
		if (got != want) { if (++fails <= 40) fprintf(stderr, "selftest FAIL [%s] %s: insn=0x%08x got=0x%016llx want=0x%016llx\n", form, what, w, (unsigned long long)got, (unsigned long long)want); }
	}
	void reset() { memset(&e.cpu, 0, sizeof e.cpu); e.cpu.pc = 0x10000; }
	Stop step(uint32_t w) { return e.step_word(w); }
};

const uint64_t B64[] = { 0, 1, 2, 3, 0x7f, 0x80, 0xff, 0x100, 0xfff, 0x1000, 0x7fffffffull, 0x80000000ull, 0x80000001ull, 0xffffffffull, 0x100000000ull,
	0x7fffffffffffffffull, 0x8000000000000000ull, 0x8000000000000001ull, 0xffffffffffffffffull, 0xfffffffffffffffeull, 0x123456789abcdef0ull, 0xdeadbeefcafebabeull,
	0x5555555555555555ull, 0xaaaaaaaaaaaaaaaaull, 0x00ffffffffc00000ull, 0xffffffff00000000ull };
const int NB = sizeof(B64) / sizeof(B64[0]);

uint64_t ind_ror(uint64_t v, unsigned r) { uint64_t o = 0; for (unsigned i = 0; i < 64; ++i) if (v & (1ull << ((i + r) % 64))) o |= 1ull << i; return o; }
uint64_t ind_mulhu(uint64_t a, uint64_t b) {
	uint64_t al = a & 0xffffffffu, ah = a >> 32, bl = b & 0xffffffffu, bh = b >> 32;
	uint64_t p0 = al * bl, p1 = al * bh, p2 = ah * bl, p3 = ah * bh;
	uint64_t mid = (p0 >> 32) + (p1 & 0xffffffffu) + (p2 & 0xffffffffu);
	return p3 + (p1 >> 32) + (p2 >> 32) + (mid >> 32);
}
uint64_t ind_mulhs(uint64_t a, uint64_t b) { uint64_t h = ind_mulhu(a, b); if ((int64_t)a < 0) h -= b; if ((int64_t)b < 0) h -= a; return h; }
uint64_t ind_bitmask(unsigned N, unsigned imms, unsigned immr, unsigned datasize, bool& valid) {
	unsigned e;
	if (N) e = 64; else if ((imms & 0x20) == 0) e = 32; else if ((imms & 0x10) == 0) e = 16; else if ((imms & 0x08) == 0) e = 8; else if ((imms & 0x04) == 0) e = 4; else if ((imms & 0x02) == 0) e = 2; else { valid = false; return 0; }
	if (e > datasize) { valid = false; return 0; }
	unsigned s = imms & (e - 1), r = immr & (e - 1);
	if (s == e - 1) { valid = false; return 0; }
	valid = true;
	uint64_t out = 0;
	for (unsigned i = 0; i < datasize; ++i) {
		unsigned j = i % e;                 // bit j of the element is set iff ((j + r) mod e) <= s
		if (((j + r) % e) <= s) out |= 1ull << i;
	}
	return out;
}

// ---- encoders (Arm ARM C4 tables)
uint32_t enc_addsub_imm(int sf, int op, int S, int sh, unsigned imm12, int rn, int rd) { return (sf << 31) | (op << 30) | (S << 29) | 0x11000000u | (sh << 22) | (imm12 << 10) | (rn << 5) | rd; }
uint32_t enc_logic_imm(int sf, int opc, int N, unsigned immr, unsigned imms, int rn, int rd) { return (sf << 31) | (opc << 29) | 0x12000000u | (N << 22) | (immr << 16) | (imms << 10) | (rn << 5) | rd; }
uint32_t enc_movw(int sf, int opc, int hw, unsigned imm16, int rd) { return (sf << 31) | (opc << 29) | 0x12800000u | (hw << 21) | (imm16 << 5) | rd; }
uint32_t enc_bitfield(int opc, unsigned immr, unsigned imms, int rn, int rd) { return 0x80000000u | (opc << 29) | 0x13000000u | (1 << 22) | (immr << 16) | (imms << 10) | (rn << 5) | rd; }
uint32_t enc_extr(int rm, unsigned lsb, int rn, int rd) { return 0x93C00000u | (rm << 16) | (lsb << 10) | (rn << 5) | rd; }
uint32_t enc_logic_sreg(int sf, int opc, int sh, int rm, unsigned imm6, int rn, int rd) { return (sf << 31) | (opc << 29) | 0x0A000000u | (sh << 22) | (rm << 16) | (imm6 << 10) | (rn << 5) | rd; }
uint32_t enc_addsub_sreg(int sf, int op, int S, int sh, int rm, unsigned imm6, int rn, int rd) { return (sf << 31) | (op << 30) | (S << 29) | 0x0B000000u | (sh << 22) | (rm << 16) | (imm6 << 10) | (rn << 5) | rd; }

void flags_add(uint64_t a, uint64_t b, bool sub, bool sf, uint64_t& res, unsigned& n, unsigned& z, unsigned& c, unsigned& v) {
	if (sf) {
		int64_t sr; uint64_t ur;
		if (!sub) { v = __builtin_add_overflow((int64_t)a, (int64_t)b, &sr); c = __builtin_add_overflow(a, b, &ur); }
		else { v = __builtin_sub_overflow((int64_t)a, (int64_t)b, &sr); c = !__builtin_sub_overflow(a, b, &ur); }
		res = ur; n = (int64_t)ur < 0; z = ur == 0;
	} else {
		int32_t sr; uint32_t ur; uint32_t x = (uint32_t)a, y = (uint32_t)b;
		if (!sub) { v = __builtin_add_overflow((int32_t)x, (int32_t)y, &sr); c = __builtin_add_overflow(x, y, &ur); }
		else { v = __builtin_sub_overflow((int32_t)x, (int32_t)y, &sr); c = !__builtin_sub_overflow(x, y, &ur); }
		res = ur; n = (int32_t)ur < 0; z = ur == 0;
	}
}

} // namespace

int a64_selftest(bool verbose, long* nchecks, int* nforms) {
	T t; t.verbose = verbose;
	Emu& e = t.e;
	// a memory arena for the load/store forms; [arena+64, arena+64+256) is the only accessible range
	alignas(64) static uint8_t arena[512];
	for (int i = 0; i < 512; ++i) arena[i] = (uint8_t)(i * 37 + 11);
	uint8_t* win = arena + 64; const size_t WIN = 256;
	e.clear_ranges(); e.add_range(win, WIN, PERM_R | PERM_W, "selftest-window");

	// ---------------- add/sub immediate
	t.begin("add/sub(s) immediate");
	for (int sf = 0; sf < 2; ++sf) for (int op = 0; op < 2; ++op) for (int S = 0; S < 2; ++S) for (int sh = 0; sh < 2; ++sh)
		for (unsigned imm : { 0u, 1u, 0xfffu, 0x800u, 256u }) for (int i = 0; i < NB; ++i) {
			t.reset(); e.cpu.x[5] = B64[i];
			uint32_t w = enc_addsub_imm(sf, op, S, sh, imm, 5, 6);
			if (t.step(w) != STOP_RET) { t.eq(1, 0, "step", w); continue; }
			uint64_t res; unsigned n, z, c, v; flags_add(B64[i], (uint64_t)imm << (sh ? 12 : 0), op, sf, res, n, z, c, v);
			t.eq(e.cpu.x[6], res, "result", w);
			if (S) t.eq((e.cpu.n << 3) | (e.cpu.z << 2) | (e.cpu.c << 1) | e.cpu.vf, (n << 3) | (z << 2) | (c << 1) | v, "nzcv", w);
			t.eq(e.cpu.pc, 0x10004, "pc", w);
		}
	// SP as source/destination (S=0), XZR as destination (S=1)
	t.reset(); e.cpu.sp = 0x7000; t.step(enc_addsub_imm(1, 1, 0, 0, 192, 31, 31)); t.eq(e.cpu.sp, 0x7000 - 192, "sub sp,sp,#192");
	t.reset(); e.cpu.sp = 0x7000; t.step(enc_addsub_imm(1, 0, 0, 0, 0, 31, 1)); t.eq(e.cpu.x[1], 0x7000, "mov x1,sp");
	t.reset(); e.cpu.sp = 0x7000; e.cpu.x[3] = 5; t.step(enc_addsub_imm(1, 1, 1, 0, 5, 3, 31)); t.eq(e.cpu.sp, 0x7000, "subs xzr leaves sp"); t.eq(e.cpu.z, 1, "subs xzr Z");

	// ---------------- logical immediate: every valid (N,immr,imms) against an independent bit-loop construction
	t.begin("and/orr/eor/ands logical immediate");
	for (int sf = 0; sf < 2; ++sf) for (unsigned N = 0; N < 2; ++N) for (unsigned immr = 0; immr < 64; ++immr) for (unsigned imms = 0; imms < 64; ++imms) {
		bool valid; uint64_t m = ind_bitmask(N, imms, immr, sf ? 64 : 32, valid);
		if (!sf && N) valid = false;
		uint32_t w = enc_logic_imm(sf, 0, N, immr, imms, 2, 3);
		t.reset(); e.cpu.x[2] = ~0ull; e.cpu.x[3] = 0x1111;
		Stop s = t.step(w);
		if (!valid) { t.eq(s, STOP_UNKNOWN, "reserved bitmask must be refused", w); continue; }
		t.eq(s, STOP_RET, "step", w);
		t.eq(e.cpu.x[3], m, "and mask", w);
	}
	for (int opc = 0; opc < 4; ++opc) for (int i = 0; i < NB; ++i) {   // semantics of the four ops with mask 0xff00 (N=1, immr=56, imms=7)
		for (int sf = 0; sf < 2; ++sf) {
			uint32_t w = sf ? enc_logic_imm(1, opc, 1, 56, 7, 2, 3) : enc_logic_imm(0, opc, 0, 24, 7, 2, 3);
			t.reset(); e.cpu.x[2] = B64[i]; e.cpu.n = e.cpu.c = e.cpu.vf = 1; t.step(w);
			uint64_t a = sf ? B64[i] : (B64[i] & 0xffffffffu), m = 0xff00, r = opc == 1 ? (a | m) : opc == 2 ? (a ^ m) : (a & m);
			t.eq(e.cpu.x[3], r, "logic imm result", w);
			if (opc == 3) t.eq((e.cpu.n << 3) | (e.cpu.z << 2) | (e.cpu.c << 1) | e.cpu.vf, (r == 0) << 2, "ands nzcv", w);
		}
	}
	{ // known answers for the masks the JIT builds
		struct KA { uint32_t w; uint64_t m; } ka[] = {
			{ 0x121A0000u | (14u << 10), 0x1FFFC0ull }, { 0x927d0000u | (10u << 10), 0x3FF8ull }, { 0x927d0000u | (14u << 10), 0x3FFF8ull }, { 0x927d0000u | (17u << 10), 0x1FFFF8ull },
			{ 0xF2781C1Fu, 0xFF00ull }, { 0xF2781C1Fu - (15u << 16), 0x7F800000ull }, { 0xF27E0E9Fu, 60ull }, { 0x92400000u | (21u << 10), 0x3FFFFFull }, { 0x121A0000u | (24u << 10), 0x7FFFFFC0ull } };
		for (auto& k : ka) { Op o; bool ok = Emu::decode(k.w, o); t.eq(ok, 1, "decode known mask", k.w); t.eq(o.mask, k.m, "known mask", k.w); }
	}

	// ---------------- move wide
	t.begin("movn/movz/movk");
	for (int sf = 0; sf < 2; ++sf) for (int opc : { 0, 2, 3 }) for (int hw = 0; hw < 4; ++hw) for (unsigned imm : { 0u, 1u, 0xffffu, 0x8000u, 0x1234u }) {
		uint32_t w = enc_movw(sf, opc, hw, imm, 7);
		t.reset(); e.cpu.x[7] = 0xdeadbeefcafebabeull; Stop s = t.step(w);
		if (!sf && hw > 1) { t.eq(s, STOP_UNKNOWN, "hw>1 for 32-bit", w); continue; }
		uint64_t v = (uint64_t)imm; for (int k = 0; k < hw; ++k) v *= 65536;
		uint64_t r;
		if (opc == 0) r = ~v; else if (opc == 2) r = v; else { uint64_t hole = 0xffffull; for (int k = 0; k < hw; ++k) hole *= 65536; r = (0xdeadbeefcafebabeull & ~hole) | v; }
		if (!sf) r &= 0xffffffffu;
		t.eq(e.cpu.x[7], r, "movw", w);
	}
	// ---------------- bitfield
	t.begin("ubfm (lsr/lsl/ubfx)");
	for (int i = 0; i < NB; ++i) for (unsigned n = 0; n < 64; ++n) {
		t.reset(); e.cpu.x[1] = B64[i]; uint32_t w = enc_bitfield(2, n, 63, 1, 2); t.step(w); t.eq(e.cpu.x[2], B64[i] >> n, "lsr", w);
		if (n) { t.reset(); e.cpu.x[1] = B64[i]; w = enc_bitfield(2, (64 - n) % 64, 63 - n, 1, 2); t.step(w); t.eq(e.cpu.x[2], B64[i] << n, "lsl", w); }
		for (unsigned wd : { 1u, 2u, 8u }) if (n + wd <= 64) { t.reset(); e.cpu.x[1] = B64[i]; w = enc_bitfield(2, n, n + wd - 1, 1, 2); t.step(w); t.eq(e.cpu.x[2], (B64[i] >> n) & ((1ull << wd) - 1), "ubfx", w); }
	}
	t.begin("bfm (bfi/bfxil)");
	for (int i = 0; i < NB; ++i) for (int j = 0; j < NB; j += 3) for (unsigned lsb : { 0u, 1u, 40u, 62u, 63u }) for (unsigned wd : { 1u, 2u, 24u }) {
		if (lsb + wd > 64) continue;
		uint64_t fm = (wd == 64 ? ~0ull : ((1ull << wd) - 1));
		// bfi xd, xn, #lsb, #wd
		t.reset(); e.cpu.x[1] = B64[i]; e.cpu.x[2] = B64[j]; uint32_t w = enc_bitfield(1, (64 - lsb) % 64, wd - 1, 1, 2); t.step(w);
		if (lsb != 0) t.eq(e.cpu.x[2], (B64[j] & ~(fm << lsb)) | ((B64[i] & fm) << lsb), "bfi", w);
		// bfxil xd, xn, #lsb, #wd
		t.reset(); e.cpu.x[1] = B64[i]; e.cpu.x[2] = B64[j]; w = enc_bitfield(1, lsb, lsb + wd - 1, 1, 2); t.step(w);
		t.eq(e.cpu.x[2], (B64[j] & ~fm) | ((B64[i] >> lsb) & fm), "bfxil", w);
	}
	{ t.reset(); e.cpu.x[20] = 0xfffffffffffffffeull; e.cpu.x[8] = 0; t.step(0xB3580400u | 8 | (20 << 5)); t.eq(e.cpu.x[8], 2ull << 40, "bfi x8,x20,#40,#2 (JIT constant)"); }
	// ---------------- extr
	t.begin("extr (ror #imm)");
	for (int i = 0; i < NB; ++i) for (int j = 0; j < NB; j += 2) for (unsigned l = 0; l < 64; ++l) {
		t.reset(); e.cpu.x[1] = B64[i]; e.cpu.x[2] = B64[j]; uint32_t w = enc_extr(2, l, 1, 3); t.step(w);
		uint64_t r = 0; for (unsigned b = 0; b < 64; ++b) { unsigned src = b + l; bool bit = src < 64 ? (B64[j] >> src) & 1 : (B64[i] >> (src - 64)) & 1; if (bit) r |= 1ull << b; }
		t.eq(e.cpu.x[3], r, "extr", w);
		if (j == 0) { t.reset(); e.cpu.x[1] = B64[i]; w = enc_extr(1, l, 1, 3); t.step(w); t.eq(e.cpu.x[3], ind_ror(B64[i], l), "ror imm", w); }
	}
	// ---------------- adr / branches
	t.begin("adr");
	for (int64_t off : { 0ll, 4ll, -4ll, 0xfffffll, -0x100000ll, 0x12345ll }) {
		uint32_t w = 0x10000000u | (((uint32_t)off & 3) << 29) | ((((uint32_t)(off >> 2)) & 0x7ffff) << 5) | 19;
		t.reset(); e.cpu.pc = 0x40000000; t.step(w); t.eq(e.cpu.x[19], 0x40000000 + off, "adr", w);
	}
	t.begin("b"); t.begin("bl");
	for (int64_t off : { 4ll, -4ll, 0x7fffffcll, -0x8000000ll, 0x4000ll }) {
		uint32_t imm26 = (uint32_t)(off >> 2) & 0x3ffffff;
		t.reset(); e.cpu.pc = 0x40000000; e.cpu.x[30] = 7; t.step(0x14000000u | imm26); t.eq(e.cpu.pc, 0x40000000 + off, "b"); t.eq(e.cpu.x[30], 7, "b keeps lr");
		t.reset(); e.cpu.pc = 0x40000000; t.step(0x94000000u | imm26); t.eq(e.cpu.pc, 0x40000000 + off, "bl"); t.eq(e.cpu.x[30], 0x40000004, "bl lr");
	}
	t.begin("b.cond");
	for (unsigned cond = 0; cond < 16; ++cond) for (unsigned f = 0; f < 16; ++f) for (int64_t off : { 16ll, -0x100000ll, 0xffffcll }) {
		unsigned n = (f >> 3) & 1, z = (f >> 2) & 1, c = (f >> 1) & 1, v = f & 1; bool take;
		switch (cond) { case 0: take = z; break; case 1: take = !z; break; case 2: take = c; break; case 3: take = !c; break; case 4: take = n; break; case 5: take = !n; break; case 6: take = v; break; case 7: take = !v; break;
			case 8: take = c && !z; break; case 9: take = !c || z; break; case 10: take = n == v; break; case 11: take = n != v; break; case 12: take = !z && n == v; break; case 13: take = z || n != v; break; default: take = true; }
		uint32_t w = 0x54000000u | (((uint32_t)(off >> 2) & 0x7ffff) << 5) | cond;
		t.reset(); e.cpu.pc = 0x40000000; e.cpu.n = n; e.cpu.z = z; e.cpu.c = c; e.cpu.vf = v; t.step(w);
		t.eq(e.cpu.pc, take ? 0x40000000 + off : 0x40000004, "b.cond", w);
	}
	t.begin("ret");
	t.reset(); e.cpu.x[30] = 0x1234560; t.step(0xD65F03C0u); t.eq(e.cpu.pc, 0x1234560, "ret");
	t.reset(); e.cpu.x[5] = 0x777000; t.step(0xD65F0000u | (5 << 5)); t.eq(e.cpu.pc, 0x777000, "ret x5");
	// ---------------- fpcr
	t.begin("mrs fpcr"); t.begin("msr fpcr");
	for (unsigned rm = 0; rm < 4; ++rm) {
		t.reset(); e.cpu.x[20] = (uint64_t)rm << 22; t.eq(t.step(0xD51B4400u | 20), STOP_RET, "msr"); t.eq(e.cpu.fpcr, rm << 22, "fpcr value");
		t.step(0xD53B4400u | 8); t.eq(e.cpu.x[8], (uint64_t)rm << 22, "mrs");
	}
	t.reset(); e.cpu.x[20] = 1ull << 9; t.eq(t.step(0xD51B4400u | 20), STOP_FPCR, "msr with trap-enable bits refused");
	// ---------------- loads / stores
	auto W64 = [&](size_t off) { uint64_t v; memcpy(&v, win + off, 8); return v; };
	auto W32 = [&](size_t off) { uint32_t v; memcpy(&v, win + off, 4); return v; };
	const uint64_t wb = (uint64_t)(uintptr_t)win;
	t.begin("ldr Xt, literal"); t.begin("ldr Qt, literal");
	{
		t.reset(); e.cpu.pc = wb + 128; uint32_t w = 0x58000000u | ((((uint32_t)(-64 >> 2)) & 0x7ffff) << 5) | 9; t.step(w); t.eq(e.cpu.x[9], W64(64), "ldr x lit back", w);
		t.reset(); e.cpu.pc = wb; w = 0x58000000u | ((uint32_t)(248 >> 2) << 5) | 9; t.eq(t.step(w), STOP_RET, "last word"); t.eq(e.cpu.x[9], W64(248), "ldr x lit fwd", w);
		t.reset(); e.cpu.pc = wb; w = 0x58000000u | ((uint32_t)(252 >> 2) << 5) | 9; t.eq(t.step(w), STOP_MEM, "ldr x lit crossing the end", w);
		t.reset(); e.cpu.pc = wb + 4; w = 0x9C000000u | ((uint32_t)(100 >> 2) << 5) | 3; t.step(w); t.eq(e.cpu.v[3].d[0], W64(104), "ldr q lit lo", w); t.eq(e.cpu.v[3].d[1], W64(112), "ldr q lit hi", w);
		t.reset(); e.cpu.pc = wb; w = 0x9C000000u | ((uint32_t)(244 >> 2) << 5) | 3; t.eq(t.step(w), STOP_MEM, "ldr q lit crossing the end", w);
	}
	t.begin("ldp/stp Xt");
	for (int mode : { 1, 2, 3 }) for (int imm7 : { 0, 1, -1, 4, -8 }) {
		uint32_t base_enc = 0xA8000000u | (mode << 23) | (((uint32_t)imm7 & 0x7f) << 15) | (11 << 10) | (1 << 5) | 10;
		int64_t off = imm7 * 8; uint64_t b0 = wb + 128;
		uint64_t ea = mode == 1 ? b0 : b0 + off;
		t.reset(); e.cpu.x[1] = b0; uint32_t w = base_enc | (1 << 22); t.step(w);
		t.eq(e.cpu.x[10], W64(ea - wb), "ldp t1", w); t.eq(e.cpu.x[11], W64(ea - wb + 8), "ldp t2", w); t.eq(e.cpu.x[1], mode == 2 ? b0 : b0 + off, "ldp writeback", w);
		t.reset(); e.cpu.x[1] = b0; e.cpu.x[10] = 0x1122334455667788ull; e.cpu.x[11] = 0x99aabbccddeeff00ull; w = base_enc; t.step(w);
		t.eq(W64(ea - wb), 0x1122334455667788ull, "stp t1", w); t.eq(W64(ea - wb + 8), 0x99aabbccddeeff00ull, "stp t2", w); t.eq(e.cpu.x[1], mode == 2 ? b0 : b0 + off, "stp writeback", w);
	}
	{ // SP base + alignment fault + out of range
		t.reset(); e.cpu.sp = wb + 128; e.cpu.x[20] = 1; e.cpu.x[30] = 2; uint32_t w = 0xA9BF7BF4u; /* stp x20,x30,[sp,#-16]! */ t.eq(t.step(w), STOP_RET, "stp pre sp"); t.eq(e.cpu.sp, wb + 112, "sp after pre-index"); t.eq(W64(112), 1, "stp sp t1"); t.eq(W64(120), 2, "stp sp t2");
		t.reset(); e.cpu.sp = wb + 112; w = 0xA8C17BF4u; /* ldp x20,x30,[sp],#16 */ t.step(w); t.eq(e.cpu.x[20], 1, "ldp post t1"); t.eq(e.cpu.x[30], 2, "ldp post t2"); t.eq(e.cpu.sp, wb + 128, "sp after post-index");
		t.reset(); e.cpu.sp = wb + 120; t.eq(t.step(0xA9BF7BF4u), STOP_SPALIGN, "misaligned sp");
		t.reset(); e.cpu.x[1] = wb + 248; t.eq(t.step(0xA9402C2Au /* ldp x10,x11,[x1] */), STOP_MEM, "ldp over the end");
		t.reset(); e.cpu.x[1] = wb - 8; t.eq(t.step(0xA9002C2Au /* stp x10,x11,[x1] */), STOP_MEM, "stp before the start");
	}
	t.begin("ldpsw");
	{ uint32_t v[2] = { 0x80000000u, 0x7fffffffu }; memcpy(win + 32, v, 8); uint32_t v2[2] = { 0xffffffffu, 1u }; memcpy(win + 40, v2, 8);
	  t.reset(); e.cpu.x[17] = wb; uint32_t w = 0x69400000u | 20 | (17 << 5) | (19 << 10) | ((8u & 0x7f) << 15); /* [x17,#32] */ t.step(w);
	  t.eq(e.cpu.x[20], 0xffffffff80000000ull, "ldpsw t1", w); t.eq(e.cpu.x[19], 0x7fffffffull, "ldpsw t2", w);
	  w = 0x69400000u | 20 | (17 << 5) | (19 << 10) | ((10u & 0x7f) << 15); t.step(w); t.eq(e.cpu.x[20], ~0ull, "ldpsw -1", w); t.eq(e.cpu.x[19], 1, "ldpsw 1", w);
	  t.reset(); e.cpu.x[17] = wb + 256; w = 0x69400000u | 20 | (17 << 5) | (19 << 10) | ((0x7fu) << 15); /* #-4 */ t.eq(t.step(w), STOP_MEM, "ldpsw half outside", w); }
	t.begin("ldp/stp Dt"); t.begin("ldp/stp Qt");
	{ t.reset(); e.cpu.sp = wb; e.cpu.v[8].d[0] = 0xaaaa; e.cpu.v[8].d[1] = 0xbbbb; e.cpu.v[9].d[0] = 0xcccc; e.cpu.v[9].d[1] = 0xdddd;
	  t.step(0x6D0827E8u /* stp d8,d9,[sp,#128] */); t.eq(W64(128), 0xaaaa, "stp d t1"); t.eq(W64(136), 0xcccc, "stp d t2");
	  e.cpu.v[8].d[0] = 0; e.cpu.v[9].d[0] = 0; t.step(0x6D4827E8u /* ldp d8,d9,[sp,#128] */); t.eq(e.cpu.v[8].d[0], 0xaaaa, "ldp d t1"); t.eq(e.cpu.v[8].d[1], 0, "ldp d zeroes upper half"); t.eq(e.cpu.v[9].d[0], 0xcccc, "ldp d t2");
	  t.reset(); e.cpu.x[16] = wb + 64; e.cpu.v[16].d[0] = 1; e.cpu.v[16].d[1] = 2; e.cpu.v[17].d[0] = 3; e.cpu.v[17].d[1] = 4;
	  t.step(0xAD014610u /* stp q16,q17,[x16,#32] */); t.eq(W64(96), 1, "stp q 0"); t.eq(W64(104), 2, "stp q 1"); t.eq(W64(112), 3, "stp q 2"); t.eq(W64(120), 4, "stp q 3");
	  t.step(0xAD416618u /* ldp q24,q25,[x16,#32] */); t.eq(e.cpu.v[24].d[1], 2, "ldp q t1 hi"); t.eq(e.cpu.v[25].d[0], 3, "ldp q t2 lo"); t.eq(e.cpu.v[25].d[1], 4, "ldp q t2 hi");
	  t.reset(); e.cpu.x[16] = wb + 256 - 48; t.eq(t.step(0xAD014610u), STOP_MEM, "stp q over the end"); }
	t.begin("ldr/str Xt [Xn,#uimm]"); t.begin("ldr Qt [Xn,#uimm]"); t.begin("prfm");
	{ t.reset(); e.cpu.sp = wb + 16; e.cpu.x[19] = 0x1357; t.step(0xF9000BF3u /* str x19,[sp,#16] */); t.eq(W64(32), 0x1357, "str uoff"); e.cpu.x[19] = 0; t.step(0xF9400BF3u /* ldr x19,[sp,#16] */); t.eq(e.cpu.x[19], 0x1357, "ldr uoff");
	  t.reset(); e.cpu.x[0] = wb; t.step(0x3DC0101Eu /* ldr q30,[x0,#64] */); t.eq(e.cpu.v[30].d[0], W64(64), "ldr q lo"); t.eq(e.cpu.v[30].d[1], W64(72), "ldr q hi");
	  t.reset(); e.cpu.x[0] = wb + 8; t.step(0xF9400000u /* ldr x0,[x0] */); t.eq(e.cpu.x[0], W64(8), "ldr x0,[x0]");
	  t.reset(); e.cpu.x[0] = wb + 256; t.eq(t.step(0xF9400000u), STOP_MEM, "ldr at the end");
	  t.reset(); e.cpu.x[20] = 0x123; t.eq(t.step(0xF9800280u /* prfm pldl1keep,[x20] */), STOP_RET, "prfm never faults"); t.eq(t.step(0xF9800283u /* prfm pldl2strm */), STOP_RET, "prfm pldl2strm"); }
	t.begin("ldr/str Xt pre/post-index");
	{ t.reset(); e.cpu.sp = wb + 64; e.cpu.x[0] = 0x2468; t.step(0xF81F0FE0u /* str x0,[sp,#-16]! */); t.eq(e.cpu.sp, wb + 48, "pre-index sp"); t.eq(W64(48), 0x2468, "pre-index store");
	  e.cpu.x[0] = 0; t.step(0xF84107E0u /* ldr x0,[sp],#16 */); t.eq(e.cpu.x[0], 0x2468, "post-index load"); t.eq(e.cpu.sp, wb + 64, "post-index sp"); }
	t.begin("ldr/str Xt [Xn,Xm{,lsl #3}]"); t.begin("ldr Wt [Xn,Xm,lsl #2]");
	{ t.reset(); e.cpu.x[2] = wb; e.cpu.x[20] = 24; t.step(0xf8606840u | 20 | (20 << 16)); t.eq(e.cpu.x[20], W64(24), "ldr x,[x2,x20]");
	  t.reset(); e.cpu.x[2] = wb; e.cpu.x[20] = 5; t.step(0xf8607840u | 20 | (20 << 16)); t.eq(e.cpu.x[20], W64(40), "ldr x,[x2,x20,lsl 3]");
	  t.reset(); e.cpu.x[2] = wb; e.cpu.x[20] = 48; e.cpu.x[7] = 0xfeedface; t.step(0xF8206840u | 7 | (20 << 16)); t.eq(W64(48), 0xfeedface, "str x,[x2,x20]");
	  t.reset(); e.cpu.x[19] = wb; e.cpu.x[4] = 9; e.cpu.x[10] = ~0ull; t.step(0xb8647a6au /* ldr w10,[x19,x4,lsl #2] */); t.eq(e.cpu.x[10], W32(36), "ldr w zero-extends");
	  t.reset(); e.cpu.x[2] = wb; e.cpu.x[20] = 256; t.eq(t.step(0xf8606840u | 20 | (20 << 16)), STOP_MEM, "ldr reg offset past the end");
	  t.reset(); e.cpu.x[2] = wb; e.cpu.x[20] = 0xfffffffffffffff8ull; t.eq(t.step(0xF8206840u | 7 | (20 << 16)), STOP_MEM, "str reg offset before the start"); }
	// ---------------- logical / add-sub shifted register
	t.begin("and/orr/eor/ands shifted register");
	for (int sf = 0; sf < 2; ++sf) for (int opc = 0; opc < 4; ++opc) for (int sh = 0; sh < 4; ++sh) for (unsigned amt : { 0u, 1u, 31u, 32u, 63u }) for (int i = 0; i < NB; ++i) for (int j = 0; j < NB; j += 5) {
		uint32_t w = enc_logic_sreg(sf, opc, sh, 2, amt, 1, 3);
		t.reset(); e.cpu.x[1] = B64[i]; e.cpu.x[2] = B64[j]; Stop s = t.step(w);
		if (!sf && amt > 31) { t.eq(s, STOP_UNKNOWN, "imm6>31 for 32-bit", w); continue; }
		unsigned size = sf ? 64 : 32; uint64_t m = sf ? B64[j] : (B64[j] & 0xffffffffu), a = sf ? B64[i] : (B64[i] & 0xffffffffu), b = 0;
		for (unsigned k = 0; k < size; ++k) {   // bit k of the shifted operand
			bool bit;
			if (sh == 0) bit = k >= amt && ((m >> (k - amt)) & 1);
			else if (sh == 1) bit = k + amt < size && ((m >> (k + amt)) & 1);
			else if (sh == 2) bit = k + amt < size ? ((m >> (k + amt)) & 1) : ((m >> (size - 1)) & 1);
			else bit = (m >> ((k + amt) % size)) & 1;
			if (bit) b |= 1ull << k;
		}
		uint64_t r = opc == 1 ? (a | b) : opc == 2 ? (a ^ b) : (a & b);
		t.eq(e.cpu.x[3], r, "logic sreg", w);
		if (opc == 3) t.eq((e.cpu.n << 3) | (e.cpu.z << 2), (((r >> (size - 1)) & 1) << 3) | ((r == 0) << 2), "ands nz", w);
	}
	t.reset(); e.cpu.x[9] = 0x1234567890ull; t.step(0xAA0903EAu /* mov x10,x9 */); t.eq(e.cpu.x[10], 0x1234567890ull, "mov x10,x9");
	t.reset(); e.cpu.x[9] = 0xffffffff12345678ull; t.step(0x2A0903F4u /* mov w20,w9 */); t.eq(e.cpu.x[20], 0x12345678ull, "mov w20,w9");
	t.reset(); e.cpu.x[4] = 5; t.step(0xAA1F03E4u /* mov x4,xzr */); t.eq(e.cpu.x[4], 0, "mov x4,xzr");
	t.begin("add/sub(s) shifted register");
	for (int sf = 0; sf < 2; ++sf) for (int op = 0; op < 2; ++op) for (int S = 0; S < 2; ++S) for (int sh = 0; sh < 3; ++sh) for (unsigned amt : { 0u, 1u, 2u, 3u, 6u, 31u, 63u }) for (int i = 0; i < NB; ++i) for (int j = 0; j < NB; j += 3) {
		uint32_t w = enc_addsub_sreg(sf, op, S, sh, 2, amt, 1, 3);
		t.reset(); e.cpu.x[1] = B64[i]; e.cpu.x[2] = B64[j]; Stop s = t.step(w);
		if (!sf && amt > 31) { t.eq(s, STOP_UNKNOWN, "imm6>31 for 32-bit", w); continue; }
		uint64_t m = sf ? B64[j] : (B64[j] & 0xffffffffu), b;
		if (sh == 0) b = m << amt; else if (sh == 1) b = m >> amt; else b = sf ? (uint64_t)((int64_t)m >> amt) : (uint64_t)(uint32_t)((int32_t)(uint32_t)m >> amt);
		uint64_t res; unsigned n, z, c, v; flags_add(B64[i], b, op, sf, res, n, z, c, v);
		t.eq(e.cpu.x[3], res, "addsub sreg", w);
		if (S) t.eq((e.cpu.n << 3) | (e.cpu.z << 2) | (e.cpu.c << 1) | e.cpu.vf, (n << 3) | (z << 2) | (c << 1) | v, "nzcv", w);
	}
	t.reset(); e.cpu.x[13] = 77; t.step(0xCB0D03EDu /* neg x13,x13 */); t.eq(e.cpu.x[13], (uint64_t)-77ll, "sub x13,xzr,x13");
	t.reset(); e.cpu.x[2] = 9; e.cpu.x[3] = 9; t.step(0xEB03005Fu /* cmp x2,x3 */); t.eq(e.cpu.z, 1, "cmp equal Z"); t.eq(e.cpu.c, 1, "cmp equal C");
	// ---------------- multiply / rotate / rbit
	t.begin("madd (mul)"); t.begin("umulh"); t.begin("smulh"); t.begin("rorv"); t.begin("rbit");
	for (int i = 0; i < NB; ++i) for (int j = 0; j < NB; ++j) {
		uint64_t a = B64[i], b = B64[j];
		t.reset(); e.cpu.x[1] = a; e.cpu.x[2] = b; t.step(0x9B007C00u | 3 | (1 << 5) | (2 << 16)); t.eq(e.cpu.x[3], a * b, "mul");
		t.reset(); e.cpu.x[1] = a; e.cpu.x[2] = b; e.cpu.x[12] = b; t.step(0x9B0C3040u /* madd x0,x2,x12,x12 */); t.eq(e.cpu.x[0], b * b + b, "madd");
		t.reset(); e.cpu.x[1] = a; e.cpu.x[2] = b; t.step(0x9BC07C00u | 3 | (1 << 5) | (2 << 16)); t.eq(e.cpu.x[3], ind_mulhu(a, b), "umulh");
		t.reset(); e.cpu.x[1] = a; e.cpu.x[2] = b; t.step(0x9B407C00u | 3 | (1 << 5) | (2 << 16)); t.eq(e.cpu.x[3], ind_mulhs(a, b), "smulh");
		t.reset(); e.cpu.x[1] = a; e.cpu.x[2] = b; t.step(0x9AC02C00u | 3 | (1 << 5) | (2 << 16)); t.eq(e.cpu.x[3], ind_ror(a, (unsigned)(b % 64)), "rorv");
	}
	for (int i = 0; i < NB; ++i) {
		uint64_t a = B64[i], r = 0; for (int k = 0; k < 8; ++k) { uint8_t by = (uint8_t)(a >> (8 * k)), rb = 0; for (int q = 0; q < 8; ++q) if (by & (1 << q)) rb |= (uint8_t)(0x80 >> q); r |= (uint64_t)rb << (8 * (7 - k)); }
		t.reset(); e.cpu.x[8] = a; t.step(0xDAC00000u | 20 | (8 << 5)); t.eq(e.cpu.x[20], r, "rbit");
	}
	// ---------------- SIMD moves
	t.begin("ins Vd.s/d[i], Rn"); t.begin("ins Vd.d[i], Vn.d[j]"); t.begin("umov"); t.begin("smov"); t.begin("fmov Sd, Wn"); t.begin("orr/eor/bif 16b"); t.begin("movi 4s");
	{
		t.reset(); e.cpu.v[29].d[0] = 0x1111; e.cpu.v[29].d[1] = 0x2222; e.cpu.x[16] = 0xabcdef0123456789ull;
		t.step(0x4E081C00u | 29 | (16 << 5)); t.eq(e.cpu.v[29].d[0], 0xabcdef0123456789ull, "ins d[0]"); t.eq(e.cpu.v[29].d[1], 0x2222, "ins d[0] keeps d[1]");
		t.step(0x4E181C00u | 29 | (16 << 5)); t.eq(e.cpu.v[29].d[1], 0xabcdef0123456789ull, "ins d[1]");
		for (unsigned idx = 0; idx < 4; ++idx) { t.reset(); e.cpu.v[28].d[0] = 0x1111111122222222ull; e.cpu.v[28].d[1] = 0x3333333344444444ull; e.cpu.x[1] = 0xffffffff89abcdefull;
			t.step(0x4E041C00u | (idx << 19) | 28 | (1 << 5)); uint32_t lanes[4]; memcpy(lanes, &e.cpu.v[28], 16);
			uint32_t want[4] = { 0x22222222u, 0x11111111u, 0x44444444u, 0x33333333u }; want[idx] = 0x89abcdefu;
			for (int k = 0; k < 4; ++k) t.eq(lanes[k], want[k], "ins s[i]"); }
		// ins element, the three FSWAP_R words
		t.reset(); e.cpu.v[16].d[0] = 0xA; e.cpu.v[16].d[1] = 0xB;
		t.step(0x6E080400u | 28 | (16 << 5) | (1 << 14)); t.eq(e.cpu.v[28].d[0], 0xB, "ins v28.d[0],v16.d[1]");
		t.step(0x6E080400u | 16 | (16 << 5) | (1 << 20)); t.eq(e.cpu.v[16].d[1], 0xA, "ins v16.d[1],v16.d[0]");
		t.step(0x6E080400u | 16 | (28 << 5)); t.eq(e.cpu.v[16].d[0], 0xB, "ins v16.d[0],v28.d[0]"); t.eq(e.cpu.v[16].d[1], 0xA, "swap complete");
		// umov b / s, smov s
		t.reset(); for (int k = 0; k < 16; ++k) ((uint8_t*)&e.cpu.v[0])[k] = (uint8_t)(0x80 + k);
		for (unsigned idx = 0; idx < 16; ++idx) { e.cpu.x[4] = ~0ull; t.step(0x0E003C00u | (((idx << 1) | 1) << 16) | 4 | (0 << 5)); t.eq(e.cpu.x[4], 0x80 + idx, "umov b"); }
		for (unsigned idx = 0; idx < 4; ++idx) { uint32_t lane; memcpy(&lane, (uint8_t*)&e.cpu.v[0] + 4 * idx, 4);
			e.cpu.x[4] = ~0ull; t.step(0x0E043C00u | 4 | (0 << 5) | (idx << 19)); t.eq(e.cpu.x[4], lane, "umov s");
			t.step(0x4E042C00u | 4 | (0 << 5) | (idx << 19)); t.eq(e.cpu.x[4], (uint64_t)(int64_t)(int32_t)lane, "smov s"); }
		t.reset(); e.cpu.v[28].d[0] = ~0ull; e.cpu.v[28].d[1] = ~0ull; e.cpu.x[1] = 0xaaaaaaaa12345678ull; t.step(0x1E270000u | 28 | (1 << 5)); t.eq(e.cpu.v[28].d[0], 0x12345678ull, "fmov s,w"); t.eq(e.cpu.v[28].d[1], 0, "fmov clears the rest");
		for (int i = 0; i < NB; ++i) for (int j = 0; j < NB; j += 2) for (int k = 0; k < NB; k += 3) {
			uint64_t d = B64[i], n = B64[j], m = B64[k];
			t.reset(); e.cpu.v[1].d[0] = n; e.cpu.v[1].d[1] = ~n; e.cpu.v[2].d[0] = m; e.cpu.v[2].d[1] = m ^ 0xff; e.cpu.v[3].d[0] = d; e.cpu.v[3].d[1] = ~d;
			t.step(0x4EA01C00u | 4 | (1 << 5) | (2 << 16)); t.eq(e.cpu.v[4].d[0], n | m, "orr v lo"); t.eq(e.cpu.v[4].d[1], ~n | (m ^ 0xff), "orr v hi");
			t.step(0x6E201C00u | 4 | (1 << 5) | (2 << 16)); t.eq(e.cpu.v[4].d[0], n ^ m, "eor v lo"); t.eq(e.cpu.v[4].d[1], ~n ^ (m ^ 0xff), "eor v hi");
			t.step(0x6EE01C00u | 3 | (1 << 5) | (2 << 16));
			uint64_t want = 0; for (int b = 0; b < 64; ++b) { bool bit = ((m >> b) & 1) ? ((d >> b) & 1) : ((n >> b) & 1); if (bit) want |= 1ull << b; }
			t.eq(e.cpu.v[3].d[0], want, "bif lo");
		}
		t.reset(); e.cpu.v[28].d[0] = ~0ull; e.cpu.v[28].d[1] = ~0ull; t.step(0x4F00041Cu); t.eq(e.cpu.v[28].d[0] | e.cpu.v[28].d[1], 0, "movi v28.4s,#0");
		t.step(0x4F0407FCu /* movi v28.4s,#0x9f */); t.eq(e.cpu.v[28].d[0], 0x0000009f0000009full, "movi imm8");
	}
	// ---------------- AES against the host's AES-NI
	t.begin("aese"); t.begin("aesd"); t.begin("aesmc"); t.begin("aesimc");
	{
		uint64_t s = 0x243f6a8885a308d3ull;
		for (int it = 0; it < 300; ++it) {
			uint8_t st[16], key[16];
			for (int k = 0; k < 16; ++k) { s = s * 6364136223846793005ull + 1442695040888963407ull; st[k] = (uint8_t)(s >> 56); s = s * 6364136223846793005ull + 1442695040888963407ull; key[k] = (uint8_t)(s >> 56); }
			if (it == 0) { memset(st, 0, 16); memset(key, 0, 16); } if (it == 1) { memset(st, 0xff, 16); memset(key, 0xff, 16); }
			__m128i S = _mm_loadu_si128((const __m128i*)st), K = _mm_loadu_si128((const __m128i*)key), Z = _mm_setzero_si128();
			uint8_t want[16]; uint64_t wl, wh;
			// aese Vd,Vn = SubBytes(ShiftRows(Vd ^ Vn)) = aesenclast(Vd ^ Vn, 0)
			t.reset(); memcpy(&e.cpu.v[16], st, 16); memcpy(&e.cpu.v[28], key, 16); t.step(0x4E284800u | 16 | (28 << 5));
			_mm_storeu_si128((__m128i*)want, _mm_aesenclast_si128(_mm_xor_si128(S, K), Z)); memcpy(&wl, want, 8); memcpy(&wh, want + 8, 8);
			t.eq(e.cpu.v[16].d[0], wl, "aese lo"); t.eq(e.cpu.v[16].d[1], wh, "aese hi");
			t.reset(); memcpy(&e.cpu.v[17], st, 16); memcpy(&e.cpu.v[28], key, 16); t.step(0x4E285800u | 17 | (28 << 5));
			_mm_storeu_si128((__m128i*)want, _mm_aesdeclast_si128(_mm_xor_si128(S, K), Z)); memcpy(&wl, want, 8); memcpy(&wh, want + 8, 8);
			t.eq(e.cpu.v[17].d[0], wl, "aesd lo"); t.eq(e.cpu.v[17].d[1], wh, "aesd hi");
			// aesmc = MixColumns = aesenc(aesdeclast(x,0),0);  aesimc = _mm_aesimc
			t.reset(); memcpy(&e.cpu.v[5], st, 16); t.step(0x4E286800u | 6 | (5 << 5));
			_mm_storeu_si128((__m128i*)want, _mm_aesenc_si128(_mm_aesdeclast_si128(S, Z), Z)); memcpy(&wl, want, 8); memcpy(&wh, want + 8, 8);
			t.eq(e.cpu.v[6].d[0], wl, "aesmc lo"); t.eq(e.cpu.v[6].d[1], wh, "aesmc hi");
			t.step(0x4E287800u | 7 | (5 << 5));
			_mm_storeu_si128((__m128i*)want, _mm_aesimc_si128(S)); memcpy(&wl, want, 8); memcpy(&wh, want + 8, 8);
			t.eq(e.cpu.v[7].d[0], wl, "aesimc lo"); t.eq(e.cpu.v[7].d[1], wh, "aesimc hi");
			// the composition the static code relies on: aesmc(aese(x, 0)) ^ k == x86 aesenc(x, k); aesimc(aesd(x,0)) ^ k == aesdec(x,k)
			t.reset(); memcpy(&e.cpu.v[16], st, 16); t.step(0x4E284800u | 16 | (28 << 5)); t.step(0x4E286800u | 16 | (16 << 5));
			_mm_storeu_si128((__m128i*)want, _mm_aesenc_si128(S, Z)); memcpy(&wl, want, 8); t.eq(e.cpu.v[16].d[0], wl, "aese+aesmc = aesenc");
			t.reset(); memcpy(&e.cpu.v[17], st, 16); t.step(0x4E285800u | 17 | (28 << 5)); t.step(0x4E287800u | 17 | (17 << 5));
			_mm_storeu_si128((__m128i*)want, _mm_aesdec_si128(S, Z)); memcpy(&wl, want, 8); t.eq(e.cpu.v[17].d[0], wl, "aesd+aesimc = aesdec");
			// the exported reference routines agree with the run-loop implementation
			uint8_t a[16], b2[16]; memcpy(a, st, 16); aes_e(a, key); t.reset(); memcpy(&e.cpu.v[1], st, 16); memcpy(&e.cpu.v[2], key, 16); t.step(0x4E284800u | 1 | (2 << 5)); t.eq(memcmp(a, &e.cpu.v[1], 16), 0, "aes_e ref");
			aes_mc(b2, st); t.reset(); memcpy(&e.cpu.v[1], st, 16); t.step(0x4E286800u | 2 | (1 << 5)); t.eq(memcmp(b2, &e.cpu.v[2], 16), 0, "aes_mc ref");
			aes_imc(b2, st); t.step(0x4E287800u | 2 | (1 << 5)); t.eq(memcmp(b2, &e.cpu.v[2], 16), 0, "aes_imc ref");
			memcpy(a, st, 16); aes_d(a, key); t.reset(); memcpy(&e.cpu.v[1], st, 16); memcpy(&e.cpu.v[2], key, 16); t.step(0x4E285800u | 1 | (2 << 5)); t.eq(memcmp(a, &e.cpu.v[1], 16), 0, "aes_d ref");
		}
	}
	// ---------------- FP .2d under the four FPCR rounding modes (known IEEE answers)
	t.begin("fadd .2d"); t.begin("fsub .2d"); t.begin("fmul .2d"); t.begin("fdiv .2d"); t.begin("fsqrt .2d"); t.begin("scvtf .2d");
	{
		auto bits = [](double d) { uint64_t u; memcpy(&u, &d, 8); return u; };
		auto dbl = [](uint64_t u) { double d; memcpy(&d, &u, 8); return d; };
		// FPCR.RMode: 0 RN, 1 RP (+inf), 2 RM (-inf), 3 RZ
		struct KA { uint32_t insn; double a, b; uint64_t r[4]; } ka[] = {
			// 1/3 and -1/3
			{ 0x6E60FC00u, 1.0, 3.0, { 0x3FD5555555555555ull, 0x3FD5555555555556ull, 0x3FD5555555555555ull, 0x3FD5555555555555ull } },
			{ 0x6E60FC00u, -1.0, 3.0, { 0xBFD5555555555555ull, 0xBFD5555555555555ull, 0xBFD5555555555556ull, 0xBFD5555555555555ull } },
			// 1 + 2^-60, 1 - 2^-60
			{ 0x4E60D400u, 1.0, 0x1p-60, { 0x3FF0000000000000ull, 0x3FF0000000000001ull, 0x3FF0000000000000ull, 0x3FF0000000000000ull } },
			{ 0x4EE0D400u, 1.0, 0x1p-60, { 0x3FF0000000000000ull, 0x3FF0000000000000ull, 0x3FEFFFFFFFFFFFFFull, 0x3FEFFFFFFFFFFFFFull } },
			{ 0x4EE0D400u, -1.0, 0x1p-60, { 0xBFF0000000000000ull, 0xBFF0000000000000ull, 0xBFF0000000000001ull, 0xBFF0000000000000ull } },
			// (1+2^-52)^2 = 1 + 2^-51 + 2^-104
			{ 0x6E60DC00u, 1.0 + 0x1p-52, 1.0 + 0x1p-52, { 0x3FF0000000000002ull, 0x3FF0000000000003ull, 0x3FF0000000000002ull, 0x3FF0000000000002ull } },
			// exact cancellation: +0 except -0 under RM
			{ 0x4EE0D400u, 5.0, 5.0, { 0x0ull, 0x0ull, 0x8000000000000000ull, 0x0ull } },
			// overflow: max * 2 -> inf under RN/RP, max finite under RM/RZ
			{ 0x6E60DC00u, 0x1.fffffffffffffp1023, 2.0, { 0x7FF0000000000000ull, 0x7FF0000000000000ull, 0x7FEFFFFFFFFFFFFFull, 0x7FEFFFFFFFFFFFFFull } },
		};
		for (auto& k : ka) for (unsigned rm = 0; rm < 4; ++rm) {
			t.reset(); e.cpu.fpcr = rm << 22; e.cpu.v[1].d[0] = bits(k.a); e.cpu.v[1].d[1] = bits(-k.a); e.cpu.v[2].d[0] = bits(k.b); e.cpu.v[2].d[1] = bits(k.b);
			uint32_t w = k.insn | 3 | (1 << 5) | (2 << 16); t.step(w);
			t.eq(e.cpu.v[3].d[0], k.r[rm], "fp known answer (lane 0)", w);
			if (k.a != k.b || k.insn != 0x4EE0D400u) {   // lane 1 holds the mirrored operation: result is the negation rounded the mirrored way
				static const unsigned mirror[4] = { 0, 2, 1, 3 };
				bool neg_b = (k.insn == 0x6E60FC00u || k.insn == 0x6E60DC00u);  // mul/div by +b: sign flips; add/sub: a -> -a changes the problem, so only check mul/div
				if (neg_b) t.eq(e.cpu.v[3].d[1], k.r[mirror[rm]] ^ 0x8000000000000000ull, "fp known answer (lane 1, mirrored)", w);
			}
		}
		// sqrt(2) lies between ...BCC and ...BCD, nearer to BCD: RN = RP = ...BCD, RM = RZ = ...BCC
		for (unsigned rm = 0; rm < 4; ++rm) { t.reset(); e.cpu.fpcr = rm << 22; e.cpu.v[1].d[0] = bits(2.0); e.cpu.v[1].d[1] = bits(4.0); t.step(0x6EE1F800u | 3 | (1 << 5));
			t.eq(e.cpu.v[3].d[0], rm <= 1 ? 0x3FF6A09E667F3BCDull : 0x3FF6A09E667F3BCCull, "fsqrt(2)"); t.eq(e.cpu.v[3].d[1], bits(2.0), "fsqrt(4)"); }
		// scvtf: exact for 32-bit range; 2^53+1 and -(2^53+1) are inexact
		for (unsigned rm = 0; rm < 4; ++rm) {
			t.reset(); e.cpu.fpcr = rm << 22; e.cpu.v[1].d[0] = (uint64_t)(int64_t)-2147483648ll; e.cpu.v[1].d[1] = 2147483647ull; t.step(0x4E61D800u | 2 | (1 << 5));
			t.eq(e.cpu.v[2].d[0], bits(-2147483648.0), "scvtf int32 min"); t.eq(e.cpu.v[2].d[1], bits(2147483647.0), "scvtf int32 max");
			e.cpu.v[1].d[0] = (1ull << 53) + 1; e.cpu.v[1].d[1] = (uint64_t)-(int64_t)((1ull << 53) + 1); t.step(0x4E61D800u | 2 | (1 << 5));
			t.eq(e.cpu.v[2].d[0], bits(rm == 1 ? 9007199254740994.0 : 9007199254740992.0), "scvtf 2^53+1");
			t.eq(e.cpu.v[2].d[1], bits(rm == 2 ? -9007199254740994.0 : -9007199254740992.0), "scvtf -(2^53+1)");
		}
		// cross-check a sweep against fesetround + plain C arithmetic
		static const int fe[4] = { FE_TONEAREST, FE_UPWARD, FE_DOWNWARD, FE_TOWARDZERO };
		uint64_t s = 0x9e3779b97f4a7c15ull; int saved = fegetround();
		for (int it = 0; it < 2000; ++it) {
			s = s * 6364136223846793005ull + 1442695040888963407ull; uint64_t ua = (s >> 12) | 0x3ff0000000000000ull; ua ^= (s & 1) << 63;
			s = s * 6364136223846793005ull + 1442695040888963407ull; uint64_t ub = ((s >> 12) & 0x000fffffffffffffull) | ((uint64_t)(0x3e0 + (s & 0x3f)) << 52);
			volatile double a = dbl(ua), b = dbl(ub);
			for (unsigned rm = 0; rm < 4; ++rm) {
				fesetround(fe[rm]); volatile double ra = a + b, rs = a - b, rmu = a * b, rd = a / b, rq = sqrt(b); fesetround(saved);
				t.reset(); e.cpu.fpcr = rm << 22; e.cpu.v[1].d[0] = e.cpu.v[1].d[1] = ua; e.cpu.v[2].d[0] = e.cpu.v[2].d[1] = ub;
				t.step(0x4E60D400u | 3 | (1 << 5) | (2 << 16)); t.eq(e.cpu.v[3].d[1], bits(ra), "fadd sweep");
				t.step(0x4EE0D400u | 3 | (1 << 5) | (2 << 16)); t.eq(e.cpu.v[3].d[0], bits(rs), "fsub sweep");
				t.step(0x6E60DC00u | 3 | (1 << 5) | (2 << 16)); t.eq(e.cpu.v[3].d[1], bits(rmu), "fmul sweep");
				t.step(0x6E60FC00u | 3 | (1 << 5) | (2 << 16)); t.eq(e.cpu.v[3].d[0], bits(rd), "fdiv sweep");
				t.step(0x6EE1F800u | 3 | (2 << 5)); t.eq(e.cpu.v[3].d[1], bits(rq), "fsqrt sweep");
			}
		}
		t.eq((unsigned)fegetround(), (unsigned)saved, "host rounding mode restored");
	}
	// ---------------- encodings that must be refused
	t.begin("refusal of everything else");
	{
		const uint32_t bad[] = { 0x00000000u /* udf */, 0x9AC20C20u /* sdiv */, 0x9AC22020u /* lslv */, 0xB9400020u /* ldr w uoff */, 0xD61F0000u /* br */, 0xD63F0000u /* blr */, 0xB4000040u /* cbz */, 0x36000040u /* tbz */,
			0x9A821020u /* csel */, 0x1E622820u /* fadd d scalar */, 0x4C407000u /* ld1 */, 0x4E080C20u /* dup */, 0x8B224020u /* add ext reg */, 0xAA220020u /* orn */, 0x93407C20u /* sxtw (sbfm) */, 0x53007C20u /* ubfm 32 */,
			0xD503201Fu /* nop */, 0xD5033FDFu /* isb */, 0xD53B4420u /* mrs fpsr */, 0x3D800020u /* str q uoff */, 0x6E601C20u /* bsl */, 0x0EA01C20u /* orr 8b */,
			0x4E20D420u /* fadd .4s */, 0x5E61D820u /* scvtf scalar */, 0x4E083C20u /* umov x,d */, 0x0E022C20u /* smov w,h */, 0xF8A06820u /* prfm reg */, 0x1E260020u /* fmov w,s */, 0x9E670020u /* fmov d,x */, 0x38400420u /* ldrb */,
			0xC8DFFC20u /* ldar */, 0xD4000001u /* svc */, 0x1AC02C20u /* rorv w */, 0x5AC00020u /* rbit w */, 0x9B208020u /* smsubl */, 0x13807C20u /* extr w */ };
		for (uint32_t w : bad) {
			t.reset(); e.cpu.x[1] = wb; t.eq(t.step(w), STOP_UNKNOWN, "must be refused", w);
		}
	}
	if (nchecks) *nchecks = t.checks;
	if (nforms) *nforms = t.forms;
	if (verbose || t.fails) fprintf(stderr, "a64 selftest: %d instruction-form groups, %ld checks, %ld failures\n", t.forms, t.checks, t.fails);
	return (int)t.fails;
}
