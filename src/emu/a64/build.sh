#!/bin/sh
# build.sh <profile> <outdir>   (env RX_REPO=/path selects another source tree; default /repo)
exec python3 "$(dirname "$0")/build.py" "$@"
