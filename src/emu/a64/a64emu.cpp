// a64emu.cpp - see a64emu.hpp.  Compile with -frounding-math (host SSE2 arithmetic under MXCSR is used for
// the FP instructions; MXCSR is programmed from the emulated FPCR).
#include "a64emu.hpp"
#include <cstring>
#include <cstdio>
#include <cstdlib>
#include <cstdarg>
#include <emmintrin.h>
#include <xmmintrin.h>

namespace a64 {

static const char* const kind_names[K_COUNT] = {
	"invalid",
	"add/sub(s) immediate [sf=0/1, sh=0/1, SP operands]", "and/orr/eor/ands logical immediate [sf=0/1]", "movn/movz/movk [sf=0/1]",
	"bfm (bfi/bfxil) [64-bit]", "ubfm (lsr/lsl/ubfx) [64-bit]", "extr (ror #imm) [64-bit]", "adr",
	"b", "bl", "b.cond", "ret", "mrs Xt, fpcr", "msr fpcr, Xt",
	"ldr Xt, literal", "ldr Qt, literal",
	"ldp Xt (offset/pre/post)", "stp Xt (offset/pre/post)", "ldpsw (offset)", "ldp Dt (offset)", "stp Dt (offset)", "ldp Qt (offset)", "stp Qt (offset)",
	"ldr Xt, [Xn, #uimm]", "str Xt, [Xn, #uimm]", "ldr Qt, [Xn, #uimm]", "prfm [Xn, #uimm] (no-op)",
	"ldr Xt pre/post-index", "str Xt pre/post-index",
	"ldr Xt, [Xn, Xm{, lsl #3}]", "str Xt, [Xn, Xm{, lsl #3}]", "ldr Wt, [Xn, Xm{, lsl #2}]",
	"and/orr/eor/ands shifted register [sf=0/1]", "add/sub(s) shifted register [sf=0/1]", "madd (mul) [64-bit]", "umulh", "smulh", "rorv [64-bit]", "rbit [64-bit]",
	"ins Vd.s/d[i], Wn/Xn", "ins Vd.d[i], Vn.d[j]", "umov Wd, Vn.b/s[i]", "smov Xd, Vn.s[i]", "fmov Sd, Wn",
	"orr Vd.16b (mov)", "eor Vd.16b", "bif Vd.16b", "movi Vd.4s, #imm8",
	"aese", "aesd", "aesmc", "aesimc",
	"fadd .2d", "fsub .2d", "fmul .2d", "fdiv .2d", "fsqrt .2d", "scvtf .2d",
};
const char* kind_name(int k) { return (k >= 0 && k < K_COUNT) ? kind_names[k] : "?"; }

// ---------------------------------------------------------------------------------------------- helpers
static inline uint64_t ones(unsigned n) { return n >= 64 ? ~0ull : ((1ull << n) - 1); }
static inline uint64_t ror_n(uint64_t v, unsigned r, unsigned size) {
	r %= size; v &= ones(size);
	if (r == 0) return v;
	return ((v >> r) | (v << (size - r))) & ones(size);
}
static inline int64_t sext(uint64_t v, unsigned bits) { return (int64_t)(v << (64 - bits)) >> (64 - bits); }

bool decode_bit_masks(unsigned N, unsigned imms, unsigned immr, bool immediate, unsigned datasize, uint64_t& wmask, uint64_t& tmask) {
	unsigned v = (N << 6) | ((~imms) & 0x3f);
	int len = -1;
	for (int i = 6; i >= 0; --i) if (v & (1u << i)) { len = i; break; }
	if (len < 1) return false;
	if (datasize < (1u << len)) return false;
	unsigned levels = (1u << len) - 1;
	if (immediate && (imms & levels) == levels) return false;
	unsigned S = imms & levels, R = immr & levels;
	unsigned diff = (S - R) & levels;
	unsigned esize = 1u << len;
	uint64_t welem = ones(S + 1), telem = ones(diff + 1);
	uint64_t w = ror_n(welem, R, esize), t = telem;
	uint64_t wm = 0, tm = 0;
	for (unsigned i = 0; i < datasize; i += esize) { wm |= w << i; tm |= t << i; }
	wmask = wm & ones(datasize); tmask = tm & ones(datasize);
	return true;
}

// ---------------------------------------------------------------------------------------------- AES (independent tables)
static uint8_t SBOX[256], ISBOX[256];
static bool aes_ready = false;
static uint8_t gmul(uint8_t a, uint8_t b) { uint8_t p = 0; for (int i = 0; i < 8; ++i) { if (b & 1) p ^= a; bool h = a & 0x80; a <<= 1; if (h) a ^= 0x1b; b >>= 1; } return p; }
static void aes_init() {
	if (aes_ready) return;
	for (int x = 0; x < 256; ++x) {
		uint8_t inv = 0;
		if (x) for (int y = 1; y < 256; ++y) if (gmul((uint8_t)x, (uint8_t)y) == 1) { inv = (uint8_t)y; break; }
		uint8_t s = inv, r = inv;
		for (int i = 0; i < 4; ++i) { r = (uint8_t)((r << 1) | (r >> 7)); s ^= r; }
		s ^= 0x63;
		SBOX[x] = s; ISBOX[s] = (uint8_t)x;
	}
	aes_ready = true;
}
// state byte i = row i%4, column i/4
void aes_e(uint8_t st[16], const uint8_t key[16]) {
	aes_init(); uint8_t t[16], o[16];
	for (int i = 0; i < 16; ++i) t[i] = st[i] ^ key[i];
	for (int c = 0; c < 4; ++c) for (int r = 0; r < 4; ++r) o[r + 4 * c] = SBOX[t[r + 4 * ((c + r) & 3)]];   // ShiftRows then SubBytes
	memcpy(st, o, 16);
}
void aes_d(uint8_t st[16], const uint8_t key[16]) {
	aes_init(); uint8_t t[16], o[16];
	for (int i = 0; i < 16; ++i) t[i] = st[i] ^ key[i];
	for (int c = 0; c < 4; ++c) for (int r = 0; r < 4; ++r) o[r + 4 * c] = ISBOX[t[r + 4 * ((c - r) & 3)]];  // InvShiftRows then InvSubBytes
	memcpy(st, o, 16);
}
void aes_mc(uint8_t out[16], const uint8_t in[16]) {
	uint8_t o[16];
	for (int c = 0; c < 4; ++c) {
		const uint8_t* a = in + 4 * c;
		o[4 * c + 0] = gmul(a[0], 2) ^ gmul(a[1], 3) ^ a[2] ^ a[3];
		o[4 * c + 1] = a[0] ^ gmul(a[1], 2) ^ gmul(a[2], 3) ^ a[3];
		o[4 * c + 2] = a[0] ^ a[1] ^ gmul(a[2], 2) ^ gmul(a[3], 3);
		o[4 * c + 3] = gmul(a[0], 3) ^ a[1] ^ a[2] ^ gmul(a[3], 2);
	}
	memcpy(out, o, 16);
}
void aes_imc(uint8_t out[16], const uint8_t in[16]) {
	uint8_t o[16];
	for (int c = 0; c < 4; ++c) {
		const uint8_t* a = in + 4 * c;
		o[4 * c + 0] = gmul(a[0], 14) ^ gmul(a[1], 11) ^ gmul(a[2], 13) ^ gmul(a[3], 9);
		o[4 * c + 1] = gmul(a[0], 9) ^ gmul(a[1], 14) ^ gmul(a[2], 11) ^ gmul(a[3], 13);
		o[4 * c + 2] = gmul(a[0], 13) ^ gmul(a[1], 9) ^ gmul(a[2], 14) ^ gmul(a[3], 11);
		o[4 * c + 3] = gmul(a[0], 11) ^ gmul(a[1], 13) ^ gmul(a[2], 9) ^ gmul(a[3], 14);
	}
	memcpy(out, o, 16);
}
// fast MixColumns tables for the run loop (derived from gmul at init)
static uint8_t M2[256], M3[256], M9[256], M11[256], M13[256], M14[256];
static bool mc_ready = false;
static void mc_init() {
	if (mc_ready) return;
	for (int i = 0; i < 256; ++i) { M2[i] = gmul((uint8_t)i, 2); M3[i] = gmul((uint8_t)i, 3); M9[i] = gmul((uint8_t)i, 9); M11[i] = gmul((uint8_t)i, 11); M13[i] = gmul((uint8_t)i, 13); M14[i] = gmul((uint8_t)i, 14); }
	mc_ready = true;
}
static void fast_mc(uint8_t* o, const uint8_t* in) {
	uint8_t t[16];
	for (int c = 0; c < 4; ++c) {
		const uint8_t* a = in + 4 * c;
		t[4 * c + 0] = M2[a[0]] ^ M3[a[1]] ^ a[2] ^ a[3];
		t[4 * c + 1] = a[0] ^ M2[a[1]] ^ M3[a[2]] ^ a[3];
		t[4 * c + 2] = a[0] ^ a[1] ^ M2[a[2]] ^ M3[a[3]];
		t[4 * c + 3] = M3[a[0]] ^ a[1] ^ a[2] ^ M2[a[3]];
	}
	memcpy(o, t, 16);
}
static void fast_imc(uint8_t* o, const uint8_t* in) {
	uint8_t t[16];
	for (int c = 0; c < 4; ++c) {
		const uint8_t* a = in + 4 * c;
		t[4 * c + 0] = M14[a[0]] ^ M11[a[1]] ^ M13[a[2]] ^ M9[a[3]];
		t[4 * c + 1] = M9[a[0]] ^ M14[a[1]] ^ M11[a[2]] ^ M13[a[3]];
		t[4 * c + 2] = M13[a[0]] ^ M9[a[1]] ^ M14[a[2]] ^ M11[a[3]];
		t[4 * c + 3] = M11[a[0]] ^ M13[a[1]] ^ M9[a[2]] ^ M14[a[3]];
	}
	memcpy(o, t, 16);
}

// ---------------------------------------------------------------------------------------------- decode
bool Emu::decode(uint32_t w, Op& o) {
	memset(&o, 0, sizeof o);
	o.raw = w;
	const unsigned rd = w & 31, rn = (w >> 5) & 31, rm = (w >> 16) & 31, ra = (w >> 10) & 31, sf = w >> 31;
	o.rd = (uint8_t)rd; o.rn = (uint8_t)rn; o.rm = (uint8_t)rm; o.ra = (uint8_t)ra; o.sf = (uint8_t)sf;
	auto ok = [&](Kind k) { o.kind = k; o.valid = 1; return true; };

	// ---- data processing, immediate
	if ((w & 0x1F800000) == 0x11000000) {           // add/sub immediate
		o.a = (w >> 30) & 1;   // op: 0 add 1 sub
		o.b = (w >> 29) & 1;   // S
		o.c = (w >> 22) & 1;   // sh
		o.imm = (int64_t)((w >> 10) & 0xfff) << (o.c ? 12 : 0);
		return ok(K_ADDSUB_IMM);
	}
	if ((w & 0x1F800000) == 0x12000000) {           // logical immediate
		unsigned N = (w >> 22) & 1, immr = (w >> 16) & 63, imms = (w >> 10) & 63;
		if (!sf && N) return false;
		uint64_t wm, tm;
		if (!decode_bit_masks(N, imms, immr, true, sf ? 64 : 32, wm, tm)) return false;
		o.a = (w >> 29) & 3;   // opc: 0 and 1 orr 2 eor 3 ands
		o.mask = wm; o.b = (uint8_t)N; o.c = (uint8_t)immr; o.d = (uint8_t)imms;
		return ok(K_LOGIC_IMM);
	}
	if ((w & 0x1F800000) == 0x12800000) {           // move wide
		unsigned opc = (w >> 29) & 3, hw = (w >> 21) & 3;
		if (opc == 1) return false;
		if (!sf && hw > 1) return false;
		o.a = (uint8_t)opc; o.b = (uint8_t)(hw * 16); o.imm = (w >> 5) & 0xffff;
		return ok(K_MOVWIDE);
	}
	if ((w & 0x1F800000) == 0x13000000) {           // bitfield: only 64-bit BFM and UBFM
		unsigned opc = (w >> 29) & 3, N = (w >> 22) & 1, immr = (w >> 16) & 63, imms = (w >> 10) & 63;
		if (!sf || !N) return false;
		if (opc != 1 && opc != 2) return false;
		uint64_t wm, tm;
		if (!decode_bit_masks(N, imms, immr, false, 64, wm, tm)) return false;
		o.mask = wm; o.mask2 = tm; o.c = (uint8_t)immr; o.d = (uint8_t)imms;
		return ok(opc == 1 ? K_BFM : K_UBFM);
	}
	if ((w & 0x1F800000) == 0x13800000) {           // extract: 64-bit EXTR only
		if ((w & 0xFFE00000) != 0x93C00000) return false;
		o.imm = (w >> 10) & 63;
		return ok(K_EXTR);
	}
	if ((w & 0x9F000000) == 0x10000000) {           // adr
		uint64_t immlo = (w >> 29) & 3, immhi = (w >> 5) & 0x7ffff;
		o.imm = sext((immhi << 2) | immlo, 21);
		return ok(K_ADR);
	}
	// ---- branches / system
	if ((w & 0xFC000000) == 0x14000000) { o.imm = sext(w & 0x3ffffff, 26) * 4; return ok(K_B); }
	if ((w & 0xFC000000) == 0x94000000) { o.imm = sext(w & 0x3ffffff, 26) * 4; return ok(K_BL); }
	if ((w & 0xFF000010) == 0x54000000) { o.imm = sext((w >> 5) & 0x7ffff, 19) * 4; o.a = w & 15; return ok(K_BCOND); }
	if ((w & 0xFFFFFC1F) == 0xD65F0000) return ok(K_RET);
	if ((w & 0xFFFFFFE0) == 0xD53B4400) return ok(K_MRS_FPCR);
	if ((w & 0xFFFFFFE0) == 0xD51B4400) return ok(K_MSR_FPCR);
	// ---- loads and stores
	if ((w & 0xFF000000) == 0x58000000) { o.imm = sext((w >> 5) & 0x7ffff, 19) * 4; return ok(K_LDR_LIT_X); }
	if ((w & 0xFF000000) == 0x9C000000) { o.imm = sext((w >> 5) & 0x7ffff, 19) * 4; return ok(K_LDR_LIT_Q); }
	if ((w & 0x3A000000) == 0x28000000) {           // load/store pair
		unsigned opc = w >> 30, V = (w >> 26) & 1, mode = (w >> 23) & 7, L = (w >> 22) & 1;
		if (mode != 1 && mode != 2 && mode != 3) return false;     // 1 post, 2 offset, 3 pre
		o.a = (uint8_t)mode;
		int64_t imm7 = sext((w >> 15) & 0x7f, 7);
		o.ra = (uint8_t)((w >> 10) & 31);   // Rt2
		if (!V) {
			if (opc == 2) { o.imm = imm7 * 8;
				if (L && o.rd == o.ra) return false;                                 // CONSTRAINED UNPREDICTABLE
				if (mode != 2 && (o.rd == rn || o.ra == rn) && rn != 31) return false; // writeback with overlapping base
				return ok(L ? K_LDP_X : K_STP_X); }
			if (opc == 1 && L && mode == 2) { o.imm = imm7 * 4; if (o.rd == o.ra) return false; return ok(K_LDPSW); }
			return false;
		}
		if (mode != 2) return false;
		if (opc == 1) { o.imm = imm7 * 8; if (L && o.rd == o.ra) return false; return ok(L ? K_LDP_D : K_STP_D); }
		if (opc == 2) { o.imm = imm7 * 16; if (L && o.rd == o.ra) return false; return ok(L ? K_LDP_Q : K_STP_Q); }
		return false;
	}
	if ((w & 0x3B000000) == 0x39000000) {           // load/store register, unsigned immediate
		unsigned size = w >> 30, V = (w >> 26) & 1, opc = (w >> 22) & 3, imm12 = (w >> 10) & 0xfff;
		if (!V && size == 3) {
			o.imm = (int64_t)imm12 * 8;
			if (opc == 1) return ok(K_LDR_X_UOFF);
			if (opc == 0) return ok(K_STR_X_UOFF);
			if (opc == 2) return ok(K_PRFM_UOFF);
			return false;
		}
		if (V && size == 0 && opc == 3) { o.imm = (int64_t)imm12 * 16; return ok(K_LDR_Q_UOFF); }
		return false;
	}
	if ((w & 0x3B200000) == 0x38000000) {           // load/store register, imm9
		unsigned size = w >> 30, V = (w >> 26) & 1, opc = (w >> 22) & 3, idx = (w >> 10) & 3;
		if (V || size != 3) return false;
		if (idx != 1 && idx != 3) return false;      // 1 post-index, 3 pre-index
		if (opc > 1) return false;
		if (rn == rd && rn != 31) return false;      // writeback with Rt == Rn: CONSTRAINED UNPREDICTABLE
		o.a = (uint8_t)idx; o.imm = sext((w >> 12) & 0x1ff, 9);
		return ok(opc == 1 ? K_LDR_X_IDX : K_STR_X_IDX);
	}
	if ((w & 0x3B200C00) == 0x38200800) {           // load/store register, register offset
		unsigned size = w >> 30, V = (w >> 26) & 1, opc = (w >> 22) & 3, option = (w >> 13) & 7, S = (w >> 12) & 1;
		if (V || option != 3) return false;          // only LSL (UXTX) extend
		o.b = (uint8_t)S;
		if (size == 3 && opc == 1) { o.c = 3; return ok(K_LDR_X_REG); }
		if (size == 3 && opc == 0) { o.c = 3; return ok(K_STR_X_REG); }
		if (size == 2 && opc == 1) { o.c = 2; return ok(K_LDR_W_REG); }
		return false;
	}
	// ---- data processing, register
	if ((w & 0x1F000000) == 0x0A000000) {           // logical shifted register
		unsigned opc = (w >> 29) & 3, sh = (w >> 22) & 3, N = (w >> 21) & 1, imm6 = (w >> 10) & 63;
		if (N) return false;                         // bic/orn/eon/bics are never produced
		if (!sf && imm6 > 31) return false;
		o.a = (uint8_t)opc; o.b = (uint8_t)sh; o.imm = imm6;
		return ok(K_LOGIC_SREG);
	}
	if ((w & 0x1F200000) == 0x0B000000) {           // add/sub shifted register
		unsigned sh = (w >> 22) & 3, imm6 = (w >> 10) & 63;
		if (sh == 3) return false;
		if (!sf && imm6 > 31) return false;
		o.a = (w >> 30) & 1; o.b = (w >> 29) & 1; o.c = (uint8_t)sh; o.imm = imm6;
		return ok(K_ADDSUB_SREG);
	}
	if ((w & 0x7F000000) == 0x1B000000) {           // 3-source
		unsigned op31 = (w >> 21) & 7, o0 = (w >> 15) & 1;
		if (!sf) return false;
		if (op31 == 0 && o0 == 0) return ok(K_MADD);
		if (op31 == 6 && o0 == 0 && ra == 31) return ok(K_UMULH);
		if (op31 == 2 && o0 == 0 && ra == 31) return ok(K_SMULH);
		return false;
	}
	if ((w & 0xFFE0FC00) == 0x9AC02C00) return ok(K_RORV);
	if ((w & 0xFFFFFC00) == 0xDAC00000) return ok(K_RBIT);
	// ---- SIMD
	if ((w & 0x9FE08400) == 0x0E000400) {           // copy group
		unsigned Q = (w >> 30) & 1, op = (w >> 29) & 1, imm5 = (w >> 16) & 31, imm4 = (w >> 11) & 15;
		if (op == 0) {
			if (imm4 == 3) {                         // ins Vd.Ts[i], Rn
				if (!Q) return false;
				if ((imm5 & 7) == 4) { o.a = 2; o.b = (uint8_t)(imm5 >> 3); return ok(K_INS_GEN); }
				if ((imm5 & 15) == 8) { o.a = 3; o.b = (uint8_t)(imm5 >> 4); return ok(K_INS_GEN); }
				return false;
			}
			if (imm4 == 7) {                         // umov Wd, Vn.b/s[i]
				if (Q) return false;
				if (imm5 & 1) { o.a = 0; o.b = (uint8_t)(imm5 >> 1); return ok(K_UMOV); }
				if ((imm5 & 7) == 4) { o.a = 2; o.b = (uint8_t)(imm5 >> 3); return ok(K_UMOV); }
				return false;
			}
			if (imm4 == 5) {                         // smov Xd, Vn.s[i]
				if (!Q) return false;
				if ((imm5 & 7) == 4) { o.a = 2; o.b = (uint8_t)(imm5 >> 3); return ok(K_SMOV); }
				return false;
			}
			return false;
		}
		if (!Q) return false;                        // ins Vd.d[i], Vn.d[j]
		if ((imm5 & 15) != 8) return false;
		o.a = (uint8_t)(imm5 >> 4); o.b = (uint8_t)(imm4 >> 3);
		return ok(K_INS_ELEM);
	}
	if ((w & 0xFFE0FC00) == 0x4EA01C00) return ok(K_ORR_V);
	if ((w & 0xFFE0FC00) == 0x6E201C00) return ok(K_EOR_V);
	if ((w & 0xFFE0FC00) == 0x6EE01C00) return ok(K_BIF_V);
	if ((w & 0xFFE0FC00) == 0x4E60D400) return ok(K_FADD);
	if ((w & 0xFFE0FC00) == 0x4EE0D400) return ok(K_FSUB);
	if ((w & 0xFFE0FC00) == 0x6E60DC00) return ok(K_FMUL);
	if ((w & 0xFFE0FC00) == 0x6E60FC00) return ok(K_FDIV);
	if ((w & 0xFFFFFC00) == 0x6EE1F800) return ok(K_FSQRT);
	if ((w & 0xFFFFFC00) == 0x4E61D800) return ok(K_SCVTF);
	if ((w & 0xFFFFFC00) == 0x4E284800) return ok(K_AESE);
	if ((w & 0xFFFFFC00) == 0x4E285800) return ok(K_AESD);
	if ((w & 0xFFFFFC00) == 0x4E286800) return ok(K_AESMC);
	if ((w & 0xFFFFFC00) == 0x4E287800) return ok(K_AESIMC);
	if ((w & 0xFFF8FC00) == 0x4F000400) { o.imm = (((w >> 16) & 7) << 5) | ((w >> 5) & 31); return ok(K_MOVI); }
	if ((w & 0xFFFFFC00) == 0x1E270000) return ok(K_FMOV_SW);
	return false;
}

// ---------------------------------------------------------------------------------------------- describe (LLVM 14 "-M no-aliases" style)
static std::string xr(unsigned r, bool sf, bool sp) {
	char b[8];
	if (r == 31) return sp ? (sf ? "sp" : "wsp") : (sf ? "xzr" : "wzr");
	snprintf(b, sizeof b, "%c%u", sf ? 'x' : 'w', r); return b;
}
static std::string fmt(const char* f, ...) __attribute__((format(printf, 1, 2)));
static std::string fmt(const char* f, ...) {
	char b[256]; va_list ap; va_start(ap, f); vsnprintf(b, sizeof b, f, ap); va_end(ap); return b;
}
std::string Emu::describe(uint32_t w, uint64_t pc) {
	Op o;
	if (!decode(w, o)) return "";
	const bool sf = o.sf;
	static const char* shn[4] = { "lsl", "lsr", "asr", "ror" };
	static const char* cc[16] = { "eq","ne","hs","lo","mi","pl","vs","vc","hi","ls","ge","lt","gt","le","al","nv" };
	auto X = [&](unsigned r) { return xr(r, true, false); };
	auto mem = [&](const Op& op, int mode) -> std::string {   // mode 2 offset, 3 pre, 1 post
		std::string base = xr(op.rn, true, true);
		if (mode == 2) return fmt("[%s, #%lld]", base.c_str(), (long long)op.imm);
		if (mode == 3) return fmt("[%s, #%lld]!", base.c_str(), (long long)op.imm);
		return fmt("[%s], #%lld", base.c_str(), (long long)op.imm);
	};
	switch (o.kind) {
	case K_ADDSUB_IMM: {
		const char* m = o.a ? (o.b ? "subs" : "sub") : (o.b ? "adds" : "add");
		std::string d = xr(o.rd, sf, !o.b), n = xr(o.rn, sf, true);
		unsigned imm12 = (w >> 10) & 0xfff;
		if (o.c) return fmt("%s %s, %s, #%u, lsl #12", m, d.c_str(), n.c_str(), imm12);
		return fmt("%s %s, %s, #%u", m, d.c_str(), n.c_str(), imm12);
	}
	case K_LOGIC_IMM: {
		static const char* m[4] = { "and", "orr", "eor", "ands" };
		return fmt("%s %s, %s, #%llu", m[o.a], xr(o.rd, sf, o.a != 3).c_str(), xr(o.rn, sf, false).c_str(), (unsigned long long)o.mask);
	}
	case K_MOVWIDE: {
		static const char* m[4] = { "movn", "?", "movz", "movk" };
		if (o.b) return fmt("%s %s, #%lld, lsl #%u", m[o.a], xr(o.rd, sf, false).c_str(), (long long)o.imm, o.b);
		return fmt("%s %s, #%lld", m[o.a], xr(o.rd, sf, false).c_str(), (long long)o.imm);
	}
	case K_BFM: return fmt("bfm %s, %s, #%u, #%u", X(o.rd).c_str(), X(o.rn).c_str(), o.c, o.d);
	case K_UBFM: return fmt("ubfm %s, %s, #%u, #%u", X(o.rd).c_str(), X(o.rn).c_str(), o.c, o.d);
	case K_EXTR: return fmt("extr %s, %s, %s, #%lld", X(o.rd).c_str(), X(o.rn).c_str(), X(o.rm).c_str(), (long long)o.imm);
	case K_ADR: return fmt("adr %s, #%lld", X(o.rd).c_str(), (long long)o.imm);
	case K_B: return fmt("b #%llu", (unsigned long long)(pc + o.imm));
	case K_BL: return fmt("bl #%llu", (unsigned long long)(pc + o.imm));
	case K_BCOND: return fmt("b.%s #%llu", cc[o.a], (unsigned long long)(pc + o.imm));
	case K_RET: return fmt("ret %s", X(o.rn).c_str());
	case K_MRS_FPCR: return fmt("mrs %s, fpcr", X(o.rd).c_str());
	case K_MSR_FPCR: return fmt("msr fpcr, %s", X(o.rd).c_str());
	case K_LDR_LIT_X: return fmt("ldr %s, #%llu", X(o.rd).c_str(), (unsigned long long)(pc + o.imm));
	case K_LDR_LIT_Q: return fmt("ldr q%u, #%llu", o.rd, (unsigned long long)(pc + o.imm));
	case K_LDP_X: return fmt("ldp %s, %s, %s", X(o.rd).c_str(), X(o.ra).c_str(), mem(o, o.a).c_str());
	case K_STP_X: return fmt("stp %s, %s, %s", X(o.rd).c_str(), X(o.ra).c_str(), mem(o, o.a).c_str());
	case K_LDPSW: return fmt("ldpsw %s, %s, %s", X(o.rd).c_str(), X(o.ra).c_str(), mem(o, 2).c_str());
	case K_LDP_D: return fmt("ldp d%u, d%u, %s", o.rd, o.ra, mem(o, 2).c_str());
	case K_STP_D: return fmt("stp d%u, d%u, %s", o.rd, o.ra, mem(o, 2).c_str());
	case K_LDP_Q: return fmt("ldp q%u, q%u, %s", o.rd, o.ra, mem(o, 2).c_str());
	case K_STP_Q: return fmt("stp q%u, q%u, %s", o.rd, o.ra, mem(o, 2).c_str());
	case K_LDR_X_UOFF: return fmt("ldr %s, %s", X(o.rd).c_str(), mem(o, 2).c_str());
	case K_STR_X_UOFF: return fmt("str %s, %s", X(o.rd).c_str(), mem(o, 2).c_str());
	case K_LDR_Q_UOFF: return fmt("ldr q%u, %s", o.rd, mem(o, 2).c_str());
	case K_PRFM_UOFF: return fmt("prfm #%u, %s", o.rd, mem(o, 2).c_str());
	case K_LDR_X_IDX: return fmt("ldr %s, %s", X(o.rd).c_str(), mem(o, o.a).c_str());
	case K_STR_X_IDX: return fmt("str %s, %s", X(o.rd).c_str(), mem(o, o.a).c_str());
	case K_LDR_X_REG: case K_STR_X_REG: case K_LDR_W_REG: {
		const char* m = o.kind == K_STR_X_REG ? "str" : "ldr";
		std::string t = xr(o.rd, o.kind != K_LDR_W_REG, false);
		if (o.b) return fmt("%s %s, [%s, %s, lsl #%u]", m, t.c_str(), xr(o.rn, true, true).c_str(), X(o.rm).c_str(), o.c);
		return fmt("%s %s, [%s, %s]", m, t.c_str(), xr(o.rn, true, true).c_str(), X(o.rm).c_str());
	}
	case K_LOGIC_SREG: {
		static const char* m[4] = { "and", "orr", "eor", "ands" };
		std::string s = fmt("%s %s, %s, %s", m[o.a], xr(o.rd, sf, false).c_str(), xr(o.rn, sf, false).c_str(), xr(o.rm, sf, false).c_str());
		if (o.imm || o.b) s += fmt(", %s #%lld", shn[o.b], (long long)o.imm);
		return s;
	}
	case K_ADDSUB_SREG: {
		const char* m = o.a ? (o.b ? "subs" : "sub") : (o.b ? "adds" : "add");
		std::string s = fmt("%s %s, %s, %s", m, xr(o.rd, sf, false).c_str(), xr(o.rn, sf, false).c_str(), xr(o.rm, sf, false).c_str());
		if (o.imm || o.c) s += fmt(", %s #%lld", shn[o.c], (long long)o.imm);
		return s;
	}
	case K_MADD: return fmt("madd %s, %s, %s, %s", X(o.rd).c_str(), X(o.rn).c_str(), X(o.rm).c_str(), X(o.ra).c_str());
	case K_UMULH: return fmt("umulh %s, %s, %s", X(o.rd).c_str(), X(o.rn).c_str(), X(o.rm).c_str());
	case K_SMULH: return fmt("smulh %s, %s, %s", X(o.rd).c_str(), X(o.rn).c_str(), X(o.rm).c_str());
	case K_RORV: return fmt("ror %s, %s, %s", X(o.rd).c_str(), X(o.rn).c_str(), X(o.rm).c_str());
	case K_RBIT: return fmt("rbit %s, %s", X(o.rd).c_str(), X(o.rn).c_str());
	case K_INS_GEN: return fmt("ins v%u.%c[%u], %s", o.rd, o.a == 3 ? 'd' : 's', o.b, xr(o.rn, o.a == 3, false).c_str());
	case K_INS_ELEM: return fmt("ins v%u.d[%u], v%u.d[%u]", o.rd, o.a, o.rn, o.b);
	case K_UMOV: return fmt("umov %s, v%u.%c[%u]", xr(o.rd, false, false).c_str(), o.rn, o.a == 0 ? 'b' : 's', o.b);
	case K_SMOV: return fmt("smov %s, v%u.s[%u]", X(o.rd).c_str(), o.rn, o.b);
	case K_FMOV_SW: return fmt("fmov s%u, %s", o.rd, xr(o.rn, false, false).c_str());
	case K_ORR_V: return fmt("orr v%u.16b, v%u.16b, v%u.16b", o.rd, o.rn, o.rm);
	case K_EOR_V: return fmt("eor v%u.16b, v%u.16b, v%u.16b", o.rd, o.rn, o.rm);
	case K_BIF_V: return fmt("bif v%u.16b, v%u.16b, v%u.16b", o.rd, o.rn, o.rm);
	case K_MOVI: return fmt("movi v%u.4s, #%lld", o.rd, (long long)o.imm);
	case K_AESE: return fmt("aese v%u.16b, v%u.16b", o.rd, o.rn);
	case K_AESD: return fmt("aesd v%u.16b, v%u.16b", o.rd, o.rn);
	case K_AESMC: return fmt("aesmc v%u.16b, v%u.16b", o.rd, o.rn);
	case K_AESIMC: return fmt("aesimc v%u.16b, v%u.16b", o.rd, o.rn);
	case K_FADD: return fmt("fadd v%u.2d, v%u.2d, v%u.2d", o.rd, o.rn, o.rm);
	case K_FSUB: return fmt("fsub v%u.2d, v%u.2d, v%u.2d", o.rd, o.rn, o.rm);
	case K_FMUL: return fmt("fmul v%u.2d, v%u.2d, v%u.2d", o.rd, o.rn, o.rm);
	case K_FDIV: return fmt("fdiv v%u.2d, v%u.2d, v%u.2d", o.rd, o.rn, o.rm);
	case K_FSQRT: return fmt("fsqrt v%u.2d, v%u.2d", o.rd, o.rn);
	case K_SCVTF: return fmt("scvtf v%u.2d, v%u.2d", o.rd, o.rn);
	default: return "";
	}
}

// ---------------------------------------------------------------------------------------------- machine
Emu::Emu() { memset(&cpu, 0, sizeof cpu); memset(kind_count, 0, sizeof kind_count); aes_init(); mc_init(); }
Emu::~Emu() { free(cache); }

void Emu::add_range(const void* p, size_t n, int perm, const char* name, uint8_t* dirty) {
	Range r; r.lo = (uint64_t)(uintptr_t)p; r.hi = r.lo + n; r.perm = perm; r.name = name; r.dirty = dirty;
	ranges.push_back(r);
	last_r = last_w = 0;
}
void Emu::set_code(const void* base, size_t size) {
	free(cache);
	code_lo = (const uint8_t*)base; code_size = size & ~(size_t)3;
	cache = (Op*)calloc(code_size / 4 + 1, sizeof(Op));
}
bool Emu::chk(uint64_t a, unsigned n, int perm) {
	for (size_t i = 0; i < ranges.size(); ++i) {
		const Range& r = ranges[i];
		if ((r.perm & perm) && a >= r.lo && a + n <= r.hi && a + n >= a) {
			if (perm == PERM_W) { last_w = (int)i; if (r.dirty) { r.dirty[(a - r.lo) >> 12] = 1; r.dirty[(a + n - 1 - r.lo) >> 12] = 1; } }
			else last_r = (int)i;
			return true;
		}
	}
	return false;
}
template<bool WR> inline bool Emu::chkfast(uint64_t a, unsigned n) {
	const Range& r = ranges[WR ? last_w : last_r];
	if ((r.perm & (WR ? PERM_W : PERM_R)) && a >= r.lo && a + n <= r.hi) {
		if (WR && r.dirty) { r.dirty[(a - r.lo) >> 12] = 1; r.dirty[(a + n - 1 - r.lo) >> 12] = 1; }
		return true;
	}
	return chk(a, n, WR ? PERM_W : PERM_R);
}
Stop Emu::fail(Stop s, const char* what, uint64_t addr) {
	char b[256];
	fault_addr = addr; fault_pc = cpu.pc;
	long long off = code_lo ? (long long)(cpu.pc - (uint64_t)(uintptr_t)code_lo) : -1;
	snprintf(b, sizeof b, "%s (pc=code+0x%llx insn=0x%08x addr=0x%llx)", what, off, fault_insn, (unsigned long long)addr);
	error = b;
	return s;
}
void Emu::set_host_fp() {
	// FPCR.RMode (bits 23:22): 00 RN, 01 RP (+inf), 10 RM (-inf), 11 RZ;  x86 MXCSR.RC (bits 14:13): 00 RN, 01 down, 10 up, 11 RZ
	static const unsigned rc[4] = { 0u, 2u, 1u, 3u };
	unsigned csr = 0x1F80 | (rc[(cpu.fpcr >> 22) & 3] << 13);
	if (cpu.fpcr & (1u << 24)) csr |= 0x8040;   // FZ -> FTZ + DAZ
	_mm_setcsr(csr);
}

static inline bool special(uint64_t bits) {
	uint64_t e = (bits >> 52) & 0x7ff, m = bits & ((1ull << 52) - 1);
	return (e == 0 && m != 0) || (e == 0x7ff && m != 0);
}

#define MEMR(addr, n) do { if (!chkfast<false>((addr), (n))) return fail(STOP_MEM, "out-of-buffer read", (addr)); } while (0)
#define MEMW(addr, n) do { if (!chkfast<true>((addr), (n))) return fail(STOP_MEM, "out-of-buffer write", (addr)); } while (0)
#define SPCHK(rn, base) do { if ((rn) == 31 && ((base) & 15)) return fail(STOP_SPALIGN, "SP not 16-byte aligned at SP-based access", (base)); } while (0)

static inline uint64_t ld64(uint64_t a) { uint64_t v; memcpy(&v, (const void*)(uintptr_t)a, 8); return v; }
static inline uint32_t ld32(uint64_t a) { uint32_t v; memcpy(&v, (const void*)(uintptr_t)a, 4); return v; }
static inline void st64(uint64_t a, uint64_t v) { memcpy((void*)(uintptr_t)a, &v, 8); }

inline Stop Emu::exec(const Op& o) {
	Cpu& c = cpu;
	uint64_t next = c.pc + 4;
	switch (o.kind) {
	case K_ADDSUB_IMM: case K_ADDSUB_SREG: {
		uint64_t op1, op2;
		if (o.kind == K_ADDSUB_IMM) { op1 = o.rn == 31 ? c.sp : c.x[o.rn]; op2 = (uint64_t)o.imm; }
		else {
			op1 = c.x[o.rn]; uint64_t m = c.x[o.rm]; unsigned sh = (unsigned)o.imm;
			if (!o.sf) m &= 0xffffffffu;
			switch (o.c) {
			case 0: m = m << sh; break;
			case 1: m = m >> sh; break;
			default: m = o.sf ? (uint64_t)((int64_t)m >> sh) : (uint64_t)(uint32_t)((int32_t)(uint32_t)m >> sh); break;
			}
			op2 = m;
		}
		uint64_t res; uint32_t n, z, cy, ov;
		if (o.sf) {
			uint64_t y = o.a ? ~op2 : op2; unsigned cin = o.a;
			unsigned __int128 us = (unsigned __int128)op1 + y + cin;
			res = (uint64_t)us;
			__int128 ss = (__int128)(int64_t)op1 + (__int128)(int64_t)y + cin;
			n = res >> 63; z = res == 0; cy = (uint32_t)(us >> 64) & 1; ov = ss != (__int128)(int64_t)res;
		} else {
			uint32_t a = (uint32_t)op1, y = o.a ? ~(uint32_t)op2 : (uint32_t)op2; unsigned cin = o.a;
			uint64_t us = (uint64_t)a + y + cin; uint32_t r32 = (uint32_t)us;
			int64_t ss = (int64_t)(int32_t)a + (int64_t)(int32_t)y + cin;
			res = r32; n = r32 >> 31; z = r32 == 0; cy = (uint32_t)(us >> 32) & 1; ov = ss != (int64_t)(int32_t)r32;
		}
		if (o.b) { c.n = n; c.z = z; c.c = cy; c.vf = ov; if (o.rd != 31) c.x[o.rd] = res; }
		else if (o.kind == K_ADDSUB_IMM) { if (o.rd == 31) c.sp = res; else c.x[o.rd] = res; }
		else if (o.rd != 31) c.x[o.rd] = res;
		break; }
	case K_LOGIC_IMM: case K_LOGIC_SREG: {
		uint64_t a = c.x[o.rn], b;
		if (o.kind == K_LOGIC_IMM) b = o.mask;
		else {
			b = c.x[o.rm]; unsigned sh = (unsigned)o.imm; unsigned size = o.sf ? 64 : 32;
			if (!o.sf) b &= 0xffffffffu;
			switch (o.b) {
			case 0: b = b << sh; break;
			case 1: b = b >> sh; break;
			case 2: b = o.sf ? (uint64_t)((int64_t)b >> sh) : (uint64_t)(uint32_t)((int32_t)(uint32_t)b >> sh); break;
			default: b = ror_n(b, sh, size); break;
			}
		}
		uint64_t r;
		switch (o.a) { case 0: case 3: r = a & b; break; case 1: r = a | b; break; default: r = a ^ b; break; }
		if (!o.sf) r &= 0xffffffffu;
		if (o.a == 3) { c.n = (uint32_t)(r >> (o.sf ? 63 : 31)) & 1; c.z = r == 0; c.c = 0; c.vf = 0; if (o.rd != 31) c.x[o.rd] = r; }
		else if (o.kind == K_LOGIC_IMM) { if (o.rd == 31) c.sp = r; else c.x[o.rd] = r; }
		else if (o.rd != 31) c.x[o.rd] = r;
		break; }
	case K_MOVWIDE: {
		uint64_t r, sh = (uint64_t)o.imm << o.b;
		if (o.a == 0) r = ~sh; else if (o.a == 2) r = sh; else r = (c.x[o.rd] & ~(0xffffull << o.b)) | sh;
		if (!o.sf) r &= 0xffffffffu;
		if (o.rd != 31) c.x[o.rd] = r;
		break; }
	case K_BFM: {
		uint64_t dst = c.x[o.rd], src = c.x[o.rn];
		uint64_t bot = (dst & ~o.mask) | (ror_n(src, o.c, 64) & o.mask);
		uint64_t r = (dst & ~o.mask2) | (bot & o.mask2);
		if (o.rd != 31) c.x[o.rd] = r;
		break; }
	case K_UBFM: {
		uint64_t src = c.x[o.rn];
		uint64_t r = ror_n(src, o.c, 64) & o.mask & o.mask2;
		if (o.rd != 31) c.x[o.rd] = r;
		break; }
	case K_EXTR: {
		uint64_t hi = c.x[o.rn], lo = c.x[o.rm]; unsigned l = (unsigned)o.imm;
		uint64_t r = l ? ((lo >> l) | (hi << (64 - l))) : lo;
		if (o.rd != 31) c.x[o.rd] = r;
		break; }
	case K_ADR: if (o.rd != 31) c.x[o.rd] = c.pc + (uint64_t)o.imm; break;
	case K_B: next = c.pc + (uint64_t)o.imm; break;
	case K_BL: c.x[30] = c.pc + 4; next = c.pc + (uint64_t)o.imm; break;
	case K_BCOND: {
		bool r;
		switch (o.a >> 1) {
		case 0: r = c.z; break; case 1: r = c.c; break; case 2: r = c.n; break; case 3: r = c.vf; break;
		case 4: r = c.c && !c.z; break; case 5: r = c.n == c.vf; break; case 6: r = (c.n == c.vf) && !c.z; break;
		default: r = true; break;
		}
		if ((o.a & 1) && o.a != 15) r = !r;
		if (r) next = c.pc + (uint64_t)o.imm;
		break; }
	case K_RET: next = c.x[o.rn]; break;
	case K_MRS_FPCR: if (o.rd != 31) c.x[o.rd] = c.fpcr; break;
	case K_MSR_FPCR: {
		uint64_t v = c.x[o.rd];
		// supported: RMode (23:22), FZ (24), DN (25); anything else (trap enables, AHP, FZ16, upper half) is refused
		if (v & ~(uint64_t)0x03C00000) return fail(STOP_FPCR, "msr fpcr with unsupported bits", v);
		c.fpcr = (uint32_t)v; set_host_fp();
		break; }
	case K_LDR_LIT_X: { uint64_t a = c.pc + (uint64_t)o.imm; MEMR(a, 8); if (o.rd != 31) c.x[o.rd] = ld64(a); break; }
	case K_LDR_LIT_Q: { uint64_t a = c.pc + (uint64_t)o.imm; MEMR(a, 16); c.v[o.rd].d[0] = ld64(a); c.v[o.rd].d[1] = ld64(a + 8); break; }
	case K_LDP_X: case K_STP_X: {
		uint64_t base = o.rn == 31 ? c.sp : c.x[o.rn]; SPCHK(o.rn, base);
		uint64_t a = o.a == 1 ? base : base + (uint64_t)o.imm;
		if (o.kind == K_LDP_X) { MEMR(a, 16); uint64_t v0 = ld64(a), v1 = ld64(a + 8); if (o.rd != 31) c.x[o.rd] = v0; if (o.ra != 31) c.x[o.ra] = v1; }
		else { MEMW(a, 16); st64(a, c.x[o.rd]); st64(a + 8, c.x[o.ra]); }
		if (o.a != 2) { uint64_t nb = base + (uint64_t)o.imm; if (o.rn == 31) c.sp = nb; else c.x[o.rn] = nb; }
		break; }
	case K_LDPSW: {
		uint64_t base = o.rn == 31 ? c.sp : c.x[o.rn]; SPCHK(o.rn, base);
		uint64_t a = base + (uint64_t)o.imm; MEMR(a, 8);
		uint64_t v0 = (uint64_t)(int64_t)(int32_t)ld32(a), v1 = (uint64_t)(int64_t)(int32_t)ld32(a + 4);
		if (o.rd != 31) c.x[o.rd] = v0;
		if (o.ra != 31) c.x[o.ra] = v1;
		break; }
	case K_LDP_D: case K_STP_D: {
		uint64_t base = o.rn == 31 ? c.sp : c.x[o.rn]; SPCHK(o.rn, base);
		uint64_t a = base + (uint64_t)o.imm;
		if (o.kind == K_LDP_D) { MEMR(a, 16); c.v[o.rd].d[0] = ld64(a); c.v[o.rd].d[1] = 0; c.v[o.ra].d[0] = ld64(a + 8); c.v[o.ra].d[1] = 0; }
		else { MEMW(a, 16); st64(a, c.v[o.rd].d[0]); st64(a + 8, c.v[o.ra].d[0]); }
		break; }
	case K_LDP_Q: case K_STP_Q: {
		uint64_t base = o.rn == 31 ? c.sp : c.x[o.rn]; SPCHK(o.rn, base);
		uint64_t a = base + (uint64_t)o.imm;
		if (o.kind == K_LDP_Q) { MEMR(a, 32); VReg t0, t1; t0.d[0] = ld64(a); t0.d[1] = ld64(a + 8); t1.d[0] = ld64(a + 16); t1.d[1] = ld64(a + 24); c.v[o.rd] = t0; c.v[o.ra] = t1; }
		else { MEMW(a, 32); st64(a, c.v[o.rd].d[0]); st64(a + 8, c.v[o.rd].d[1]); st64(a + 16, c.v[o.ra].d[0]); st64(a + 24, c.v[o.ra].d[1]); }
		break; }
	case K_LDR_X_UOFF: { uint64_t base = o.rn == 31 ? c.sp : c.x[o.rn]; SPCHK(o.rn, base); uint64_t a = base + (uint64_t)o.imm; MEMR(a, 8); if (o.rd != 31) c.x[o.rd] = ld64(a); break; }
	case K_STR_X_UOFF: { uint64_t base = o.rn == 31 ? c.sp : c.x[o.rn]; SPCHK(o.rn, base); uint64_t a = base + (uint64_t)o.imm; MEMW(a, 8); st64(a, c.x[o.rd]); break; }
	case K_LDR_Q_UOFF: { uint64_t base = o.rn == 31 ? c.sp : c.x[o.rn]; SPCHK(o.rn, base); uint64_t a = base + (uint64_t)o.imm; MEMR(a, 16); c.v[o.rd].d[0] = ld64(a); c.v[o.rd].d[1] = ld64(a + 8); break; }
	case K_PRFM_UOFF: break;   // prefetch hint: never faults, no architectural effect
	case K_LDR_X_IDX: case K_STR_X_IDX: {
		uint64_t base = o.rn == 31 ? c.sp : c.x[o.rn]; SPCHK(o.rn, base);
		uint64_t a = o.a == 1 ? base : base + (uint64_t)o.imm;
		if (o.kind == K_LDR_X_IDX) { MEMR(a, 8); uint64_t v = ld64(a); if (o.rd != 31) c.x[o.rd] = v; }
		else { MEMW(a, 8); st64(a, c.x[o.rd]); }
		uint64_t nb = base + (uint64_t)o.imm; if (o.rn == 31) c.sp = nb; else c.x[o.rn] = nb;
		break; }
	case K_LDR_X_REG: case K_STR_X_REG: case K_LDR_W_REG: {
		uint64_t base = o.rn == 31 ? c.sp : c.x[o.rn]; SPCHK(o.rn, base);
		uint64_t a = base + (c.x[o.rm] << (o.b ? o.c : 0));
		if (o.kind == K_LDR_X_REG) { MEMR(a, 8); if (o.rd != 31) c.x[o.rd] = ld64(a); }
		else if (o.kind == K_LDR_W_REG) { MEMR(a, 4); if (o.rd != 31) c.x[o.rd] = ld32(a); }
		else { MEMW(a, 8); st64(a, c.x[o.rd]); }
		break; }
	case K_MADD: { uint64_t r = c.x[o.ra] + c.x[o.rn] * c.x[o.rm]; if (o.rd != 31) c.x[o.rd] = r; break; }
	case K_UMULH: { uint64_t r = (uint64_t)(((unsigned __int128)c.x[o.rn] * c.x[o.rm]) >> 64); if (o.rd != 31) c.x[o.rd] = r; break; }
	case K_SMULH: { uint64_t r = (uint64_t)(((__int128)(int64_t)c.x[o.rn] * (__int128)(int64_t)c.x[o.rm]) >> 64); if (o.rd != 31) c.x[o.rd] = r; break; }
	case K_RORV: { uint64_t r = ror_n(c.x[o.rn], (unsigned)(c.x[o.rm] & 63), 64); if (o.rd != 31) c.x[o.rd] = r; break; }
	case K_RBIT: { uint64_t v = c.x[o.rn], r = 0; for (int i = 0; i < 64; ++i) if (v & (1ull << i)) r |= 1ull << (63 - i); if (o.rd != 31) c.x[o.rd] = r; break; }
	case K_INS_GEN: {
		if (o.a == 3) c.v[o.rd].d[o.b] = c.x[o.rn];
		else { uint32_t v = (uint32_t)c.x[o.rn]; memcpy((uint8_t*)&c.v[o.rd] + 4 * o.b, &v, 4); }
		break; }
	case K_INS_ELEM: { uint64_t v = c.v[o.rn].d[o.b]; c.v[o.rd].d[o.a] = v; break; }
	case K_UMOV: {
		uint64_t r;
		if (o.a == 0) r = ((const uint8_t*)&c.v[o.rn])[o.b]; else { uint32_t v; memcpy(&v, (const uint8_t*)&c.v[o.rn] + 4 * o.b, 4); r = v; }
		if (o.rd != 31) c.x[o.rd] = r;
		break; }
	case K_SMOV: { uint32_t v; memcpy(&v, (const uint8_t*)&c.v[o.rn] + 4 * o.b, 4); if (o.rd != 31) c.x[o.rd] = (uint64_t)(int64_t)(int32_t)v; break; }
	case K_FMOV_SW: c.v[o.rd].d[0] = (uint32_t)c.x[o.rn]; c.v[o.rd].d[1] = 0; break;
	case K_ORR_V: { VReg r; r.d[0] = c.v[o.rn].d[0] | c.v[o.rm].d[0]; r.d[1] = c.v[o.rn].d[1] | c.v[o.rm].d[1]; c.v[o.rd] = r; break; }
	case K_EOR_V: { VReg r; r.d[0] = c.v[o.rn].d[0] ^ c.v[o.rm].d[0]; r.d[1] = c.v[o.rn].d[1] ^ c.v[o.rm].d[1]; c.v[o.rd] = r; break; }
	case K_BIF_V: {   // Vd = Vd ^ ((Vd ^ Vn) & ~Vm): bits of Vn inserted where Vm is 0
		VReg r; for (int i = 0; i < 2; ++i) { uint64_t d = c.v[o.rd].d[i], n = c.v[o.rn].d[i], m = c.v[o.rm].d[i]; r.d[i] = d ^ ((d ^ n) & ~m); }
		c.v[o.rd] = r; break; }
	case K_MOVI: { uint64_t e = (uint64_t)o.imm; c.v[o.rd].d[0] = e | (e << 32); c.v[o.rd].d[1] = e | (e << 32); break; }
	case K_AESE: case K_AESD: {
		uint8_t st[16], key[16], t[16], ob[16];
		memcpy(st, &c.v[o.rd], 16); memcpy(key, &c.v[o.rn], 16);
		for (int i = 0; i < 16; ++i) t[i] = st[i] ^ key[i];
		if (o.kind == K_AESE) { for (int cc = 0; cc < 4; ++cc) for (int r = 0; r < 4; ++r) ob[r + 4 * cc] = SBOX[t[r + 4 * ((cc + r) & 3)]]; }
		else { for (int cc = 0; cc < 4; ++cc) for (int r = 0; r < 4; ++r) ob[r + 4 * cc] = ISBOX[t[r + 4 * ((cc - r) & 3)]]; }
		memcpy(&c.v[o.rd], ob, 16);
		break; }
	case K_AESMC: { uint8_t in[16], ob[16]; memcpy(in, &c.v[o.rn], 16); fast_mc(ob, in); memcpy(&c.v[o.rd], ob, 16); break; }
	case K_AESIMC: { uint8_t in[16], ob[16]; memcpy(in, &c.v[o.rn], 16); fast_imc(ob, in); memcpy(&c.v[o.rd], ob, 16); break; }
	case K_FADD: case K_FSUB: case K_FMUL: case K_FDIV: {
		__m128d a = _mm_castsi128_pd(_mm_loadu_si128((const __m128i*)&c.v[o.rn])), b = _mm_castsi128_pd(_mm_loadu_si128((const __m128i*)&c.v[o.rm])), r;
		if (o.kind == K_FADD) r = _mm_add_pd(a, b); else if (o.kind == K_FSUB) r = _mm_sub_pd(a, b); else if (o.kind == K_FMUL) r = _mm_mul_pd(a, b); else r = _mm_div_pd(a, b);
		if (special(c.v[o.rn].d[0]) | special(c.v[o.rn].d[1]) | special(c.v[o.rm].d[0]) | special(c.v[o.rm].d[1])) ++fp_special;
		_mm_storeu_si128((__m128i*)&c.v[o.rd], _mm_castpd_si128(r));
		if (special(c.v[o.rd].d[0]) | special(c.v[o.rd].d[1])) ++fp_special;
		break; }
	case K_FSQRT: {
		__m128d a = _mm_castsi128_pd(_mm_loadu_si128((const __m128i*)&c.v[o.rn]));
		if (special(c.v[o.rn].d[0]) | special(c.v[o.rn].d[1])) ++fp_special;
		_mm_storeu_si128((__m128i*)&c.v[o.rd], _mm_castpd_si128(_mm_sqrt_pd(a)));
		if (special(c.v[o.rd].d[0]) | special(c.v[o.rd].d[1])) ++fp_special;
		break; }
	case K_SCVTF: {
		__m128d lo = _mm_cvtsi64_sd(_mm_setzero_pd(), (long long)c.v[o.rn].d[0]);
		__m128d hi = _mm_cvtsi64_sd(_mm_setzero_pd(), (long long)c.v[o.rn].d[1]);
		_mm_storeu_si128((__m128i*)&c.v[o.rd], _mm_castpd_si128(_mm_unpacklo_pd(lo, hi)));
		break; }
	default:
		return fail(STOP_UNKNOWN, "internal: undecoded op", 0);
	}
	c.pc = next;
	return STOP_RET;   // meaning "ok" for exec(); run() decides
}

Stop Emu::step_word(uint32_t w) {
	Op o; fault_insn = w;
	if (!decode(w, o)) return fail(STOP_UNKNOWN, "unknown A64 instruction", 0);
	if (ranges.empty()) { Range r{ 0, 0, 0, "none", nullptr }; ranges.push_back(r); }
	unsigned saved = _mm_getcsr(); set_host_fp();
	Stop s = exec(o);
	_mm_setcsr(saved);
	return s;
}

Stop Emu::run(uint64_t entry, uint64_t max_insns) {
	error.clear(); icount = 0;
	cpu.pc = entry; cpu.x[31] = 0;
	if (ranges.empty()) return fail(STOP_MEM, "no memory ranges registered", 0);
	host_csr_saved = _mm_getcsr();
	if (cpu.fpcr & ~0x03C00000u) { return fail(STOP_FPCR, "entry fpcr with unsupported bits", cpu.fpcr); }
	set_host_fp();
	const uint64_t lo = (uint64_t)(uintptr_t)code_lo;
	Stop result;
	for (;;) {
		uint64_t pc = cpu.pc;
		if (pc == SENTINEL) { result = STOP_RET; break; }
		if (pc - lo >= code_size || (pc & 3)) { fault_insn = 0; result = fail(STOP_FETCH, "instruction fetch outside the code buffer", pc); break; }
		if (icount >= max_insns) { result = fail(STOP_LIMIT, "instruction limit reached", 0); break; }
		uint32_t w; memcpy(&w, (const void*)(uintptr_t)pc, 4);
		Op& o = cache[(pc - lo) >> 2];
		if (!o.valid || o.raw != w) {
			fault_insn = w;
			if (!decode(w, o)) { o.valid = 0; result = fail(STOP_UNKNOWN, "unknown A64 instruction", 0); break; }
			if (record_words) seen_words.push_back(w);
		}
		fault_insn = w;
		++icount; ++kind_count[o.kind];
		Stop s = exec(o);
		if (s != STOP_RET) { result = s; break; }
	}
	_mm_setcsr(host_csr_saved);
	return result;
}

Stop Emu::call(uint64_t entry, uint64_t a0, uint64_t a1, uint64_t a2, uint64_t a3, uint64_t stack_top, uint64_t max_insns) {
	cpu.x[0] = a0; cpu.x[1] = a1; cpu.x[2] = a2; cpu.x[3] = a3;
	cpu.x[30] = SENTINEL; cpu.sp = stack_top;
	return run(entry, max_insns);
}

} // namespace a64
