// jit_rv64_host.cpp - compiles /repo/src/jit_compiler_rv64.cpp (UNMODIFIED, taken from -I<repo>/src) for the
// x86-64 host.  Compile this ONE translation unit with  -D__riscv -D__riscv_xlen=64  (plus the profile
// defines); nothing else of the host library sees __riscv, so randomx::JitCompiler stays JitCompilerX86
// everywhere else and only the class randomx::JitCompilerRV64 comes from here.
//
// What is arch-specific in the back-end's C++ and how it is handled, without editing /repo:
//   * randomx::cpu (cpu.hpp gains hasRVV()/getRVV_Length() and two data members under __riscv; the host
//     library's object has the x86 layout): inside this TU the identifier `cpu` is renamed to a local
//     constant object that answers "no RVV", so JitCompilerRV64's constructor never allocates the vector
//     code buffer and every `if (vectorCode)` takes the scalar path - the path C20 is about.
//   * jit_compiler_rv64_vector*.{cpp,S} (RVV back-end, out of scope): the few symbols referenced from the
//     scalar file are defined below as stubs that abort, so reaching them is loud, never silent.
//   * __builtin___clear_cache: a no-op on x86, the emitted code is only ever read by the emulator.
//   * __riscv_zba / __riscv_zbb must be undefined (RV64GC baseline), checked below.
//   * the static runtime's symbols (randomx_riscv64_*): provided by a generated host assembly file that
//     .incbin's the cross-assembled, flat-linked blob and defines each symbol at blob+offset.
#if !defined(__riscv) || !defined(__riscv_xlen) || __riscv_xlen != 64
#error "compile this file with -D__riscv -D__riscv_xlen=64"
#endif
#if defined(__riscv_zba) || defined(__riscv_zbb) || defined(__riscv_vector) || defined(__riscv_v)
#error "C20 validates the RV64GC baseline: Zba/Zbb/V feature macros must not be defined"
#endif

// every header the .cpp includes, first, so that the rename below touches the .cpp body only
#include <stdexcept>
#include <cstring>
#include <climits>
#include <cassert>
#include <cstdlib>
#include <cstdio>
#include "jit_compiler_rv64.hpp"
#include "jit_compiler_rv64_static.hpp"
#include "superscalar.hpp"
#include "program.hpp"
#include "reciprocal.h"
#include "virtual_memory.h"
#include "cpu.hpp"
#include "jit_compiler_rv64_vector_static.h"
#include "jit_compiler_rv64_vector.h"
#include "soft_aes.h"
#include "instruction_weights.hpp"
#include "rv64_glue.hpp"

namespace randomx {
	namespace {
		struct Rv64ScalarOnlyCpu {
			bool hasRVV() const { return false; }
			int getRVV_Length() const { return 0; }
		};
		const Rv64ScalarOnlyCpu rv64_scalar_only_cpu{};
	}
}

#define cpu rv64_scalar_only_cpu
#include "jit_compiler_rv64.cpp"
#undef cpu

// ---------------------------------------------------------------- out-of-scope vector back-end: loud stubs
static void rv64_vector_stub(const char* what) {
	fprintf(stderr, "rv64 host glue: vector (RVV) back-end symbol %s reached - the scalar path must be the one exercised\n", what);
	abort();
}
extern "C" {
	void randomx_riscv64_vector_code_begin() { rv64_vector_stub("randomx_riscv64_vector_code_begin"); }
	void randomx_riscv64_vector_code_end() { rv64_vector_stub("randomx_riscv64_vector_code_end"); }
	void randomx_riscv64_vector_program_begin() { rv64_vector_stub("randomx_riscv64_vector_program_begin"); }
	void randomx_riscv64_vector_sshash_dataset_init(struct randomx_cache*, uint8_t*, uint32_t, uint32_t) { rv64_vector_stub("randomx_riscv64_vector_sshash_dataset_init"); }
}
namespace randomx {
	void* generateDatasetInitVectorRV64(uint8_t*, SuperscalarProgramList&, std::vector<uint64_t>&) { rv64_vector_stub("generateDatasetInitVectorRV64"); return nullptr; }
	void* generateProgramVectorRV64(uint8_t*, Program&, ProgramConfiguration&, const uint8_t(&)[256], void*, uint32_t, randomx_flags) { rv64_vector_stub("generateProgramVectorRV64"); return nullptr; }
}

// ---------------------------------------------------------------- exports
namespace rv64glue {

Layout layout() {
	using namespace randomx;
	Layout l{};
	l.codeSize = CodeSize;
	l.literalPoolSize = LiteralPoolSize;
	l.literalPoolOffset = LiteralPoolOffset;
	l.loopTopPos = LoopTopPos;
	l.randomXCodePos = RandomXCodePos;
	l.randomXCodeSize = RandomXCodeSize;
	l.superScalarHashOffset = SuperScalarHashOffset;
	l.sshLiteralPoolRefOffset = SuperScalarLiteralPoolRefOffset;
	l.sizeDataInit = sizeDataInit; l.sizePrologue = sizePrologue; l.sizeLoopBegin = sizeLoopBegin;
	l.maxRandomXInstrCodeSize = MaxRandomXInstrCodeSize;
#ifdef __riscv_zba
	l.zba = true;
#endif
#ifdef __riscv_zbb
	l.zbb = true;
#endif
	l.hasRVV = randomx::rv64_scalar_only_cpu.hasRVV();
	return l;
}

int32_t codePosAfterProgram(const void* jit) {
	return ((const randomx::JitCompilerRV64*)jit)->state.codePos;   // needs -fno-access-control
}

std::vector<Template> templates() {
	using namespace randomx;
	std::vector<Template> t;
	auto add = [&](const char* c, const char* comment, uint32_t enc, int len, const char* llvm) { t.push_back(Template{ c, comment, enc, len, llvm }); };
	// the calls below mirror how the emitters combine the constants with rvi()/rvc()/rvrd()
	add("LUI", "lui x{dst1}, {uimm}", rv64::LUI | (0x12345 << 12) | rvrd(8), 4, "lui s0, 74565");
	add("C_LUI", "c.lui x{dst1}, {uimm}", rvc(rv64::C_LUI, 0, 8, 3), 2, "c.lui s0, 3");
	add("C_LUI", "c.lui x29, 0xfffff", rvc(rv64::C_LUI, 1, SshTmp2Reg, 31), 2, "c.lui t4, 1048575");
	add("C_ADDI", "(unused)", rvc(rv64::C_ADDI, 0, 8, 1), 2, "c.addi s0, 1");
	add("ADDI", "addi x{dst}, x{src}, {limm}", rvi(rv64::ADDI, 9, 16, -5), 4, "addi s1, a6, -5");
	add("ADDIW", "addiw x{dst1}, x{dst1}, {limm}", rvi(rv64::ADDIW, 8, 8, 2047), 4, "addiw s0, s0, 2047");
	add("ADDIW", "addiw x{dst1}, x{dst1}, {limm}", rvi(rv64::ADDIW, 8, 8, -2048), 4, "addiw s0, s0, -2048");
	add("C_ADD", "c.add x{dst}, x{src}", rvc(rv64::C_ADD, regR(0), Tmp1Reg), 2, "c.add a6, s0");
	add("ADD", "(unused)", rvi(rv64::ADD, 8, 9, 10), 4, "add s0, s1, a0");
	add("SHXADD", "sh{1,2,3}add (Zba, not RV64GC)", rv64::SHXADD | rvrs2(16) | rvrs1(17) | (1 << 13) | rvrd(16), 4, "<unknown>");
	add("SLL", "sll x{dst}, x{dst}, x8", rvi(rv64::SLL, regR(0), regR(0), Tmp1Reg), 4, "sll a6, a6, s0");
	add("SRL", "srl x9, x{dst}, x{src}", rvi(rv64::SRL, Tmp2Reg, regR(0), regR(1)), 4, "srl s1, a6, a7");
	add("SLLI", "slli x8, x{src}, {shift}", rvi(rv64::SLLI, Tmp1Reg, regR(1), 3), 4, "slli s0, a7, 3");
	add("SLLI", "slli x9, x{src}, {imml}", rvi(rv64::SLLI, Tmp2Reg, regR(0), 63), 4, "slli s1, a6, 63");
	add("C_SLLI", "c.slli x{dst}, {imml}", rvc(rv64::C_SLLI, 1, regR(0), 31), 2, "c.slli a6, 63");
	add("C_SLLI", "c.slli x{dst}, 0 (rotation by 0: HINT)", rvc(rv64::C_SLLI, 0, regR(7), 0), 2, "c.slli64 s7");
	add("SRLI", "srli x8, x{dst}, {immr}", rvi(rv64::SRLI, Tmp1Reg, regR(0), 13), 4, "srli s0, a6, 13");
	add("AND", "and x9, x9, x1", rvi(rv64::AND, Tmp2Reg, Tmp2Reg, MaskL3Reg), 4, "and s1, s1, ra");
	add("ANDI", "andi x9, x8, 240", rvi(rv64::ANDI, Tmp2Reg, Tmp1Reg, 240), 4, "andi s1, s0, 240");
	add("C_AND", "c.and x9, x{maskReg}", rvc(rv64::C_AND, (Tmp2Reg + OffsetXC), (MaskL1Reg + OffsetXC)), 2, "c.and s1, a0");
	add("C_ANDI", "c.andi x8, 12", rvc(rv64::C_ANDI, Tmp1Reg + OffsetXC, 12), 2, "c.andi s0, 12");
	add("OR", "or x{dst}, x{dst}, x9", rvi(rv64::OR, regR(0), regR(0), Tmp2Reg), 4, "or a6, a6, s1");
	add("C_OR", "c.or x8, x9", rvc(rv64::C_OR, Tmp1Reg + OffsetXC, Tmp2Reg + OffsetXC), 2, "c.or s0, s1");
	add("XOR", "xor x26, x{readReg0}, x{readReg1}", rvi(rv64::XOR, SpAddr0Reg, regR(0), regR(2)), 4, "xor s10, a6, s2");
	add("C_XOR", "c.xor x8, x12", rvc(rv64::C_XOR, Tmp1Reg + OffsetXC, MaskFscalReg + OffsetXC), 2, "c.xor s0, a2");
	add("LD", "ld x8, {offset}(x3)", rvi(rv64::LD, Tmp1Reg, LiteralPoolReg, RcpLiteralsOffset + 10 * 8), 4, "ld s0, 224(gp)");
	add("LD", "ld x8, {offset}(x3) with offset >= 2048 (wraps to the negative half of the pool)", rvi(rv64::LD, Tmp1Reg, LiteralPoolReg, RcpLiteralsOffset + 238 * 8), 4, "ld s0, -2048(gp)");
	add("C_LD", "c.ld x8, 0(x9)", rvc(rv64::C_LD, Tmp2Reg + OffsetXC, Tmp1Reg + OffsetXC), 2, "c.ld s0, 0(s1)");
	add("C_LW", "c.lw x8, 0(x9)", rvc(rv64::C_LW, Tmp2Reg + OffsetXC, Tmp1Reg + OffsetXC), 2, "c.lw s0, 0(s1)");
	add("C_LW", "c.lw x9, 4(x9)", rvc(rv64::C_LW, Tmp2Reg + OffsetXC, 16 + Tmp2Reg + OffsetXC), 2, "c.lw s1, 4(s1)");
	add("C_LW", "c.lw x8, 64(x8)", rvc(rv64::C_LW, Tmp1Reg + OffsetXC, 8 + Tmp1Reg + OffsetXC), 2, "c.lw s0, 64(s0)");
	add("SD", "sd x{src}, 0(x9)", rvi(rv64::SD, 0, Tmp2Reg, regR(1)), 4, "sd a7, 0(s1)");
	add("SUB", "sub x{dst}, x0, x{dst}", rvi(rv64::SUB, regR(0), 0, regR(0)), 4, "sub a6, zero, a6");
	add("C_SUB", "c.sub x{dst}, x{src}", rvc(rv64::C_SUB, regSS(0) + OffsetXC, regSS(1) + OffsetXC), 2, "c.sub s0, s1");
	add("MUL", "mul x{dst}, x{dst}, x{rcp}", rvi(rv64::MUL, regR(0), regR(0), regRcp(0)), 4, "mul a6, a6, t3");
	add("MULHU", "mulhu x{dst}, x{dst}, x8", rvi(rv64::MULHU, regR(0), regR(0), Tmp1Reg), 4, "mulhu a6, a6, s0");
	add("MULH", "mulh x{dst}, x{dst}, x{src}", rvi(rv64::MULH, regR(7), regR(7), regR(6)), 4, "mulh s7, s7, s6");
	add("C_MV", "c.mv x8, x{dst}", rvc(rv64::C_MV, Tmp1Reg, regR(0)), 2, "c.mv s0, a6");
	add("ROR", "ror (Zbb, not RV64GC)", rvi(rv64::ROR, 16, 16, 17), 4, "<unknown>");
	add("RORI", "rori (Zbb, not RV64GC)", rvi(rv64::RORI, 16, 16, 13), 4, "<unknown>");
	add("ROL", "rol (Zbb, not RV64GC)", rvi(rv64::ROL, 16, 16, 17), 4, "<unknown>");
	add("FMV_X_D", "fmv.x.d x8, f{rcp}", rvi(rv64::FMV_X_D, Tmp1Reg, regRcpF(4)), 4, "fmv.x.d s0, fs10");
	add("FMV_D_X", "fmv.d.x f{dst_lo}, x8", rvi(rv64::FMV_D_X, regLoF(0), Tmp1Reg), 4, "fmv.d.x ft0, s0");
	add("FMV_D", "fmv.d f24, f{dst_lo}", rvi(rv64::FMV_D, Tmp1RegF, regLoF(0), regLoF(0)), 4, "fsgnj.d fs8, ft0, ft0");
	add("FADD_D", "fadd.d f{dst_lo}, f{dst_lo}, f{src_lo}", rvi(rv64::FADD_D, regLoF(0), regLoF(0), regLoA(0)), 4, "fadd.d ft0, ft0, fa6, dyn");
	add("FSUB_D", "fsub.d f{dst_hi}, f{dst_hi}, f25", rvi(rv64::FSUB_D, regHiF(0), regHiF(0), Tmp2RegF), 4, "fsub.d ft1, ft1, fs9, dyn");
	add("FMUL_D", "fmul.d f{dst_lo}, f{dst_lo}, f{src_lo}", rvi(rv64::FMUL_D, regLoE(0), regLoE(0), regLoA(1)), 4, "fmul.d fs0, fs0, fs2, dyn");
	add("FDIV_D", "fdiv.d f{dst_lo}, f{dst_lo}, f24", rvi(rv64::FDIV_D, regLoE(1), regLoE(1), Tmp1RegF), 4, "fdiv.d fa0, fa0, fs8, dyn");
	add("FSQRT_D", "fsqrt.d f{dst_lo}, f{dst_lo}", rvi(rv64::FSQRT_D, regLoE(0), regLoE(0)), 4, "fsqrt.d fs0, fs0, dyn");
	add("FCVT_D_W", "fcvt.d.w f24, x8", rvi(rv64::FCVT_D_W, Tmp1RegF, Tmp1Reg), 4, "fcvt.d.w fs8, s0");
	add("FSRM", "fsrm x8", rvi(rv64::FSRM, 0, Tmp1Reg, 0), 4, "csrrw zero, frm, s0");
	{
		int offset = -20;
		int imm8 = 1, imm21 = offset & 6, imm5 = (offset >> 5) & 1, imm43 = offset & 24, imm76 = (offset >> 3) & 24;
		add("C_BEQZ", "c.beqz x8, {offset}", rvc(rv64::C_BEQZ, imm8, imm43 + (Tmp1Reg + OffsetXC), imm76 + imm21 + imm5), 2, "c.beqz s0, @-20");
		offset = -300;
		int imm12 = 1 << 11, imm105 = offset & 2016, imm41 = offset & 30, imm11 = (offset >> 11) & 1;
		add("BEQ", "beq x8, x0, offset", rvi(rv64::BEQ, imm41 + imm11, Tmp1Reg, imm12 + imm105), 4, "beq s0, zero, @-300");
	}
	add("C_BNEZ", "c.bnez x8, +6", rvc(rv64::C_BNEZ, Tmp1Reg + OffsetXC, 6), 2, "c.bnez s0, @+6");
	add("raw 0xE491", "c.bnez x9, +12", 0xE491, 2, "c.bnez s1, @+12");
	add("raw 0xE499", "c.bnez x9, +14", 0xE499, 2, "c.bnez s1, @+14");
	{
		alignas(4) uint8_t tmp[8192] = {};
		CodeBuffer b; b.code = tmp; b.codePos = 0; b.rcpCount = 0;
		uint32_t w;
		emitJump(b, ReturnReg, 100, 100 + 2048); memcpy(&w, tmp + 100, 4);
		add("JAL", "jal x1, SuperscalarHash", w, 4, "jal ra, @+2048");
		emitJump(b, 0, 5000, 100); memcpy(&w, tmp + 5000, 4);
		add("JAL", "j LoopTop", w, 4, "jal zero, @-4900");
	}
	add("C_RET", "ret", rvc(rv64::C_RET, 0, 0), 2, "c.jr ra");
	add("raw 0x1402", "slli x8, x8, 32 (v2 tweak)", 0x1402, 2, "c.slli s0, 32");
	add("raw 0x0001", "nop (v1 tweak)", 0x0001, 2, "c.nop");
	return t;
}

} // namespace rv64glue
