// rv64emu.cpp - see rv64emu.hpp. Field layouts follow "The RISC-V Instruction Set Manual, Volume I:
// Unprivileged ISA" (RV32I/RV64I base formats ch. 2/5, "M" ch. 7, "D" ch. 12, "Zicsr" ch. 9, "C" ch. 16).
#include "rv64emu.hpp"
#include <cstring>
#include <cstdio>
#include <xmmintrin.h>
#include <emmintrin.h>

namespace rv64emu {

const char* const formName[F_COUNT] = {
#define X(id, name) name,
	RV64EMU_FORMS(X)
#undef X
};

const char* Stop::kindName() const {
	switch (kind) {
	case StopKind::Returned: return "returned";
	case StopKind::UnknownInsn: return "unknown RV64 instruction";
	case StopKind::ReservedInsn: return "reserved/hint RV64 encoding";
	case StopKind::FetchFault: return "instruction fetch outside the executable ranges";
	case StopKind::LoadFault: return "load outside the readable ranges";
	case StopKind::StoreFault: return "store outside the writable ranges";
	case StopKind::InsnLimit: return "instruction limit reached";
	case StopKind::BadCsr: return "unsupported CSR access";
	case StopKind::BadRounding: return "reserved or unsupported rounding mode";
	}
	return "?";
}

namespace {

// host MXCSR: all exceptions masked, FTZ/DAZ off, rounding control from a RISC-V rounding mode
inline unsigned mxcsrFor(uint32_t rvrm) {
	static const unsigned rc[4] = { 0u /*RNE*/, 3u /*RTZ*/, 1u /*RDN*/, 2u /*RUP*/ };
	return 0x1F80u | (rc[rvrm & 3] << 13);
}

struct MxcsrGuard {
	unsigned saved;
	MxcsrGuard() : saved(_mm_getcsr()) {}
	~MxcsrGuard() { _mm_setcsr(saved); }
};

inline double asD(uint64_t u) { double d; memcpy(&d, &u, 8); return d; }
inline uint64_t asU(double d) { uint64_t u; memcpy(&u, &d, 8); return u; }

// The arithmetic itself is done by the SSE2 scalar instructions under the current MXCSR; volatile asm so
// that the compiler can neither fold it nor move it across the MXCSR updates.
inline double hadd(double a, double b) { __asm__ volatile("addsd %1, %0" : "+x"(a) : "x"(b)); return a; }
inline double hsub(double a, double b) { __asm__ volatile("subsd %1, %0" : "+x"(a) : "x"(b)); return a; }
inline double hmul(double a, double b) { __asm__ volatile("mulsd %1, %0" : "+x"(a) : "x"(b)); return a; }
inline double hdiv(double a, double b) { __asm__ volatile("divsd %1, %0" : "+x"(a) : "x"(b)); return a; }
inline double hsqrt(double a) { double r; __asm__ volatile("sqrtsd %1, %0" : "=x"(r) : "x"(a)); return r; }

inline int64_t sx(uint64_t v, unsigned bits) { return (int64_t)(v << (64 - bits)) >> (64 - bits); }

} // namespace

Stop Machine::run(uint64_t entry, uint64_t maxInsns) {
	MxcsrGuard guard;
	if (frm > 3) { Stop s; s.kind = StopKind::BadRounding; s.pc = entry; return s; }
	_mm_setcsr(mxcsrFor(frm));
	x[0] = 0;
	x[1] = ReturnMagic;
	pc = entry;
	uint64_t budget = maxInsns;
	Stop st;

#define STOP(k) do { st.kind = StopKind::k; st.pc = pc; st.insn = insn; return st; } while (0)
#define FORM(id) do { ++formCount[F_##id]; if (execMap) { uint64_t o_ = (pc - execBase) >> 1; if (pc >= execBase && o_ < execParcels) execMap[o_] = (uint8_t)(F_##id + 1); } } while (0)
#define LOADCHK(a, n) do { if (!chk(lc, (a), (n), PR)) { st.addr = (a); st.size = (n); STOP(LoadFault); } if ((a) & ((n) - 1)) ++misaligned; } while (0)
#define STORECHK(a, n) do { if (!chk(sc, (a), (n), PW)) { st.addr = (a); st.size = (n); STOP(StoreFault); } if ((a) & ((n) - 1)) ++misaligned; \
		if ((a) - trackLo < trackSize) { uint64_t l0_ = ((a) - trackLo) >> 6, l1_ = ((a) + (n) - 1 - trackLo) >> 6; for (uint64_t l_ = l0_; l_ <= l1_ && (l_ << 6) < trackSize; ++l_) if (!trackBitmap[l_]) { trackBitmap[l_] = 1; trackList.push_back((uint32_t)l_); } } } while (0)
#define RD(v) do { if (rd) x[rd] = (v); } while (0)

	for (;;) {
		uint32_t insn = 0;
		if (pc == ReturnMagic) { st.kind = StopKind::Returned; st.pc = pc; return st; }
		if (budget == 0) STOP(InsnLimit);
		--budget;
		if ((pc & 1) || !chk(fc, pc, 2, PX)) STOP(FetchFault);
		uint16_t lo16; memcpy(&lo16, (const void*)(uintptr_t)pc, 2);
		insn = lo16;
		uint64_t npc;

		if ((lo16 & 3) != 3) {
			// ------------------------------------------------------------ 16-bit (C extension)
			npc = pc + 2;
			const unsigned op = lo16 & 3, f3 = (lo16 >> 13) & 7;
			const unsigned rdp = 8 + ((lo16 >> 2) & 7);      // rd'/rs2' (bits 4:2)
			const unsigned rs1p = 8 + ((lo16 >> 7) & 7);     // rs1'/rd' (bits 9:7)
			const unsigned rfull = (lo16 >> 7) & 31;         // rd/rs1 (bits 11:7)
			const unsigned rs2full = (lo16 >> 2) & 31;       // rs2 (bits 6:2)
			const unsigned b12 = (lo16 >> 12) & 1;
			const int64_t imm6 = sx((b12 << 5) | ((lo16 >> 2) & 31), 6);
			if (op == 0) {
				const uint64_t u53 = ((lo16 >> 10) & 7) << 3;
				const uint64_t uD = u53 | (((lo16 >> 5) & 3) << 6);                              // doubleword scaled
				const uint64_t uW = u53 | (((lo16 >> 6) & 1) << 2) | (((lo16 >> 5) & 1) << 6);   // word scaled
				switch (f3) {
				case 2: { FORM(C_LW); uint64_t a = x[rs1p] + uW; LOADCHK(a, 4); int32_t v; memcpy(&v, (const void*)(uintptr_t)a, 4); x[rdp] = (uint64_t)(int64_t)v; break; }
				case 3: { FORM(C_LD); uint64_t a = x[rs1p] + uD; LOADCHK(a, 8); memcpy(&x[rdp], (const void*)(uintptr_t)a, 8); break; }
				case 5: { FORM(C_FSD); uint64_t a = x[rs1p] + uD; STORECHK(a, 8); memcpy((void*)(uintptr_t)a, &f[rdp], 8); break; }
				default: STOP(UnknownInsn);   // c.addi4spn, c.fld, c.sw, c.sd, illegal
				}
			}
			else if (op == 1) {
				switch (f3) {
				case 0:
					if (rfull == 0) { if (imm6 != 0) STOP(ReservedInsn); FORM(C_NOP); }
					else { if (imm6 == 0) STOP(ReservedInsn); FORM(C_ADDI); x[rfull] += (uint64_t)imm6; }
					break;
				case 1:
					if (rfull == 0) STOP(ReservedInsn);
					FORM(C_ADDIW); x[rfull] = (uint64_t)(int64_t)(int32_t)(uint32_t)(x[rfull] + (uint64_t)imm6);
					break;
				case 2:
					if (rfull == 0) STOP(ReservedInsn);
					FORM(C_LI); x[rfull] = (uint64_t)imm6;
					break;
				case 3:
					if (rfull == 2) {
						int64_t nz = sx((b12 << 9) | (((lo16 >> 6) & 1) << 4) | (((lo16 >> 5) & 1) << 6) | (((lo16 >> 3) & 3) << 7) | (((lo16 >> 2) & 1) << 5), 10);
						if (nz == 0) STOP(ReservedInsn);
						FORM(C_ADDI16SP); x[2] += (uint64_t)nz;
					}
					else {
						if (rfull == 0 || imm6 == 0) STOP(ReservedInsn);
						FORM(C_LUI); x[rfull] = (uint64_t)(imm6 * 4096);
					}
					break;
				case 4: {
					const unsigned sub = (lo16 >> 10) & 3;
					const unsigned shamt = (b12 << 5) | ((lo16 >> 2) & 31);
					if (sub == 0) { if (shamt == 0) STOP(ReservedInsn); FORM(C_SRLI); x[rs1p] >>= shamt; }
					else if (sub == 2) { FORM(C_ANDI); x[rs1p] &= (uint64_t)imm6; }
					else if (sub == 3 && b12 == 0) {
						switch ((lo16 >> 5) & 3) {
						case 0: FORM(C_SUB); x[rs1p] -= x[rdp]; break;
						case 1: FORM(C_XOR); x[rs1p] ^= x[rdp]; break;
						case 2: FORM(C_OR); x[rs1p] |= x[rdp]; break;
						case 3: FORM(C_AND); x[rs1p] &= x[rdp]; break;
						}
					}
					else STOP(UnknownInsn);   // c.srai, c.subw, c.addw
					break;
				}
				case 5: {
					int64_t off = sx((b12 << 11) | (((lo16 >> 11) & 1) << 4) | (((lo16 >> 9) & 3) << 8) | (((lo16 >> 8) & 1) << 10) |
						(((lo16 >> 7) & 1) << 6) | (((lo16 >> 6) & 1) << 7) | (((lo16 >> 3) & 7) << 1) | (((lo16 >> 2) & 1) << 5), 12);
					FORM(C_J); npc = pc + (uint64_t)off;
					break;
				}
				case 6: case 7: {
					int64_t off = sx((b12 << 8) | (((lo16 >> 10) & 3) << 3) | (((lo16 >> 5) & 3) << 6) | (((lo16 >> 3) & 3) << 1) | (((lo16 >> 2) & 1) << 5), 9);
					if (f3 == 6) { FORM(C_BEQZ); if (x[rs1p] == 0) npc = pc + (uint64_t)off; }
					else { FORM(C_BNEZ); if (x[rs1p] != 0) npc = pc + (uint64_t)off; }
					break;
				}
				}
			}
			else { // op == 2
				const uint64_t uSPl = ((uint64_t)b12 << 5) | (((lo16 >> 5) & 3) << 3) | (((lo16 >> 2) & 7) << 6);   // c.ldsp / c.fldsp
				const uint64_t uSPs = (((lo16 >> 10) & 7) << 3) | (((lo16 >> 7) & 7) << 6);                     // c.sdsp / c.fsdsp
				switch (f3) {
				case 0: {
					const unsigned shamt = (b12 << 5) | ((lo16 >> 2) & 31);
					if (rfull == 0) STOP(ReservedInsn);
					if (shamt == 0) { FORM(C_SLLI64); /* HINT on RV64: no architectural effect */ }
					else { FORM(C_SLLI); x[rfull] <<= shamt; }
					break;
				}
				case 1: { FORM(C_FLDSP); uint64_t a = x[2] + uSPl; LOADCHK(a, 8); memcpy(&f[rfull], (const void*)(uintptr_t)a, 8); break; }
				case 3: { if (rfull == 0) STOP(ReservedInsn); FORM(C_LDSP); uint64_t a = x[2] + uSPl; LOADCHK(a, 8); memcpy(&x[rfull], (const void*)(uintptr_t)a, 8); break; }
				case 4:
					if (b12 == 0) {
						if (rs2full == 0) { if (rfull == 0) STOP(ReservedInsn); FORM(C_JR); npc = x[rfull] & ~(uint64_t)1; }
						else { if (rfull == 0) STOP(ReservedInsn); FORM(C_MV); x[rfull] = x[rs2full]; }
					}
					else {
						if (rs2full == 0) STOP(UnknownInsn);   // c.ebreak, c.jalr
						if (rfull == 0) STOP(ReservedInsn);
						FORM(C_ADD); x[rfull] += x[rs2full];
					}
					break;
				case 5: { FORM(C_FSDSP); uint64_t a = x[2] + uSPs; STORECHK(a, 8); memcpy((void*)(uintptr_t)a, &f[rs2full], 8); break; }
				case 7: { FORM(C_SDSP); uint64_t a = x[2] + uSPs; STORECHK(a, 8); memcpy((void*)(uintptr_t)a, &x[rs2full], 8); break; }
				default: STOP(UnknownInsn);   // c.lwsp, c.swsp
				}
			}
		}
		else {
			// ------------------------------------------------------------ 32-bit
			if (!chk(fc, pc + 2, 2, PX)) STOP(FetchFault);
			uint16_t hi16; memcpy(&hi16, (const void*)(uintptr_t)(pc + 2), 2);
			insn = (uint32_t)lo16 | ((uint32_t)hi16 << 16);
			if ((insn & 0x1c) == 0x1c) STOP(UnknownInsn);   // 48-bit and longer encodings
			npc = pc + 4;
			const unsigned opc = insn & 0x7f, rd = (insn >> 7) & 31, f3 = (insn >> 12) & 7, rs1 = (insn >> 15) & 31, rs2 = (insn >> 20) & 31, f7 = insn >> 25;
			const int64_t immI = (int64_t)(int32_t)insn >> 20;
			switch (opc) {
			case 0x37: FORM(LUI); RD((uint64_t)(int64_t)(int32_t)(insn & 0xfffff000u)); break;
			case 0x17: FORM(AUIPC); RD(pc + (uint64_t)(int64_t)(int32_t)(insn & 0xfffff000u)); break;
			case 0x6f: {
				int64_t off = sx(((uint64_t)(insn >> 31) << 20) | (((insn >> 21) & 0x3ff) << 1) | (((insn >> 20) & 1) << 11) | (((insn >> 12) & 0xff) << 12), 21);
				FORM(JAL); RD(pc + 4); npc = pc + (uint64_t)off;
				break;
			}
			case 0x63: {
				int64_t off = sx(((uint64_t)(insn >> 31) << 12) | (((insn >> 7) & 1) << 11) | (((insn >> 25) & 0x3f) << 5) | (((insn >> 8) & 0xf) << 1), 13);
				bool taken;
				if (f3 == 0) { FORM(BEQ); taken = x[rs1] == x[rs2]; }
				else if (f3 == 1) { FORM(BNE); taken = x[rs1] != x[rs2]; }
				else if (f3 == 6) { FORM(BLTU); taken = x[rs1] < x[rs2]; }
				else STOP(UnknownInsn);   // blt, bge, bgeu
				if (taken) npc = pc + (uint64_t)off;
				break;
			}
			case 0x03: {
				uint64_t a = x[rs1] + (uint64_t)immI;
				if (f3 == 2) { FORM(LW); LOADCHK(a, 4); int32_t v; memcpy(&v, (const void*)(uintptr_t)a, 4); RD((uint64_t)(int64_t)v); }
				else if (f3 == 3) { FORM(LD); LOADCHK(a, 8); uint64_t v; memcpy(&v, (const void*)(uintptr_t)a, 8); RD(v); }
				else if (f3 == 6) { FORM(LWU); LOADCHK(a, 4); uint32_t v; memcpy(&v, (const void*)(uintptr_t)a, 4); RD((uint64_t)v); }
				else STOP(UnknownInsn);   // lb, lh, lbu, lhu
				break;
			}
			case 0x23: {
				uint64_t a = x[rs1] + (uint64_t)((((int64_t)(int32_t)insn >> 25) * 32) | (int64_t)rd);
				if (f3 != 3) STOP(UnknownInsn);   // sb, sh, sw
				FORM(SD); STORECHK(a, 8); memcpy((void*)(uintptr_t)a, &x[rs2], 8);
				break;
			}
			case 0x13:
				if (f3 == 0) { FORM(ADDI); RD(x[rs1] + (uint64_t)immI); }
				else if (f3 == 7) { FORM(ANDI); RD(x[rs1] & (uint64_t)immI); }
				else if (f3 == 1 && (insn >> 26) == 0) { FORM(SLLI); RD(x[rs1] << ((insn >> 20) & 63)); }
				else if (f3 == 5 && (insn >> 26) == 0) { FORM(SRLI); RD(x[rs1] >> ((insn >> 20) & 63)); }
				else STOP(UnknownInsn);   // slti, sltiu, xori, ori, srai, Zbb rori, ...
				break;
			case 0x1b:
				if (f3 != 0) STOP(UnknownInsn);   // slliw, srliw, sraiw
				FORM(ADDIW); RD((uint64_t)(int64_t)(int32_t)(uint32_t)(x[rs1] + (uint64_t)immI));
				break;
			case 0x33:
				if (f7 == 0x00) {
					switch (f3) {
					case 1: FORM(SLL); RD(x[rs1] << (x[rs2] & 63)); break;
					case 4: FORM(XOR); RD(x[rs1] ^ x[rs2]); break;
					case 5: FORM(SRL); RD(x[rs1] >> (x[rs2] & 63)); break;
					case 6: FORM(OR); RD(x[rs1] | x[rs2]); break;
					case 7: FORM(AND); RD(x[rs1] & x[rs2]); break;
					default: STOP(UnknownInsn);   // add (never produced), slt, sltu
					}
				}
				else if (f7 == 0x20 && f3 == 0) { FORM(SUB); RD(x[rs1] - x[rs2]); }
				else if (f7 == 0x01) {
					if (f3 == 0) { FORM(MUL); RD(x[rs1] * x[rs2]); }
					else if (f3 == 1) { FORM(MULH); RD((uint64_t)(((__int128)(int64_t)x[rs1] * (__int128)(int64_t)x[rs2]) >> 64)); }
					else if (f3 == 3) { FORM(MULHU); RD((uint64_t)(((unsigned __int128)x[rs1] * (unsigned __int128)x[rs2]) >> 64)); }
					else STOP(UnknownInsn);   // mulhsu, div, divu, rem, remu
				}
				else STOP(UnknownInsn);   // sra, Zba sh*add, Zbb rol/ror, ...
				break;
			case 0x07: {
				if (f3 != 3) STOP(UnknownInsn);   // flw
				uint64_t a = x[rs1] + (uint64_t)immI;
				FORM(FLD); LOADCHK(a, 8); memcpy(&f[rd], (const void*)(uintptr_t)a, 8);
				break;
			}
			case 0x27: {
				if (f3 != 3) STOP(UnknownInsn);   // fsw
				uint64_t a = x[rs1] + (uint64_t)((((int64_t)(int32_t)insn >> 25) * 32) | (int64_t)rd);
				FORM(FSD); STORECHK(a, 8); memcpy((void*)(uintptr_t)a, &f[rs2], 8);
				break;
			}
			case 0x53: {
				// arithmetic forms take the rounding mode from f3 (7 = dynamic: frm)
				auto arith = [&](int which) -> bool {
					uint32_t rm = f3 == 7 ? frm : f3;
					if (rm > 3) return false;
					bool stat = (f3 != 7) && (rm != frm);
					if (stat) _mm_setcsr(mxcsrFor(rm));
					double a = asD(f[rs1]), b = asD(f[rs2]), r;
					switch (which) { case 0: r = hadd(a, b); break; case 1: r = hsub(a, b); break; case 2: r = hmul(a, b); break; case 3: r = hdiv(a, b); break; default: r = hsqrt(a); break; }
					if (stat) _mm_setcsr(mxcsrFor(frm));
					uint64_t u = asU(r);
					if ((u & 0x7fffffffffffffffull) > 0x7ff0000000000000ull) { u = 0x7ff8000000000000ull; ++nanResults; }
					f[rd] = u;
					return true;
				};
				switch (f7) {
				case 0x01: FORM(FADD_D); if (!arith(0)) STOP(BadRounding); break;
				case 0x05: FORM(FSUB_D); if (!arith(1)) STOP(BadRounding); break;
				case 0x09: FORM(FMUL_D); if (!arith(2)) STOP(BadRounding); break;
				case 0x0d: FORM(FDIV_D); if (!arith(3)) STOP(BadRounding); break;
				case 0x2d: if (rs2 != 0) STOP(UnknownInsn); FORM(FSQRT_D); if (!arith(4)) STOP(BadRounding); break;
				case 0x11:
					if (f3 != 0) STOP(UnknownInsn);   // fsgnjn.d, fsgnjx.d
					FORM(FSGNJ_D); f[rd] = (f[rs1] & 0x7fffffffffffffffull) | (f[rs2] & 0x8000000000000000ull);
					break;
				case 0x69: {
					if (rs2 != 0) STOP(UnknownInsn);   // fcvt.d.wu / fcvt.d.l / fcvt.d.lu
					uint32_t rm = f3 == 7 ? frm : f3;
					if (rm > 4) STOP(BadRounding);       // exact conversion: the mode does not matter, but must be legal
					FORM(FCVT_D_W); f[rd] = asU((double)(int32_t)(uint32_t)x[rs1]);
					break;
				}
				case 0x71: if (rs2 != 0 || f3 != 0) STOP(UnknownInsn); FORM(FMV_X_D); RD(f[rs1]); break;   // f3=1 is fclass.d
				case 0x79: if (rs2 != 0 || f3 != 0) STOP(UnknownInsn); FORM(FMV_D_X); f[rd] = x[rs1]; break;
				default: STOP(UnknownInsn);
				}
				break;
			}
			case 0x73: {
				if (f3 != 1) STOP(UnknownInsn);   // only csrrw (fsrm) is produced
				if ((insn >> 20) != 0x002) STOP(BadCsr);   // frm
				FORM(CSRRW);
				uint32_t old = frm;
				frm = (uint32_t)(x[rs1] & 7);
				if (traceCsr) fprintf(stderr, "  [rv64emu] insn #%llu pc %016llx: frm %u -> %u (x%u = %016llx)\n", (unsigned long long)icount, (unsigned long long)pc, old, frm, rs1, (unsigned long long)x[rs1]);
				RD((uint64_t)old);
				if (frm <= 3) _mm_setcsr(mxcsrFor(frm));
				// frm = 4 (RMM) or reserved 5..7: legal to write; the next dynamically-rounded operation stops the machine
				break;
			}
			default: STOP(UnknownInsn);
			}
		}
		x[0] = 0;
		pc = npc;
		++icount;
	}
#undef STOP
#undef FORM
#undef LOADCHK
#undef STORECHK
#undef RD
}

} // namespace rv64emu
