#!/usr/bin/env python3
"""Build the C20 check (RV64GC JIT == interpreter) from the CURRENT working tree of the repository.

usage: build.py <profile: iter|full|mini> <outdir>          env RX_REPO=/path/to/tree (default /repo)

Steps (every command is printed):
  1. host library (the oracle: the repository's interpreter etc.) through /verif/bin/rxbuild.py
     (shared cache for /repo; a private build inside <outdir> for any other RX_REPO)
  2. cross-assemble src/jit_compiler_rv64_static.S for riscv64 (clang, rv64gc, -mno-relax, same -D flags),
     link flat at address 0 with ld.lld, extract .text, read the symbol offsets with llvm-nm
  3. generate a HOST assembly file that .incbin's the blob and defines every extern "C" symbol of
     jit_compiler_rv64_static.hpp at blob+offset
  4. compile src/jit_compiler_rv64.cpp for the host through jit_rv64_host.cpp (-D__riscv -D__riscv_xlen=64 for
     that ONE translation unit), the emulator, its self-test and the harness; link
  5. bind the emulator to the architecture: self-test; llvm-objdump over the self-test's encoding vectors and
     the emitter's opcode templates (exact text); over the static blob (no <unknown> in code); over every
     distinct encoding executed by a sample of emitted programs (mnemonic must equal the emulator's)
The JIT .cpp and .S are recompiled on every run, so edits to the tree are always picked up.
"""
import os, re, shlex, subprocess, sys

HERE = os.path.dirname(os.path.abspath(__file__))
VERIF = os.path.abspath(os.path.join(HERE, "..", "..", ".."))
sys.path.insert(0, os.path.join(VERIF, "bin"))

def sh(cmd, **kw):
    print("+ " + " ".join(shlex.quote(c) for c in cmd), flush=True)
    r = subprocess.run(cmd, stdout=subprocess.PIPE, stderr=subprocess.STDOUT, text=True, **kw)
    if r.returncode != 0:
        sys.stderr.write(r.stdout + "\nBUILD FAILED (exit %d)\n" % r.returncode)
        raise SystemExit(2)
    return r.stdout

def tool(*names):
    for n in names:
        for d in os.environ.get("PATH", "").split(":"):
            if os.path.exists(os.path.join(d, n)): return n
    raise SystemExit("missing tool: " + "/".join(names))

def norm(line):
    parts = line.rstrip("\n").split("\t")
    t = " ".join(p.strip() for p in parts[1:]).strip()
    t = re.sub(r"\s*<[^>]*>", "", t) if not t.startswith("<unknown>") else t
    return re.sub(r"\s+", " ", t)

def disassemble(binfile, out):
    elf = binfile + ".elf"
    sh([OBJCOPY, "-I", "binary", "-O", "elf64-littleriscv", "--rename-section=.data=.text,code", binfile, elf])
    txt = sh([OBJDUMP, "-d", "-j", ".text", "--mattr=+m,+a,+f,+d,+c", "-M", "no-aliases", elf])
    lines = [l for l in txt.split("\n") if re.match(r"^\s+[0-9a-f]+:\s", l)]
    open(out, "w").write("\n".join(lines) + "\n")
    return lines

def main():
    if len(sys.argv) != 3: print(__doc__); raise SystemExit(2)
    profile, out = sys.argv[1], os.path.abspath(sys.argv[2])
    repo = os.environ.get("RX_REPO", "/repo")
    os.makedirs(out, exist_ok=True)
    # Snapshot <repo>/src first and build BOTH sides (oracle library and RV64 back-end) from that one snapshot:
    # other jobs may be editing the tree while this build runs, and a library from one instant linked with a JIT
    # from another would make the comparison meaningless.  RX_SNAPSHOT=0 builds straight from <repo>.
    if os.environ.get("RX_SNAPSHOT", "1") != "0":
        snap = os.path.join(out, "tree")
        sh(["rm", "-rf", snap]); os.makedirs(snap)
        sh(["cp", "-a", os.path.join(repo, "src"), os.path.join(snap, "src")])
        import hashlib
        h = hashlib.sha256()
        for root, dirs, files in os.walk(os.path.join(snap, "src")):
            dirs.sort()
            for f in sorted(files): h.update(f.encode()); h.update(open(os.path.join(root, f), "rb").read())
        print("# building from a snapshot of %s/src taken now: %s (sha256 %s)" % (repo, snap, h.hexdigest()[:16]))
        repo = snap
    os.environ["RX_REPO"] = repo
    src = os.path.join(repo, "src")
    global OBJCOPY, OBJDUMP
    CLANG = tool("clang", "clang-14"); LLD = tool("ld.lld", "ld.lld-14"); OBJCOPY = tool("llvm-objcopy", "llvm-objcopy-14")
    NM = tool("llvm-nm", "llvm-nm-14"); OBJDUMP = tool("llvm-objdump-14", "llvm-objdump")
    import rxbuild
    if os.path.abspath(repo) != "/repo":
        rxbuild.BUILD = os.path.join(out, "rxbuild")       # private objects: never share a cache entry with another tree or another instant
    d = rxbuild.parse_variant(profile)
    defs = rxbuild.defines(d)

    # 1. host library
    print("+ rxbuild.build_lib(%r)   # RX_REPO=%s, objects in %s" % (profile, repo, rxbuild.BUILD), flush=True)
    lib = rxbuild.build_lib(profile)

    # 2. static runtime -> flat riscv64 blob
    so, selfelf, blob = [os.path.join(out, n) for n in ("rv64_static.o", "rv64_static.elf", "rv64_static.bin")]
    sh([CLANG, "--target=riscv64-linux-gnu", "-march=rv64gc", "-mno-relax", "-c", os.path.join(src, "jit_compiler_rv64_static.S"), "-I", src] + defs + ["-o", so])
    rel = sh([OBJDUMP, "-r", so])
    if re.search(r"^\s*[0-9a-f]+\s+R_RISCV", rel, re.M):
        sys.stderr.write(rel + "\nthe static runtime has unresolved relocations; the flat blob would be wrong\n"); raise SystemExit(2)
    sh([LLD, "-o", selfelf, so, "-Ttext=0x0", "-e", "randomx_riscv64_data_init"])
    sh([OBJCOPY, "-O", "binary", "-j", ".text", selfelf, blob])
    raw = os.path.join(out, "rv64_static.raw.bin")
    sh([OBJCOPY, "-O", "binary", "-j", ".text", so, raw])
    if open(raw, "rb").read() != open(blob, "rb").read():
        raise SystemExit("linked and unlinked .text differ: position dependence in the static runtime")
    syms = {}
    for line in sh([NM, "-n", selfelf]).split("\n"):
        m = re.match(r"^([0-9a-f]+)\s+(\w)\s+(\S+)$", line)
        if m: syms[m.group(3)] = int(m.group(1), 16)
    wanted = re.findall(r"void\s+(randomx_riscv64_\w+)\s*\(", open(os.path.join(src, "jit_compiler_rv64_static.hpp")).read())
    missing = [w for w in wanted if w not in syms]
    if missing: raise SystemExit("symbols missing from the assembled runtime: " + ", ".join(missing))
    size = os.path.getsize(blob)

    # 3. host assembly with the blob and the symbols
    hostS = os.path.join(out, "rv64_static_host.S")
    with open(hostS, "w") as f:
        f.write("/* generated by build.py: riscv64 static runtime of %s embedded as data for the host */\n" % src)
        f.write("\t.section .rodata\n\t.balign 64\n\t.globl rv64_static_blob\nrv64_static_blob:\n\t.incbin \"%s\"\n\t.globl rv64_static_blob_end\nrv64_static_blob_end:\n" % blob)
        for w in wanted:
            if syms[w] > size: raise SystemExit("symbol beyond blob: " + w)
            f.write("\t.globl %s\n\t.set %s, rv64_static_blob + %d\n" % (w, w, syms[w]))
        f.write("\t.section .note.GNU-stack,\"\",@progbits\n")
    print("# %d symbols at offsets: %s" % (len(wanted), " ".join("%s=0x%x" % (w.replace("randomx_riscv64_", ""), syms[w]) for w in wanted)))

    # 4. compile + link
    inc = ["-I", src, "-I", os.path.join(VERIF, "src"), "-I", HERE]
    common = ["-O2", "-g0", "-std=c++17", "-DNDEBUG"] + defs
    objs = []
    def cc(srcfile, name, extra):
        o = os.path.join(out, name); sh(["g++", "-c", srcfile, "-o", o] + common + inc + extra); objs.append(o)
    cc(os.path.join(HERE, "jit_rv64_host.cpp"), "jit_rv64_host.o", ["-D__riscv", "-D__riscv_xlen=64", "-fno-access-control", "-Wno-unused-variable"])
    sh(["gcc", "-c", hostS, "-o", os.path.join(out, "rv64_static_host.o")]); objs.append(os.path.join(out, "rv64_static_host.o"))
    cc(os.path.join(HERE, "rv64emu.cpp"), "rv64emu.o", ["-frounding-math", "-Wall", "-Wextra"])
    cc(os.path.join(HERE, "rv64emu_selftest.cpp"), "rv64emu_selftest.o", ["-frounding-math", "-Wall", "-Wextra"])
    cc(os.path.join(VERIF, "src", "checks", "c20.cpp"), "c20.o", ["-maes", "-fno-access-control", "-frounding-math", "-Wall"])
    exe = os.path.join(out, "c20")
    sh(["g++", "-o", exe] + objs + [lib, "-lpthread"])

    # 5. binding checks
    vb, vt = os.path.join(out, "vectors.bin"), os.path.join(out, "vectors.txt")
    print(sh([exe, "--emit-vectors", vb, "--vectors-txt", vt]).strip()[-4000:])
    got = [norm(l) for l in disassemble(vb, os.path.join(out, "vectors.dis"))]
    exp = [l.rstrip("\n") for l in open(vt)]
    bad = [(i, g, e) for i, (g, e) in enumerate(zip(got, exp)) if g != e]
    if len(got) != len(exp) or bad:
        for i, g, e in bad[:20]: sys.stderr.write("vector %d: llvm-objdump prints %r, expected %r\n" % (i, g, e))
        raise SystemExit("BINDING FAILED: %d of %d encoding vectors/templates disagree with llvm-objdump (%d lines vs %d)" % (len(bad), len(exp), len(got), len(exp)))
    print("# binding 1: %d encodings (self-test vectors + emitter templates) print exactly the expected text in llvm-objdump" % len(exp))

    # static blob: code ranges must contain no unknown instruction
    txt = sh([OBJDUMP, "-d", "--mattr=+m,+a,+f,+d,+c", "-M", "no-aliases", "--start-address=0x%x" % syms["randomx_riscv64_data_init"], "--stop-address=0x%x" % (syms["randomx_riscv64_program_end"] + 2), so])
    txt += sh([OBJDUMP, "-d", "--mattr=+m,+a,+f,+d,+c", "-M", "no-aliases", "--start-address=0x%x" % syms["randomx_riscv64_ssh_init"], "--stop-address=0x%x" % (syms["randomx_riscv64_ssh_end"] + 2), so])
    open(os.path.join(out, "rv64_static.dis"), "w").write(txt)
    code_lines = [l for l in txt.split("\n") if re.match(r"^\s+[0-9a-f]+:\s", l)]
    unk = [l for l in code_lines if "<unknown>" in l or "unimp" in l]
    # the word at fix_continue_loop is a placeholder the JIT overwrites with a jump
    unk = [l for l in unk if int(l.split(":")[0], 16) not in (syms["randomx_riscv64_fix_continue_loop"], syms["randomx_riscv64_fix_continue_loop"] + 2)]
    if unk: raise SystemExit("BINDING FAILED: unknown instructions in the static runtime:\n" + "\n".join(unk))
    mn = sorted(set(norm(l).split(" ")[0] for l in code_lines))
    print("# binding 2: static runtime: %d instructions, no unknown encodings; mnemonics: %s" % (len(code_lines), " ".join(mn)))

    eb, et = os.path.join(out, "executed.bin"), os.path.join(out, "executed.txt")
    print(sh([exe, "--dump-exec", eb, "--exec-txt", et, "--dump-code", os.path.join(out, "sample_code_v2_light.bin")]).strip())
    got = [norm(l).split(" ")[0] for l in disassemble(eb, os.path.join(out, "executed.dis"))]
    exp = [l.strip() for l in open(et)]
    bad = [(i, g, e) for i, (g, e) in enumerate(zip(got, exp)) if g != e]
    if len(got) != len(exp) or bad:
        for i, g, e in bad[:20]: sys.stderr.write("executed encoding %d: llvm-objdump says %r, emulator executed it as %r\n" % (i, g, e))
        raise SystemExit("BINDING FAILED: %d of %d executed encodings disagree with llvm-objdump (%d lines)" % (len(bad), len(exp), len(got)))
    print("# binding 3: %d distinct encodings executed by sample programs: llvm-objdump mnemonic == emulator form for all, none unknown" % len(exp))
    print(exe)

if __name__ == "__main__":
    main()
