// rv64emu.hpp - instruction-subset emulator for the RV64GC code produced by RandomX's scalar RISC-V
// JIT back-end (src/jit_compiler_rv64.cpp) and its static runtime (src/jit_compiler_rv64_static.S).
//
// It implements EXACTLY the instruction forms those two sources can produce (derived by going through
// the emitters and the assembled runtime line by line, see FORMS below); every other encoding stops the
// machine with StopKind::UnknownInsn ("unknown RV64 instruction 0x%08x at offset ...") - never a guess.
//
// Guest memory is host memory (identity mapping) restricted to registered ranges with R/W/X rights; an
// access outside stops the machine (LoadFault / StoreFault / FetchFault).
//
// Floating point: host IEEE-754 binary64 SSE2 arithmetic executed with the host MXCSR rounding control
// set from the guest's frm (or the static rm field), FTZ/DAZ off (RISC-V has gradual underflow), results
// that are NaN replaced by the RISC-V canonical NaN.
#pragma once
#include <cstdint>
#include <cstddef>
#include <string>
#include <vector>

namespace rv64emu {

enum : unsigned { PR = 1, PW = 2, PX = 4 };

struct Range { uint64_t lo, hi; unsigned perm; const char* name; };

// Every supported instruction form (63). Deliberately absent although "nearby": add (the constant rv64::ADD is
// never used by an emitter and every `add` of the runtime assembles to c.add), c.fld / c.sd / c.sw / c.lwsp /
// c.swsp / c.addi4spn / c.srai / c.subw / c.addw / c.jalr, jalr, all other loads/stores/branches, OP-32 other
// than addiw, div/rem/mulhsu, F (single), fused multiply-add, conversions other than fcvt.d.w, all A, Zb*, V.
// Every supported instruction form. Names are the LLVM "no-aliases" mnemonics so that the trace can be
// cross-checked against llvm-objdump at build time.
#define RV64EMU_FORMS(X) \
	X(LUI, "lui") X(AUIPC, "auipc") X(JAL, "jal") \
	X(BEQ, "beq") X(BNE, "bne") X(BLTU, "bltu") \
	X(LW, "lw") X(LD, "ld") X(LWU, "lwu") X(SD, "sd") \
	X(ADDI, "addi") X(SLLI, "slli") X(SRLI, "srli") X(ANDI, "andi") X(ADDIW, "addiw") \
	X(SUB, "sub") X(SLL, "sll") X(SRL, "srl") X(XOR, "xor") X(OR, "or") X(AND, "and") \
	X(MUL, "mul") X(MULH, "mulh") X(MULHU, "mulhu") \
	X(FLD, "fld") X(FSD, "fsd") \
	X(FADD_D, "fadd.d") X(FSUB_D, "fsub.d") X(FMUL_D, "fmul.d") X(FDIV_D, "fdiv.d") X(FSQRT_D, "fsqrt.d") \
	X(FSGNJ_D, "fsgnj.d") X(FCVT_D_W, "fcvt.d.w") X(FMV_X_D, "fmv.x.d") X(FMV_D_X, "fmv.d.x") \
	X(CSRRW, "csrrw") \
	X(C_LW, "c.lw") X(C_LD, "c.ld") X(C_FSD, "c.fsd") \
	X(C_NOP, "c.nop") X(C_ADDI, "c.addi") X(C_ADDIW, "c.addiw") X(C_LI, "c.li") X(C_ADDI16SP, "c.addi16sp") X(C_LUI, "c.lui") \
	X(C_SRLI, "c.srli") X(C_ANDI, "c.andi") X(C_SUB, "c.sub") X(C_XOR, "c.xor") X(C_OR, "c.or") X(C_AND, "c.and") \
	X(C_J, "c.j") X(C_BEQZ, "c.beqz") X(C_BNEZ, "c.bnez") \
	X(C_SLLI, "c.slli") X(C_SLLI64, "c.slli64") X(C_FLDSP, "c.fldsp") X(C_LDSP, "c.ldsp") X(C_JR, "c.jr") X(C_MV, "c.mv") X(C_ADD, "c.add") \
	X(C_FSDSP, "c.fsdsp") X(C_SDSP, "c.sdsp")

enum Form : uint8_t {
#define X(id, name) F_##id,
	RV64EMU_FORMS(X)
#undef X
	F_COUNT
};
extern const char* const formName[F_COUNT];

enum class StopKind { Returned, UnknownInsn, ReservedInsn, FetchFault, LoadFault, StoreFault, InsnLimit, BadCsr, BadRounding };

struct Stop {
	StopKind kind = StopKind::Returned;
	uint64_t pc = 0;       // address of the offending instruction
	uint32_t insn = 0;     // its encoding (16-bit forms in the low half)
	uint64_t addr = 0;     // faulting data address (Load/StoreFault)
	unsigned size = 0;
	bool ok() const { return kind == StopKind::Returned; }
	const char* kindName() const;
};

struct Machine {
	uint64_t x[32] = {};
	uint64_t f[32] = {};            // raw IEEE-754 binary64 bit patterns
	uint32_t frm = 0;               // RISC-V encoding: 0 RNE, 1 RTZ, 2 RDN, 3 RUP, 4 RMM, 5-7 reserved
	uint64_t pc = 0;
	uint64_t icount = 0;            // instructions retired (all runs)
	uint64_t nanResults = 0;        // FP results canonicalised to the RISC-V canonical NaN
	uint64_t misaligned = 0;        // naturally-misaligned data accesses (legal on Linux, counted)
	uint64_t formCount[F_COUNT] = {};
	bool traceCsr = false;          // debugging aid: print every frm write to stderr
	std::vector<Range> ranges;

	// Optional execution map: one byte per 2-byte parcel of [execBase, execBase+2*execParcels):
	// 0 = never executed, otherwise Form+1 of the instruction that started there.
	uint8_t* execMap = nullptr; uint64_t execBase = 0; uint64_t execParcels = 0;

	// Optional store tracking: 64-byte lines of [trackLo, trackLo+trackSize) written by the guest are flagged
	// in trackBitmap (one byte per line) and listed once in trackList.
	uint64_t trackLo = 0, trackSize = 0; uint8_t* trackBitmap = nullptr; std::vector<uint32_t> trackList;

	static constexpr uint64_t ReturnMagic = 0x00005EED0000C0DEull;   // x1 at entry; never inside a range

	void clearRanges() { ranges.clear(); lc = sc = fc = Range{ 1, 0, 0, "" }; }
	void addRange(const void* p, size_t n, unsigned perm, const char* name) { ranges.push_back(Range{ (uint64_t)(uintptr_t)p, (uint64_t)(uintptr_t)p + n, perm, name }); }
	const Range* findRange(uint64_t a) const { for (auto& r : ranges) if (a >= r.lo && a < r.hi) return &r; return nullptr; }

	// Executes from `entry` with x1 = ReturnMagic until control reaches ReturnMagic (Returned), an
	// unsupported encoding, a memory-rights violation, or maxInsns instructions.
	Stop run(uint64_t entry, uint64_t maxInsns);

	// RandomX rounding mode number (0 nearest, 1 down, 2 up, 3 toward zero) <-> frm
	static uint32_t frmFromRandomX(uint32_t m) { static const uint32_t t[4] = { 0, 2, 3, 1 }; return t[m & 3]; }
	static int randomXFromFrm(uint32_t frm) { static const int t[8] = { 0, 3, 1, 2, -1, -1, -1, -1 }; return t[frm & 7]; }

private:
	Range lc{ 1, 0, 0, "" }, sc{ 1, 0, 0, "" }, fc{ 1, 0, 0, "" };
	inline bool chk(Range& c, uint64_t a, unsigned n, unsigned perm) {
		if (a >= c.lo && a + n <= c.hi) return true;
		for (auto& r : ranges) if ((r.perm & perm) && a >= r.lo && a + n <= r.hi && a + n > a) { c = r; return true; }
		return false;
	}
};

// Self-test of every supported form against independent formulas over boundary operands.
// Returns the number of failed comparisons (0 = pass); prints failures to stderr.
// If vectorsBin/vectorsTxt are non-null, also writes one encoding per supported form variant into
// vectorsBin and the expected LLVM disassembly ("mnemonic operands") per line into vectorsTxt, for the
// build-time cross-check with llvm-objdump.
int selftest(bool verbose, const char* vectorsBin = nullptr, const char* vectorsTxt = nullptr);

} // namespace rv64emu
