// rv64_glue.hpp - what the host-compiled RV64 JIT translation unit (jit_rv64_host.cpp) exports to the
// harness besides the class randomx::JitCompilerRV64 itself (declared in /repo/src/jit_compiler_rv64.hpp,
// which a host TU can include directly: its layout does not depend on __riscv).
#pragma once
#include <cstdint>
#include <cstddef>
#include <vector>
#include <string>

namespace rv64glue {

// layout constants of the code buffer, taken from the file-static constants of jit_compiler_rv64.cpp
struct Layout {
	uint32_t codeSize;              // CodeSize
	uint32_t literalPoolSize;       // LiteralPoolSize (the program code starts here: entryDataInit)
	uint32_t literalPoolOffset;     // LiteralPoolOffset (x3 points here)
	uint32_t loopTopPos;            // LoopTopPos
	uint32_t randomXCodePos;        // RandomXCodePos: first emitted program instruction
	uint32_t randomXCodeSize;       // RandomXCodeSize
	uint32_t superScalarHashOffset; // SuperScalarHashOffset
	uint32_t sshLiteralPoolRefOffset;
	uint32_t sizeDataInit, sizePrologue, sizeLoopBegin;
	uint32_t maxRandomXInstrCodeSize;
	bool zba, zbb;                  // __riscv_zba / __riscv_zbb seen by the JIT TU (must be false: RV64GC baseline)
	bool hasRVV;                    // what the JIT TU's cpu-feature object answers (must be false: scalar path)
};
Layout layout();

// One template per opcode constant of namespace rv64:: in jit_compiler_rv64.cpp, instantiated through the
// source's own rvi()/rvc() helpers with sample operands. `comment` is the mnemonic the source comment
// claims, `llvm` is the exact text llvm-objdump -M no-aliases must print for the encoding.
struct Template { const char* constant; const char* comment; uint32_t enc; int len; const char* llvm; };
std::vector<Template> templates();

// position (inside the code buffer) just after the last byte emitted by the last generateProgram*()
int32_t codePosAfterProgram(const void* jitCompilerRV64);

} // namespace rv64glue
