// rv64emu_selftest.cpp - binds the emulator to the architecture:
//  (a) every supported instruction form is assembled here by a generic, table-driven encoder transcribed
//      from the ISA manual's format tables (NOT shared with the decoder), executed by the emulator over
//      boundary operands, and compared with an independent reference formula written in a different
//      style (bit-serial shifts, 32-bit-limb multiplication, fesetround()+C arithmetic, known answers);
//  (b) the same encodings plus the text LLVM must print for them are written to files so the build can
//      run llvm-objdump over them (mnemonic, operands, immediates and branch targets must all match);
//  (c) encodings outside the supported set (Zba/Zbb/Zicbop, A, div/rem, RV64 word ops, flw, fmadd, jalr,
//      ecall, ...) must be refused with UnknownInsn, and memory rights must be enforced.
#include "rv64emu.hpp"
#include <cstdio>
#include <cstring>
#include <cstdlib>
#include <cstdarg>
#include <cfenv>
#include <cmath>
#include <string>
#include <vector>
#include <functional>
#include <sys/mman.h>
#include <xmmintrin.h>

namespace rv64emu {
namespace {

const char* XN[32] = { "zero","ra","sp","gp","tp","t0","t1","t2","s0","s1","a0","a1","a2","a3","a4","a5","a6","a7","s2","s3","s4","s5","s6","s7","s8","s9","s10","s11","t3","t4","t5","t6" };
const char* FN[32] = { "ft0","ft1","ft2","ft3","ft4","ft5","ft6","ft7","fs0","fs1","fa0","fa1","fa2","fa3","fa4","fa5","fa6","fa7","fs2","fs3","fs4","fs5","fs6","fs7","fs8","fs9","fs10","fs11","ft8","ft9","ft10","ft11" };
const char* RMN[8] = { "rne","rtz","rdn","rup","rmm","?","?","dyn" };

// ---- generic encoders (ISA manual, "Base Instruction Formats" and "RVC instruction formats")
uint32_t bitsOf(int64_t v, int hi, int lo) { return (uint32_t)(((uint64_t)v >> lo) & ((1ull << (hi - lo + 1)) - 1)); }
uint32_t encR(unsigned f7, unsigned rs2, unsigned rs1, unsigned f3, unsigned rd, unsigned opc) { return (f7 << 25) | (rs2 << 20) | (rs1 << 15) | (f3 << 12) | (rd << 7) | opc; }
uint32_t encI(int64_t imm, unsigned rs1, unsigned f3, unsigned rd, unsigned opc) { return (bitsOf(imm, 11, 0) << 20) | (rs1 << 15) | (f3 << 12) | (rd << 7) | opc; }
uint32_t encS(int64_t imm, unsigned rs2, unsigned rs1, unsigned f3, unsigned opc) { return (bitsOf(imm, 11, 5) << 25) | (rs2 << 20) | (rs1 << 15) | (f3 << 12) | (bitsOf(imm, 4, 0) << 7) | opc; }
uint32_t encB(int64_t imm, unsigned rs2, unsigned rs1, unsigned f3, unsigned opc) { return (bitsOf(imm, 12, 12) << 31) | (bitsOf(imm, 10, 5) << 25) | (rs2 << 20) | (rs1 << 15) | (f3 << 12) | (bitsOf(imm, 4, 1) << 8) | (bitsOf(imm, 11, 11) << 7) | opc; }
uint32_t encU(int64_t imm20, unsigned rd, unsigned opc) { return (bitsOf(imm20, 19, 0) << 12) | (rd << 7) | opc; }
uint32_t encJ(int64_t imm, unsigned rd, unsigned opc) { return (bitsOf(imm, 20, 20) << 31) | (bitsOf(imm, 10, 1) << 21) | (bitsOf(imm, 11, 11) << 20) | (bitsOf(imm, 19, 12) << 12) | (rd << 7) | opc; }
// RVC: place immediate bits, listed from the most significant instruction bit of the field downwards
uint16_t scatter(int64_t imm, std::initializer_list<int> immBits, int topInsnBit) {
	uint16_t r = 0; int b = topInsnBit;
	for (int ib : immBits) { r |= (uint16_t)((((uint64_t)imm >> ib) & 1) << b); --b; }
	return r;
}

// ---- reference arithmetic, deliberately not the emulator's expressions
uint64_t refShl(uint64_t v, unsigned n) { for (unsigned i = 0; i < n; ++i) v += v; return v; }
uint64_t refShr(uint64_t v, unsigned n) { for (unsigned i = 0; i < n; ++i) v /= 2; return v; }
uint64_t refSext32(uint64_t v) { v &= 0xffffffffull; return (v & 0x80000000ull) ? (v | 0xffffffff00000000ull) : v; }
void refMulU(uint64_t a, uint64_t b, uint64_t& hi, uint64_t& lo) {
	uint64_t a0 = a & 0xffffffff, a1 = a >> 32, b0 = b & 0xffffffff, b1 = b >> 32;
	uint64_t p00 = a0 * b0, p01 = a0 * b1, p10 = a1 * b0, p11 = a1 * b1;
	uint64_t mid = (p00 >> 32) + (p01 & 0xffffffff) + (p10 & 0xffffffff);
	lo = (p00 & 0xffffffff) | (mid << 32);
	hi = p11 + (p01 >> 32) + (p10 >> 32) + (mid >> 32);
}
uint64_t refMulhu(uint64_t a, uint64_t b) { uint64_t h, l; refMulU(a, b, h, l); return h; }
uint64_t refMul(uint64_t a, uint64_t b) { uint64_t h, l; refMulU(a, b, h, l); return l; }
uint64_t refMulh(uint64_t a, uint64_t b) { uint64_t h = refMulhu(a, b); if (a >> 63) h -= b; if (b >> 63) h -= a; return h; }

const uint64_t IV[] = { 0, 1, 2, 3, 31, 32, 33, 63, 64, 65, 0x7ff, 0x800, 0xfff, 0x1000, 0x7fffffffull, 0x80000000ull, 0xffffffffull, 0x100000000ull,
	0x7fffffffffffffffull, 0x8000000000000000ull, 0xffffffffffffffffull, 0xfffffffffffff800ull, 0xffffffff80000000ull, 0x123456789abcdef0ull, 0xfedcba9876543210ull, 0x5555555555555555ull, 0xaaaaaaaaaaaaaaaaull };
const int NIV = sizeof(IV) / sizeof(IV[0]);
const int64_t I12[] = { 0, 1, -1, 2, 12, 56, 64, 240, 255, 1023, 1024, 2047, -2048, -2047, -64, -224, 0x555, -0x556 };
const int NI12 = sizeof(I12) / sizeof(I12[0]);

struct Bench {
	Machine m;
	uint8_t* code;                 // 8 KiB, every parcel = c.jr ra unless overwritten
	static const size_t CodeSize = 8192, Mid = 4096;
	alignas(64) uint8_t data[512];
	std::vector<uint8_t> emap;
	int fails = 0, checks = 0;
	bool verbose = false;
	std::vector<uint8_t> vecBin; std::vector<std::string> vecTxt;

	Bench() {
		code = (uint8_t*)mmap(nullptr, CodeSize, PROT_READ | PROT_WRITE, MAP_PRIVATE | MAP_ANONYMOUS, -1, 0);
		emap.resize(CodeSize / 2);
	}
	~Bench() { munmap(code, CodeSize); }
	void reset() {
		for (size_t i = 0; i < CodeSize; i += 2) { code[i] = 0x82; code[i + 1] = 0x80; }
		memset(m.x, 0, sizeof m.x); memset(m.f, 0, sizeof m.f); m.frm = 0;
		std::fill(emap.begin(), emap.end(), 0);
		m.clearRanges();
		m.addRange(code, CodeSize, PR | PX, "code");
		m.addRange(data, sizeof data, PR | PW, "data");
		m.execMap = emap.data(); m.execBase = (uint64_t)(uintptr_t)code; m.execParcels = CodeSize / 2;
	}
	void put(uint32_t enc, int len) { memcpy(code + Mid, &enc, (size_t)len); }
	// runs the instruction at code+Mid; returns the landing offset relative to Mid (pc of the c.jr that returned)
	Stop go(int64_t* landing = nullptr) {
		Stop s = m.run((uint64_t)(uintptr_t)(code + Mid), 4);
		if (landing) {
			*landing = INT64_MIN;
			for (size_t i = 0; i < emap.size(); ++i) if (emap[i] == F_C_JR + 1 && (int64_t)(2 * i) != (int64_t)Mid) *landing = (int64_t)(2 * i) - (int64_t)Mid;
			if (*landing == INT64_MIN && emap[Mid / 2] == F_C_JR + 1) *landing = 0;
		}
		return s;
	}
	void expect(bool ok, const char* form, const std::string& what) {
		++checks;
		if (!ok) { ++fails; if (fails <= 40) fprintf(stderr, "rv64emu selftest FAIL [%s] %s\n", form, what.c_str()); }
	}
	void vec(uint32_t enc, int len, const std::string& text) {
		// text may contain "@+N"/"@-N" = pc-relative target, replaced by the absolute offset inside the vector file
		std::string t = text; size_t at = t.find('@');
		if (at != std::string::npos) {
			long long off = atoll(t.c_str() + at + 1);
			char b[40]; snprintf(b, sizeof b, "0x%llx", (unsigned long long)((long long)vecBin.size() + off));
			t = t.substr(0, at) + b;
		}
		for (int i = 0; i < len; ++i) vecBin.push_back((uint8_t)(enc >> (8 * i)));
		vecTxt.push_back(t);
	}
};

std::string S(const char* fmt, ...) __attribute__((format(printf, 1, 2)));
std::string S(const char* fmt, ...) { char b[256]; va_list ap; va_start(ap, fmt); vsnprintf(b, sizeof b, fmt, ap); va_end(ap); return b; }
#define HX(v) (unsigned long long)(v)

// expected = f(a, b); instruction executed with x[rs1]=a, x[rs2]=b, result read from x[rd]
void testR(Bench& B, Form form, const char* mn, unsigned f7, unsigned f3, const std::function<uint64_t(uint64_t, uint64_t)>& ref) {
	struct { unsigned rd, rs1, rs2; } regs[] = { { 16, 16, 17 }, { 8, 9, 8 }, { 9, 23, 0 }, { 0, 5, 6 }, { 31, 30, 29 }, { 8, 0, 16 } };
	for (auto& rg : regs) {
		uint32_t enc = encR(f7, rg.rs2, rg.rs1, f3, rg.rd, 0x33);
		B.vec(enc, 4, S("%s %s, %s, %s", mn, XN[rg.rd], XN[rg.rs1], XN[rg.rs2]));
		for (int i = 0; i < NIV; ++i) for (int j = 0; j < NIV; ++j) {
			B.reset(); B.put(enc, 4);
			B.m.x[rg.rs1] = IV[i]; B.m.x[rg.rs2] = IV[j]; B.m.x[0] = 0;
			uint64_t a = rg.rs1 ? B.m.x[rg.rs1] : 0, b = rg.rs2 ? B.m.x[rg.rs2] : 0;
			if (rg.rs1 == rg.rs2) a = b = B.m.x[rg.rs1];
			uint64_t before = B.m.formCount[form];
			int64_t land; Stop s = B.go(&land);
			uint64_t want = rg.rd ? ref(a, b) : 0;
			B.expect(s.ok() && land == 4 && B.m.x[rg.rd] == want && B.m.x[0] == 0 && B.m.formCount[form] == before + 1, mn,
				S("enc %08x a=%llx b=%llx got %llx want %llx stop=%s land=%lld", enc, HX(a), HX(b), HX(B.m.x[rg.rd]), HX(want), s.kindName(), (long long)land));
		}
	}
}

void testI(Bench& B, Form form, const char* mn, unsigned opc, unsigned f3, const std::function<uint64_t(uint64_t, int64_t)>& ref) {
	struct { unsigned rd, rs1; } regs[] = { { 8, 16 }, { 9, 9 }, { 0, 8 }, { 5, 5 }, { 3, 3 }, { 9, 0 } };
	for (auto& rg : regs) for (int k = 0; k < NI12; ++k) {
		uint32_t enc = encI(I12[k], rg.rs1, f3, rg.rd, opc);
		B.vec(enc, 4, S("%s %s, %s, %lld", mn, XN[rg.rd], XN[rg.rs1], (long long)I12[k]));
		for (int i = 0; i < NIV; ++i) {
			B.reset(); B.put(enc, 4);
			B.m.x[rg.rs1] = IV[i];
			uint64_t a = rg.rs1 ? IV[i] : 0;
			uint64_t before = B.m.formCount[form];
			int64_t land; Stop s = B.go(&land);
			uint64_t want = rg.rd ? ref(a, I12[k]) : 0;
			B.expect(s.ok() && land == 4 && B.m.x[rg.rd] == want && B.m.formCount[form] == before + 1, mn,
				S("enc %08x a=%llx imm=%lld got %llx want %llx stop=%s", enc, HX(a), (long long)I12[k], HX(B.m.x[rg.rd]), HX(want), s.kindName()));
		}
	}
}

void testShiftImm(Bench& B, Form form, const char* mn, unsigned f3, bool left) {
	for (unsigned sh = 0; sh < 64; ++sh) {
		unsigned rd = 8 + (sh & 1), rs1 = 16 + (sh & 7);
		uint32_t enc = encI((int64_t)sh, rs1, f3, rd, 0x13);
		B.vec(enc, 4, S("%s %s, %s, %u", mn, XN[rd], XN[rs1], sh));
		for (int i = 0; i < NIV; ++i) {
			B.reset(); B.put(enc, 4); B.m.x[rs1] = IV[i];
			uint64_t before = B.m.formCount[form];
			int64_t land; Stop s = B.go(&land);
			uint64_t want = left ? refShl(IV[i], sh) : refShr(IV[i], sh);
			B.expect(s.ok() && land == 4 && B.m.x[rd] == want && B.m.formCount[form] == before + 1, mn, S("enc %08x a=%llx sh=%u got %llx want %llx", enc, HX(IV[i]), sh, HX(B.m.x[rd]), HX(want)));
		}
	}
}

uint64_t dbits(double d) { uint64_t u; memcpy(&u, &d, 8); return u; }
double bitsd(uint64_t u) { double d; memcpy(&d, &u, 8); return d; }

const uint64_t FV[] = {
	0x0000000000000000ull, 0x8000000000000000ull, 0x3ff0000000000000ull, 0xbff0000000000000ull, 0x3ff0000000000001ull, 0x3fefffffffffffffull,
	0x4000000000000000ull, 0x4008000000000000ull, 0x3fd5555555555555ull, 0x3ca0000000000000ull /*2^-53*/, 0xbca0000000000000ull, 0x3c90000000000001ull,
	0x41dfffffffc00000ull /*2147483647*/, 0xc1e0000000000000ull /*-2^31*/, 0x7fefffffffffffffull, 0xffefffffffffffffull, 0x7ff0000000000000ull, 0xfff0000000000000ull,
	0x0010000000000000ull /*min normal*/, 0x000fffffffffffffull /*max subnormal*/, 0x0000000000000001ull, 0x8000000000000001ull, 0x7ff8000000000000ull, 0xfff8000000000001ull, 0x7ff0000000000001ull /*sNaN*/,
	0x3ff6a09e667f3bcdull, 0x40f86a0000000001ull, 0x4341c37937e08000ull, 0x3e112e0be826d695ull, 0x433fffffffffffffull,
	0x3fb999999999999aull /*0.1*/, 0x4024000000000000ull /*10*/, 0x5fe0000000000001ull, 0x2000000000000003ull,
};
const int NFV = sizeof(FV) / sizeof(FV[0]);
const int FE_MODE[4] = { FE_TONEAREST, FE_TOWARDZERO, FE_DOWNWARD, FE_UPWARD };   // indexed by RISC-V rm

uint64_t refFp(int which, uint64_t a, uint64_t b, unsigned rvrm) {
	unsigned saved = _mm_getcsr();
	_mm_setcsr(0x1F80);   // IEEE defaults, no FTZ/DAZ
	fesetround(FE_MODE[rvrm]);
	volatile double x = bitsd(a), y = bitsd(b), r;
	switch (which) { case 0: r = x + y; break; case 1: r = x - y; break; case 2: r = x * y; break; case 3: r = x / y; break; default: r = std::sqrt(x); break; }
	uint64_t u = dbits(r);
	_mm_setcsr(saved);
	if (std::isnan(bitsd(u))) u = 0x7ff8000000000000ull;   // RISC-V canonical NaN (manual: "Except when otherwise stated, if the result of a floating-point operation is NaN, it is the canonical NaN")
	return u;
}

void testFpArith(Bench& B, Form form, const char* mn, unsigned f7, int which) {
	const bool unary = which == 4;
	for (unsigned rmField : { 7u, 0u, 1u, 2u, 3u }) for (unsigned frm = 0; frm < 4; ++frm) {
		if (rmField != 7 && frm != 1 && frm != 2) continue;   // static modes: two ambient modes suffice
		unsigned rd = 8 + frm, rs1 = rd, rs2 = unary ? 0 : 16 + frm;
		if (rmField == 1) { rd = 24; rs1 = 0; rs2 = unary ? 0 : 25; }
		uint32_t enc = encR(f7, rs2, rs1, rmField, rd, 0x53);
		if (unary) B.vec(enc, 4, S("%s %s, %s, %s", mn, FN[rd], FN[rs1], RMN[rmField]));
		else B.vec(enc, 4, S("%s %s, %s, %s, %s", mn, FN[rd], FN[rs1], FN[rs2], RMN[rmField]));
		unsigned eff = rmField == 7 ? frm : rmField;
		for (int i = 0; i < NFV; ++i) for (int j = 0; j < (unary ? 1 : NFV); ++j) {
			B.reset(); B.put(enc, 4); B.m.frm = frm;
			B.m.f[rs1] = FV[i]; if (!unary) B.m.f[rs2] = FV[j];
			uint64_t a = B.m.f[rs1], b = unary ? 0 : B.m.f[rs2];
			unsigned hostBefore = _mm_getcsr();
			int64_t land; Stop s = B.go(&land);
			uint64_t want = refFp(which, a, b, eff);
			B.expect(s.ok() && land == 4 && B.m.f[rd] == want && (_mm_getcsr() & 0xffc0u) == (hostBefore & 0xffc0u) && B.m.frm == frm, mn,
				S("enc %08x frm=%u a=%016llx b=%016llx got %016llx want %016llx stop=%s land=%lld csr %x/%x frm=%u", enc, frm, HX(a), HX(b), HX(B.m.f[rd]), HX(want), s.kindName(), (long long)land, _mm_getcsr(), hostBefore, B.m.frm));
		}
	}
	(void)form;
}

struct KA { int which; unsigned rm; uint64_t a, b, want; };
const KA KNOWN[] = {
	// 1/3
	{ 3, 0, 0x3ff0000000000000ull, 0x4008000000000000ull, 0x3fd5555555555555ull }, { 3, 1, 0x3ff0000000000000ull, 0x4008000000000000ull, 0x3fd5555555555555ull },
	{ 3, 2, 0x3ff0000000000000ull, 0x4008000000000000ull, 0x3fd5555555555555ull }, { 3, 3, 0x3ff0000000000000ull, 0x4008000000000000ull, 0x3fd5555555555556ull },
	// -1/3
	{ 3, 2, 0xbff0000000000000ull, 0x4008000000000000ull, 0xbfd5555555555556ull }, { 3, 3, 0xbff0000000000000ull, 0x4008000000000000ull, 0xbfd5555555555555ull },
	{ 3, 1, 0xbff0000000000000ull, 0x4008000000000000ull, 0xbfd5555555555555ull },
	// 1 + 2^-53 (a tie)
	{ 0, 0, 0x3ff0000000000000ull, 0x3ca0000000000000ull, 0x3ff0000000000000ull }, { 0, 1, 0x3ff0000000000000ull, 0x3ca0000000000000ull, 0x3ff0000000000000ull },
	{ 0, 2, 0x3ff0000000000000ull, 0x3ca0000000000000ull, 0x3ff0000000000000ull }, { 0, 3, 0x3ff0000000000000ull, 0x3ca0000000000000ull, 0x3ff0000000000001ull },
	// -1 - 2^-53
	{ 1, 0, 0xbff0000000000000ull, 0x3ca0000000000000ull, 0xbff0000000000000ull }, { 1, 1, 0xbff0000000000000ull, 0x3ca0000000000000ull, 0xbff0000000000000ull },
	{ 1, 2, 0xbff0000000000000ull, 0x3ca0000000000000ull, 0xbff0000000000001ull }, { 1, 3, 0xbff0000000000000ull, 0x3ca0000000000000ull, 0xbff0000000000000ull },
	// sqrt(2): the nearest double is above the true value
	{ 4, 0, 0x4000000000000000ull, 0, 0x3ff6a09e667f3bcdull }, { 4, 1, 0x4000000000000000ull, 0, 0x3ff6a09e667f3bccull },
	{ 4, 2, 0x4000000000000000ull, 0, 0x3ff6a09e667f3bccull }, { 4, 3, 0x4000000000000000ull, 0, 0x3ff6a09e667f3bcdull },
	// 0.1 * 10 = 1.0000000000000000555 exactly
	{ 2, 0, 0x3fb999999999999aull, 0x4024000000000000ull, 0x3ff0000000000000ull }, { 2, 3, 0x3fb999999999999aull, 0x4024000000000000ull, 0x3ff0000000000001ull },
	{ 2, 2, 0x3fb999999999999aull, 0x4024000000000000ull, 0x3ff0000000000000ull },
	// gradual underflow (no flush to zero), overflow per mode, canonical NaN
	{ 2, 0, 0x0010000000000000ull, 0x3fe0000000000000ull, 0x0008000000000000ull }, { 0, 0, 0x0000000000000001ull, 0x0000000000000001ull, 0x0000000000000002ull },
	{ 2, 0, 0x7fefffffffffffffull, 0x4000000000000000ull, 0x7ff0000000000000ull }, { 2, 1, 0x7fefffffffffffffull, 0x4000000000000000ull, 0x7fefffffffffffffull },
	{ 2, 2, 0x7fefffffffffffffull, 0x4000000000000000ull, 0x7fefffffffffffffull }, { 2, 3, 0x7fefffffffffffffull, 0x4000000000000000ull, 0x7ff0000000000000ull },
	{ 3, 0, 0x0000000000000000ull, 0x0000000000000000ull, 0x7ff8000000000000ull }, { 1, 0, 0x7ff0000000000000ull, 0x7ff0000000000000ull, 0x7ff8000000000000ull },
	{ 4, 0, 0xbff0000000000000ull, 0, 0x7ff8000000000000ull }, { 0, 0, 0xfff8000000000001ull, 0x3ff0000000000000ull, 0x7ff8000000000000ull },
	{ 3, 0, 0x3ff0000000000000ull, 0x0000000000000000ull, 0x7ff0000000000000ull }, { 3, 0, 0x3ff0000000000000ull, 0x8000000000000000ull, 0xfff0000000000000ull },
	// x - x is +0 except when rounding down
	{ 1, 0, 0x3ff0000000000000ull, 0x3ff0000000000000ull, 0x0000000000000000ull }, { 1, 2, 0x3ff0000000000000ull, 0x3ff0000000000000ull, 0x8000000000000000ull },
};

void put16(Bench& B, uint16_t e) { B.put(e, 2); }

} // namespace

int selftest(bool verbose, const char* vectorsBin, const char* vectorsTxt) {
	Bench B; B.verbose = verbose;
	unsigned hostCsr = _mm_getcsr();

	// ------------------------------------------------------------------ RV64I register-register, M
	testR(B, F_SUB, "sub", 0x20, 0, [](uint64_t a, uint64_t b) { return a + (~b + 1); });
	testR(B, F_SLL, "sll", 0x00, 1, [](uint64_t a, uint64_t b) { return refShl(a, (unsigned)(b % 64)); });
	testR(B, F_SRL, "srl", 0x00, 5, [](uint64_t a, uint64_t b) { return refShr(a, (unsigned)(b % 64)); });
	testR(B, F_XOR, "xor", 0x00, 4, [](uint64_t a, uint64_t b) { return (a | b) - (a & b); });
	testR(B, F_OR, "or", 0x00, 6, [](uint64_t a, uint64_t b) { return ~(~a & ~b); });
	testR(B, F_AND, "and", 0x00, 7, [](uint64_t a, uint64_t b) { return ~(~a | ~b); });
	testR(B, F_MUL, "mul", 0x01, 0, [](uint64_t a, uint64_t b) { return refMul(a, b); });
	testR(B, F_MULH, "mulh", 0x01, 1, [](uint64_t a, uint64_t b) { return refMulh(a, b); });
	testR(B, F_MULHU, "mulhu", 0x01, 3, [](uint64_t a, uint64_t b) { return refMulhu(a, b); });
	// ------------------------------------------------------------------ immediates
	testI(B, F_ADDI, "addi", 0x13, 0, [](uint64_t a, int64_t i) { return a + (uint64_t)i; });
	testI(B, F_ANDI, "andi", 0x13, 7, [](uint64_t a, int64_t i) { return ~(~a | ~(uint64_t)i); });
	testI(B, F_ADDIW, "addiw", 0x1b, 0, [](uint64_t a, int64_t i) { return refSext32(a + (uint64_t)i); });
	testShiftImm(B, F_SLLI, "slli", 1, true);
	testShiftImm(B, F_SRLI, "srli", 5, false);
	// ------------------------------------------------------------------ lui / auipc
	for (int64_t v : { (int64_t)0, (int64_t)1, (int64_t)31, (int64_t)32, (int64_t)0x7ffff, (int64_t)0x80000, (int64_t)0xfffff, (int64_t)0xfffe0, (int64_t)0x02000 }) for (unsigned rd : { 8u, 9u, 3u, 31u, 0u }) {
		uint64_t want = (uint64_t)v * 4096; if (v & 0x80000) want |= 0xffffffff00000000ull;
		uint32_t enc = encU(v, rd, 0x37);
		B.vec(enc, 4, S("lui %s, %lld", XN[rd], (long long)v));
		B.reset(); B.put(enc, 4); int64_t land; Stop s = B.go(&land);
		B.expect(s.ok() && land == 4 && B.m.x[rd] == (rd ? want : 0), "lui", S("enc %08x got %llx want %llx", enc, HX(B.m.x[rd]), HX(want)));
		enc = encU(v, rd, 0x17);
		B.vec(enc, 4, S("auipc %s, %lld", XN[rd], (long long)v));
		B.reset(); B.put(enc, 4); s = B.go(&land);
		uint64_t pcv = (uint64_t)(uintptr_t)(B.code + Bench::Mid);
		B.expect(s.ok() && land == 4 && B.m.x[rd] == (rd ? pcv + want : 0), "auipc", S("enc %08x got %llx want %llx", enc, HX(B.m.x[rd]), HX(pcv + want)));
	}
	// ------------------------------------------------------------------ jal, branches
	for (int64_t off : { (int64_t)2, (int64_t)4, (int64_t)6, (int64_t)-2, (int64_t)-4, (int64_t)2046, (int64_t)2048, (int64_t)-2048, (int64_t)-2050, (int64_t)4094, (int64_t)-4096, (int64_t)0x554, (int64_t)-0xaaa }) for (unsigned rd : { 0u, 1u, 8u }) {
		uint32_t enc = encJ(off, rd, 0x6f);
		B.vec(enc, 4, S("jal %s, @%+lld", XN[rd], (long long)off));
		B.reset(); B.put(enc, 4);
		// rd = ra would clobber the return magic: make the landing c.jr use the link only when rd != 1
		int64_t land; Stop s = B.m.run((uint64_t)(uintptr_t)(B.code + Bench::Mid), 1);   // one instruction only
		land = (int64_t)(B.m.pc - (uint64_t)(uintptr_t)(B.code + Bench::Mid));
		uint64_t link = (uint64_t)(uintptr_t)(B.code + Bench::Mid) + 4;
		B.expect(s.kind == StopKind::InsnLimit && land == off && (rd == 0 || B.m.x[rd] == link) && B.m.x[0] == 0, "jal", S("enc %08x off %lld landed %lld x[rd]=%llx", enc, (long long)off, (long long)land, HX(B.m.x[rd])));
	}
	{
		struct Br { Form f; const char* mn; unsigned f3; std::function<bool(uint64_t, uint64_t)> ref; } brs[] = {
			{ F_BEQ, "beq", 0, [](uint64_t a, uint64_t b) { return !(a < b) && !(b < a); } },
			{ F_BNE, "bne", 1, [](uint64_t a, uint64_t b) { return (a < b) || (b < a); } },
			{ F_BLTU, "bltu", 6, [](uint64_t a, uint64_t b) { return (a >> 1) < (b >> 1) || ((a >> 1) == (b >> 1) && (a & 1) < (b & 1)); } },
		};
		for (auto& br : brs) for (int64_t off : { (int64_t)8, (int64_t)-8, (int64_t)-258, (int64_t)-4096, (int64_t)4094, (int64_t)-2048, (int64_t)2048, (int64_t)-1366, (int64_t)0x2aa }) {
			struct { unsigned rs1, rs2; } rg[] = { { 8, 0 }, { 16, 17 }, { 24, 0 } };
			for (auto& r : rg) {
				uint32_t enc = encB(off, r.rs2, r.rs1, br.f3, 0x63);
				B.vec(enc, 4, S("%s %s, %s, @%+lld", br.mn, XN[r.rs1], XN[r.rs2], (long long)off));
				for (int i = 0; i < NIV; ++i) for (int j = 0; j < NIV; j += (r.rs2 ? 1 : NIV)) {
					B.reset(); B.put(enc, 4); B.m.x[r.rs1] = IV[i]; if (r.rs2) B.m.x[r.rs2] = IV[j];
					uint64_t b = r.rs2 ? IV[j] : 0;
					int64_t land; Stop s = B.go(&land);
					int64_t want = br.ref(IV[i], b) ? off : 4;
					B.expect(s.ok() && land == want, br.mn, S("enc %08x a=%llx b=%llx landed %lld want %lld", enc, HX(IV[i]), HX(b), (long long)land, (long long)want));
				}
			}
		}
	}
	// ------------------------------------------------------------------ loads / stores (32-bit forms)
	{
		for (int64_t off : { (int64_t)0, (int64_t)8, (int64_t)92, (int64_t)-2048, (int64_t)2040, (int64_t)1024, (int64_t)-8, (int64_t)4 }) {
			for (int k = 0; k < 512; ++k) B.data[k] = (uint8_t)(k * 37 + 11) | ((k & 4) ? 0x80 : 0);
			uint8_t* tgt = B.data + 256;
			struct { Form f; const char* mn; unsigned f3; int n; bool sign; bool fp; } lds[] = { { F_LW, "lw", 2, 4, true, false }, { F_LD, "ld", 3, 8, false, false }, { F_LWU, "lwu", 6, 4, false, false }, { F_FLD, "fld", 3, 8, false, true } };
			for (auto& ld : lds) for (unsigned rd : { 8u, 9u, 0u, 31u }) {
				if (ld.n == 8 && (off & 7)) continue;
				unsigned rs1 = rd == 9 ? 9 : 3;
				uint32_t enc = encI(off, rs1, ld.f3, rd, ld.fp ? 0x07 : 0x03);
				B.vec(enc, 4, S("%s %s, %lld(%s)", ld.mn, ld.fp ? FN[rd] : XN[rd], (long long)off, XN[rs1]));
				B.reset(); B.put(enc, 4); B.m.x[rs1] = (uint64_t)(uintptr_t)tgt - (uint64_t)off;
				int64_t land; Stop s = B.go(&land);
				uint64_t want = 0; for (int q = ld.n - 1; q >= 0; --q) want = want * 256 + tgt[q];
				if (ld.sign && (want & 0x80000000ull)) want |= 0xffffffff00000000ull;
				uint64_t got = ld.fp ? B.m.f[rd] : B.m.x[rd];
				if (!ld.fp && rd == 0) want = 0;
				B.expect(s.ok() && land == 4 && got == want, ld.mn, S("enc %08x got %llx want %llx stop %s", enc, HX(got), HX(want), s.kindName()));
			}
			for (bool fp : { false, true }) for (unsigned rs2 : { 8u, 16u, 0u, 23u }) {
				if (off & 7) continue;
				uint32_t enc = encS(off, rs2, 9, 3, fp ? 0x27 : 0x23);
				B.vec(enc, 4, S("%s %s, %lld(%s)", fp ? "fsd" : "sd", fp ? FN[rs2] : XN[rs2], (long long)off, XN[9]));
				B.reset(); B.put(enc, 4); B.m.x[9] = (uint64_t)(uintptr_t)tgt - (uint64_t)off;
				uint64_t val = 0x1122334455667788ull + rs2; B.m.x[rs2] = val; B.m.f[rs2] = ~val; B.m.x[0] = 0;
				uint8_t shadow[512]; memcpy(shadow, B.data, 512);
				uint64_t w = fp ? ~val : (rs2 ? val : 0);
				for (int q = 0; q < 8; ++q) shadow[256 + q] = (uint8_t)(w >> (8 * q));
				int64_t land; Stop s = B.go(&land);
				B.expect(s.ok() && land == 4 && !memcmp(shadow, B.data, 512), fp ? "fsd" : "sd", S("enc %08x", enc));
			}
		}
	}
	// ------------------------------------------------------------------ D extension
	testFpArith(B, F_FADD_D, "fadd.d", 0x01, 0);
	testFpArith(B, F_FSUB_D, "fsub.d", 0x05, 1);
	testFpArith(B, F_FMUL_D, "fmul.d", 0x09, 2);
	testFpArith(B, F_FDIV_D, "fdiv.d", 0x0d, 3);
	testFpArith(B, F_FSQRT_D, "fsqrt.d", 0x2d, 4);
	for (auto& k : KNOWN) {
		static const unsigned f7s[5] = { 0x01, 0x05, 0x09, 0x0d, 0x2d };
		for (int dyn = 0; dyn < 2; ++dyn) {
			uint32_t enc = encR(f7s[k.which], k.which == 4 ? 0 : 25, 24, dyn ? 7 : k.rm, 8, 0x53);
			B.reset(); B.put(enc, 4); B.m.frm = dyn ? k.rm : (k.rm ^ 1); B.m.f[24] = k.a; B.m.f[25] = k.b;
			int64_t land; Stop s = B.go(&land);
			B.expect(s.ok() && B.m.f[8] == k.want, "fp-known-answer", S("op %d rm %u dyn %d a=%016llx b=%016llx got %016llx want %016llx", k.which, k.rm, dyn, HX(k.a), HX(k.b), HX(B.m.f[8]), HX(k.want)));
		}
	}
	for (unsigned badrm : { 4u, 5u, 6u }) {   // frm = RMM / reserved with a dynamically rounded operation; static 5, 6
		uint32_t enc = encR(0x01, 25, 24, 7, 8, 0x53);
		B.reset(); B.put(enc, 4);
		// frm is written through csrrw first
		uint32_t csr = encI(0x002, 9, 1, 0, 0x73);
		memcpy(B.code + Bench::Mid, &csr, 4); memcpy(B.code + Bench::Mid + 4, &enc, 4); B.m.x[9] = badrm;
		Stop s = B.m.run((uint64_t)(uintptr_t)(B.code + Bench::Mid), 4);
		B.expect(s.kind == StopKind::BadRounding && B.m.frm == badrm, "fadd.d", S("frm=%u must stop, got %s", badrm, s.kindName()));
		if (badrm >= 5) { enc = encR(0x01, 25, 24, badrm, 8, 0x53); B.reset(); B.put(enc, 4); s = B.go(); B.expect(s.kind == StopKind::BadRounding, "fadd.d", "static reserved rm must stop"); }
	}
	// fsgnj.d (fmv.d), fmv.x.d, fmv.d.x, fcvt.d.w
	for (int i = 0; i < NFV; ++i) for (int j = 0; j < NFV; j += 5) {
		uint32_t enc = encR(0x11, 9, 8, 0, 24, 0x53);
		if (i == 0 && j == 0) { B.vec(enc, 4, "fsgnj.d fs8, fs0, fs1"); B.vec(encR(0x11, 0, 0, 0, 24, 0x53), 4, "fsgnj.d fs8, ft0, ft0"); }
		B.reset(); B.put(enc, 4); B.m.f[8] = FV[i]; B.m.f[9] = FV[j];
		int64_t land; Stop s = B.go(&land);
		uint64_t want = FV[i] % 0x8000000000000000ull + (FV[j] / 0x8000000000000000ull) * 0x8000000000000000ull;
		{ uint64_t nb = B.m.nanResults; (void)nb; }
		B.expect(s.ok() && land == 4 && B.m.f[24] == want, "fsgnj.d", S("a=%016llx b=%016llx got %016llx", HX(FV[i]), HX(FV[j]), HX(B.m.f[24])));
		// fmv.d form used by the JIT: rs1 == rs2 must copy NaNs unchanged
		enc = encR(0x11, 8, 8, 0, 25, 0x53);
		B.reset(); B.put(enc, 4); B.m.f[8] = FV[i]; s = B.go(&land);
		B.expect(s.ok() && B.m.f[25] == FV[i], "fsgnj.d", "fmv.d copy");
	}
	for (int i = 0; i < NFV; ++i) {
		uint32_t enc = encR(0x71, 0, 10, 0, 8, 0x53);
		if (i == 0) { B.vec(enc, 4, "fmv.x.d s0, fa0"); B.vec(encR(0x79, 0, 9, 0, 25, 0x53), 4, "fmv.d.x fs9, s1"); }
		B.reset(); B.put(enc, 4); B.m.f[10] = FV[i]; int64_t land; Stop s = B.go(&land);
		B.expect(s.ok() && land == 4 && B.m.x[8] == FV[i], "fmv.x.d", "bit copy");
		enc = encR(0x79, 0, 9, 0, 25, 0x53);
		B.reset(); B.put(enc, 4); B.m.x[9] = FV[i]; s = B.go(&land);
		B.expect(s.ok() && land == 4 && B.m.f[25] == FV[i], "fmv.d.x", "bit copy");
	}
	for (unsigned rm : { 0u, 7u, 1u }) for (unsigned frm = 0; frm < 4; ++frm) for (int i = 0; i < NIV; ++i) {
		uint32_t enc = encR(0x69, 0, 8, rm, 24, 0x53);
		if (i == 0 && frm == 0 && rm == 0) B.vec(enc, 4, "fcvt.d.w fs8, s0");   // LLVM 14 only decodes the rm=000 encoding, which is the one the sources use
		B.reset(); B.put(enc, 4); B.m.x[8] = IV[i]; B.m.frm = frm; int64_t land; Stop s = B.go(&land);
		// reference: build the double from the 32-bit two's complement value by repeated doubling
		uint64_t low = IV[i] & 0xffffffffull; bool neg = low & 0x80000000ull; uint64_t mag = neg ? (0x100000000ull - low) : low;
		double d = 0; for (int b = 32; b >= 0; --b) { d = d + d; if ((mag >> b) & 1) d = d + 1; }
		if (neg) d = 0 - d;
		uint64_t want = dbits(d); if (mag == 0) want = 0;
		B.expect(s.ok() && land == 4 && B.m.f[24] == want, "fcvt.d.w", S("x=%llx got %016llx want %016llx", HX(IV[i]), HX(B.m.f[24]), HX(want)));
	}
	// ------------------------------------------------------------------ Zicsr: csrrw on frm (fsrm)
	for (unsigned rd : { 0u, 5u }) for (unsigned oldv = 0; oldv < 4; ++oldv) for (uint64_t nv : { 0ull, 1ull, 2ull, 3ull, 0xfffffffffffffff8ull + 2, 0x100ull }) {
		uint32_t enc = encI(0x002, 8, 1, rd, 0x73);
		if (oldv == 0 && nv == 0) B.vec(enc, 4, S("csrrw %s, frm, s0", XN[rd]));
		B.reset(); B.put(enc, 4); B.m.frm = oldv; B.m.x[8] = nv; int64_t land; Stop s = B.go(&land);
		B.expect(s.ok() && land == 4 && B.m.frm == (nv % 8) && (rd == 0 || B.m.x[rd] == oldv) && (_mm_getcsr() & 0xffc0u) == (hostCsr & 0xffc0u), "csrrw", S("old %u new %llx frm %u", oldv, HX(nv), B.m.frm));
	}
	{   // the rounding mode written by fsrm governs the following dynamically-rounded operation
		static const uint64_t third[4] = { 0x3fd5555555555555ull, 0x3fd5555555555555ull, 0x3fd5555555555555ull, 0x3fd5555555555556ull };
		for (unsigned nv = 0; nv < 4; ++nv) {
			B.reset();
			uint32_t csr = encI(0x002, 8, 1, 0, 0x73), dv = encR(0x0d, 25, 24, 7, 8, 0x53);
			memcpy(B.code + Bench::Mid, &csr, 4); memcpy(B.code + Bench::Mid + 4, &dv, 4);
			B.m.x[8] = nv; B.m.frm = 3 - nv; B.m.f[24] = 0x3ff0000000000000ull; B.m.f[25] = 0x4008000000000000ull;
			Stop s = B.m.run((uint64_t)(uintptr_t)(B.code + Bench::Mid), 8);
			B.expect(s.ok() && B.m.f[8] == third[nv], "csrrw", S("fsrm %u then fdiv.d 1/3 got %016llx", nv, HX(B.m.f[8])));
		}
	}
	for (unsigned csrn : { 0x001u, 0x003u, 0xc00u }) { B.reset(); B.put(encI((int64_t)csrn, 8, 1, 0, 0x73), 4); Stop s = B.go(); B.expect(s.kind == StopKind::BadCsr, "csrrw", "other CSRs refused"); }

	// ------------------------------------------------------------------ C extension
	// CA format: c.sub/xor/or/and   100 0 11 rd' f2 rs2' 01
	{
		struct { Form f; const char* mn; unsigned f2; std::function<uint64_t(uint64_t, uint64_t)> ref; } cas[] = {
			{ F_C_SUB, "c.sub", 0, [](uint64_t a, uint64_t b) { return a + (~b + 1); } }, { F_C_XOR, "c.xor", 1, [](uint64_t a, uint64_t b) { return (a | b) - (a & b); } },
			{ F_C_OR, "c.or", 2, [](uint64_t a, uint64_t b) { return ~(~a & ~b); } }, { F_C_AND, "c.and", 3, [](uint64_t a, uint64_t b) { return ~(~a | ~b); } } };
		for (auto& ca : cas) for (unsigned rdp = 0; rdp < 8; ++rdp) for (unsigned rsp = 0; rsp < 8; rsp += 3) {
			uint16_t enc = (uint16_t)((4u << 13) | (0u << 12) | (3u << 10) | (rdp << 7) | (ca.f2 << 5) | (rsp << 2) | 1u);
			B.vec(enc, 2, S("%s %s, %s", ca.mn, XN[8 + rdp], XN[8 + rsp]));
			for (int i = 0; i < NIV; ++i) for (int j = 0; j < NIV; j += 2) {
				B.reset(); put16(B, enc); B.m.x[8 + rdp] = IV[i]; B.m.x[8 + rsp] = IV[j];
				uint64_t a = B.m.x[8 + rdp], b = B.m.x[8 + rsp];
				int64_t land; Stop s = B.go(&land);
				B.expect(s.ok() && land == 2 && B.m.x[8 + rdp] == ca.ref(a, b), ca.mn, S("enc %04x a=%llx b=%llx got %llx", enc, HX(a), HX(b), HX(B.m.x[8 + rdp])));
			}
		}
	}
	// CI format: c.addi / c.addiw / c.li / c.lui / c.andi / c.slli / c.srli
	for (int64_t imm = -32; imm < 32; ++imm) for (unsigned rd : { 8u, 16u, 23u, 5u, 9u, 31u }) {
		uint16_t immf = scatter(imm, { 5 }, 12) | scatter(imm, { 4, 3, 2, 1, 0 }, 6);
		for (int i = 0; i < NIV; ++i) {
			int64_t land; Stop s;
			if (imm != 0) {
				uint16_t e = (uint16_t)((0u << 13) | (rd << 7) | 1u | immf);
				if (i == 0) B.vec(e, 2, S("c.addi %s, %lld", XN[rd], (long long)imm));
				B.reset(); put16(B, e); B.m.x[rd] = IV[i]; s = B.go(&land);
				B.expect(s.ok() && land == 2 && B.m.x[rd] == IV[i] + (uint64_t)imm, "c.addi", S("enc %04x", e));
			}
			{
				uint16_t e = (uint16_t)((1u << 13) | (rd << 7) | 1u | immf);
				if (i == 0) B.vec(e, 2, S("c.addiw %s, %lld", XN[rd], (long long)imm));
				B.reset(); put16(B, e); B.m.x[rd] = IV[i]; s = B.go(&land);
				B.expect(s.ok() && land == 2 && B.m.x[rd] == refSext32(IV[i] + (uint64_t)imm), "c.addiw", S("enc %04x", e));
			}
			{
				uint16_t e = (uint16_t)((2u << 13) | (rd << 7) | 1u | immf);
				if (i == 0) B.vec(e, 2, S("c.li %s, %lld", XN[rd], (long long)imm));
				B.reset(); put16(B, e); B.m.x[rd] = IV[i]; s = B.go(&land);
				B.expect(s.ok() && land == 2 && B.m.x[rd] == (uint64_t)imm, "c.li", S("enc %04x", e));
			}
			if (imm != 0) {
				uint16_t e = (uint16_t)((3u << 13) | (rd << 7) | 1u | immf);
				if (i == 0) B.vec(e, 2, S("c.lui %s, %lld", XN[rd], (long long)(imm < 0 ? imm + 0x100000 : imm)));
				B.reset(); put16(B, e); B.m.x[rd] = IV[i]; s = B.go(&land);
				uint64_t want = (uint64_t)(imm * 4096);
				B.expect(s.ok() && land == 2 && B.m.x[rd] == want, "c.lui", S("enc %04x got %llx want %llx", e, HX(B.m.x[rd]), HX(want)));
			}
			if (rd >= 8 && rd < 16) {
				uint16_t e = (uint16_t)((4u << 13) | (2u << 10) | ((rd - 8) << 7) | 1u | immf);
				if (i == 0) B.vec(e, 2, S("c.andi %s, %lld", XN[rd], (long long)imm));
				B.reset(); put16(B, e); B.m.x[rd] = IV[i]; s = B.go(&land);
				B.expect(s.ok() && land == 2 && B.m.x[rd] == ~(~IV[i] | ~(uint64_t)imm), "c.andi", S("enc %04x", e));
			}
		}
	}
	for (unsigned sh = 0; sh < 64; ++sh) for (unsigned rd : { 8u, 16u, 23u, 9u, 15u }) for (int i = 0; i < NIV; ++i) {
		uint16_t shf = scatter(sh, { 5 }, 12) | scatter(sh, { 4, 3, 2, 1, 0 }, 6);
		uint16_t e = (uint16_t)((0u << 13) | (rd << 7) | 2u | shf);
		if (i == 0) B.vec(e, 2, sh ? S("c.slli %s, %u", XN[rd], sh) : S("c.slli64 %s", XN[rd]));
		B.reset(); put16(B, e); B.m.x[rd] = IV[i]; int64_t land; Stop s = B.go(&land);
		// shamt = 0 is a HINT on RV64 (C.SLLI64 is RV128-only): no architectural effect
		B.expect(s.ok() && land == 2 && B.m.x[rd] == refShl(IV[i], sh), sh ? "c.slli" : "c.slli64", S("enc %04x a=%llx got %llx", e, HX(IV[i]), HX(B.m.x[rd])));
		if (rd >= 8 && rd < 16 && sh) {
			e = (uint16_t)((4u << 13) | (0u << 10) | ((rd - 8) << 7) | 1u | shf);
			if (i == 0) B.vec(e, 2, S("c.srli %s, %u", XN[rd], sh));
			B.reset(); put16(B, e); B.m.x[rd] = IV[i]; s = B.go(&land);
			B.expect(s.ok() && land == 2 && B.m.x[rd] == refShr(IV[i], sh), "c.srli", S("enc %04x", e));
		}
	}
	{   // c.nop, c.addi16sp
		B.vec(0x0001, 2, "c.nop");
		B.reset(); put16(B, 0x0001); uint64_t snap[32]; for (int r = 1; r < 32; ++r) B.m.x[r] = 0x1000 + r; memcpy(snap, B.m.x, sizeof snap);
		int64_t land; Stop s = B.go(&land); snap[1] = B.m.x[1];
		B.expect(s.ok() && land == 2 && !memcmp(snap, B.m.x, sizeof snap), "c.nop", "no effect");
		for (int64_t nz : { (int64_t)-224, (int64_t)224, (int64_t)32, (int64_t)-32, (int64_t)16, (int64_t)-512, (int64_t)496, (int64_t)-16, (int64_t)0x150, (int64_t)-0x160 }) {
			uint16_t e = (uint16_t)((3u << 13) | (2u << 7) | 1u | scatter(nz, { 9 }, 12) | scatter(nz, { 4, 6, 8, 7, 5 }, 6));
			B.vec(e, 2, S("c.addi16sp sp, %lld", (long long)nz));
			B.reset(); put16(B, e); B.m.x[2] = 0x7000; s = B.go(&land);
			B.expect(s.ok() && land == 2 && B.m.x[2] == 0x7000 + (uint64_t)nz, "c.addi16sp", S("enc %04x got %llx", e, HX(B.m.x[2])));
		}
	}
	// CR format: c.mv, c.add, c.jr
	for (unsigned rd : { 8u, 16u, 23u, 6u, 5u, 9u, 30u }) for (unsigned rs : { 8u, 9u, 3u, 5u, 16u, 28u, 29u }) for (int i = 0; i < NIV; i += 2) {
		uint16_t e = (uint16_t)((4u << 13) | (0u << 12) | (rd << 7) | (rs << 2) | 2u);
		if (i == 0) B.vec(e, 2, S("c.mv %s, %s", XN[rd], XN[rs]));
		B.reset(); put16(B, e); B.m.x[rd] = ~IV[i]; B.m.x[rs] = IV[i]; int64_t land; Stop s = B.go(&land);
		B.expect(s.ok() && land == 2 && B.m.x[rd] == IV[i], "c.mv", S("enc %04x", e));
		e = (uint16_t)((4u << 13) | (1u << 12) | (rd << 7) | (rs << 2) | 2u);
		if (i == 0) B.vec(e, 2, S("c.add %s, %s", XN[rd], XN[rs]));
		B.reset(); put16(B, e); B.m.x[rd] = 0xfedcba9876543210ull; B.m.x[rs] = IV[i]; uint64_t a = B.m.x[rd], b = B.m.x[rs]; s = B.go(&land);
		B.expect(s.ok() && land == 2 && B.m.x[rd] == a + b, "c.add", S("enc %04x", e));
	}
	{
		B.vec(0x8082, 2, "c.jr ra");
		B.reset(); Stop s = B.m.run((uint64_t)(uintptr_t)(B.code + Bench::Mid), 2);
		B.expect(s.ok() && B.m.icount >= 1 && B.m.formCount[F_C_JR] >= 1, "c.jr", "return through ra");
		uint16_t e = (uint16_t)((4u << 13) | (9u << 7) | 2u);   // c.jr s1
		B.vec(e, 2, "c.jr s1");
		B.reset(); put16(B, e); B.m.x[9] = (uint64_t)(uintptr_t)(B.code + 100) | 1; int64_t land; s = B.go(&land);
		B.expect(s.ok() && land == 100 - (int64_t)Bench::Mid, "c.jr", "jump through s1, bit 0 cleared");
	}
	// CJ / CB: c.j, c.beqz, c.bnez
	for (int64_t off : { (int64_t)2, (int64_t)4, (int64_t)6, (int64_t)8, (int64_t)16, (int64_t)32, (int64_t)64, (int64_t)128, (int64_t)256, (int64_t)512, (int64_t)1024, (int64_t)2046, (int64_t)-2, (int64_t)-2048, (int64_t)-1366, (int64_t)0x2aa, (int64_t)-256, (int64_t)-254 }) {
		uint16_t e = (uint16_t)((5u << 13) | 1u | scatter(off, { 11, 4, 9, 8, 10, 6, 7, 3, 2, 1, 5 }, 12));
		B.vec(e, 2, S("c.j @%+lld", (long long)off));
		B.reset(); put16(B, e); int64_t land; Stop s = B.go(&land);
		B.expect(s.ok() && land == off, "c.j", S("enc %04x off %lld landed %lld", e, (long long)off, (long long)land));
		if (off >= -256 && off <= 254) for (unsigned rsp = 0; rsp < 8; rsp += 7) for (int z = 0; z < 3; ++z) for (int ne = 0; ne < 2; ++ne) {
			e = (uint16_t)(((ne ? 7u : 6u) << 13) | (rsp << 7) | 1u | scatter(off, { 8, 4, 3 }, 12) | scatter(off, { 7, 6, 2, 1, 5 }, 6));
			if (z == 0) B.vec(e, 2, S("%s %s, @%+lld", ne ? "c.bnez" : "c.beqz", XN[8 + rsp], (long long)off));
			uint64_t v = z == 0 ? 0 : (z == 1 ? 0x8000000000000000ull : 0x100000000ull);
			B.reset(); put16(B, e); B.m.x[8 + rsp] = v; s = B.go(&land);
			bool taken = ne ? (v != 0) : (v == 0);
			B.expect(s.ok() && land == (taken ? off : 2), ne ? "c.bnez" : "c.beqz", S("enc %04x v=%llx landed %lld", e, HX(v), (long long)land));
		}
	}
	// CL / CS: c.lw, c.ld, c.fld, c.sd, c.fsd; CI/CSS stack forms: c.ldsp, c.fldsp, c.sdsp, c.fsdsp
	{
		for (int k = 0; k < 512; ++k) B.data[k] = (uint8_t)(k * 29 + 3) | ((k & 2) ? 0x80 : 0);
		uint8_t init[512]; memcpy(init, B.data, 512);
		for (unsigned uo : { 0u, 4u, 8u, 64u, 124u, 120u, 248u, 56u, 40u }) for (unsigned rdp : { 0u, 1u, 7u }) for (unsigned rsp : { 1u, 0u }) {
			auto val = [&](const uint8_t* p, int n) { uint64_t v = 0; for (int q = n - 1; q >= 0; --q) v = v * 256 + p[q]; return v; };
			int64_t land; Stop s;
			if (uo < 128 && rdp != rsp) {   // c.lw: uimm[5:3] at 12:10, uimm[2|6] at 6:5
				uint16_t e = (uint16_t)((2u << 13) | (rsp << 7) | (rdp << 2) | 0u | scatter(uo, { 5, 4, 3 }, 12) | scatter(uo, { 2, 6 }, 6));
				B.vec(e, 2, S("c.lw %s, %u(%s)", XN[8 + rdp], uo, XN[8 + rsp]));
				memcpy(B.data, init, 512); B.reset(); put16(B, e); B.m.x[8 + rsp] = (uint64_t)(uintptr_t)B.data; s = B.go(&land);
				B.expect(s.ok() && land == 2 && B.m.x[8 + rdp] == refSext32(val(B.data + uo, 4)), "c.lw", S("enc %04x", e));
			}
			if (uo < 128) {   // c.lw with rd' == rs1' (the JIT's "c.lw x9, 4(x9)")
				uint16_t e = (uint16_t)((2u << 13) | (rsp << 7) | (rsp << 2) | 0u | scatter(uo, { 5, 4, 3 }, 12) | scatter(uo, { 2, 6 }, 6));
				memcpy(B.data, init, 512); B.reset(); put16(B, e); B.m.x[8 + rsp] = (uint64_t)(uintptr_t)B.data; s = B.go(&land);
				B.expect(s.ok() && land == 2 && B.m.x[8 + rsp] == refSext32(val(B.data + uo, 4)), "c.lw", S("enc %04x same reg", e));
			}
			if ((uo & 7) == 0) {
				uint16_t immf = scatter(uo, { 5, 4, 3 }, 12) | scatter(uo, { 7, 6 }, 6);
				uint16_t e = (uint16_t)((3u << 13) | (rsp << 7) | (rdp << 2) | immf);
				B.vec(e, 2, S("c.ld %s, %u(%s)", XN[8 + rdp], uo, XN[8 + rsp]));
				memcpy(B.data, init, 512); B.reset(); put16(B, e); B.m.x[8 + rsp] = (uint64_t)(uintptr_t)B.data; s = B.go(&land);
				B.expect(s.ok() && land == 2 && B.m.x[8 + rdp] == val(B.data + uo, 8), "c.ld", S("enc %04x", e));
				for (int fp = 1; fp < 2; ++fp) {   // c.fsd only: c.sd and c.fld are never produced and therefore not supported
					e = (uint16_t)(((fp ? 5u : 7u) << 13) | (rsp << 7) | (rdp << 2) | immf);
					B.vec(e, 2, S("%s %s, %u(%s)", fp ? "c.fsd" : "c.sd", fp ? FN[8 + rdp] : XN[8 + rdp], uo, XN[8 + rsp]));
					memcpy(B.data, init, 512); B.reset(); put16(B, e); B.m.x[8 + rsp] = (uint64_t)(uintptr_t)B.data;
					uint64_t v = 0xa1b2c3d4e5f60718ull; if (fp) B.m.f[8 + rdp] = v; else B.m.x[8 + rdp] = v;
					uint8_t shadow[512]; memcpy(shadow, init, 512); for (int q = 0; q < 8; ++q) shadow[uo + q] = (uint8_t)(v >> (8 * q));
					s = B.go(&land);
					B.expect(s.ok() && land == 2 && !memcmp(shadow, B.data, 512), fp ? "c.fsd" : "c.sd", S("enc %04x", e));
				}
			}
		}
		for (unsigned uo : { 0u, 8u, 16u, 24u, 32u, 40u, 96u, 120u, 128u, 136u, 216u, 256u, 496u, 504u }) for (unsigned r : { 1u, 3u, 8u, 9u, 18u, 27u, 10u }) {
			auto val = [&](const uint8_t* p) { uint64_t v = 0; for (int q = 7; q >= 0; --q) v = v * 256 + p[q]; return v; };
			uint16_t lf = scatter(uo, { 5 }, 12) | scatter(uo, { 4, 3, 8, 7, 6 }, 6);
			uint16_t sf = scatter(uo, { 5, 4, 3, 8, 7, 6 }, 12);
			int64_t land; Stop s;
			uint16_t e = (uint16_t)((3u << 13) | (r << 7) | 2u | lf);
			B.vec(e, 2, S("c.ldsp %s, %u(sp)", XN[r], uo));
			memcpy(B.data, init, 512); B.reset(); put16(B, e); B.m.x[2] = (uint64_t)(uintptr_t)B.data; s = B.go(&land);
			// ra may be the destination: then the return address is whatever was loaded - run one instruction only in that case
			if (r == 1) { B.reset(); put16(B, e); B.m.x[2] = (uint64_t)(uintptr_t)B.data; s = B.m.run((uint64_t)(uintptr_t)(B.code + Bench::Mid), 1); B.expect(B.m.x[1] == val(B.data + uo), "c.ldsp", S("enc %04x ra", e)); }
			else B.expect(s.ok() && land == 2 && B.m.x[r] == val(B.data + uo), "c.ldsp", S("enc %04x", e));
			e = (uint16_t)((1u << 13) | (r << 7) | 2u | lf);
			B.vec(e, 2, S("c.fldsp %s, %u(sp)", FN[r], uo));
			B.reset(); put16(B, e); B.m.x[2] = (uint64_t)(uintptr_t)B.data; s = B.go(&land);
			B.expect(s.ok() && land == 2 && B.m.f[r] == val(B.data + uo), "c.fldsp", S("enc %04x", e));
			for (int fp = 0; fp < 2; ++fp) {
				e = (uint16_t)(((fp ? 5u : 7u) << 13) | (r << 2) | 2u | sf);
				B.vec(e, 2, S("%s %s, %u(sp)", fp ? "c.fsdsp" : "c.sdsp", fp ? FN[r] : XN[r], uo));
				memcpy(B.data, init, 512); B.reset(); put16(B, e); B.m.x[2] = (uint64_t)(uintptr_t)B.data;
				uint64_t v = 0x0badc0de12345678ull + r; if (fp) B.m.f[r] = v; else if (r != 1) B.m.x[r] = v;
				s = B.go(&land);
				if (!fp && r == 1) v = Machine::ReturnMagic;
				uint8_t shadow[512]; memcpy(shadow, init, 512); for (int q = 0; q < 8; ++q) shadow[uo + q] = (uint8_t)(v >> (8 * q));
				B.expect(s.ok() && land == 2 && !memcmp(shadow, B.data, 512), fp ? "c.fsdsp" : "c.sdsp", S("enc %04x", e));
			}
		}
	}

	// ------------------------------------------------------------------ encodings that must be refused
	{
		struct { uint32_t enc; int len; const char* what; } bad[] = {
			{ 0x60005013u | (8u << 7) | (16u << 15) | (13u << 20), 4, "rori (Zbb)" }, { 0x60005033u | (8u << 7), 4, "ror (Zbb)" }, { 0x60001033u | (8u << 7), 4, "rol (Zbb)" },
			{ 0x20002033u | (8u << 7), 4, "sh1add (Zba)" }, { 0x20004033u | (8u << 7), 4, "sh2add (Zba)" }, { 0x20006033u | (8u << 7), 4, "sh3add (Zba)" }, { 0x0800003bu | (8u << 7), 4, "add.uw/zext.w (Zba)" },
			{ 0x00006013u | (0u << 7) | (8u << 15), 4, "prefetch.i/ori x0 (Zicbop)" }, { 0x00006013u | (8u << 7), 4, "ori" }, { 0x00004013u | (8u << 7), 4, "xori" }, { 0x00002013u | (8u << 7), 4, "slti" },
			{ 0x40005013u | (8u << 7), 4, "srai" }, { 0x40005033u | (8u << 7), 4, "sra" }, { 0x00002033u | (8u << 7), 4, "slt" },
			{ 0x02004033u | (8u << 7), 4, "div" }, { 0x02005033u | (8u << 7), 4, "divu" }, { 0x02006033u | (8u << 7), 4, "rem" }, { 0x02002033u | (8u << 7), 4, "mulhsu" },
			{ 0x0000003bu | (8u << 7), 4, "addw" }, { 0x0200003bu | (8u << 7), 4, "mulw" }, { 0x0000101bu | (8u << 7), 4, "slliw" },
			{ 0x00000003u | (8u << 7), 4, "lb" }, { 0x00001003u | (8u << 7), 4, "lh" }, { 0x00004003u | (8u << 7), 4, "lbu" }, { 0x00002023u, 4, "sw" }, { 0x00000023u, 4, "sb" },
			{ 0x00002007u | (8u << 7), 4, "flw" }, { 0x00002027u, 4, "fsw" }, { 0x02000043u | (8u << 7), 4, "fmadd.d" }, { 0x00000053u | (8u << 7), 4, "fadd.s" },
			{ 0xd2200053u | (8u << 7), 4, "fcvt.d.l" }, { 0xd2100053u | (8u << 7), 4, "fcvt.d.wu" }, { 0xc2000053u | (8u << 7), 4, "fcvt.w.d" }, { 0x22001053u | (8u << 7), 4, "fsgnjn.d" }, { 0xe2001053u | (8u << 7), 4, "fclass.d" },
			{ 0x2a000053u | (8u << 7), 4, "fmin.d" }, { 0xa2002053u | (8u << 7), 4, "feq.d" },
			{ 0x00000067u | (1u << 15), 4, "jalr" }, { 0x00000073u, 4, "ecall" }, { 0x00100073u, 4, "ebreak" }, { 0x0000000fu, 4, "fence" }, { 0x0000100fu, 4, "fence.i" },
			{ 0x00202073u | (8u << 7), 4, "csrrs (frrm)" }, { 0x00215073u, 4, "csrrwi" }, { 0x0000202fu | (8u << 7), 4, "amoadd.w" }, { 0x1000302fu | (8u << 7), 4, "lr.d" },
			{ 0x00004063u, 4, "blt" }, { 0x00005063u, 4, "bge" }, { 0x00007063u, 4, "bgeu" },
			{ 0x0000001fu, 4, "48-bit encoding" }, { 0x00000057u, 4, "vector (OP-V)" },
			{ 0x0000u, 2, "c.illegal" }, { 0x0040u, 2, "c.addi4spn" }, { 0xc000u, 2, "c.sw" }, { 0x2000u, 2, "c.fld" }, { 0xe000u, 2, "c.sd" }, { 0x00000033u | (8u << 7), 4, "add" }, { 0x8401u, 2, "c.srai" }, { 0x9c01u, 2, "c.subw" }, { 0x9c21u, 2, "c.addw" },
			{ 0x4002u | (8u << 7), 2, "c.lwsp" }, { 0xc002u, 2, "c.swsp" }, { 0x9002u, 2, "c.ebreak" }, { 0x9002u | (8u << 7), 2, "c.jalr" },
		};
		for (auto& b : bad) {
			B.reset(); B.put(b.enc, b.len); B.m.x[1] = 0; Stop s = B.go();
			B.expect(s.kind == StopKind::UnknownInsn && s.pc == (uint64_t)(uintptr_t)(B.code + Bench::Mid), "refuse", S("%s (%08x) must be UnknownInsn, got %s", b.what, b.enc, s.kindName()));
		}
		struct { uint16_t enc; const char* what; } rsv[] = { { 0x6001, "c.lui nzimm=0" }, { 0x6101, "c.addi16sp nzimm=0" }, { 0x2001, "c.addiw rd=0" }, { 0x6002, "c.ldsp rd=0" }, { 0x8002, "c.jr rs1=0" },
			{ 0x0401, "c.addi imm=0 (hint)" }, { 0x4001 | (1 << 2), "c.li rd=0 (hint)" }, { 0x8001, "c.srli64 (hint)" }, { 0x8002 | (8 << 2), "c.mv rd=0 (hint)" }, { 0x9002 | (8 << 2), "c.add rd=0 (hint)" }, { 0x0005, "c.nop imm!=0 (hint)" } };
		for (auto& r : rsv) { B.reset(); put16(B, r.enc); Stop s = B.go(); B.expect(s.kind == StopKind::ReservedInsn, "reserved", S("%s must be ReservedInsn, got %s", r.what, s.kindName())); }
	}
	// ------------------------------------------------------------------ memory rights
	{
		alignas(8) static uint8_t ro[64]; alignas(8) static uint8_t none[64];
		auto setup = [&]() { B.reset(); B.m.addRange(ro, sizeof ro, PR, "ro"); };
		int64_t land; Stop s;
		setup(); B.put(encI(0, 9, 3, 8, 0x03), 4); B.m.x[9] = (uint64_t)(uintptr_t)ro; s = B.go(&land); B.expect(s.ok(), "rights", "ld from read-only range allowed");
		setup(); B.put(encI(56, 9, 3, 8, 0x03), 4); B.m.x[9] = (uint64_t)(uintptr_t)ro; s = B.go(&land); B.expect(s.ok(), "rights", "ld of the last doubleword allowed");
		setup(); B.put(encI(60, 9, 3, 8, 0x03), 4); B.m.x[9] = (uint64_t)(uintptr_t)ro; s = B.go(&land); B.expect(s.kind == StopKind::LoadFault && s.addr == (uint64_t)(uintptr_t)ro + 60, "rights", "ld straddling the end refused");
		setup(); B.put(encI(-8, 9, 3, 8, 0x03), 4); B.m.x[9] = (uint64_t)(uintptr_t)ro; s = B.go(&land); B.expect(s.kind == StopKind::LoadFault, "rights", "ld below the range refused");
		setup(); B.put(encS(0, 8, 9, 3, 0x23), 4); B.m.x[9] = (uint64_t)(uintptr_t)ro; s = B.go(&land); B.expect(s.kind == StopKind::StoreFault && ro[0] == 0, "rights", "sd to read-only range refused");
		setup(); B.put(encI(0, 9, 3, 8, 0x03), 4); B.m.x[9] = (uint64_t)(uintptr_t)none; s = B.go(&land); B.expect(s.kind == StopKind::LoadFault, "rights", "ld from unregistered memory refused");
		setup(); B.put(encS(0, 8, 9, 3, 0x23), 4); B.m.x[9] = (uint64_t)(uintptr_t)B.code; s = B.go(&land); B.expect(s.kind == StopKind::StoreFault, "rights", "sd into the code buffer refused");
		setup(); s = B.m.run((uint64_t)(uintptr_t)B.data, 4); B.expect(s.kind == StopKind::FetchFault, "rights", "fetch from data refused");
		setup(); put16(B, (uint16_t)((4u << 13) | (9u << 7) | 2u)); B.m.x[9] = (uint64_t)(uintptr_t)none; s = B.go(&land); B.expect(s.kind == StopKind::FetchFault, "rights", "jump outside refused");
		// a 32-bit instruction whose second half lies outside the executable range
		setup(); { uint32_t e = encI(1, 8, 0, 8, 0x13); memcpy(B.code + Bench::CodeSize - 2, &e, 2); s = B.m.run((uint64_t)(uintptr_t)(B.code + Bench::CodeSize - 2), 4); B.expect(s.kind == StopKind::FetchFault, "rights", "fetch straddling the end refused"); }
		setup(); B.put(encJ(0, 0, 0x6f), 4); s = B.m.run((uint64_t)(uintptr_t)(B.code + Bench::Mid), 1000); B.expect(s.kind == StopKind::InsnLimit && B.m.icount >= 1000, "limit", "instruction limit honoured");
	}
	B.expect((_mm_getcsr() & 0xffc0u) == (hostCsr & 0xffc0u), "host", "host MXCSR restored");

	if (vectorsBin && vectorsTxt) {
		FILE* fb = fopen(vectorsBin, "wb"); FILE* ft = fopen(vectorsTxt, "w");
		if (!fb || !ft) { fprintf(stderr, "rv64emu selftest: cannot write vector files\n"); return -1; }
		fwrite(B.vecBin.data(), 1, B.vecBin.size(), fb);
		for (auto& t : B.vecTxt) fprintf(ft, "%s\n", t.c_str());
		fclose(fb); fclose(ft);
	}
	// every form must have been exercised
	for (int i = 0; i < F_COUNT; ++i) B.expect(B.m.formCount[i] > 0, formName[i], "form never executed by the self-test");
	if (verbose || B.fails) fprintf(stderr, "rv64emu selftest: %d checks, %d failures, %zu disassembly vectors, %d forms\n", B.checks, B.fails, B.vecTxt.size(), (int)F_COUNT);
	return B.fails;
}

} // namespace rv64emu
