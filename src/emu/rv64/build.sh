#!/bin/sh
# usage: build.sh <profile: iter|full> <outdir>     (env RX_REPO=/path/to/tree, default /repo)
# Rebuilds the C20 check from the repository's current working tree; see build.py for the steps.
exec python3 "$(dirname "$0")/build.py" "$@"
