// rv64_engine.hpp - harness-side engine for C20: environment images (dataset, cache, scratchpads), the
// oracle (the repository's interpreter with an injected program buffer) and the system under test (the
// host-compiled randomx::JitCompilerRV64 whose emitted RV64GC code is executed by rv64emu::Machine).
// Include from a TU compiled with -fno-access-control and the profile defines, WITHOUT __riscv.
#pragma once
#include <cstdint>
#include <cstring>
#include <string>
#include <vector>
#include <map>
#include <memory>
#include <stdexcept>
#include <sys/mman.h>
#include <unistd.h>
#include <time.h>
#include <xmmintrin.h>

#include "randomx.h"
#include "common.hpp"
#include "program.hpp"
#include "dataset.hpp"
#include "vm_interpreted.hpp"
#include "vm_interpreted_light.hpp"
#include "jit_compiler_rv64.hpp"
#include "aes_hash.hpp"
#include "soft_aes.h"
#include "intrin_portable.h"

#include "rv64emu.hpp"
#include "rv64_glue.hpp"

namespace c20 {

using randomx::RegisterFile;
using randomx::MemoryRegisters;
using randomx::Program;
using randomx::ProgramConfiguration;
constexpr size_t ProgramBytes = sizeof(Program);
constexpr size_t SpadSize = randomx::ScratchpadSize;
static_assert(ProgramBytes == 128 + 8 * RANDOMX_PROGRAM_MAX_SIZE, "Program layout");

inline uint64_t splitmix(uint64_t& s) { uint64_t z = (s += 0x9E3779B97F4A7C15ull); z = (z ^ (z >> 30)) * 0xBF58476D1CE4E5B9ull; z = (z ^ (z >> 27)) * 0x94D049BB133111EBull; return z ^ (z >> 31); }

// ------------------------------------------------------------------------------------------------ images
// Dataset image: DatasetSize bytes of address space whose content is a pseudo-random function of
// (address mod 509 pages): one 509-page memfd mapped repeatedly. 509 is prime, so two addresses that
// differ in any single bit (or by any power of two) have different content, while only 2 MiB are resident.
struct DatasetImage {
	uint8_t* base = nullptr; size_t size = 0; uint64_t id = 0;
	static constexpr size_t PeriodPages = 509;
	bool create(uint64_t imageId) {
		id = imageId;
		size = (randomx::DatasetSize + 4095) & ~(size_t)4095;
		size_t period = PeriodPages * 4096;
		int fd = memfd_create("c20-dataset", 0);
		if (fd < 0 || ftruncate(fd, (off_t)period)) return false;
		uint64_t* p = (uint64_t*)mmap(nullptr, period, PROT_READ | PROT_WRITE, MAP_SHARED, fd, 0);
		if (p == MAP_FAILED) return false;
		uint64_t s = 0xD5A7A5E7ull ^ (imageId * 0x100000001B3ull);
		for (size_t i = 0; i < period / 8; ++i) p[i] = splitmix(s);
		munmap(p, period);
		base = (uint8_t*)mmap(nullptr, size, PROT_NONE, MAP_PRIVATE | MAP_ANONYMOUS | MAP_NORESERVE, -1, 0);
		if (base == MAP_FAILED) return false;
		for (size_t off = 0; off < size; off += period) {
			size_t n = std::min(period, size - off);
			if (mmap(base + off, n, PROT_READ, MAP_SHARED | MAP_FIXED, fd, 0) == MAP_FAILED) return false;
		}
		close(fd);
		return true;
	}
};

// Scratchpad images. 0: AES-filled exactly as VmBase::initScratchpad does for a real hash (fillAes1Rx4
// from a 64-byte seed). 1: boundary image (0 / all-ones / INT32_MIN / INT32_MAX / +-1 word patterns, so
// that the int->double conversions, the E-register masking and the integer loads see the extremes).
inline void makeSpadImage(int id, uint8_t* out) {
	if (id == 0) {
		alignas(16) uint8_t seed[64];
		for (int i = 0; i < 64; ++i) seed[i] = (uint8_t)(i * 7 + 1);
		fillAes1Rx4<true>(seed, SpadSize, out);
		return;
	}
	static const uint64_t pat[16] = {
		0x0000000000000000ull, 0xFFFFFFFFFFFFFFFFull, 0x8000000080000000ull, 0x7FFFFFFF7FFFFFFFull,
		0x0000000100000001ull, 0xFFFFFFFEFFFFFFFFull, 0x8000000000000000ull, 0x0000000080000000ull,
		0x00000000FFFFFFFFull, 0xFFFFFFFF00000000ull, 0x7FFFFFFF80000000ull, 0x800000007FFFFFFFull,
		0x0000000000000001ull, 0x5555555555555555ull, 0xAAAAAAAAAAAAAAAAull, 0x0010000000100000ull };
	uint64_t* w = (uint64_t*)out;
	for (size_t i = 0; i < SpadSize / 8; ++i) w[i] = pat[(i * 7 + (i / 8) * 3 + (i / 4096) * 5) % 16];
}

// Config blocks (the 128 bytes of entropy in front of the instruction words).
// 0: small A registers, readReg 0/2/4/6, dataset offset 0, empty E mask.  1: everything at the other end.
inline void makeEntropy(int cfg, uint64_t e[16]) {
	if (cfg == 0) {
		uint64_t s = 0xC0FFEE;
		for (int i = 0; i < 8; ++i) e[i] = splitmix(s) & 0x07FFFFFFFFFFFFFFull;      // exponent 0
		e[8] = 0x0000000012345640ull; e[9] = 0; e[10] = 0x00000000000ABCDEull; e[11] = 0;
		e[12] = 0; e[13] = 0; e[14] = 0; e[15] = 0;
	}
	else {
		for (int i = 0; i < 8; ++i) e[i] = 0xFFFFFFFFFFFFFFFFull - (uint64_t)i * 0x0101010101ull;   // exponent 31, dense mantissa
		e[8] = 0xFFFFFFFFFFFFFFFFull; e[9] = ~0ull; e[10] = 0xFFFFFFFFFFFFFFFFull; e[11] = ~0ull;
		e[12] = 0xF; e[13] = randomx::DatasetExtraItems; e[14] = 0xFFFFFFFFFFFFFFFFull; e[15] = 0xF5A5A5A5A5A5A5A5ull;
	}
}

struct Env {
	DatasetImage dsImage;
	randomx_dataset ds;
	std::map<std::string, randomx_cache*> caches;
	uint8_t* spadImage[2] = { nullptr, nullptr };
	std::string error;

	randomx_cache* cache(const std::string& key) {
		auto it = caches.find(key);
		if (it != caches.end()) return it->second;
		randomx_cache* c = randomx_alloc_cache(RANDOMX_FLAG_DEFAULT);
		if (!c) return nullptr;
		randomx_init_cache(c, key.data(), key.size());
		_mm_setcsr(0x1F80);
		caches[key] = c;
		return c;
	}
	bool init(bool needDataset, bool needDefaultCache) {
		if (needDataset) { if (!dsImage.create(1)) { error = "cannot create the dataset image"; return false; } ds.memory = dsImage.base; ds.dealloc = nullptr; }
		if (needDefaultCache && !cache("test key 000")) { error = "cannot allocate the cache"; return false; }
		for (int i = 0; i < 2; ++i) {
			spadImage[i] = (uint8_t*)mmap(nullptr, SpadSize, PROT_READ | PROT_WRITE, MAP_PRIVATE | MAP_ANONYMOUS, -1, 0);
			makeSpadImage(i, spadImage[i]);
		}
		_mm_setcsr(0x1F80);
		return true;
	}
};

// ------------------------------------------------------------------------------------------------ a case
struct Case {
	bool v2 = false, light = false;
	int spad = 0;            // scratchpad image id
	int rmode = 0;           // entry rounding mode, RandomX numbering (0 nearest, 1 down, 2 up, 3 zero)
	std::string cacheKey = "test key 000";
	alignas(8) uint8_t prog[ProgramBytes];
	uint32_t size() const { return v2 ? RANDOMX_PROGRAM_SIZE_V2 : RANDOMX_PROGRAM_SIZE_V1; }
	void setWord(unsigned slot, uint64_t w) { memcpy(prog + 128 + 8 * slot, &w, 8); }
	uint64_t word(unsigned slot) const { uint64_t w; memcpy(&w, prog + 128 + 8 * slot, 8); return w; }
};

struct Outcome {
	bool agree = true;
	bool fault = false;               // the emulated code stopped abnormally (unknown encoding, memory rights, ...)
	std::string kind;                 // "", "reg", "scratchpad", "rounding", "abi", "fault:<stopkind>"
	std::string detail;               // human readable
	uint64_t guestInsns = 0;
	int32_t faultCodeOffset = -1;
};

inline const char* regName(size_t byteOff, char* buf) {
	size_t q = byteOff / 8;
	if (q < 8) snprintf(buf, 16, "r%zu", q);
	else { static const char g[3] = { 'f', 'e', 'a' }; size_t k = (q - 8); snprintf(buf, 16, "%c%zu.%s", g[k / 8], (k % 8) / 2, (k & 1) ? "hi" : "lo"); }
	return buf;
}

struct Engine {
	using IVm = randomx::InterpretedVm<randomx::AlignedAllocator<randomx::CacheLineSize>, true>;
	using IVmLight = randomx::InterpretedLightVm<randomx::AlignedAllocator<randomx::CacheLineSize>, true>;
	Env* env = nullptr;
	IVm* ivm = nullptr;
	IVmLight* ivmLight = nullptr; std::string ivmLightKey;
	randomx::JitCompilerRV64* jit = nullptr;        // full-memory programs
	randomx::JitCompilerRV64* jitLight = nullptr;   // light programs + SuperscalarHash of jitLightKey
	std::string jitLightKey;
	rv64glue::Layout lay;
	uint8_t* jspad = nullptr;
	uint8_t* stack = nullptr; static constexpr size_t StackSize = 8192, StackReserve = 64;
	alignas(64) RegisterFile jreg;
	MemoryRegisters jmem;
	rv64emu::Machine m;
	std::vector<uint8_t> execMap;     // enabled by traceExec
	bool traceExec = false;
	uint64_t maxInsns = 400000000ull;
	// details of the last JIT run, for reports
	uint8_t* ispad[2] = { nullptr, nullptr }; uint8_t* jspads[2] = { nullptr, nullptr }; bool spadClean[2] = { false, false }; uint8_t* ownSpad[2] = { nullptr, nullptr };
	std::vector<uint8_t> trackBitmap;
	double tInterp = 0, tGen = 0, tEmu = 0, tMem = 0;   // seconds spent per phase (profiling aid)
	static double nowS() { timespec ts; clock_gettime(CLOCK_MONOTONIC, &ts); return ts.tv_sec + 1e-9 * ts.tv_nsec; }
	int32_t lastCodeEnd = 0;
	randomx::JitCompilerRV64* lastJit = nullptr;

	bool init(Env* e, std::string& err) {
		env = e;
		lay = rv64glue::layout();
		if (lay.zba || lay.zbb || lay.hasRVV) { err = "the host-compiled JIT is not configured for the scalar RV64GC baseline"; return false; }
		jspad = (uint8_t*)mmap(nullptr, SpadSize, PROT_READ | PROT_WRITE, MAP_PRIVATE | MAP_ANONYMOUS, -1, 0);
		stack = (uint8_t*)mmap(nullptr, StackSize, PROT_READ | PROT_WRITE, MAP_PRIVATE | MAP_ANONYMOUS, -1, 0);
		if (jspad == MAP_FAILED || stack == MAP_FAILED) { err = "mmap"; return false; }
		return true;
	}
	void needFull() {
		if (!ivm) { ivm = new IVm(RANDOMX_FLAG_DEFAULT); ivm->setDataset(&env->ds); ivm->allocate(); }
		if (!jit) { jit = new randomx::JitCompilerRV64(); checkScalar(jit); }
	}
	void needLight(const std::string& key) {
		randomx_cache* c = env->cache(key);
		if (!ivmLight) { ivmLight = new IVmLight(RANDOMX_FLAG_DEFAULT); ivmLight->setCache(c); ivmLight->allocate(); ivmLightKey = key; }
		else if (ivmLightKey != key) { ivmLight->setCache(c); ivmLightKey = key; }
		if (!jitLight) { jitLight = new randomx::JitCompilerRV64(); checkScalar(jitLight); }
		if (jitLightKey != key) { jitLight->generateSuperscalarHash(c->programs, c->reciprocalCache); jitLightKey = key; }
	}
	// brand-new compiler objects (nothing left over from earlier programs), as a VM gets when it is created
	void resetJit() { delete jit; jit = nullptr; delete jitLight; jitLight = nullptr; jitLightKey.clear(); lastJit = nullptr; }
	static void checkScalar(randomx::JitCompilerRV64* j) {
		if (j->vectorCode != nullptr || j->getProgramFunc() != (randomx::ProgramFunc*)j->entryProgram || (void*)j->getDatasetInitFunc() != j->entryDataInit) {
			fprintf(stderr, "c20: the JIT object selected the vector path; framework error\n"); _exit(2);
		}
	}

	void setupMachine(randomx::JitCompilerRV64* j) {
		m.clearRanges();
		m.addRange(j->state.code, lay.codeSize, rv64emu::PR | rv64emu::PX, "code buffer");
		m.addRange(stack, StackSize - StackReserve, rv64emu::PR | rv64emu::PW, "guest stack");
		for (int i = 0; i < 32; ++i) { m.x[i] = 0xBAD0000000000000ull + (uint64_t)i * 0x1111; m.f[i] = 0x7FF4DEAD00000000ull + (uint64_t)i; }
		m.x[0] = 0;
		m.x[2] = (uint64_t)(uintptr_t)(stack + StackSize - StackReserve);
		if (traceExec) {
			if (execMap.size() != lay.codeSize / 2) execMap.assign(lay.codeSize / 2, 0);
			m.execMap = execMap.data(); m.execBase = (uint64_t)(uintptr_t)j->state.code; m.execParcels = lay.codeSize / 2;
		}
		else m.execMap = nullptr;
	}
	// callee-saved registers of the RISC-V psABI: sp, gp, tp, s0-s11, fs0-fs11
	std::string checkAbi(const uint64_t x0[32], const uint64_t f0[32]) {
		static const int xs[] = { 2, 3, 4, 8, 9, 18, 19, 20, 21, 22, 23, 24, 25, 26, 27 };
		static const int fs[] = { 8, 9, 18, 19, 20, 21, 22, 23, 24, 25, 26, 27 };
		char b[96];
		for (int r : xs) if (m.x[r] != x0[r]) { snprintf(b, sizeof b, "callee-saved x%d not restored (%016llx -> %016llx)", r, (unsigned long long)x0[r], (unsigned long long)m.x[r]); return b; }
		for (int r : fs) if (m.f[r] != f0[r]) { snprintf(b, sizeof b, "callee-saved f%d not restored", r); return b; }
		return "";
	}
	std::string stopText(const rv64emu::Stop& s, randomx::JitCompilerRV64* j) {
		char b[400];
		long long off = (long long)(s.pc - (uint64_t)(uintptr_t)j->state.code);
		if (s.kind == rv64emu::StopKind::UnknownInsn || s.kind == rv64emu::StopKind::ReservedInsn)
			snprintf(b, sizeof b, "%s 0x%08x at offset %lld of the code buffer", s.kindName(), s.insn, off);
		else if (s.kind == rv64emu::StopKind::LoadFault || s.kind == rv64emu::StopKind::StoreFault) {
			std::string near;
			for (auto& r : m.ranges) { long long d = (long long)(s.addr - r.lo); if (d > -(1 << 22) && d < (long long)(r.hi - r.lo) + (1 << 22)) { char t[96]; snprintf(t, sizeof t, " [%s%+lld, size %llu]", r.name, d, (unsigned long long)(r.hi - r.lo)); near += t; } }
			snprintf(b, sizeof b, "%s: %u-byte access at %016llx%s by instruction 0x%08x at code offset %lld", s.kindName(), s.size, (unsigned long long)s.addr, near.c_str(), s.insn, off);
		}
		else snprintf(b, sizeof b, "%s at code offset %lld (instruction 0x%08x, pc %016llx)", s.kindName(), off, s.insn, (unsigned long long)s.pc);
		return b;
	}

	// Runs one case through both engines and compares.  If dumpTo != nullptr the JIT-side final state is kept.
	Outcome run(const Case& c) {
		Outcome o;
		randomx_cache* cache = nullptr;
		if (c.light) { needLight(c.cacheKey); cache = env->cache(c.cacheKey); } else needFull();
		IVm* vm = c.light ? (IVm*)ivmLight : ivm;
		randomx::JitCompilerRV64* j = c.light ? jitLight : jit;
		lastJit = j;
		const randomx_flags flags = (randomx_flags)(c.v2 ? RANDOMX_FLAG_V2 : RANDOMX_FLAG_DEFAULT);
		const uint8_t* image = env->spadImage[c.spad];

		// ---- oracle: the repository's interpreter, exactly InterpretedVm::run minus program generation
		memcpy(&vm->program, c.prog, ProgramBytes);
		vm->vmFlags = flags;
		vm->randomx_vm::initialize();
		const ProgramConfiguration config = vm->config;
		const uint32_t ma0 = vm->mem.ma, mx0 = vm->mem.mx;
		const uint64_t datasetOffset = vm->datasetOffset;
		randomx::fpu_reg_t a0[4]; memcpy(a0, vm->reg.a, sizeof a0);
		double t0 = nowS();
		memset(vm->reg.r, 0xA5, 192);            // r, f, e are outputs: stale garbage before the run, as in real use
		// one interpreter-side and one JIT-side scratchpad buffer per image, each kept equal to its image between cases
		if (!ispad[c.spad]) { ispad[c.spad] = (uint8_t*)mmap(nullptr, SpadSize, PROT_READ | PROT_WRITE, MAP_PRIVATE | MAP_ANONYMOUS, -1, 0); jspads[c.spad] = (uint8_t*)mmap(nullptr, SpadSize, PROT_READ | PROT_WRITE, MAP_PRIVATE | MAP_ANONYMOUS, -1, 0); }
		if (!ownSpad[c.light]) ownSpad[c.light] = vm->scratchpad;   // the buffer VmBase::allocate() gave the VM (restored in the destructor)
		vm->scratchpad = ispad[c.spad]; jspad = jspads[c.spad];
		bool& clean = spadClean[c.spad];
		if (!clean) { memcpy(vm->scratchpad, image, SpadSize); memcpy(jspad, image, SpadSize); }
		clean = false;
		double t1 = nowS(); tMem += t1 - t0;
		rx_set_rounding_mode((uint32_t)c.rmode);
		vm->execute();
		const int rmI = (int)rx_get_rounding_mode();
		_mm_setcsr(0x1F80);
		double t2 = nowS(); tInterp += t2 - t1;

		// ---- system under test: CompiledVm::run / CompiledLightVm::run / CompiledVm::execute glue (vm_compiled*.cpp)
		j->setFlags(flags);
		ProgramConfiguration cfg2 = config;
		try {
			if (c.light) j->generateProgramLight(vm->program, cfg2, (uint32_t)datasetOffset);
			else j->generateProgram(vm->program, cfg2);
		}
		catch (const std::exception& ex) { o.agree = false; o.fault = true; o.kind = "fault:code generator threw"; o.detail = ex.what(); spadClean[c.spad] = false; return o; }
		lastCodeEnd = rv64glue::codePosAfterProgram(j);
		double t3 = nowS(); tGen += t3 - t2;
		memset(&jreg, 0x5A, sizeof jreg);
		memcpy(jreg.a, a0, sizeof a0);
		memcpy(jreg.f, config.eMask, sizeof(config.eMask));     // "#if defined(__aarch64__) || defined(__riscv)" in CompiledVm::execute
		jmem.mx = mx0; jmem.ma = ma0;
		jmem.memory = c.light ? cache->memory : env->ds.memory + datasetOffset;   // CompiledLightVm::setCache / CompiledVm::run
		if (trackBitmap.empty()) trackBitmap.assign(SpadSize / 64, 0);
		m.trackLo = (uint64_t)(uintptr_t)jspad; m.trackSize = SpadSize; m.trackBitmap = trackBitmap.data(); m.trackList.clear();
		double t4 = nowS(); tMem += t4 - t3;
		setupMachine(j);
		m.addRange(&jreg, sizeof jreg, rv64emu::PR | rv64emu::PW, "register file");
		m.addRange(&jmem, sizeof jmem, rv64emu::PR | rv64emu::PW, "MemoryRegisters");
		m.addRange(jspad, SpadSize, rv64emu::PR | rv64emu::PW, "scratchpad");
		if (c.light) m.addRange(cache->memory, randomx::CacheSize, rv64emu::PR, "cache");
		else m.addRange(env->ds.memory, randomx::DatasetSize, rv64emu::PR, "dataset");
		if (c.v2) { m.addRange(randomx_aes_lut_enc, 4096, rv64emu::PR, "randomx_aes_lut_enc"); m.addRange(randomx_aes_lut_dec, 4096, rv64emu::PR, "randomx_aes_lut_dec"); }
		m.x[10] = (uint64_t)(uintptr_t)&jreg; m.x[11] = (uint64_t)(uintptr_t)&jmem; m.x[12] = (uint64_t)(uintptr_t)jspad; m.x[13] = RANDOMX_PROGRAM_ITERATIONS;
		m.frm = rv64emu::Machine::frmFromRandomX((uint32_t)c.rmode);
		uint64_t x0[32], f0[32]; memcpy(x0, m.x, sizeof x0); memcpy(f0, m.f, sizeof f0);
		uint64_t ic0 = m.icount;
		rv64emu::Stop st = m.run((uint64_t)(uintptr_t)j->getProgramFunc(), maxInsns);
		o.guestInsns = m.icount - ic0;
		double t5 = nowS(); tEmu += t5 - t4;
		// Scratchpad bookkeeping: both scratchpads were equal to the image on entry. If the two engines end with
		// identical scratchpads, the lines either of them changed are among the lines the guest stored to, so
		// restoring exactly those lines from the image re-establishes the invariant; otherwise copy everything.
		struct TM { Engine& E; const Case& c; IVm* vm; const uint8_t* image; bool& clean; double t5; bool equal = false;
			~TM() {
				if (equal) {
					for (uint32_t l : E.m.trackList) { memcpy(E.jspad + 64 * (size_t)l, image + 64 * (size_t)l, 64); memcpy(vm->scratchpad + 64 * (size_t)l, image + 64 * (size_t)l, 64); E.trackBitmap[l] = 0; }
					clean = true;
				}
				else { for (uint32_t l : E.m.trackList) E.trackBitmap[l] = 0; clean = false; }
				E.m.trackList.clear(); E.m.trackSize = 0;
				E.tMem += nowS() - t5;
			} } tm{ *this, c, vm, image, clean, t5 };

		// ---- compare
		char nb[16];
		if (!st.ok()) {
			o.agree = false; o.fault = true; o.kind = std::string("fault:") + st.kindName(); o.detail = stopText(st, j);
			o.faultCodeOffset = (int32_t)(st.pc - (uint64_t)(uintptr_t)j->state.code);
			return o;
		}
		if (memcmp(&vm->reg, &jreg, sizeof(RegisterFile)) != 0) {
			o.agree = false; o.kind = "reg";
			const uint8_t* pa = (const uint8_t*)&vm->reg; const uint8_t* pb = (const uint8_t*)&jreg;
			int shown = 0;
			for (size_t q = 0; q < 256 && shown < 4; q += 8) if (memcmp(pa + q, pb + q, 8)) {
				uint64_t ev, av; memcpy(&ev, pa + q, 8); memcpy(&av, pb + q, 8);
				char t[128]; snprintf(t, sizeof t, "%s%s: interpreter %016llx, RV64 JIT %016llx", shown ? "; " : "", regName(q, nb), (unsigned long long)ev, (unsigned long long)av);
				o.detail += t; ++shown;
			}
			return o;
		}
		if (memcmp(vm->scratchpad, jspad, SpadSize) != 0) {
			o.agree = false; o.kind = "scratchpad";
			size_t q = 0; while (q < SpadSize && !memcmp(vm->scratchpad + q, jspad + q, 8)) q += 8;
			uint64_t ev, av, iv; memcpy(&ev, vm->scratchpad + q, 8); memcpy(&av, jspad + q, 8); memcpy(&iv, image + q, 8);
			char t[200]; snprintf(t, sizeof t, "scratchpad[0x%zx]: interpreter %016llx, RV64 JIT %016llx (initial %016llx)", q, (unsigned long long)ev, (unsigned long long)av, (unsigned long long)iv);
			o.detail = t; return o;
		}
		tm.equal = true;
		int rmJ = rv64emu::Machine::randomXFromFrm(m.frm);
		if (rmJ != rmI) {
			o.agree = false; o.kind = "rounding";
			char t[160]; snprintf(t, sizeof t, "final rounding mode: interpreter %d, RV64 JIT frm=%u (RandomX mode %d)", rmI, m.frm, rmJ);
			o.detail = t; return o;
		}
		std::string abi = checkAbi(x0, f0);
		if (!abi.empty()) { o.agree = false; o.kind = "abi"; o.detail = abi; return o; }
		return o;
	}

	// Dataset items: the emitted dataset-init function (static runtime loop + generated SuperscalarHash)
	// for items [start, start+count) against randomx::initDatasetItem.
	Outcome runDatasetInit(const std::string& key, uint32_t start, uint32_t count) {
		Outcome o;
		needLight(key);
		randomx_cache* cache = env->cache(key);
		randomx::JitCompilerRV64* j = jitLight; lastJit = j;
		std::vector<uint8_t> out((size_t)count * 64 + 128, 0xCC), ref((size_t)count * 64 + 128, 0xCC);
		for (uint32_t i = 0; i < count; ++i) randomx::initDatasetItem(cache, ref.data() + 64 + (size_t)i * 64, start + i);
		_mm_setcsr(0x1F80);
		setupMachine(j);
		m.addRange(cache, 8, rv64emu::PR, "randomx_cache::memory");
		m.addRange(cache->memory, randomx::CacheSize, rv64emu::PR, "cache");
		m.addRange(out.data() + 64, (size_t)count * 64, rv64emu::PR | rv64emu::PW, "dataset output");
		m.x[10] = (uint64_t)(uintptr_t)cache; m.x[11] = (uint64_t)(uintptr_t)(out.data() + 64);
		m.x[12] = (uint64_t)(int64_t)(int32_t)start; m.x[13] = (uint64_t)(int64_t)(int32_t)(start + count);   // uint32_t arguments: sign-extended per the psABI
		m.frm = 0;
		uint64_t x0[32], f0[32]; memcpy(x0, m.x, sizeof x0); memcpy(f0, m.f, sizeof f0);
		uint64_t ic0 = m.icount;
		rv64emu::Stop st = m.run((uint64_t)(uintptr_t)j->getDatasetInitFunc(), maxInsns);
		o.guestInsns = m.icount - ic0;
		if (!st.ok()) { o.agree = false; o.fault = true; o.kind = std::string("fault:") + st.kindName(); o.detail = stopText(st, j); return o; }
		if (out != ref) {
			o.agree = false; o.kind = "dataset";
			size_t q = 0; while (q < out.size() && out[q] == ref[q]) ++q;
			char t[200]; uint64_t ev = 0, av = 0; size_t w = q & ~(size_t)7; memcpy(&ev, ref.data() + w, 8); memcpy(&av, out.data() + w, 8);
			snprintf(t, sizeof t, "item %u qword %zu: initDatasetItem %016llx, RV64 JIT %016llx", start + (uint32_t)((w - 64) / 64), ((w - 64) % 64) / 8, (unsigned long long)ev, (unsigned long long)av);
			o.detail = t; return o;
		}
		std::string abi = checkAbi(x0, f0);
		if (!abi.empty()) { o.agree = false; o.kind = "abi"; o.detail = abi; }
		return o;
	}
};

} // namespace c20
