// C15 - object lifecycle is leak- and crash-free, also when allocations fail.
// (1) E-fault: for every creating call and flag combination a dry run counts the allocation requests N
//     (heap, aligned, page mappings, large pages - all interposed by envalloc); then for every k in 1..N the k-th
//     request fails (variants: only the k-th; the k-th and all later).  Each case runs in a forked child:
//     result must be NULL, live blocks/mapped bytes must equal the pre-call values, no abnormal termination, and a
//     fault-free epilogue create -> hash -> destroy must give the reference digest and return to the baseline.
// (2) E-hist on the success path: all ownership-respecting sequences of alloc/init/release cache, alloc/init/release
//     dataset, create/destroy VM, hash up to the depth bound; in EVERY reached state, releasing everything that is
//     live (in a forked clone) must bring live heap blocks and mapped bytes back to the baseline; a short munmap
//     (unmap length < map length) or a free of an unknown pointer is a violation in any state.
#include "common/explore.hpp"

using namespace hist;
#ifndef RX_PROFILE
#define RX_PROFILE "mini"
#endif

static const char* KEY = "a key longer than fifteen characters";   // forces heap allocations in the std::string copies
static const char* INPUT = "lifecycle input";

struct Shape { int kind; int flags; bool huge; std::string name; };   // kind 0 alloc_cache, 1 alloc_dataset, 2 create_vm

static std::vector<Shape> shapes() {
	std::vector<Shape> v;
	for (int jit = 0; jit < 2; ++jit) for (int lp = 0; lp < 2; ++lp) for (int ar : { 0, (int)RANDOMX_FLAG_ARGON2_SSSE3, (int)RANDOMX_FLAG_ARGON2_AVX2 }) for (int huge = 0; huge <= lp; ++huge) {
		int f = (jit ? RANDOMX_FLAG_JIT : 0) | (lp ? RANDOMX_FLAG_LARGE_PAGES : 0) | ar;
		v.push_back({ 0, f, (bool)huge, std::string("alloc_cache(") + (jit ? "JIT" : "default") + (lp ? "|LARGE_PAGES" : "") + (ar == 0 ? "" : ar == (int)RANDOMX_FLAG_ARGON2_SSSE3 ? "|SSSE3" : "|AVX2") + ")" + (lp ? (huge ? " hugepages=yes" : " hugepages=no") : "") });
	}
	for (int lp = 0; lp < 2; ++lp) for (int huge = 0; huge <= lp; ++huge) v.push_back({ 1, lp ? RANDOMX_FLAG_LARGE_PAGES : 0, (bool)huge, std::string("alloc_dataset(") + (lp ? "LARGE_PAGES" : "default") + ")" + (lp ? (huge ? " hugepages=yes" : " hugepages=no") : "") });
	for (auto& fs : rxh::vm_flagsets()) for (int lp = 0; lp < 2; ++lp) for (int huge = 0; huge <= lp; ++huge)
		v.push_back({ 2, fs.flags | (lp ? RANDOMX_FLAG_LARGE_PAGES : 0), (bool)huge, std::string("create_vm(") + fs.name + (lp ? "|LARGE_PAGES" : "") + ")" + (lp ? (huge ? " hugepages=yes" : " hugepages=no") : "") });
	return v;
}

struct Fixture {   // objects the creating call needs, built fault-free and untracked-for-failure
	randomx_cache* cache = nullptr; randomx_dataset* ds = nullptr; uint8_t ref[32];
	void build() {
		env::Track t;
		cache = randomx_alloc_cache(RANDOMX_FLAG_DEFAULT); randomx_init_cache(cache, KEY, strlen(KEY));
		ds = randomx_alloc_dataset(RANDOMX_FLAG_DEFAULT);   // only passed to create_vm, never read: left uninitialised
		randomx_vm* vm = randomx_create_vm(RANDOMX_FLAG_DEFAULT, cache, nullptr); randomx_calculate_hash(vm, INPUT, strlen(INPUT), ref); randomx_destroy_vm(vm);
	}
};

static void* do_call(const Shape& s, Fixture& fx) {
	env::Track t;
	switch (s.kind) {
	case 0: return randomx_alloc_cache((randomx_flags)s.flags);
	case 1: return randomx_alloc_dataset((randomx_flags)s.flags);
	default: return randomx_create_vm((randomx_flags)s.flags, (s.flags & RANDOMX_FLAG_FULL_MEM) ? nullptr : fx.cache, (s.flags & RANDOMX_FLAG_FULL_MEM) ? fx.ds : nullptr);
	}
}
static void undo_call(const Shape& s, void* p) {
	env::Track t;
	if (!p) return;
	if (s.kind == 0) randomx_release_cache((randomx_cache*)p); else if (s.kind == 1) randomx_release_dataset((randomx_dataset*)p); else randomx_destroy_vm((randomx_vm*)p);
}

// one fault case, executed in the calling process (the caller forks). Returns "" or a description.
static Fixture g_fx; static bool g_fx_built = false;
static std::string fault_case(const Shape& s, long k, bool sticky, long* nreq_out) {
	if (!g_fx_built) { g_fx.build(); g_fx_built = true; }   // built once per shard process, inherited by the per-case children
	Fixture& fx = g_fx;
	env::State& E = env::S(); E.hugepages = s.huge;
	long b0 = E.live_blocks, m0 = E.live_map_bytes, by0 = E.live_bytes;
	E.requests = 0; E.failed = 0; E.failed_req[0] = 0; E.fail_at = k; E.fail_sticky = sticky;
	void* r = do_call(s, fx);
	long nreq = E.requests, nfailed = E.failed; E.fail_at = -1; E.fail_sticky = false;
	if (nreq_out) *nreq_out = nreq;
	if (k <= 0) {   // dry run: success expected (LARGE_PAGES without huge pages fails naturally), then release and compare
		bool expect_null = (s.flags & RANDOMX_FLAG_LARGE_PAGES) && !s.huge;
		if (expect_null && r) return "call succeeded although no huge pages are available";
		if (!expect_null && !r) return "fault-free call returned NULL";
		undo_call(s, r);
		if (E.live_blocks != b0 || E.live_map_bytes != m0 || E.live_bytes != by0) return "create + release does not return to the baseline: live blocks " + std::to_string(E.live_blocks - b0) + ", heap bytes " + std::to_string(E.live_bytes - by0) + ", mapped bytes " + std::to_string(E.live_map_bytes - m0);
		if (E.short_unmaps) return "munmap with a shorter length than the mapping (leaks the tail)";
		return "";
	}
	if (nfailed == 0) return "";   // the call issued fewer than k requests (harness enumerates up to N, so this does not happen)
	std::string at = " (request " + std::to_string(k) + (sticky ? "+" : "") + " of the call failed: " + E.failed_req + ")";
	if (r != nullptr) { undo_call(s, r); return "creating call returned non-NULL although an allocation request failed" + at; }
	if (E.live_blocks != b0 || E.live_bytes != by0) return "failed call leaks heap memory: " + std::to_string(E.live_blocks - b0) + " blocks, " + std::to_string(E.live_bytes - by0) + " bytes" + at;
	if (E.live_map_bytes != m0) return "failed call leaks mapped pages: " + std::to_string(E.live_map_bytes - m0) + " bytes" + at;
	if (E.bad_frees) return "failed call freed a pointer it did not own" + at;
	// epilogue: the library is still fully usable
	{
		env::Track t; E.hugepages = false;
		randomx_cache* c = randomx_alloc_cache(RANDOMX_FLAG_JIT); if (!c) return "epilogue: alloc_cache failed after a failed call" + at;
		randomx_init_cache(c, KEY, strlen(KEY));
		randomx_vm* vm = randomx_create_vm(RANDOMX_FLAG_JIT, c, nullptr); if (!vm) return "epilogue: create_vm failed after a failed call" + at;
		uint8_t out[32]; randomx_calculate_hash(vm, INPUT, strlen(INPUT), out);
		randomx_destroy_vm(vm); randomx_release_cache(c);
		if (memcmp(out, fx.ref, 32)) return "epilogue: wrong digest after a failed call" + at;
	}
	if (E.live_blocks != b0 || E.live_map_bytes != m0) return "epilogue does not return to the baseline" + at;
	return "";
}

// ---- success-path state check: release everything in a clone and compare with the baseline
static long g_b0, g_m0, g_by0;
static std::string lifecycle_check(World& w) {
	env::State& E = env::S();
	if (E.short_unmaps) return "munmap with a shorter length than the mapping (the tail of the mapping leaks)";
	if (E.bad_frees) return "free of a pointer that was never allocated";
	int pfd[2]; if (pipe(pfd)) return "";
	pid_t pid = fork();
	if (pid == 0) {
		{ env::Track t; if (w.vm) randomx_destroy_vm(w.vm); if (w.ds) randomx_release_dataset(w.ds); for (int i = 0; i < 2; ++i) if (w.cache[i]) randomx_release_cache(w.cache[i]); }
		long d[4] = { E.live_blocks - g_b0, E.live_bytes - g_by0, E.live_map_bytes - g_m0, E.short_unmaps };
		if (write(pfd[1], d, sizeof d)) {} _exit(0);
	}
	close(pfd[1]); long d[4] = { 0, 0, 0, 0 }; ssize_t n = read(pfd[0], d, sizeof d); close(pfd[0]); int st; waitpid(pid, &st, 0);
	if (n != (ssize_t)sizeof d || !WIFEXITED(st)) return "releasing all live objects terminated abnormally";
	if (d[0] || d[1] || d[2]) return "after releasing every live object: " + std::to_string(d[0]) + " heap blocks / " + std::to_string(d[1]) + " heap bytes / " + std::to_string(d[2]) + " mapped bytes are still held";
	if (d[3]) return "munmap with a shorter length than the mapping during release";
	return "";
}

static std::string population_case(int vmflags, bool jitcache, int n, int cache_at, const std::vector<int>& perm) {
	env::State& E = env::S(); struct { int vmflags; bool jitcache; int n; int cache_at; } P{ vmflags, jitcache, n, cache_at };
	std::string d; d.reserve(400); uint8_t ref[32], out[32]; std::vector<randomx_vm*> vms; vms.reserve((size_t)n + 1);   // harness containers are sized before tracking starts
	{ env::Track t; long b0 = E.live_blocks, m0 = E.live_map_bytes, by0 = E.live_bytes;
	  randomx_cache* c = randomx_alloc_cache(P.jitcache ? RANDOMX_FLAG_JIT : RANDOMX_FLAG_DEFAULT); if (!c) d = "randomx_alloc_cache failed";
	  if (d.empty()) { randomx_init_cache(c, KEY, strlen(KEY)); for (int i = 0; i < P.n && d.empty(); ++i) { randomx_vm* vm = randomx_create_vm((randomx_flags)P.vmflags, c, nullptr); if (!vm) d = "randomx_create_vm failed for VM " + std::to_string(i); else vms.push_back(vm); } }
	  if (d.empty()) { randomx_calculate_hash(vms[0], INPUT, strlen(INPUT), ref); randomx_calculate_hash(vms.back(), INPUT, strlen(INPUT), out); if (memcmp(ref, out, 32)) d = "first and last VM of the population disagree"; }
	  if (d.empty()) { int destroyed = 0; bool cache_live = true;
		for (int idx : perm) { if (cache_live && destroyed == P.cache_at) { randomx_release_cache(c); cache_live = false; }
			if (cache_live && destroyed == P.n / 2) { randomx_calculate_hash(vms[(size_t)idx], INPUT, strlen(INPUT), out); if (memcmp(ref, out, 32)) d = "a VM of a half-destroyed population returns a wrong digest"; }
			randomx_destroy_vm(vms[(size_t)idx]); ++destroyed; }
		if (cache_live) randomx_release_cache(c); }
	  if (d.empty() && (E.live_blocks != b0 || E.live_map_bytes != m0 || E.live_bytes != by0)) { char t2[200]; snprintf(t2, sizeof t2, "after every object was given back: live blocks %+ld, heap bytes %+ld, mapped bytes %+ld against the state before", E.live_blocks - b0, E.live_bytes - by0, E.live_map_bytes - m0); d = t2; }
	  if (d.empty() && (E.short_unmaps || E.bad_frees)) d = "short munmap or foreign free while giving the population back"; }
	return d;
}

int main(int argc, char** argv) {
	vf::Args args = vf::parse_args(argc, argv, "C15");
	const bool th = args.thorough();
	std::vector<Shape> SH_ = shapes();
	env::init(); env::S().fill = 0xA5;

	if (!args.replay.empty()) {
		vf::Json r = vf::Json::load(args.replay);
		if (r.at("kind").s == "population") { std::vector<int> perm; for (auto& x : r.at("perm").a) perm.push_back((int)x.num()); std::string d = population_case((int)r.at("vm_flags").num(), r.at("jitcache").b, (int)r.at("n").num(), (int)r.at("cache_at").num(), perm); printf("replay population: %s\n", d.empty() ? "clean" : d.c_str()); return d.empty() ? 0 : 1; }
		if (r.at("kind").s == "fault") {
			const Shape& s = SH_[(size_t)r.at("shape").num()]; std::string d = fault_case(s, (long)r.at("k").num(), r.at("sticky").b, nullptr);
			printf("replay %s k=%ld: %s\n", s.name.c_str(), (long)r.at("k").num(), d.empty() ? "clean" : d.c_str()); return d.empty() ? 0 : 1;
		}
		Alphabet A; A.vm_flags = (int)r.at("vm_flags").num(); A.keys = { KEY }; A.inputs = { INPUT }; A.with_batch = false; A.with_version = false; A.cache_jit_variants = true;
		W.A = &A; compute_expected(W); env::State& E = env::S(); g_b0 = E.live_blocks; g_m0 = E.live_map_bytes; g_by0 = E.live_bytes;
		for (auto& o : hist_from(r.at("history_raw"))) { if (!W.enabled(o)) return 2; if (!W.apply(o)) { printf("replay: %s\n", W.problem.c_str()); return 1; } std::string sc = lifecycle_check(W); if (!sc.empty()) { printf("replay: after %s: %s\n", op_str(o).c_str(), sc.c_str()); return 1; } }
		printf("replay: lifecycle clean\n"); return 0;
	}

	// ---- (1) fault enumeration: one shard per call shape
	vf::Result total = vf::run_shards(args, (int)SH_.size(), [&](int shard) {
		vf::Result R; const Shape& s = SH_[shard];
		g_fx.build(); g_fx_built = true;
		auto run_case = [&](long k, bool sticky, long* nreq) -> std::string {   // each case in its own child
			int pfd[2]; if (pipe(pfd)) return "pipe"; pid_t pid = fork();
			if (pid == 0) { long n = 0; std::string d = fault_case(s, k, sticky, &n); char buf[600]; memcpy(buf, &n, sizeof n); snprintf(buf + sizeof n, sizeof buf - sizeof n, "%s", d.c_str()); if (write(pfd[1], buf, sizeof buf)) {} _exit(0); }
			close(pfd[1]); char buf[600] = { 0 }; ssize_t n = read(pfd[0], buf, sizeof buf); close(pfd[0]); int st; waitpid(pid, &st, 0);
			if (n <= 0 || !WIFEXITED(st) || WEXITSTATUS(st)) return std::string("abnormal termination (") + (WIFSIGNALED(st) ? "signal " + std::to_string(WTERMSIG(st)) : "exit") + ")";
			if (nreq) memcpy(nreq, buf, sizeof(long)); return std::string(buf + sizeof(long));
		};
		auto report = [&](long k, bool sticky, const std::string& d) { if (R.viol.size() < 3) { vf::Violation v; v.key = "c15:fault:" + s.name.substr(0, s.name.find('(')); v.what = s.name + ": " + d; v.replay = vf::Json::obj().set("kind", "fault").set("shape", shard).set("name", s.name).set("k", (long long)k).set("sticky", sticky); R.viol.push_back(v); } };
		long N = 0; std::string d = run_case(0, false, &N); R.n["dry_runs"]++; R.mx["requests_per_call"] = (uint64_t)N;
		if (!d.empty()) report(0, false, d);
		for (long k = 1; k <= N; ++k) for (int sticky = 0; sticky < 2; ++sticky) {
			d = run_case(k, sticky, nullptr); R.n["fault_cases"]++;
			if (!d.empty()) report(k, sticky, d);
		}
		R.tags.insert(s.name + ": " + std::to_string(N) + " requests");
		if (shard % 17 == 0) R.sample(vf::Json::obj().set("kind", "fault").set("call", s.name).set("requests", (long long)N).set("fault_positions", "every k in 1..N, single and sticky"), 3);
		return R;
	}, true, 1800);

	// ---- (2) success-path histories: one exploration per VM flag set
	const bool heavy = randomx::DatasetSize > (1ull << 30);   // production geometry: dataset initialisation is too slow for history search; light flag sets only
	std::vector<int> fsets; for (auto& fs : rxh::vm_flagsets()) if (heavy ? (!(fs.flags & RANDOMX_FLAG_FULL_MEM) && (th || (fs.flags & RANDOMX_FLAG_JIT))) : th || !strcmp(fs.name, "int-soft-light") || !strcmp(fs.name, "sec-hard-light") || !strcmp(fs.name, "jit-soft-fast") || !strcmp(fs.name, "int-hard-fast") || !strcmp(fs.name, "jit-hard-light")) fsets.push_back(fs.flags);
	const int depth = atoi(args.get("depth", th ? "7" : "6").c_str());
	vf::Result r2 = vf::run_shards(args, (int)fsets.size(), [&](int shard) {
		vf::Result R; Alphabet A; A.vm_flags = fsets[shard]; A.keys = { KEY }; A.inputs = { INPUT }; A.with_batch = false; A.with_version = false; A.cache_jit_variants = true;
		explore_init(); W.A = &A; compute_expected(W); OPS = W.alphabet_ops(); state_check = lifecycle_check; dedup = true;
		env::State& E = env::S(); E.reuse_small = 1; E.reuse_large = 1; g_b0 = E.live_blocks; g_m0 = E.live_map_bytes; g_by0 = E.live_bytes;
		for (int d = 1; d <= depth; ++d) { memset(SH, 0, sizeof(Shared) + TAB * sizeof(Shared::E)); visit(W.digest(), d); explore(d); if (SH->nviol) break; }   // iterative deepening: shortest counterexample first
		std::string cfg; for (auto& fs : rxh::vm_flagsets()) if (fs.flags == A.vm_flags) cfg = fs.name;
		R.n["states"] = SH->states; R.n["transitions"] = SH->transitions; R.n["hashes_checked"] = SH->hashes; R.n["explorations"] = 1; R.mx["history_length"] = SH->max_depth_reached;
		R.tags.insert("lifecycle " + cfg + ": " + std::to_string(SH->states) + " states");
		for (uint64_t i = 0; i < std::min<uint64_t>(SH->nviol, 8); ++i) {
			auto& sv = SH->viol[i]; std::vector<Op> h; for (int k = 0; k < sv.hlen; ++k) h.push_back(Op{ (uint8_t)(sv.h[k] & 255), (uint8_t)((sv.h[k] >> 8) & 255), (uint8_t)((sv.h[k] >> 16) & 255) });
			std::string hs; for (auto& o : h) hs += op_str(o) + " ";
			vf::Violation v; v.key = std::string("c15:lifecycle:") + OPNAME[h.back().code]; v.what = cfg + " history: " + hs + "=> " + sv.what;
			v.replay = vf::Json::obj().set("kind", "lifecycle").set("vm_flags", A.vm_flags).set("history", hist_json(h)).set("history_raw", hist_raw(h)); R.viol.push_back(v);
		}
		if (shard == 0) R.sample(vf::Json::obj().set("kind", "lifecycle").set("cfg", cfg).set("history", "alloc_cache(c0,JIT) init_cache(c0,K0) create_vm(c0) hash(X0) release_cache(c0) destroy_vm()  [in every state: release everything in a clone == baseline]"), 4);
		return R;
	}, true, 3600);
	total.merge(r2);
	// ---- (3) populations: MANY objects alive at once and the order in which they are given back (the history search holds one VM at a time; a pooled or
	//      slab-like allocation inside the library only shows with dozens of live objects - seeded change agent8_C15). N VMs on one cache; the cache is released
	//      before, in the middle of, or after the VMs; destruction orders: every permutation for N <= 4, and FIFO / LIFO / odds-then-evens / inside-out for large N.
	if (!heavy) {
		struct Pop { int vmflags; bool jitcache; int n; int order; int cache_at; };   // order: -1 = permutation index in `perm`; cache_at: number of VMs destroyed before the cache is released (n+1 = cache is kept until the end)
		std::vector<std::pair<Pop, std::vector<int>>> pops;
		for (int vf_ : { (int)RANDOMX_FLAG_JIT, (int)(RANDOMX_FLAG_JIT | RANDOMX_FLAG_SECURE), (int)RANDOMX_FLAG_DEFAULT, (int)(RANDOMX_FLAG_JIT | RANDOMX_FLAG_HARD_AES) }) for (int jc = 0; jc < 2; ++jc) {
			for (int n = 2; n <= 4; ++n) { std::vector<int> p(n); for (int i = 0; i < n; ++i) p[i] = i; do { for (int ca : { 0, 1, n }) pops.push_back({ Pop{ vf_, (bool)jc, n, -1, ca }, p }); } while (std::next_permutation(p.begin(), p.end())); }
			for (int n : { 25, 26, 27, 40, 64 }) for (int order = 0; order < 4; ++order) for (int ca : { 0, n / 2, n }) {
				if (!th && vf_ != (int)RANDOMX_FLAG_JIT && (n != 40 || order > 1)) continue;
				std::vector<int> p; if (order == 0) for (int i = 0; i < n; ++i) p.push_back(i); else if (order == 1) for (int i = n - 1; i >= 0; --i) p.push_back(i);
				else if (order == 2) { for (int i = 1; i < n; i += 2) p.push_back(i); for (int i = 0; i < n; i += 2) p.push_back(i); } else { for (int d = 0; d < n; ++d) { int i = n / 2 + ((d & 1) ? -(d + 1) / 2 : d / 2); if (i >= 0 && i < n && std::find(p.begin(), p.end(), i) == p.end()) p.push_back(i); } for (int i = 0; i < n; ++i) if (std::find(p.begin(), p.end(), i) == p.end()) p.push_back(i); }
				pops.push_back({ Pop{ vf_, (bool)jc, n, order, ca }, p });
			}
		}
		vf::Result r3 = vf::run_shards(args, 16, [&](int shard) {
			vf::Result R; env::State& E = env::S();
			for (size_t k = (size_t)shard; k < pops.size(); k += 16) {
				const Pop& P = pops[k].first; const std::vector<int>& perm = pops[k].second;
				int pfd[2]; if (pipe(pfd)) continue; fflush(stdout); pid_t pid = fork();
				if (pid == 0) {   // each population in its own process: a crash is a verdict of this case
					std::string d = population_case(P.vmflags, P.jitcache, P.n, P.cache_at, perm);
					if (write(pfd[1], d.data(), d.size())) {} _exit(0);
				}
				close(pfd[1]); std::string d; char buf[512]; ssize_t q; while ((q = read(pfd[0], buf, sizeof buf)) > 0) d.append(buf, (size_t)q); close(pfd[0]); int st; waitpid(pid, &st, 0);
				if (!(WIFEXITED(st) && WEXITSTATUS(st) == 0)) d = "abnormal termination while creating / giving back the population";
				R.n["populations"]++;
				if (!d.empty() && R.viol.size() < 3) { vf::Violation v; v.key = "c15:population"; std::string ord; for (size_t i = 0; i < perm.size() && i < 12; ++i) ord += std::to_string(perm[i]) + " ";
					char t3[160]; snprintf(t3, sizeof t3, "%d VMs (flags 0x%x) on a %s cache, destroyed in the order %s%s, cache released after %d of them: ", P.n, P.vmflags, P.jitcache ? "JIT" : "default", ord.c_str(), perm.size() > 12 ? "..." : "", P.cache_at);
					v.what = t3 + d; vf::Json pj = vf::Json::arr(); for (int i : perm) pj.push(i);
					v.replay = vf::Json::obj().set("kind", "population").set("vm_flags", P.vmflags).set("jitcache", P.jitcache).set("n", P.n).set("cache_at", P.cache_at).set("perm", pj); R.viol.push_back(v); }
			}
			return R;
		}, true, 3600);
		total.merge(r3);
	}
	vf::Evidence ev; ev.level = "fault_enumeration";
	ev.coverage.set("evaluations", (unsigned long long)(total.n["fault_cases"] + total.n["dry_runs"] + total.n["transitions"] + total.n["populations"])).set("distinct_nontrivial", (unsigned long long)(total.n["fault_cases"] + total.n["states"]))
		.set("states", (unsigned long long)total.n["states"]).set("transitions", (unsigned long long)total.n["transitions"]).set("exhaustive", !total.incomplete)
		.set("rule", std::string("profile ") + RX_PROFILE + ": fault positions: for each of " + std::to_string(SH_.size()) + " creating-call shapes (alloc_cache x {default,JIT} x {-,LARGE_PAGES} x 3 Argon2 flags, alloc_dataset x2, create_vm x 12 flag sets x {-,LARGE_PAGES}; LARGE_PAGES with huge pages available and unavailable) every request index k of the dry run, as a single fault and as a sticky fault, each in a forked child: NULL result, accounting == pre-call, epilogue create/hash/destroy == reference digest and baseline; lifecycle: all ownership-respecting histories to the depth bound per VM flag set (states deduplicated on the concrete digest), in every state a forked clone releases everything and must reach the baseline; short munmap / foreign free flagged in every state; populations: N VMs alive at once on one cache (N = 2..4 with every destruction order, N = 25..64 with FIFO / LIFO / odds-then-evens / inside-out), the cache released before, in the middle of or after them: digests stay correct and the accounting returns to the state before. distinct = fault cases + lifecycle states");
	ev.assumptions = { "every allocation path of the library (malloc family, posix_memalign via _mm_malloc, operator new, mmap incl. MAP_HUGETLB) is interposed by the harness; mprotect failure is not an allocation request and is not injected" };
	return vf::finish(args, total, ev, true, true);
}
