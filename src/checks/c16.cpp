// C16 - secure mode never exposes writable-and-executable JIT pages.
// Explicit-state search over API histories (same explorer as C03) with a page-protection monitor:
// the harness' mmap/mprotect/munmap see EVERY protection request the library makes (so "at any moment" is
// covered request by request, not only between calls), attribute each mapping to the object whose creating
// call requested it, and after every API call the kernel's own view (/proc/self/maps) is compared with the
// tracked map.  Families: (S) only SECURE VMs (4 JIT flag sets, and the 2 interpreter sets where SECURE must be
// a no-op) over default and JIT caches: no W+X request at all; (M) non-secure JIT VMs over JIT caches: VM-owned
// buffers may be RWX, cache-owned buffers never; (control) the monitor does see RWX for a non-secure JIT VM.
#include "common/explore.hpp"

using namespace hist;
#ifndef RX_PROFILE
#define RX_PROFILE "mini"
#endif

static bool g_secure_family = true;
static std::vector<std::string> g_base_rwx;

// parse /proc/self/maps: returns "" or a discrepancy
static std::string maps_check(bool collect_baseline) {
	env::Untrack u;
	FILE* f = fopen("/proc/self/maps", "r"); if (!f) return "";
	char line[512]; std::string bad; env::State& E = env::S();
	while (fgets(line, sizeof line, f)) {
		unsigned long a, b; char perm[8];
		if (sscanf(line, "%lx-%lx %7s", &a, &b, perm) != 3) continue;
		bool rwx = perm[0] == 'r' && perm[1] == 'w' && perm[2] == 'x', wx = perm[1] == 'w' && perm[2] == 'x';
		// library mappings: compare with the tracked protection
		for (unsigned i = 0; i < E.nmaps; ++i) { env::Mapping& m = E.maps[i]; if (!m.live) continue;
			if ((uint8_t*)a < m.addr + m.len && (uint8_t*)b > m.addr) {
				int kp = (perm[0] == 'r' ? PROT_READ : 0) | (perm[1] == 'w' ? PROT_WRITE : 0) | (perm[2] == 'x' ? PROT_EXEC : 0);
				if (kp != m.prot && bad.empty()) { char t[200]; snprintf(t, sizeof t, "kernel reports %s for a library mapping whose tracked protection is %d (a protection change bypassed the monitor)", perm, m.prot); bad = t; }
				if (wx && ((m.owner >= 10 && m.owner < 20) || g_secure_family) && bad.empty()) bad = std::string("kernel reports a ") + perm + " code buffer owned by " + (m.owner >= 10 && m.owner < 20 ? "a cache" : "a secure VM");
			}
		}
		if (rwx || wx) {
			bool ours = (uint8_t*)a >= E.marena && (uint8_t*)a < E.marena + env::MARENA;
			if (!ours) { std::string key = std::string(line).substr(0, strcspn(line, " ")); if (collect_baseline) g_base_rwx.push_back(key); else if (std::find(g_base_rwx.begin(), g_base_rwx.end(), key) == g_base_rwx.end() && bad.empty()) bad = "a writable+executable region appeared outside the monitored mappings: " + std::string(line).substr(0, 60); }
		}
	}
	fclose(f); return bad;
}

static std::string wx_check(World& w) {
	env::State& E = env::S();
	if (E.wx_cache_events) return std::string("W^X violated on a cache-owned code buffer: ") + E.wx_what;
	if (g_secure_family && E.wx_events) return std::string("W^X violated with only secure VMs alive: ") + E.wx_what;
	return maps_check(false);
}

int main(int argc, char** argv) {
	vf::Args args = vf::parse_args(argc, argv, "C16");
	const bool th = args.thorough();
	const int depth = atoi(args.get("depth", th ? "6" : "5").c_str());
	struct Job { int flags; bool secure_family; std::string name; };
	std::vector<Job> jobs;
	for (auto& fs : rxh::vm_flagsets()) {
		bool jit = fs.flags & RANDOMX_FLAG_JIT, sec = fs.flags & RANDOMX_FLAG_SECURE;
		if (sec) jobs.push_back({ fs.flags, true, fs.name });
		else if (!jit) { if (th || !(fs.flags & RANDOMX_FLAG_HARD_AES)) jobs.push_back({ fs.flags | RANDOMX_FLAG_SECURE, true, std::string(fs.name) + "+SECURE" }); }
		else if (th || !(fs.flags & RANDOMX_FLAG_HARD_AES)) jobs.push_back({ fs.flags, false, std::string(fs.name) + " (non-secure, cache-owned buffers only)" });
	}
	// LARGE_PAGES variants of the secure JIT classes (separate VM classes in randomx_create_vm); the harness answers MAP_HUGETLB
	{ std::vector<Job> lp; for (auto& j : jobs) if (j.secure_family && (j.flags & RANDOMX_FLAG_JIT)) lp.push_back({ j.flags | RANDOMX_FLAG_LARGE_PAGES, true, j.name + "+LARGE_PAGES" }); for (auto& j : lp) jobs.push_back(j); }
	// creation attempts: every flag set with SECURE (and LARGE_PAGES, with and without huge pages available); a request made by a call that then fails counts as well
	struct Attempt { int flags; bool huge; };
	std::vector<Attempt> attempts;
	for (auto& fs : rxh::vm_flagsets()) for (int lp = 0; lp < 2; ++lp) for (int huge = 0; huge <= lp; ++huge) attempts.push_back({ fs.flags | RANDOMX_FLAG_SECURE | (lp ? RANDOMX_FLAG_LARGE_PAGES : 0), (bool)huge });
	auto attempt_case = [&](const Attempt& at) -> std::string {   // on a fresh monitor state
		env::State& E = env::S(); E.hugepages = true; g_secure_family = true; std::string d;
		randomx_cache* c; randomx_dataset* ds = nullptr; randomx_vm* vm;
		{ env::Track t; env::S().cur_owner = 10; c = randomx_alloc_cache((randomx_flags)(RANDOMX_FLAG_JIT | (at.flags & RANDOMX_FLAG_LARGE_PAGES))); if (c) randomx_init_cache(c, "test key 000", 12); }
		if (!c) return "randomx_alloc_cache failed";
		if (E.wx_cache_events) return std::string("W^X violated on a cache-owned code buffer: ") + E.wx_what;
		if (at.flags & RANDOMX_FLAG_FULL_MEM) { env::Track t; env::S().cur_owner = 30; ds = randomx_alloc_dataset((randomx_flags)(at.flags & RANDOMX_FLAG_LARGE_PAGES)); if (ds) randomx_init_dataset(ds, c, 0, randomx_dataset_item_count()); }
		E.hugepages = at.huge;
		{ env::Track t; env::S().cur_owner = 20; vm = randomx_create_vm((randomx_flags)at.flags, ds ? nullptr : c, ds); }
		if (!vm && !((at.flags & RANDOMX_FLAG_LARGE_PAGES) && !at.huge)) d = "randomx_create_vm returned NULL";
		if (d.empty() && E.wx_events) d = std::string("W^X violated while creating a secure VM") + (vm ? "" : " (the call then returned NULL)") + ": " + E.wx_what;
		if (d.empty() && vm) { uint8_t h[32]; { env::Track t; env::S().cur_owner = 20; randomx_calculate_hash(vm, "x", 1, h); } if (E.wx_events) d = std::string("W^X violated while hashing on a secure VM: ") + E.wx_what; }
		if (d.empty()) d = maps_check(false);
		{ env::Track t; if (vm) randomx_destroy_vm(vm); if (ds) randomx_release_dataset(ds); randomx_release_cache(c); }
		if (d.empty() && (E.wx_events || E.wx_cache_events)) d = std::string("W^X violated during destruction: ") + E.wx_what;
		return d;
	};
	// populations: MANY secure VMs (and two JIT caches) alive at once - a per-process table or pool inside the library only shows with dozens of live code buffers
	// (seeded change agent8_C16: a 16-entry protection table, W+X from the 17th buffer on). Create n secure VMs, hash on each, re-bind some to the second cache, hash, destroy.
	auto population_case = [&](int vmflags, int n) -> std::string {
		env::State& E = env::S(); E.hugepages = true; g_secure_family = true; std::string d; d.reserve(400); std::vector<randomx_vm*> vms; vms.reserve((size_t)n + 1);
		randomx_cache* c[2] = { nullptr, nullptr };
		{ env::Track t; for (int i = 0; i < 2; ++i) { env::S().cur_owner = 10 + i; c[i] = randomx_alloc_cache(RANDOMX_FLAG_JIT); if (c[i]) randomx_init_cache(c[i], i ? "second key" : "test key 000", i ? 10 : 12); } }
		if (!c[0] || !c[1]) return "randomx_alloc_cache failed";
		uint8_t h[32];
		for (int i = 0; i < n && d.empty(); ++i) {
			randomx_vm* vm; { env::Track t; env::S().cur_owner = 20; vm = randomx_create_vm((randomx_flags)vmflags, c[0], nullptr); }
			if (!vm) { d = "randomx_create_vm failed for VM " + std::to_string(i); break; } vms.push_back(vm);
			if (E.wx_events || E.wx_cache_events) { d = "creating secure VM #" + std::to_string(i) + " (" + std::to_string(i + 3) + " code buffers alive): " + E.wx_what; break; }
			{ env::Track t; randomx_calculate_hash(vm, "x", 1, h); }
			if (E.wx_events || E.wx_cache_events) { d = "first hash of secure VM #" + std::to_string(i) + ": " + E.wx_what; break; }
			if (i % 8 == 7) { std::string m = maps_check(false); if (!m.empty()) { d = "with " + std::to_string(i + 1) + " secure VMs alive: " + m; break; } }
		}
		for (size_t i = 0; i < vms.size() && d.empty(); i += 5) { { env::Track t; randomx_vm_set_cache(vms[i], c[1]); } if (E.wx_events || E.wx_cache_events) { d = "re-binding secure VM #" + std::to_string(i) + " of " + std::to_string(vms.size()) + ": " + E.wx_what; break; }
			{ env::Track t; randomx_calculate_hash(vms[i], "x", 1, h); } if (E.wx_events || E.wx_cache_events) { d = "hash after re-binding secure VM #" + std::to_string(i) + ": " + E.wx_what; break; } }
		if (d.empty()) d = maps_check(false);
		{ env::Track t; for (auto vm : vms) randomx_destroy_vm(vm); randomx_release_cache(c[0]); randomx_release_cache(c[1]); }
		if (d.empty() && (E.wx_events || E.wx_cache_events)) d = std::string("while giving the population back: ") + E.wx_what;
		return d;
	};
	auto make_alpha = [&](int flags) { Alphabet A; A.vm_flags = flags; A.keys = { "test key 000", "" }; A.inputs = { "This is a test" }; A.cache_jit_variants = true; A.with_batch = th; return A; };

	if (!args.replay.empty()) {
		vf::Json r = vf::Json::load(args.replay);
		if (r.has("kind") && r.at("kind").s == "population") { env::init(); maps_check(true); std::string d = population_case((int)r.at("vm_flags").num(), (int)r.at("n").num()); printf("replay: %s\n", d.empty() ? "no W+X page" : d.c_str()); return d.empty() ? 0 : 1; }
		if (r.has("kind") && r.at("kind").s == "attempt") { env::init(); maps_check(true); std::string d = attempt_case({ (int)r.at("vm_flags").num(), r.at("hugepages").b }); printf("replay: %s\n", d.empty() ? "no W+X page" : d.c_str()); return d.empty() ? 0 : 1; }
		Alphabet A = make_alpha((int)r.at("vm_flags").num()); g_secure_family = r.at("secure_family").b;
		env::init(); env::S().hugepages = true; W.A = &A; compute_expected(W); maps_check(true);
		for (auto& o : hist_from(r.at("history_raw"))) { if (!W.enabled(o)) return 2; if (!W.apply(o)) { printf("replay: %s\n", W.problem.c_str()); return 1; } std::string sc = wx_check(W); if (!sc.empty()) { printf("replay: after %s: %s\n", op_str(o).c_str(), sc.c_str()); return 1; } }
		printf("replay: no W+X page\n"); return 0;
	}

	vf::Result total = vf::run_shards(args, (int)jobs.size() + 2, [&](int shard) {
		vf::Result R;
		if (shard == (int)jobs.size() + 1) {   // creation attempts, each in a forked child (fresh monitor state)
			for (auto& at : attempts) {
				vf::Json rp = vf::Json::obj().set("kind", "attempt").set("vm_flags", at.flags).set("hugepages", at.huge);
				int pfd[2]; if (pipe(pfd)) continue; fflush(stdout); pid_t pid = fork();
				if (pid == 0) { env::init(); maps_check(true); std::string d = attempt_case(at); if (write(pfd[1], d.data(), d.size())) {} _exit(0); }
				close(pfd[1]); std::string d; char buf[512]; ssize_t k; while ((k = read(pfd[0], buf, sizeof buf)) > 0) d.append(buf, (size_t)k); close(pfd[0]); int st; waitpid(pid, &st, 0);
				if (!(WIFEXITED(st) && WEXITSTATUS(st) == 0)) d = "abnormal termination of the creation attempt";
				R.n["creation_attempts"]++;
				if (!d.empty() && R.viol.size() < 4) { vf::Violation v; v.key = "c16:attempt"; char t[64]; snprintf(t, sizeof t, "flags 0x%x hugepages=%s: ", at.flags, at.huge ? "yes" : "no"); v.what = std::string("create_vm ") + t + d; v.replay = rp; R.viol.push_back(v); }
			}
			for (int vmf : { (int)(RANDOMX_FLAG_JIT | RANDOMX_FLAG_SECURE), (int)(RANDOMX_FLAG_JIT | RANDOMX_FLAG_SECURE | RANDOMX_FLAG_HARD_AES), (int)(RANDOMX_FLAG_JIT | RANDOMX_FLAG_SECURE | RANDOMX_FLAG_LARGE_PAGES) }) for (int n : { 15, 16, 17, 40 }) {
				if (!th && n != 17 && n != 40) continue;
				vf::Json rp = vf::Json::obj().set("kind", "population").set("vm_flags", vmf).set("n", n);
				int pfd[2]; if (pipe(pfd)) continue; fflush(stdout); pid_t pid = fork();
				if (pid == 0) { env::init(); maps_check(true); std::string d = population_case(vmf, n); if (write(pfd[1], d.data(), d.size())) {} _exit(0); }
				close(pfd[1]); std::string d; char buf[512]; ssize_t k; while ((k = read(pfd[0], buf, sizeof buf)) > 0) d.append(buf, (size_t)k); close(pfd[0]); int st; waitpid(pid, &st, 0);
				if (!(WIFEXITED(st) && WEXITSTATUS(st) == 0)) d = "abnormal termination of the population";
				R.n["populations"]++;
				if (!d.empty() && R.viol.size() < 4) { vf::Violation v; v.key = "c16:population"; char t[80]; snprintf(t, sizeof t, "%d secure VMs (flags 0x%x) on two JIT caches: ", n, vmf); v.what = t + d; v.replay = rp; R.viol.push_back(v); }
			}
			return R;
		}
		if (shard == (int)jobs.size()) {   // positive control: the monitor must see RWX for a non-secure JIT VM, and code must have been executable (hash correct)
			Alphabet A = make_alpha(RANDOMX_FLAG_JIT); env::init(); W.A = &A; compute_expected(W); g_secure_family = false;
			for (Op o : { Op{ ALLOC_CACHE, 0, 0 }, Op{ INIT_CACHE, 0, 0 }, Op{ CREATE_VM, 0, 0 }, Op{ HASH, 0, 0 } }) if (!W.apply(o)) { vf::Violation v; v.key = "c16:control"; v.what = "control history failed: " + W.problem; v.replay = vf::Json::obj(); R.viol.push_back(v); return R; }
			R.n["control_rwx_events_seen"] = (uint64_t)env::S().wx_events;
			if (env::S().wx_events == 0) { fprintf(stderr, "c16: monitor did not see the RWX buffer of a non-secure JIT VM - interposition broken (framework error)\n"); _exit(3); }
			return R;
		}
		const Job& j = jobs[shard]; Alphabet A = make_alpha(j.flags); g_secure_family = j.secure_family;
		env::init(); env::S().hugepages = true; explore_init(); W.A = &A; compute_expected(W); OPS = W.alphabet_ops(); state_check = wx_check; dedup = true;
		maps_check(true);
		// fixed setup (monitored like everything else): JIT cache, key, dataset for fast sets, the VM
		std::vector<Op> setup = { { ALLOC_CACHE, 0, 1 }, { INIT_CACHE, 0, 0 } }; if (A.full()) { setup.push_back({ ALLOC_DS, 0, 0 }); setup.push_back({ INIT_DS, 0, 0 }); } setup.push_back({ CREATE_VM, 0, 0 });
		for (auto& o : setup) { bool ok = W.enabled(o) && W.apply(o); std::string sc = ok ? wx_check(W) : W.problem; H.push_back(o); if (!ok || !sc.empty()) { record(H, sc.empty() ? "setup failed" : sc, 0); break; } }
		if (!SH->nviol) for (int d = 1; d <= depth; ++d) { uint64_t keep = SH->nviol; memset(SH, 0, sizeof(Shared) + TAB * sizeof(Shared::E)); SH->nviol = keep; visit(W.digest(), d); explore(d); if (SH->nviol) break; }   // iterative deepening
		R.n["states"] = SH->states; R.n["transitions"] = SH->transitions; R.n["hashes_checked"] = SH->hashes; R.n["explorations"] = 1; R.mx["history_length"] = SH->max_depth_reached;
		R.tags.insert(j.name + ": " + std::to_string(SH->states) + " states");
		for (uint64_t i = 0; i < std::min<uint64_t>(SH->nviol, 8); ++i) {
			auto& sv = SH->viol[i]; std::vector<Op> h; for (int k = 0; k < sv.hlen; ++k) h.push_back(Op{ (uint8_t)(sv.h[k] & 255), (uint8_t)((sv.h[k] >> 8) & 255), (uint8_t)((sv.h[k] >> 16) & 255) });
			std::string hs; for (auto& o : h) hs += op_str(o) + " ";
			vf::Violation v; v.key = std::string("c16:") + (j.secure_family ? "secure:" : "cache:") + OPNAME[h.back().code]; v.what = j.name + " history: " + hs + "=> " + sv.what;
			v.replay = vf::Json::obj().set("vm_flags", j.flags).set("secure_family", j.secure_family).set("history", hist_json(h)).set("history_raw", hist_raw(h)); R.viol.push_back(v);
		}
		if (shard == 0) R.sample(vf::Json::obj().set("cfg", j.name).set("history", "alloc_cache(c0,JIT) init_cache(c0,K0) create_vm(c0) hash(X0) init_cache(c0,K1) vm_set_cache(c0) hash(X0) destroy_vm()").set("oracle", "no mmap/mprotect request with WRITE|EXEC; /proc/self/maps agrees after every call"), 2);
		return R;
	}, true, 3600);
	vf::Evidence ev; ev.level = "model_checking";
	ev.coverage.set("states", (unsigned long long)total.n["states"]).set("transitions", (unsigned long long)total.n["transitions"]).set("traces_validated_against_impl", (unsigned long long)total.n["transitions"])
		.set("evaluations", (unsigned long long)total.n["transitions"]).set("distinct_nontrivial", (unsigned long long)total.n["states"]).set("depth_bound", depth).set("exhaustive", !total.incomplete)
		.set("rule", std::string("profile ") + RX_PROFILE + ": histories of alloc/init/re-key/release cache (default and JIT, two caches), create/destroy VM, vm_set_cache, dataset ops, hash" + (th ? ", first/next/last" : "") + ", v1<->v2 up to the depth bound, per VM flag set: secure family (SECURE JIT sets and interpreter sets with the SECURE bit) - no protection request carries WRITE and EXEC together on any library mapping; non-secure JIT family - none on cache-owned mappings; after every call /proc/self/maps must agree with the tracked protections and show no new w+x region; the secure JIT sets also with LARGE_PAGES (harness answers MAP_HUGETLB); creation attempts: every flag set with SECURE, with LARGE_PAGES where huge pages are available and where they are not (the call fails: requests made before the failure count); populations of 17 and 40 (thorough also 15, 16) secure VMs on two JIT caches with hashes and re-binds; positive control: a non-secure JIT VM is seen as RWX by the monitor and hashes stay correct (pages were executable when needed)");
	ev.assumptions = { "Linux/x86-64 only; the macOS pthread_jit_write_protect_np path is not compiled here", "protection requests reach the kernel only through libc's mmap/mprotect (validated against /proc/self/maps after every call)" };
	return vf::finish(args, total, ev, true, true);
}
