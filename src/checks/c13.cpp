// C13 - hashing neither depends on nor disturbs the caller's FP environment.
// Enumerates entry MXCSR states x 12 VM configurations x {v1,v2} x inputs (thorough: ALL 2^16 MXCSR values).
#include "common/rxh.hpp"
#include "common/alph.hpp"
#include <cfenv>
#include <thread>

using namespace rxh;
#ifndef RX_PROFILE
#define RX_PROFILE "mini"
#endif
#ifdef RX_PORTABLE
static const bool portable = true;
#else
static const bool portable = false;
#endif

struct World {
	randomx_cache* cache = nullptr; randomx_dataset* ds = nullptr; std::vector<randomx_vm*> vms; std::vector<std::string> names;
	void build(bool all) {
		cache = randomx_alloc_cache(portable ? RANDOMX_FLAG_DEFAULT : RANDOMX_FLAG_JIT); randomx_init_cache(cache, "test key 000", 12);
		ds = randomx_alloc_dataset(RANDOMX_FLAG_DEFAULT);
		{ unsigned long n = randomx_dataset_item_count(); int nt = n > 100000 ? 16 : 1; std::vector<std::thread> th; unsigned long per = n / nt; for (int t = 0; t < nt; ++t) { unsigned long b = per * t, c = t == nt - 1 ? n - b : per; th.emplace_back([=] { randomx_init_dataset(ds, cache, b, c); }); } for (auto& t : th) t.join(); }
		for (auto& fs : vm_flagsets()) {
			if (portable && (fs.flags & (RANDOMX_FLAG_JIT | RANDOMX_FLAG_HARD_AES))) continue;
			if (!all && (fs.flags & RANDOMX_FLAG_SECURE)) continue;
			bool full = fs.flags & RANDOMX_FLAG_FULL_MEM;
			randomx_vm* vm = randomx_create_vm((randomx_flags)fs.flags, full ? nullptr : cache, full ? ds : nullptr);
			if (!vm) { fprintf(stderr, "c13: create_vm %s failed\n", fs.name); exit(2); }
			vms.push_back(vm); names.push_back(fs.name);
		}
	}
};

// noinline + volatile plumbing: nothing floating-point may happen in the harness while a hostile MXCSR is loaded
// the x87 control word is part of "the caller's floating-point control word" on x86-64 as well: it follows the rounding bits of the MXCSR under test and must come back unchanged
static inline unsigned short get_x87cw() { unsigned short cw; asm volatile("fnstcw %0" : "=m"(cw)); return cw; }
static inline void set_x87cw(unsigned short cw) { asm volatile("fldcw %0" : : "m"(cw)); }
static volatile int g_x87_changed = 0; static volatile unsigned g_x87_before = 0, g_x87_after = 0;
static __attribute__((noinline)) unsigned hash_under(randomx_vm* vm, const void* in, size_t n, void* out, unsigned csr) {
	unsigned short cw = (unsigned short)(0x037F | (((csr >> 13) & 3) << 10)); set_x87cw(cw);
	_mm_setcsr(csr); randomx_calculate_hash(vm, in, n, out); unsigned after = _mm_getcsr(); _mm_setcsr(0x1F80);
	unsigned short cw2 = get_x87cw(); set_x87cw(0x037F); if (cw2 != cw) { g_x87_changed = 1; g_x87_before = cw; g_x87_after = cw2; }
	return after;
}
static __attribute__((noinline)) void first_under(randomx_vm* vm, const void* in, size_t n, unsigned csr) { _mm_setcsr(csr); randomx_calculate_hash_first(vm, in, n); _mm_setcsr(0x1F80); }
static __attribute__((noinline)) unsigned next_under(randomx_vm* vm, const void* in, size_t n, void* out, unsigned csr) { _mm_setcsr(csr); randomx_calculate_hash_next(vm, in, n, out); unsigned a = _mm_getcsr(); _mm_setcsr(0x1F80); return a; }
static __attribute__((noinline)) unsigned last_under(randomx_vm* vm, void* out, unsigned csr) { _mm_setcsr(csr); randomx_calculate_hash_last(vm, out); unsigned a = _mm_getcsr(); _mm_setcsr(0x1F80); return a; }

static std::vector<unsigned> core_set(bool tiny) {
	std::vector<unsigned> v;
	for (unsigned rc = 0; rc < 4; ++rc) for (unsigned ftz = 0; ftz < 2; ++ftz) for (unsigned daz = 0; daz < 2; ++daz) for (unsigned masks = 0; masks < 2; ++masks) for (unsigned flags = 0; flags < 2; ++flags) {
		if (portable && !masks) continue;                      // fenv-based build: exceptions stay masked (see DESIGN.md C13)
		if (tiny && !((ftz == 0 && daz == 0 && masks == 1 && flags == 0) || (ftz == 1 && daz == 1 && masks == (portable ? 1u : 0u) && flags == 1))) continue;
		v.push_back((rc << 13) | (ftz << 15) | (daz << 6) | (masks ? 0x1F80 : 0) | (flags ? 0x3F : 0));
	}
	return v;
}

int main(int argc, char** argv) {
	vf::Args args = vf::parse_args(argc, argv, "C13");
	const bool th = args.thorough();
	const bool reduced = args.get("reduced") == "1";
	World w; w.build(!reduced);
	if (reduced) { std::vector<randomx_vm*> v2; std::vector<std::string> n2; for (size_t i = 0; i < w.vms.size(); ++i) if (w.names[i] == "jit-hard-light" || w.names[i] == "jit-soft-fast" || w.names[i] == "int-hard-fast" || w.names[i] == "int-soft-light") { v2.push_back(w.vms[i]); n2.push_back(w.names[i]); } w.vms = v2; w.names = n2; }
	// inputs: chosen by a pre-pass on the implementation so that the set contains one input whose last program leaves a
	// non-default rounding mode and one that leaves the default mode, for each version (observed through first/last)
	std::vector<std::string> inputs;
	{
		bool have[2][2] = { { false, false }, { false, false } }; int guard = 0;
		for (int k = 0; k < 400 && !(have[0][0] && have[0][1] && have[1][0] && have[1][1]); ++k) {
			std::string in = alph::input(k % 90, k % 3) + std::to_string(k); bool useful = false;
			for (int v2 = 0; v2 < 2; ++v2) { randomx_vm* vm = w.vms[0]; if (v2) vm->setFlagV2(); else vm->clearFlagV2(); uint8_t o[32]; first_under(vm, in.data(), in.size(), 0x1F80); unsigned a = last_under(vm, o, 0x1F80); int nd = ((a >> 13) & 3) != 0; if (!have[v2][nd]) { have[v2][nd] = true; useful = true; } }
			if (useful) inputs.push_back(in); ++guard;
		}
		inputs.push_back(""); inputs.push_back(alph::input(200, 1));
		if (!th && inputs.size() > 4) inputs.resize(4);
		if (reduced && inputs.size() > 2) inputs.resize(2);
	}
	std::vector<unsigned> states = core_set(false);
	if (th && !portable) { states.clear(); for (unsigned x = 0; x < 65536; ++x) states.push_back(x); }
	std::vector<unsigned> tri = core_set(true);
	if (reduced) { tri = { tri[1], tri[6] }; if (th && !portable) states = core_set(false); }

	auto single = [&](int vi, int v2, const std::string& in, unsigned csr) -> std::string {
		randomx_vm* vm = w.vms[vi]; if (v2) vm->setFlagV2(); else vm->clearFlagV2();
		uint8_t ref[32], out[32]; hash_under(vm, in.data(), in.size(), ref, 0x1F80);
		unsigned a;
		if (portable) {   // fenv-based build: compare complete fegetenv images
			static const int fe[4] = { FE_TONEAREST, FE_DOWNWARD, FE_UPWARD, FE_TOWARDZERO };
			fenv_t saved, before, after; fegetenv(&saved);
			_mm_setcsr(csr); fesetround(fe[(csr >> 13) & 3]); fegetenv(&before); csr = _mm_getcsr();
			randomx_calculate_hash(vm, in.data(), in.size(), out);
			a = _mm_getcsr(); fegetenv(&after); fesetenv(&saved);
			if (memcmp(&before, &after, sizeof before)) return "fegetenv image after the hash differs from the image on entry (entry MXCSR " + vf::hex64(csr) + ")";
		} else a = hash_under(vm, in.data(), in.size(), out, csr);
		if (memcmp(ref, out, 32)) return "digest under entry MXCSR " + vf::hex64(csr) + " differs from the digest under the default state";
		if (a != csr) return "MXCSR on return " + vf::hex64(a) + " != MXCSR on entry " + vf::hex64(csr);
		if (g_x87_changed) { g_x87_changed = 0; return "x87 control word on return " + vf::hex64(g_x87_after) + " != on entry " + vf::hex64(g_x87_before); }
		return "";
	};
	auto piped = [&](int vi, int v2, unsigned c1, unsigned c2, unsigned c3) -> std::string {
		randomx_vm* vm = w.vms[vi]; if (v2) vm->setFlagV2(); else vm->clearFlagV2();
		uint8_t r0[32], r1[32], o0[32], o1[32]; const std::string& a = inputs[0]; const std::string& b = inputs[1 % inputs.size()];
		hash_under(vm, a.data(), a.size(), r0, 0x1F80); hash_under(vm, b.data(), b.size(), r1, 0x1F80);
		first_under(vm, a.data(), a.size(), c1); next_under(vm, b.data(), b.size(), o0, c2); last_under(vm, o1, c3);
		if (memcmp(r0, o0, 32) || memcmp(r1, o1, 32)) return "pipelined digests under entry states (" + vf::hex64(c1) + "," + vf::hex64(c2) + "," + vf::hex64(c3) + ") differ from the single-call digests";
		return "";
	};

	// a pipeline that is abandoned (a new job arrives): the next single-call hash on the same VM must still honour the single-call
	// contract, and a pipeline restarted with first() must return the digests of its own inputs (added after seeded change agent5_C13)
	auto abandoned = [&](int vi, int v2, unsigned c1, unsigned c2, int stage) -> std::string {
		randomx_vm* vm = w.vms[vi]; if (v2) vm->setFlagV2(); else vm->clearFlagV2();
		const std::string& a = inputs[0]; const std::string& b = inputs[1 % inputs.size()]; uint8_t tmp[32], out[32], ref[32];
		first_under(vm, a.data(), a.size(), c1); if (stage >= 1 && stage != 2) next_under(vm, b.data(), b.size(), tmp, c1);
		if (stage == 2) {   // restart: first(a) first(b) last
			first_under(vm, b.data(), b.size(), c2); last_under(vm, out, c2); hash_under(vm, b.data(), b.size(), ref, 0x1F80);
			if (memcmp(out, ref, 32)) return "a pipeline restarted with first() returned a digest that differs from the single-call digest (entry states " + vf::hex64(c1) + "," + vf::hex64(c2) + ")";
			return "";
		}
		const std::string& in = stage == 0 ? b : a; unsigned after;
		if (portable) { static const int fe[4] = { FE_TONEAREST, FE_DOWNWARD, FE_UPWARD, FE_TOWARDZERO }; fenv_t saved, before, aft; fegetenv(&saved); _mm_setcsr(c2); fesetround(fe[(c2 >> 13) & 3]); fegetenv(&before); c2 = _mm_getcsr();
			randomx_calculate_hash(vm, in.data(), in.size(), out); after = _mm_getcsr(); fegetenv(&aft); fesetenv(&saved);
			if (memcmp(&before, &aft, sizeof before)) return "after an abandoned pipeline: fegetenv image after the single-call hash differs from the image on entry (entry MXCSR " + vf::hex64(c2) + ")"; }
		else after = hash_under(vm, in.data(), in.size(), out, c2);
		hash_under(vm, in.data(), in.size(), ref, 0x1F80);
		if (memcmp(out, ref, 32)) return "after an abandoned pipeline: digest of the single-call hash under entry MXCSR " + vf::hex64(c2) + " differs from the digest under the default state";
		if (after != c2) return "after an abandoned pipeline (opened under MXCSR " + vf::hex64(c1) + "): MXCSR on return from the single-call hash " + vf::hex64(after) + " != MXCSR on entry " + vf::hex64(c2);
		return "";
	};

	if (!args.replay.empty()) {
		vf::Json r = vf::Json::load(args.replay); std::string d;
		if (r.at("kind").s == "abandoned") { d = abandoned((int)r.at("vm").num(), (int)r.at("v2").num(), (unsigned)r.at("c1").num(), (unsigned)r.at("c2").num(), (int)r.at("stage").num()); printf("replay: %s\n", d.empty() ? "holds" : d.c_str()); return d.empty() ? 0 : 1; }
		if (r.at("kind").s == "single") { auto in = vf::unhex(r.at("input").s); d = single((int)r.at("vm").num(), (int)r.at("v2").num(), std::string((const char*)in.data(), in.size()), (unsigned)r.at("mxcsr").num()); }
		else d = piped((int)r.at("vm").num(), (int)r.at("v2").num(), (unsigned)r.at("c1").num(), (unsigned)r.at("c2").num(), (unsigned)r.at("c3").num());
		if (d.empty() && r.has("k")) {   // not visible in isolation: re-run this shard's cases in the original order on the same VM objects (history-dependent defect)
			int shard = (int)r.at("shard").num(); size_t want = (size_t)r.at("k").num(), k = 0; const int nv = (int)w.vms.size(), nsh = 64; bool single_kind = r.at("kind").s == "single";
			for (size_t si = 0; si < states.size() && d.empty(); ++si) for (int vi = 0; vi < nv && d.empty(); ++vi) for (int v2 = 0; v2 < 2 && d.empty(); ++v2) for (size_t ii = 0; ii < inputs.size() && d.empty(); ++ii, ++k) {
				if ((int)(k % nsh) != shard) continue; if (single_kind && k > want) break;
				d = single(vi, v2, inputs[ii], states[si]); if (!(single_kind && k == want)) d.clear();
			}
			if (!single_kind) { k = 0; for (unsigned c1 : tri) for (unsigned c2 : tri) for (unsigned c3 : tri) for (int vi = 0; vi < nv; ++vi) for (int v2 = 0; v2 < 2; ++v2, ++k) { if ((int)(k % nsh) != shard || k > want || !d.empty()) continue; d = piped(vi, v2, c1, c2, c3); if (k != want) d.clear(); } }
			if (!d.empty()) d += " [only after the preceding calls on the same VM: history-dependent]";
		}
		printf("replay: %s\n", d.empty() ? "holds" : d.c_str()); return d.empty() ? 0 : 1;
	}
	const int nv = (int)w.vms.size();
	const int nsh = 64;
	vf::Result total = vf::run_shards(args, nsh, [&](int shard) {
		vf::Result R; size_t k = 0;
		for (size_t si = 0; si < states.size(); ++si) for (int vi = 0; vi < nv; ++vi) for (int v2 = 0; v2 < 2; ++v2) for (size_t ii = 0; ii < inputs.size(); ++ii, ++k) {
			if ((int)(k % nsh) != shard) continue;
			if ((k & 1023) == 0 && args.expired()) { R.incomplete = true; return R; }
			vf::Json rp = vf::Json::obj().set("kind", "single").set("vm", vi).set("cfg", w.names[vi]).set("v2", v2).set("input", vf::hex(inputs[ii].data(), inputs[ii].size())).set("mxcsr", (int)states[si]).set("shard", shard).set("k", (unsigned long long)k);
			vf::set_current(rp.dump()); vf::watchdog(300);
			std::string d = single(vi, v2, inputs[ii], states[si]); R.n["single_calls"]++; alarm(0);
			if (k % 50021 == 0) R.sample(rp, 2);
			if (!d.empty() && R.viol.size() < 3) { vf::Violation v; v.key = "c13:single"; v.what = w.names[vi] + (v2 ? " v2: " : " v1: ") + d; v.replay = rp; R.viol.push_back(v); }
		}
		k = 0;
		for (unsigned c1 : tri) for (unsigned c2 : tri) for (unsigned c3 : tri) for (int vi = 0; vi < nv; ++vi) for (int v2 = 0; v2 < 2; ++v2, ++k) {
			if ((int)(k % nsh) != shard) continue;
			vf::Json rp = vf::Json::obj().set("kind", "piped").set("vm", vi).set("cfg", w.names[vi]).set("v2", v2).set("c1", (int)c1).set("c2", (int)c2).set("c3", (int)c3).set("shard", shard).set("k", (unsigned long long)k);
			vf::set_current(rp.dump());
			std::string d = piped(vi, v2, c1, c2, c3); R.n["pipelined_batches"]++;
			if (!d.empty() && R.viol.size() < 3) { vf::Violation v; v.key = "c13:pipelined"; v.what = w.names[vi] + (v2 ? " v2: " : " v1: ") + d; v.replay = rp; R.viol.push_back(v); }
		}
		k = 0;
		for (unsigned c1 : tri) for (unsigned c2 : tri) for (int stage = 0; stage < 3; ++stage) for (int vi = 0; vi < nv; ++vi) for (int v2 = 0; v2 < 2; ++v2, ++k) {
			if ((int)(k % nsh) != shard) continue;
			vf::Json rp = vf::Json::obj().set("kind", "abandoned").set("vm", vi).set("cfg", w.names[vi]).set("v2", v2).set("c1", (int)c1).set("c2", (int)c2).set("stage", stage);
			vf::set_current(rp.dump());
			std::string d = abandoned(vi, v2, c1, c2, stage); R.n["abandoned_pipelines"]++;
			if (!d.empty() && R.viol.size() < 3) { vf::Violation v; v.key = "c13:abandoned"; v.what = w.names[vi] + (v2 ? " v2: " : " v1: ") + d; v.replay = rp; R.viol.push_back(v); }
		}
		return R;
	}, true, 3600);
	vf::Evidence ev; ev.level = "exploration";
	ev.coverage.set("evaluations", (unsigned long long)(total.n["single_calls"] + total.n["pipelined_batches"] + total.n["abandoned_pipelines"])).set("distinct_nontrivial", (unsigned long long)(states.size() * nv * 2))
		.set("exhaustive", !total.incomplete).set("mxcsr_states", (unsigned long long)states.size()).set("inputs", (unsigned long long)inputs.size())
		.set("rule", std::string("profile ") + RX_PROFILE + (portable ? " portable build" : "") + ": entry MXCSR states (" + (th && !portable ? "ALL 2^16 values" : "4 rounding modes x FTZ x DAZ x exception masks all/none x flags all/none") + ") x every VM configuration x {v1,v2} x inputs chosen by a pre-pass so that the last program leaves a default / a non-default rounding mode: digest == digest under the default state and MXCSR on return == MXCSR on entry (all bits) and the x87 control word (set to the same rounding mode) unchanged; pipelined first/next/last with the entry state set independently before each of the three calls (all triples of a reduced state set): digests == single-call digests; abandoned pipelines (first | first,next, then a single-call hash; first, first, last) under all pairs of the reduced state set: the single call keeps its contract (digest, MXCSR on return == on entry) and a restarted pipeline returns the digest of its own input. distinct = (state, configuration, version) combinations")
		;
	ev.assumptions = { "x86-64: MXCSR (all bits) and the x87 control word are observed; the x87 status word / tag word are not (the library executes no x87 instruction on x86-64)" };
	return vf::finish(args, total, ev, true, true);
}
