// C07 - every program terminates within a fixed instruction budget.
// (M1) arithmetic model, exhaustive: window (bits b-1..b+7) of the branch register and of the branch constant with the
//      three carries into bit b-1 chosen nondeterministically (over-approximates every real low part): a branch is
//      never taken three times in a row.  Every abstract trace that is realisable is concretised to (dst, imm32) and
//      the three steps are replayed on the real compileInstruction + executeInstruction (conformance).
// (M2) the code satisfies the model's premises: for b in 8..23 x imm32 the interpreter's decoded constant and mask, and
//      the constant/mask bytes the x86 emitter writes, are: bit b set, bit b-1 clear, other bits = sign-extended imm32,
//      mask = 0xFF << b (thorough: ALL 2^32 immediates on the interpreter).
// (M3) structure on real decoded programs: registers a word can modify (differential execution) are recorded as
//      written; for all programs up to length 5 over a structural alphabet: no branch and no writer of the branch
//      register strictly inside a branch body (interpreter targets == JIT targets); an adversary that may take each
//      branch at most twice in a row never makes the stepped interpreter loop execute more than 3*|P| instructions.
#include "common/progs.hpp"
#include "jit_compiler_x86.hpp"

using namespace rxh;
using randomx::BytecodeMachine; using randomx::InstructionByteCode; using randomx::NativeRegisterFile; using randomx::Instruction; using randomx::InstructionType;

static const int JO = RANDOMX_JUMP_OFFSET, JB = RANDOMX_JUMP_BITS;

static Instruction mkins(const Word& w) { Instruction i; i.opcode = w.op; i.dst = w.dst; i.src = w.src; i.mod = w.mod; i.setImm32(w.imm); return i; }

// ---- M2: premises for one (b, imm32) on the interpreter decoder; "" if ok
static inline bool premise_ok(uint64_t cimm, uint32_t mask, int b, uint32_t imm32) {
	uint64_t want = (uint64_t)(int64_t)(int32_t)imm32; want |= 1ull << b; want &= ~(1ull << (b - 1));
	return cimm == want && mask == (((1u << JB) - 1) << b);
}

struct Interp {
	BytecodeMachine bm; NativeRegisterFile nreg; InstructionByteCode bc; randomx::ProgramConfiguration cfg{}; uint8_t sp[64];
	void decode(const Word& w, int i = 0) { Instruction ins = mkins(w); bm.compileInstruction(ins, i, bc); }
	void begin() { bm.beginCompilation(nreg); }
};

int main(int argc, char** argv) {
	vf::Args args = vf::parse_args(argc, argv, "C07");
	const bool th = args.thorough();
	const int opCB = op_of("CBRANCH");
	randomx_cache* cache = randomx_alloc_cache(RANDOMX_FLAG_DEFAULT); randomx_init_cache(cache, "c07", 3);

	// replay: kinds m1 / m2 / m3
	auto m1_case = [&](int b, unsigned dw, unsigned cf, unsigned carries, uint64_t lowd, uint64_t lowc, std::string& d) -> bool {
		// concrete values: window at bits b-1..b+7, chosen low parts below b-1, generic high parts
		uint64_t cw = ((uint64_t)cf << 2) | 2;                                 // window of cimm: bit0 (=b-1) clear, bit1 (=b) set, 7 free bits
		uint64_t dst = ((uint64_t)dw << (b - 1)) | lowd | (0xA5ull << (b + 8)); uint32_t imm32 = (uint32_t)(((cw >> 2) << (b + 1)) | lowc) | (0x5Au << (b + 8 > 31 ? 31 : b + 8));
		(void)carries;
		Interp I; I.begin(); Word w = W(opCB, 0, 0, (b - JO) << 4, imm32); I.decode(w, 0);
		if (!premise_ok(I.bc.imm, I.bc.memMask, b, imm32)) { d = "decoded branch constant violates the model's premises"; return false; }
		int taken = 0, worst = 0; I.nreg.r[0] = dst;
		// model prediction for the same concrete values, step by step
		uint64_t m = dst; uint64_t cimm = I.bc.imm; uint64_t mask = (uint64_t)(((1u << JB) - 1)) << b;
		for (int k = 0; k < 3; ++k) {
			m += cimm; bool mt = (m & mask) == 0;
			int pc = 5; I.bc.target = -1; BytecodeMachine::executeInstruction(I.bc, pc, I.sp, I.cfg, RANDOMX_FLAG_DEFAULT);
			bool it = pc == -1;
			if (it != mt || I.nreg.r[0] != m) { d = "exe_CBRANCH disagrees with the arithmetic model at step " + std::to_string(k); return false; }
			taken = it ? taken + 1 : 0; worst = std::max(worst, taken);
		}
		if (worst >= 3) { d = "branch taken three times in a row (dst=" + vf::hex64(dst) + ", imm32=" + vf::hex64(imm32) + ", b=" + std::to_string(b) + ")"; return false; }
		return true;
	};

	const int nsh = 64;
	auto shard_fn = [&](int shard) -> vf::Result {
		vf::Result R;
		auto viol = [&](const std::string& key, const std::string& what, const vf::Json& rp) { if (R.viol.size() < 3) { vf::Violation v; v.key = key; v.what = what; v.replay = rp; R.viol.push_back(v); } };
		if (shard == nsh) {
			// ---------------- M1: exhaustive abstract model (independent of the code) + conformance replay
			uint64_t states = 0, maxrun = 0;
			for (unsigned dw = 0; dw < 512; ++dw) for (unsigned cf = 0; cf < 128; ++cf) for (unsigned car = 0; car < 8; ++car) {
				unsigned cw = (cf << 2) | 2, x = dw; int run = 0, worst = 0;
				for (int k = 0; k < 3; ++k) { x = (x + cw + ((car >> k) & 1)) & 511; bool t = (x >> 1) == 0; run = t ? run + 1 : 0; worst = std::max(worst, run); }
				++states; maxrun = std::max<uint64_t>(maxrun, (uint64_t)worst);
				if (worst >= 3) viol("c07:model", "abstract model: three consecutive taken branches (window " + std::to_string(dw) + ", constant bits " + std::to_string(cf) + ", carries " + std::to_string(car) + ")", vf::Json::obj().set("kind", "model"));
			}
			R.n["model_states"] = states * 16; R.mx["model_max_consecutive_taken"] = maxrun; R.n["transitions"] += states * 3 * 16;
			// conformance: every abstract (window, constant bits) with low parts realising different carry patterns, all 16 shifts
			for (int b = JO; b < JO + 16; ++b) for (unsigned dw = 0; dw < 512; ++dw) for (unsigned cf = 0; cf < 128; ++cf) {
				static const uint64_t lows[4][2] = { { 0, 0 }, { ~0ull, ~0ull }, { ~0ull, 1 }, { 0x55, 0x2B } };   // low parts (masked below) giving carry patterns 000, 111, 100.., mixed
				for (int l = 0; l < (th ? 4 : 2); ++l) {
					uint64_t lm = (1ull << (b - 1)) - 1; std::string d;
					if (!m1_case(b, dw, cf, 0, lows[l][0] & lm, lows[l][1] & lm, d)) viol("c07:m1", d, vf::Json::obj().set("kind", "m1").set("b", b).set("dw", (int)dw).set("cf", (int)cf).set("lowd", (unsigned long long)(lows[l][0] & lm)).set("lowc", (unsigned long long)(lows[l][1] & lm)));
					R.n["traces_replayed"]++;
				}
			}
			R.sample(vf::Json::obj().set("kind", "m1").set("b", 8).set("dst_window", 510).set("cimm_free_bits", 127).set("carries", "0,0,0").set("expect", "taken, taken, not taken"), 1);
			return R;
		}
		if (shard == nsh + 1) {
			// ---------------- M3: structure
			Interp I; auto sigma = sigma_alphabet();
			// (i) registers a word can modify are recorded as written (interpreter table and JIT table)
			auto E = make_engine(RANDOMX_FLAG_JIT, cache, nullptr); auto* jc = jit_of(*E);
			// words: the Sigma alphabet plus EVERY opcode x dst x src with a few mod/imm32 classes (a slip for one register or one opcode of a type is enough)
			std::vector<Word> facts(sigma.begin(), sigma.end());
			{ static const struct { unsigned mod; uint32_t imm; } MI[] = { { 0x00, 0 }, { 0xFC, 0xFFFFFFFFu }, { 0x51, 7 }, { 0x0E, 0x80000000u }, { 0xA3, 65536 }, { 0x30, 0x00012300 } };
			  for (int op = 0; op < 256; ++op) for (int d = 0; d < 8; ++d) for (int sr = 0; sr < 8; ++sr) for (auto& mi : MI) { if (!th && (&mi - MI) >= 3 && ((op + d + sr) & 3)) continue; facts.push_back(W(op, d, sr, mi.mod, mi.imm)); } }
			for (auto& w : facts) {
				I.begin(); I.decode(w, 7); bool changed[8] = { false };
				for (int st = 0; st < 4; ++st) {
					uint64_t before[8]; for (int i = 0; i < 8; ++i) before[i] = I.nreg.r[i] = 0x9E3779B97F4A7C15ull * (i + 1 + st * 8) ^ (0x1111111111111111ull * st);
					for (int i = 0; i < 4; ++i) { I.nreg.f[i] = _mm_set_pd(1.5 + i, 2.5 + st); I.nreg.e[i] = _mm_set_pd(3.5, 4.5); I.nreg.a[i] = _mm_set_pd(1.25, 1.75); }
					memset(I.sp, 0x3C, sizeof I.sp); int pc = 7; InstructionByteCode bc = I.bc; bc.memMask &= 56; if (bc.type == InstructionType::CBRANCH) bc.target = 0;
					unsigned csr = get_mxcsr(); BytecodeMachine::executeInstruction(bc, pc, I.sp, I.cfg, RANDOMX_FLAG_DEFAULT); set_mxcsr(csr);
					for (int i = 0; i < 8; ++i) if (I.nreg.r[i] != before[i]) changed[i] = true;
				}
				// the word under test sits in the LAST slot the compiler looks at, so that what the table says about r afterwards is what this word
				// recorded (a filler wrongly treated as a writer is a different defect - C05's - and does not affect termination)
				const int LS = (int)randomx::Program::getSize(jc->vmFlags) - 1;
				ProgBuf p; p.fill_noop(); set_config_block(p, 0); p.set_word(LS, w); randomx::Program prog; memcpy(&prog, p.b, ProgBytes); randomx::ProgramConfiguration pc{}; jc->generateProgramLight(prog, pc, 0);
				for (int r = 0; r < 8; ++r) if (changed[r]) {
					R.n["writer_facts"]++;
					if (I.bm.registerUsage[r] != 7) viol("c07:writer", "interpreter: " + word_json(w).s + " modifies r" + std::to_string(r) + " but does not record it as written (a later branch on it could loop over its own writer)", vf::Json::obj().set("kind", "m3"));
					if (jc->registerUsage[r] != LS) viol("c07:writer", "x86 JIT: " + word_json(w).s + " modifies r" + std::to_string(r) + " but does not record it as written", vf::Json::obj().set("kind", "m3"));
				}
			}
			// (ii)+(iii) all programs of length <= 5 over a structural alphabet on 3 registers
			std::vector<Word> sa;
			for (int r = 0; r < 3; ++r) { sa.push_back(W(op_of("IADD_RS"), r, (r + 1) % 3, 0, 0)); sa.push_back(W(opCB, r, 0, 0x30, 0x00012300)); }
			sa.push_back(W(op_of("ISWAP_R"), 0, 1, 0, 0)); sa.push_back(W(op_of("ISWAP_R"), 2, 2, 0, 0)); sa.push_back(W(op_of("ISTORE"), 0, 1, 0x10, 8)); sa.push_back(W(op_of("IMUL_RCP"), 1, 0, 0, 0)); sa.push_back(W(op_of("IMUL_RCP"), 1, 0, 0, 7)); sa.push_back(W(op_of("IROR_R"), 2, 2, 0, 0)); sa.push_back(W(op_of("INEG_R"), 0, 0, 0, 0));
			const int A = (int)sa.size();
			for (int len = 1; len <= 5; ++len) {
				uint64_t nprog = 1; for (int i = 0; i < len; ++i) nprog *= A;
				for (uint64_t id = 0; id < nprog; ++id) {
					std::vector<Word> P(len); uint64_t k = id; for (int i = 0; i < len; ++i) { P[i] = sa[k % A]; k /= A; }
					// decode with the real decoder
					NativeRegisterFile nr; BytecodeMachine bm; bm.beginCompilation(nr); std::vector<InstructionByteCode> bc(len);
					for (int i = 0; i < len; ++i) { Instruction ins = mkins(P[i]); bm.compileInstruction(ins, i, bc[i]); }
					R.n["structural_programs"]++;
					// (ii) structural invariant on the decoded targets
					for (int i = 0; i < len; ++i) if (bc[i].type == InstructionType::CBRANCH) {
						int t = bc[i].target; int reg = (int)(bc[i].idst - nr.r);
						for (int j = t + 1; j < i; ++j) {
							bool writes = false;
							if (bc[j].type == InstructionType::CBRANCH) { viol("c07:nested", "a branch body contains another branch", vf::Json::obj().set("kind", "m3")); break; }
							if ((int)bc[j].type <= (int)InstructionType::ISWAP_R) { if ((int)(bc[j].idst - nr.r) == reg) writes = true; if (bc[j].type == InstructionType::ISWAP_R && (int)((const uint64_t*)bc[j].isrc - nr.r) == reg) writes = true; }
							if (writes) { viol("c07:body-writes", "a branch body modifies the branch register", vf::Json::obj().set("kind", "m3")); break; }
						}
					}
					// (iii) adversary: each branch may be taken at most twice in a row; count executed instructions
					std::function<void(int, int, int, int, uint64_t&)> adv = [&](int pc, int last_branch, int run, int steps, uint64_t& worst) {
						while (pc < len) {
							++steps; if (steps > 64) { worst = 999; return; }
							if (bc[pc].type == InstructionType::CBRANCH) {
								int r2 = (last_branch == pc) ? run : 0;
								if (r2 < 2) adv(bc[pc].target + 1, pc, r2 + 1, steps, worst);   // taken
								last_branch = pc; run = 0;   // not taken: falls through, streak ends
							}
							++pc;
						}
						worst = std::max<uint64_t>(worst, (uint64_t)steps);
					};
					uint64_t worst = 0; adv(0, -1, 0, 0, worst); R.mx["adversary_max_steps_x100_per_len"] = std::max<uint64_t>(R.mx["adversary_max_steps_x100_per_len"], worst * 100 / len);
					if (worst > (uint64_t)(3 * len)) viol("c07:budget", "adversarial branch outcomes execute " + std::to_string(worst) + " instructions in a program of length " + std::to_string(len), vf::Json::obj().set("kind", "m3"));
					// the same structural invariant on the targets the x86 JIT emitted (its own bookkeeping, not the interpreter's: a target that merely
					// differs from the interpreter's without breaking the invariant is C04's finding, not a termination problem)
					if ((id & 7) == 0 || th) {
						ProgBuf p; p.fill_noop(); set_config_block(p, 0); for (int i = 0; i < len; ++i) p.set_word(i, P[i]);
						randomx::Program prog; memcpy(&prog, p.b, ProgBytes); randomx::ProgramConfiguration pcf{}; jc->generateProgramLight(prog, pcf, 0); R.n["jit_target_programs"]++;
						for (int i = 0; i < len; ++i) if (bc[i].type == InstructionType::CBRANCH) {
							X86Branch xb; if (!decode_x86_cbranch(jc, i, jc->instructionOffsets[i + 1], xb)) { R.n["jit_branch_encodings_not_recognised"]++; continue; }
							int reg = (int)(bc[i].idst - nr.r), k = -1; for (int q = 0; q <= i; ++q) if (jc->instructionOffsets[q] == xb.target_off) { k = q; break; }
							if (xb.target_off != jc->instructionOffsets[bc[i].target + 1]) R.n["jit_targets_differing_from_interpreter"]++;
							if (k < 0) { viol("c07:jit-target", "x86 JIT branch does not jump to the start of an instruction at or before the branch", vf::Json::obj().set("kind", "m3")); continue; }
							for (int j = k; j < i; ++j) {
								bool writes = false;
								if (bc[j].type == InstructionType::CBRANCH) { viol("c07:jit-nested", "x86 JIT: a branch body contains another branch", vf::Json::obj().set("kind", "m3")); break; }
								if ((int)bc[j].type <= (int)InstructionType::ISWAP_R) { if ((int)(bc[j].idst - nr.r) == reg) writes = true; if (bc[j].type == InstructionType::ISWAP_R && (int)((const uint64_t*)bc[j].isrc - nr.r) == reg) writes = true; }
								if (writes) { viol("c07:jit-body-writes", "x86 JIT: a branch body modifies the branch register", vf::Json::obj().set("kind", "m3")); break; }
							}
						}
					}
				}
			}
			R.sample(vf::Json::obj().set("kind", "m3").set("program", "IADD_RS r0; CBRANCH r0; ISWAP r0,r1; CBRANCH r1; CBRANCH r1").set("oracle", "targets, writer table, adversarial step count <= 3*|P|"), 1);
			return R;
		}
		// ---------------- M2: premises over imm32 x b on the interpreter decoder (and, on a subset, the x86 emitter bytes)
		Interp I; I.begin();
		uint64_t per = (1ull << 32) / nsh, lo = per * shard, hi = lo + per;
		auto check = [&](int b, uint32_t imm) { I.decode(W(opCB, (int)(imm & 7), 0, (b - JO) << 4, imm)); R.n["premise_cases"]++; if (!premise_ok(I.bc.imm, I.bc.memMask, b, imm)) viol("c07:premise", "interpreter CBRANCH constant/mask for imm32=" + vf::hex64(imm) + ", b=" + std::to_string(b) + " violate the premises (bit b set, bit b-1 clear, mask 0xFF<<b)", vf::Json::obj().set("kind", "m2").set("b", b).set("imm32", (unsigned long long)imm)); };
		if (th) { for (uint64_t x = lo; x < hi; ++x) for (int b = JO; b < JO + 16; ++b) check(b, (uint32_t)x); }
		else {
			// all values with <= 3 bits differing from 0 / 0xFFFFFFFF (this shard's share) and sliding 16-bit windows
			uint64_t n = 0;
			for (int i = 0; i < 32; ++i) for (int j = i; j < 32; ++j) for (int k = j; k < 32; ++k, ++n) { if ((int)(n % nsh) != shard) continue; uint32_t m = (1u << i) | (1u << j) | (1u << k); for (int b = JO; b < JO + 16; ++b) { check(b, m); check(b, ~m); } }
			for (uint32_t w16 = (uint32_t)shard; w16 < 65536; w16 += nsh) for (int sft = 0; sft <= 16; sft += 4) for (int b = JO; b < JO + 16; ++b) { check(b, w16 << sft); check(b, ~(w16 << sft)); }
		}
		// x86 emitter: constant and mask bytes, on a structured subset
		{
			auto E = make_engine(RANDOMX_FLAG_JIT, cache, nullptr); auto* jc = jit_of(*E); auto imms = imm_set(true);
			for (size_t ii = shard; ii < imms.size(); ii += nsh) for (int b = JO; b < JO + 16; ++b) {
				ProgBuf p; p.fill_noop(); set_config_block(p, 0); for (int r = 0; r < 8; ++r) p.set_word(r, W(opCB, r, 0, (b - JO) << 4, imms[ii] ^ (uint32_t)(r * 0x01010101u)));
				randomx::Program prog; memcpy(&prog, p.b, ProgBytes); randomx::ProgramConfiguration pcf{}; jc->generateProgramLight(prog, pcf, 0);
				for (int r = 0; r < 8; ++r) { uint32_t imm = imms[ii] ^ (uint32_t)(r * 0x01010101u); X86Branch xb;
					if (!decode_x86_cbranch(jc, r, jc->instructionOffsets[r + 1], xb)) { R.n["jit_branch_encodings_not_recognised"]++; continue; }   // unknown (possibly correct) encoding: not an alarm; behaviour is C04's business
					R.n["jit_premise_cases"]++;
					if (xb.reg != r || !premise_ok((uint64_t)xb.add_imm, xb.test_mask, b, imm)) viol("c07:jit-premise", "x86 emitter: CBRANCH constant/mask for imm32=" + vf::hex64(imm) + ", b=" + std::to_string(b) + " violate the premises", vf::Json::obj().set("kind", "m2jit").set("b", b).set("imm32", (unsigned long long)imm).set("reg", r)); }
			}
		}
		if (shard == 0) R.sample(vf::Json::obj().set("kind", "m2").set("b", 8).set("imm32", "0xffffffff").set("expect", "cimm = 0xffffffffffffff7f | 0x100, mask 0xff00"), 1);
		return R;
	};
	if (!args.replay.empty()) {
		vf::Json r = vf::Json::load(args.replay); std::string d; std::string k = r.at("kind").s;
		if (k == "m1") m1_case((int)r.at("b").num(), (unsigned)r.at("dw").num(), (unsigned)r.at("cf").num(), 0, (uint64_t)r.at("lowd").num(), (uint64_t)r.at("lowc").num(), d);
		else if (k == "m2jit") {   // regenerate the x86 code for this (register, shift, immediate) and check the emitted constant and mask
			int b = (int)r.at("b").num(), reg = (int)r.at("reg").num(); uint32_t imm = (uint32_t)r.at("imm32").num();
			auto E = make_engine(RANDOMX_FLAG_JIT, cache, nullptr); auto* jc = jit_of(*E); ProgBuf p; p.fill_noop(); set_config_block(p, 0); p.set_word(0, W(opCB, reg, 0, (b - JO) << 4, imm));
			randomx::Program prog; memcpy(&prog, p.b, ProgBytes); randomx::ProgramConfiguration pcf{}; jc->generateProgramLight(prog, pcf, 0);
			X86Branch xb; if (decode_x86_cbranch(jc, 0, jc->instructionOffsets[1], xb) && (xb.reg != reg || !premise_ok((uint64_t)xb.add_imm, xb.test_mask, b, imm))) d = "x86 emitter: CBRANCH constant/mask violate the premises";
		}
		else if (k == "m2") { Interp I; I.begin(); int b = (int)r.at("b").num(); uint32_t imm = (uint32_t)r.at("imm32").num(); I.decode(W(opCB, 3, 0, (b - JO) << 4, imm)); if (!premise_ok(I.bc.imm, I.bc.memMask, b, imm)) d = "premise violated"; }
		else { vf::Result rr = shard_fn(k == "model" ? nsh : nsh + 1); if (!rr.viol.empty()) d = rr.viol[0].what; }   // structural / model cases: re-run that part in this process
		printf("replay: %s\n", d.empty() ? "holds" : d.c_str()); return d.empty() ? 0 : 1;
	}

	vf::Result total = vf::run_shards(args, nsh + 2, shard_fn);
	vf::Evidence ev; ev.level = "model_checking";
	ev.coverage.set("states", (unsigned long long)total.n["model_states"]).set("transitions", (unsigned long long)total.n["transitions"]).set("traces_validated_against_impl", (unsigned long long)total.n["traces_replayed"])
		.set("evaluations", (unsigned long long)(total.n["premise_cases"] + total.n["jit_premise_cases"] + total.n["structural_programs"] + total.n["traces_replayed"])).set("distinct_nontrivial", (unsigned long long)(total.n["model_states"]))
		.set("exhaustive", !total.incomplete)
		.set("rule", std::string("M1: all abstract states (16 shifts x 512 register windows x 128 constant windows x 8 carry triples) of the three-step branch arithmetic, invariant 'not taken three times in a row'; each (shift, window, constant) concretised with ") + (th ? "4" : "2") + " low-part choices and replayed on the real decoder + exe_CBRANCH (step results and taken/not-taken must match the model); M2: premises of the model checked on the real decoder for " + (th ? "ALL 2^32 immediates" : "all immediates within 3 bit flips of 0/0xFFFFFFFF and sliding 16-bit windows") + " x 16 shifts, and on the x86 emitter's bytes for the boundary immediate set x 16 shifts x 8 registers; M3: writer facts by differential execution vs the interpreter's and the JIT's last-writer tables for every Sigma word and every opcode x dst x src x a few mod/imm32 classes (word in the last compiled slot), all programs up to length 5 over a 13-word structural alphabet: decoded targets satisfy 'no branch and no writer of the branch register inside a branch body', the targets emitted by the x86 JIT (decoded from its code) satisfy the same invariant on their own and land on an instruction start (targets that merely differ from the interpreter's are counted, that comparison is C04's), exhaustive adversary (each branch at most twice in a row) executes <= 3*|P| instructions");
	ev.assumptions = { "the 3*|P| bound for length-384 programs is inferred from the structural invariant checked on all short programs plus per-slot facts (C05 compares every decoded branch target of the large program families with the specification); it is not enumerated at length 384", "letting the carries be free over-approximates every real low part" };
	return vf::finish(args, total, ev);
}
