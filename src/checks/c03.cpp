// C03 - a hash does not depend on the history of the VM, cache or dataset objects.
// Explicit-state search over API histories executed on the REAL objects.  A state is the set of live objects;
// it is cloned with fork() (copy-on-write), each enabled operation is applied in the child, the canonical
// concrete digest of the successor is looked up in a visited table in shared memory (depth-aware), and the
// child recurses.  Environment answers (address-reuse policy, fill pattern of fresh memory) are fixed per
// exploration and enumerated by the driver.  Oracle: every digest returned anywhere in a history equals the
// digest of a fresh cache + fresh VM for the same (key,input,version); crashes are violations; the ASan
// variant of the same exploration is the oracle for dangling pointers.
#include "common/explore.hpp"
#include "common/alph.hpp"

using namespace hist;
#ifndef RX_PROFILE
#define RX_PROFILE "mini"
#endif

struct EnvChoice { int reuse_small, reuse_large, fill; const char* name; };
static const EnvChoice ENVS[] = {
	{ 0, 1, 0xA5, "reuse-large-blocks,fill=A5" }, { 1, 1, 0xFF, "reuse-all,fill=FF" }, { 0, 0, 0x00, "fresh,fill=00" },
	{ 1, 0, 0xA5, "reuse-small-blocks,fill=A5" }, { 0, 1, 0x00, "reuse-large-blocks,fill=00" }, { 1, 1, 0x00, "reuse-all,fill=00" }, { 0, 0, 0xFF, "fresh,fill=FF" }, { 1, 1, 0xA5, "reuse-all,fill=A5" },
};

static void set_env(int e) {
#ifndef RX_NO_ENVALLOC
	env::init(); env::S().reuse_small = ENVS[e].reuse_small; env::S().reuse_large = ENVS[e].reuse_large; env::S().reuse_maps = ENVS[e].reuse_large; env::S().fill = ENVS[e].fill; env::S().hugepages = true;   // LARGE_PAGES flag sets: the harness answers MAP_HUGETLB
#endif
}

// keyset 0: the empty key (a prefix of every key, different length) and a text key.  keyset 1: two binary keys of EQUAL length that agree up
// to and including an embedded 0x00 and differ in the last byte (a 'same key?' shortcut that compares as C strings, or all but the
// last byte, sees them as equal - seeded change agent6_C03).
static Alphabet make_alphabet(int vm_flags, bool big, int keyset = 0) {
	const bool th = big;
	Alphabet A; A.vm_flags = vm_flags;
	A.keys = { "", "test key 000" }; A.inputs = { "", "This is a test" };
	if (keyset == 1) A.keys = { std::string("k\0yA", 4), std::string("k\0yB", 4) };
	if (th) { A.keys.push_back(std::string("k\0yA", 4)); A.keys.push_back(std::string("k\0yB", 4)); }
	if (th) { std::string base = alph::pattern(60, 2); A.keys.push_back(base); A.keys.push_back(base + "Z"); A.inputs.push_back(alph::pattern(200, 1)); }
	A.cache_jit_variants = (vm_flags & RANDOMX_FLAG_FULL_MEM) != 0;
	return A;
}
// root 0: one cache + VM.  root 1 ("start from non-initial states too"): a second live cache holding another key.
static std::vector<Op> setup_ops(const Alphabet& A, int root = 0) {
	std::vector<Op> s = { { ALLOC_CACHE, 0, 0 }, { INIT_CACHE, 0, 1 } };
	if (root == 1) { s.push_back({ ALLOC_CACHE, 1, 0 }); s.push_back({ INIT_CACHE, 1, 0 }); }
	if (A.full()) { s.push_back({ ALLOC_DS, 0, 0 }); s.push_back({ INIT_DS, 0, 0 }); }
	s.push_back({ CREATE_VM, 0, 0 });
	return s;
}

struct Body { const char* name; std::vector<Op> prefix, cycle; bool cheap; };
static std::vector<Body> long_bodies() {
	std::vector<Body> bodies = {
			{ "alloc_cache(c1) release_cache(c1)", {}, { { ALLOC_CACHE, 1, 0 }, { RELEASE_CACHE, 1, 0 } }, true },
			{ "destroy_vm create_vm(c0)", {}, { { DESTROY_VM, 0, 0 }, { CREATE_VM, 0, 0 } }, true },
			{ "vm_set_cache(c1) vm_set_cache(c0)", { { ALLOC_CACHE, 1, 0 }, { INIT_CACHE, 1, 0 } }, { { SET_CACHE, 1, 0 }, { SET_CACHE, 0, 0 } }, true },
			{ "set_v2 clear_v2", {}, { { SET_V2, 0, 0 }, { CLEAR_V2, 0, 0 } }, true },
			{ "init_cache(c0,K0) init_cache(c0,K1)", {}, { { INIT_CACHE, 0, 0 }, { INIT_CACHE, 0, 1 } }, false },
			{ "hash(X0)", {}, { { HASH, 0, 0 } }, false },
	};
	return bodies;
}
static std::vector<Op> long_suffix() {
	// bind a cache that holds ANOTHER key than the one the VM last used, hash; then re-key the first cache to yet the other key, re-bind, hash
	const uint8_t other = (uint8_t)(W.cache_key[0] == 1 ? 0 : 1), back = (uint8_t)(other ? 0 : 1);
	std::vector<Op> suffix; if (!W.cache[1]) suffix.push_back({ ALLOC_CACHE, 1, 0 }); suffix.push_back({ INIT_CACHE, 1, other }); if (!W.vm) suffix.push_back({ CREATE_VM, 1, 0 }); else suffix.push_back({ SET_CACHE, 1, 0 });
	suffix.push_back({ HASH, 0, 0 }); suffix.push_back({ INIT_CACHE, 0, other }); suffix.push_back({ INIT_CACHE, 0, back }); suffix.push_back({ SET_CACHE, 0, 0 }); suffix.push_back({ HASH, 1, 0 });
	return suffix;
}

int main(int argc, char** argv) {
	vf::Args args = vf::parse_args(argc, argv, "C03");
	const bool th = args.thorough();
#ifdef RX_NO_ENVALLOC
	const int nenv = 1;
#else
	const int nenv = th ? 8 : 3;
#endif
	if (!args.replay.empty()) {   // run one history from scratch in this process
		vf::Json r = vf::Json::load(args.replay);
		if (r.has("kind") && r.at("kind").s == "long") {
			Alphabet A = make_alphabet((int)r.at("vm_flags").num(), false); A.with_batch = false; set_env(7); W.A = &A; compute_expected(W);
			const Body B = long_bodies()[(size_t)r.at("body").num()]; long count = (long)r.at("count").num(); std::string why;
			auto run = [&](const std::vector<Op>& ops) { for (auto& o : ops) { if (!W.enabled(o)) { why = "operation " + op_str(o) + " not enabled"; return false; } if (!W.apply(o)) { why = op_str(o) + ": " + W.problem; return false; } } return true; };
			bool ok = run(setup_ops(A, 0)) && run(B.prefix); for (long c = 0; ok && c < count; ++c) ok = run(B.cycle); if (ok) ok = run(long_suffix());
			printf("replay: %ld repetitions of [%s] then the observation suffix: %s\n", count, B.name, ok ? "every digest equals the fresh-object digest" : why.c_str()); return ok ? 0 : 1;
		}
		Alphabet A = make_alphabet((int)r.at("vm_flags").num(), r.at("thorough").b, r.has("keyset") ? (int)r.at("keyset").num() : 0); set_env((int)r.at("env").num());
		W.A = &A; compute_expected(W);
		for (auto& o : hist_from(r.at("history_raw"))) {
			if (!W.enabled(o)) { printf("replay: operation %s not enabled (harness error)\n", op_str(o).c_str()); return 2; }
			if (!W.apply(o)) { printf("replay: %s: %s\n", op_str(o).c_str(), W.problem.c_str()); return 1; }
		}
		printf("replay: every digest of the history equals the fresh-object digest\n"); return 0;
	}

	std::vector<int> flagsets;
	for (auto& fs : rxh::vm_flagsets()) { if (th) flagsets.push_back(fs.flags); else if (!strcmp(fs.name, "int-soft-light") || !strcmp(fs.name, "jit-hard-light") || !strcmp(fs.name, "sec-soft-light") || !strcmp(fs.name, "jit-soft-fast")) flagsets.push_back(fs.flags); }
#ifdef RX_NO_ENVALLOC
	const int depth = atoi(args.get("depth", th ? "5" : "3").c_str());   // sanitizer build: forks are much slower; the deep search is the plain build's job
#else
	const int depth = atoi(args.get("depth", th ? "6" : "5").c_str());
#endif
	struct Job { int flags, env, depth; bool dedup; int root; bool big; int keyset = 0; };
	std::vector<Job> jobs;
	if (th) {
		// (A) small alphabets (2 keys, 2 inputs), full depth: all flag sets x two allocator answers (reuse-large-blocks, fresh), second root under the first
		for (int f : flagsets) { for (int e : { 0, 2 }) if (e < nenv) jobs.push_back({ f, e, depth, true, 0, false, e == 2 ? 1 : 0 }); jobs.push_back({ f, 0, depth, true, 1, false }); }
		// (B) large alphabets (4 keys incl. a pair sharing 60 bytes, 3 inputs), one level less, both roots; remaining allocator answers
		for (int f : flagsets) { jobs.push_back({ f, 0, depth - 1, true, 0, true }); jobs.push_back({ f, 0, depth - 1, true, 1, true }); }
		for (int f : flagsets) for (int e : { 1, 3, 4, 5, 6, 7 }) if (e < nenv) jobs.push_back({ f, e, depth - 1, true, 0, false });
		for (int f : flagsets) jobs.push_back({ f, 0, std::min(depth, 3), false, 0, false });
#ifndef RX_NO_ENVALLOC
		for (int f : flagsets) jobs.push_back({ f | RANDOMX_FLAG_LARGE_PAGES, 0, depth - 1, true, 0, false });   // LARGE_PAGES VM classes
#endif
	} else {   // quick: at most 16 explorations (one wave on 16 cores)
		for (int f : flagsets) { jobs.push_back({ f, 0, depth, true, 0, false }); if (nenv > 1) jobs.push_back({ f, 2, depth, true, 0, false, 1 }); jobs.push_back({ f, 0, depth, true, 1, false }); }   // reuse-large-blocks; fresh memory with the binary key pair; second root: two live caches with different keys
		if (nenv > 1) jobs.push_back({ flagsets[0], 1, depth, true, 0, false });                                                                  // reuse-all on the first flag set
		for (size_t i = 0; i < 2 && i < flagsets.size(); ++i) jobs.push_back({ flagsets[i], 0, std::min(depth, 3), false, 0, false });   // no state merging, depth 3: must give the same verdict
		// second wave, one level less: the flag sets not in the first wave, and two LARGE_PAGES VM classes
		for (auto& fs : rxh::vm_flagsets()) if (std::find(flagsets.begin(), flagsets.end(), fs.flags) == flagsets.end()) jobs.push_back({ fs.flags, 0, depth - 1, true, 0, false });
#ifndef RX_NO_ENVALLOC
		jobs.push_back({ RANDOMX_FLAG_JIT | RANDOMX_FLAG_LARGE_PAGES, 0, depth - 1, true, 0, false }); jobs.push_back({ RANDOMX_FLAG_FULL_MEM | RANDOMX_FLAG_HARD_AES | RANDOMX_FLAG_LARGE_PAGES, 0, depth - 1, true, 0, false });
#endif
	}
	vf::Result total = vf::run_shards(args, (int)jobs.size(), [&](int shard) {
		vf::Result R; const Job& j = jobs[shard];
		Alphabet A = make_alphabet(j.flags, j.big, j.keyset); set_env(j.env); dedup = j.dedup;
		explore_init();   // table private to this exploration and its descendants
		W.A = &A; compute_expected(W); OPS = W.alphabet_ops();
		for (auto& o : setup_ops(A, j.root)) { if (!W.enabled(o) || !W.apply(o)) { vf::Violation v; v.key = "c03:setup"; v.what = "setup operation " + op_str(o) + " failed: " + W.problem; v.replay = vf::Json::obj(); R.viol.push_back(v); return R; } H.push_back(o); }
		// iterative deepening: the first counterexample found is a shortest one; counters are those of the deepest (last) iteration
		for (int d = 1; d <= j.depth; ++d) {
			memset(SH, 0, sizeof(Shared) + TAB * sizeof(Shared::E));
			visit(W.digest(), d); explore(d);
			if (SH->nviol) break;
		}
		std::string cfg; for (auto& fs : rxh::vm_flagsets()) if (fs.flags == (j.flags & ~RANDOMX_FLAG_LARGE_PAGES)) cfg = fs.name; if (j.flags & RANDOMX_FLAG_LARGE_PAGES) cfg += "+LARGE_PAGES";
		R.n["states"] = SH->states; R.n["transitions"] = SH->transitions; R.n["hashes_checked"] = SH->hashes; R.n["merged_on_digest"] = SH->dedup_hits; R.n["explorations"] = 1;
		R.mx["history_length"] = SH->max_depth_reached;
		if (!j.dedup) { R.n["states_unmerged_runs"] = SH->states; R.n["states"] = 0; R.n["transitions_unmerged_runs"] = SH->transitions; R.n["transitions"] = 0; }
		R.tags.insert(cfg + "|" + ENVS[j.env].name + (j.root ? "|root2" : "") + (j.big ? "|large alphabet" : "") + (j.keyset ? "|binary key pair" : "") + (j.dedup ? "" : "|no-merge") + "|depth " + std::to_string(j.depth) + "|states " + std::to_string(SH->states));
		for (uint64_t i = 0; i < std::min<uint64_t>(SH->nviol, 8); ++i) {
			auto& sv = SH->viol[i]; std::vector<Op> h; for (int k = 0; k < sv.hlen; ++k) h.push_back(Op{ (uint8_t)(sv.h[k] & 255), (uint8_t)((sv.h[k] >> 8) & 255), (uint8_t)((sv.h[k] >> 16) & 255) });
			vf::Violation v; const Op& last = h.back();
			v.key = std::string("c03:") + OPNAME[last.code] + ":" + cfg + ":" + (sv.signal ? "crash" : "digest");
			std::string hs; for (auto& o : h) hs += op_str(o) + " ";
			v.what = cfg + " [" + ENVS[j.env].name + "] history: " + hs + "=> " + sv.what;
			v.replay = vf::Json::obj().set("vm_flags", j.flags).set("cfg", cfg).set("env", j.env).set("env_name", ENVS[j.env].name).set("thorough", j.big).set("keyset", j.keyset).set("history", hist_json(h)).set("history_raw", hist_raw(h));
			R.viol.push_back(v);
		}
		if (shard == 0) { std::vector<Op> s = setup_ops(A); s.push_back({ HASH, 1, 0 }); s.push_back({ INIT_CACHE, 0, 0 }); s.push_back({ SET_CACHE, 0, 0 }); s.push_back({ HASH, 1, 0 }); R.sample(vf::Json::obj().set("cfg", cfg).set("env", ENVS[j.env].name).set("history", hist_json(s)), 1); }
		return R;
	}, true, 7200);
#ifndef RX_NO_ENVALLOC
	// ---- counter-wrap probes: LONG cyclic histories. The depth-bounded search cannot reach a defect that needs a count (an 8- or 16-bit serial / generation /
	// epoch wrapping, a small table filling up - seeded change agent8_C03: 16-bit cache serial, collides after 65536 allocations). A cycle body is repeated and at
	// the repetition counts around 2^8 and 2^16 a forked clone runs an observation suffix (bind a freshly keyed cache, hash; re-key and re-bind the first cache, hash)
	// whose digests must be the fresh-object digests.
	{
		std::vector<Body> bodies = long_bodies();
		std::vector<int> lf = { (int)RANDOMX_FLAG_DEFAULT, (int)RANDOMX_FLAG_JIT };
		struct LJ { int flags; size_t body; }; std::vector<LJ> lj; for (int f : lf) for (size_t b = 0; b < bodies.size(); ++b) lj.push_back({ f, b });
		vf::Result rl = vf::run_shards(args, (int)lj.size(), [&](int shard) {
			vf::Result R; const LJ& J = lj[(size_t)shard]; const Body& B = bodies[J.body];
			Alphabet A = make_alphabet(J.flags, false); A.with_batch = false; set_env(7); W.A = &A; compute_expected(W);   // reuse-all: a history of 10^5 operations must not exhaust the harness arena
			auto run = [&](const std::vector<Op>& ops, std::string& why) { for (auto& o : ops) { if (!W.enabled(o)) { why = "operation " + op_str(o) + " not enabled (harness)"; return false; } if (!W.apply(o)) { why = op_str(o) + ": " + W.problem; return false; } } return true; };
			std::string why; std::vector<Op> setup = setup_ops(A, 0);
			if (!run(setup, why) || !run(B.prefix, why)) { vf::Violation v; v.key = "c03:long-setup"; v.what = why; v.replay = vf::Json::obj(); R.viol.push_back(v); return R; }
			const long maxc = (B.cheap || th) ? 65537 : 257;
			for (long c = 1; c <= maxc && R.viol.empty(); ++c) {
				{ char cur[200]; snprintf(cur, sizeof cur, "{\"kind\":\"long\",\"vm_flags\":%d,\"body\":%d,\"count\":%ld,\"finding_key\":\"c03:long-crash\"}", J.flags, (int)J.body, c); vf::set_current(cur); }
				if (!run(B.cycle, why)) { vf::Violation v; v.key = "c03:long"; v.what = std::string("cycle [") + B.name + "] repetition " + std::to_string(c) + ": " + why; v.replay = vf::Json::obj().set("kind", "long").set("vm_flags", J.flags).set("body", (int)J.body).set("count", (long long)c); R.viol.push_back(v); break; }
				R.n["long_history_operations"] += B.cycle.size();
				bool probe = (c >= 254 && c <= 258) || (c >= 65534) || c == 1 || c == 2 || c == 127 || c == 128 || c == 129 || c == 32767 || c == 32768 || c == 32769;
				if (!probe) continue;
				int pfd[2]; if (pipe(pfd)) continue; fflush(stdout); pid_t pid = fork();
				if (pid == 0) {
					std::vector<Op> suffix = long_suffix();
					std::string w2; if (!run(suffix, w2)) { if (write(pfd[1], w2.data(), w2.size())) {} } _exit(0);
				}
				close(pfd[1]); std::string d; char buf[512]; ssize_t q; while ((q = read(pfd[0], buf, sizeof buf)) > 0) d.append(buf, (size_t)q); close(pfd[0]); int st; waitpid(pid, &st, 0);
				if (!(WIFEXITED(st) && WEXITSTATUS(st) == 0)) d = "abnormal termination of the observation suffix";
				R.n["long_history_probes"]++;
				if (!d.empty()) { vf::Violation v; v.key = "c03:long"; v.what = std::string("after ") + std::to_string(c) + " repetitions of [" + B.name + "], then init_cache(c1,K1) bind hash(X0) init_cache(c0,K0) vm_set_cache(c0) hash(X1): " + d;
					v.replay = vf::Json::obj().set("kind", "long").set("vm_flags", J.flags).set("body", (int)J.body).set("count", (long long)c); R.viol.push_back(v); }
			}
			R.tags.insert(std::string("long cycle [") + B.name + "] x " + std::to_string(maxc) + (J.flags ? " (jit-soft-light)" : " (int-soft-light)"));
			return R;
		}, true, 7200);
		total.merge(rl);
	}
#endif
	// shortest counterexamples first
	std::sort(total.viol.begin(), total.viol.end(), [](const vf::Violation& a, const vf::Violation& b) { return a.replay.has("history_raw") && b.replay.has("history_raw") ? a.replay.at("history_raw").a.size() < b.replay.at("history_raw").a.size() : false; });
	vf::Evidence ev; ev.level = "model_checking";
	ev.coverage.set("states", (unsigned long long)(total.n["states"] + total.n["states_unmerged_runs"])).set("transitions", (unsigned long long)(total.n["transitions"] + total.n["transitions_unmerged_runs"]))
		.set("traces_validated_against_impl", (unsigned long long)(total.n["transitions"] + total.n["transitions_unmerged_runs"]))
		.set("evaluations", (unsigned long long)total.n["hashes_checked"]).set("distinct_nontrivial", (unsigned long long)total.n["states"])
		.set("depth_bound", depth).set("exhaustive", !total.incomplete)
		.set("rule", std::string("profile ") + RX_PROFILE + ": for each explored VM flag set and each environment answer (address-reuse policy x fill pattern of fresh memory): all histories of documented-contract operations (alloc/init/release cache x2, alloc/init/release dataset, create/destroy VM, vm_set_cache, vm_set_dataset, v1<->v2, hash, first/next/last) up to the depth bound after a fixed setup, executed on the real objects (states cloned by fork, deduplicated on a canonical concrete digest, depth-aware); every digest returned anywhere must equal the fresh-object digest; a second search without merging (depth 3) must agree; counter-wrap probes: six cycle bodies repeated up to 65537 times (re-keying and hashing cycles: 257 in quick) with an observation suffix at the counts around 2^7, 2^8, 2^15, 2^16. states/transitions are summed over explorations; every transition is an execution of the implementation");
	ev.assumptions = { "quick: four flag sets at the full depth, the other eight and two LARGE_PAGES classes one level less; two caches, one VM per flag set at a time, key/input alphabets of 2 (quick: {empty, text} and, in the fresh-memory jobs, two equal-length binary keys that differ after an embedded 0x00) or 6/3 (thorough) elements; histories longer than the bound are covered only through state merging",
		"contract guards of DESIGN.md appendix B decide which operations are enabled" };
	return vf::finish(args, total, ev, true, true);
}
