// C18 - the IMUL_RCP reciprocal is exact for every divisor: ALL 2^32 divisors enumerated.
// Oracle: floor(2^(63+bitlen(d)) / d) with unsigned __int128, written here (no repo code).
#include "common/progs.hpp"
#include "reciprocal.h"
#include "jit_compiler_x86.hpp"

using namespace rxh;
typedef unsigned __int128 u128;

static inline int bitlen(uint32_t d) { return 32 - __builtin_clz(d); }
static inline bool pow2or0(uint32_t d) { return (d & (d - 1)) == 0; }

// returns "" or description
static std::string check_div(uint32_t d) {
	u128 ref = (((u128)1) << (63 + bitlen(d))) / d;
	if ((ref >> 64) != 0) return "reference quotient does not fit 64 bits (harness error)";
	uint64_t r = (uint64_t)ref;
	uint64_t a = randomx_reciprocal(d), b = randomx_reciprocal_fast(d);
	if (a != r) return "randomx_reciprocal(" + std::to_string(d) + ")=" + vf::hex64(a) + " expected " + vf::hex64(r);
	if (b != r) return "randomx_reciprocal_fast(" + std::to_string(d) + ")=" + vf::hex64(b) + " expected " + vf::hex64(r);
	if (!(r >> 63)) return "quotient for " + std::to_string(d) + " is below 2^63: a larger exponent would still fit";
	return "";
}

// no-op rule for one (divisor, dst register, opcode): interpreter decode, JIT emission, execution on both engines
struct NoopEnv {
	randomx_cache* cache; std::unique_ptr<Engine> I, J;
	NoopEnv() {
		cache = randomx_alloc_cache(RANDOMX_FLAG_DEFAULT); randomx_init_cache(cache, "c18", 3);
		I = make_engine(RANDOMX_FLAG_DEFAULT, cache, nullptr); J = make_engine(RANDOMX_FLAG_JIT, cache, nullptr);
		if (!I || !J) { fprintf(stderr, "c18: engines\n"); exit(2); }
	}
};
static std::string check_noop(NoopEnv& E, uint32_t d, int dst, int opcode, bool expect_noop) {
	using namespace randomx;
	std::string tag = "IMUL_RCP opcode " + std::to_string(opcode) + " dst r" + std::to_string(dst) + " imm32 " + std::to_string(d) + ": ";
	// (1) interpreter decode: type and last-writer table
	BytecodeMachine bm; NativeRegisterFile nreg; bm.beginCompilation(nreg);
	Instruction w0, w1, w2; memset(&w0, 0, 8); memset(&w1, 0, 8); memset(&w2, 0, 8);
	w0.opcode = op_of("IADD_RS"); w0.dst = dst; w0.src = (dst + 1) & 7;
	w1.opcode = opcode; w1.dst = dst | 0xF8; w1.src = 3; w1.setImm32(d);
	w2.opcode = op_of("CBRANCH"); w2.dst = dst; w2.setMod(0x30); w2.setImm32(0x1234);
	InstructionByteCode b0, b1, b2; memset(&b1, 0xEE, sizeof b1);
	bm.compileInstruction(w0, 0, b0);
	int before[8]; memcpy(before, bm.registerUsage, sizeof before);
	bm.compileInstruction(w1, 1, b1);
	bool same = !memcmp(before, bm.registerUsage, sizeof before);
	bm.compileInstruction(w2, 2, b2);
	if (expect_noop) {
		if (b1.type != InstructionType::NOP) return tag + "interpreter does not decode a NOP";
		if (!same) return tag + "interpreter changed the last-writer table";
		if (b2.target != 0) return tag + "interpreter: following CBRANCH targets " + std::to_string(b2.target) + " instead of the previous writer 0";
	} else {
		if (b1.type != InstructionType::IMUL_R || b1.imm != (uint64_t)((((u128)1) << (63 + bitlen(d))) / d)) return tag + "interpreter does not decode a multiplication by the reciprocal";
		if (bm.registerUsage[dst] != 2 || b2.target != 1) return tag + "interpreter did not record the register as written";
	}
	// (2) x86 emitter: bytes emitted and last-writer table, via the real CompiledLightVm's compiler
	ProgBuf p; p.fill_noop(); set_config_block(p, 0);
	p.set_word(0, W(w0.opcode, w0.dst, w0.src, 0, 0)); p.set_word(1, W(opcode, dst | 0xF8, 3, 0, d));
	JitCompilerX86* jc = jit_of(*E.J);
	Program prog; memcpy(&prog, p.b, ProgBytes); ProgramConfiguration pc{};
	jc->generateProgramLight(prog, pc, 0);
	int emitted = jc->instructionOffsets[2] - jc->instructionOffsets[1];
	if (expect_noop) {
		if (emitted != 0) return tag + "x86 JIT emitted " + std::to_string(emitted) + " bytes";
		if (jc->registerUsage[dst] != 0) return tag + "x86 JIT changed the last-writer table";
	} else {
		if (emitted == 0) return tag + "x86 JIT emitted nothing";
		if (jc->registerUsage[dst] != 1) return tag + "x86 JIT did not record the register as written";
	}
	// (3) execution: a program holding only this word leaves the registers exactly as the empty program does
	ProgBuf q; q.fill_noop(); set_config_block(q, 0);
	ProgBuf r = q; r.set_word(5, W(opcode, dst, 3, 0, d));
	for (Engine* e : { E.I.get(), E.J.get() }) {
		fill_scratchpad(e->scratchpad(), 1); set_fprc(0); e->run(q.b); randomx::RegisterFile ref = e->reg();
		fill_scratchpad(e->scratchpad(), 1); set_fprc(0); e->run(r.b);
		bool eq = !memcmp(&ref, &e->reg(), sizeof ref);
		if (expect_noop && !eq) return tag + "executing the word changed a register (" + (e == E.I.get() ? "interpreter" : "JIT") + ")";
		if (!expect_noop && eq) return tag + "executing the word changed nothing";
	}
	return "";
}

int main(int argc, char** argv) {
	vf::Args args = vf::parse_args(argc, argv, "C18");
	if (!args.replay.empty()) {
		vf::Json r = vf::Json::load(args.replay);
		std::string d;
		if (r.at("kind").s == "div") d = check_div((uint32_t)r.at("divisor").num());
		else { NoopEnv E; d = check_noop(E, (uint32_t)r.at("divisor").num(), (int)r.at("dst").num(), (int)r.at("opcode").num(), r.at("expect_noop").b); }
		printf("replay: %s\n", d.empty() ? "holds" : d.c_str());
		return d.empty() ? 0 : 1;
	}
	const int nsh = 256;
	vf::Result total = vf::run_shards(args, nsh + 1, [&](int shard) {
		vf::Result R;
		if (shard == nsh) {   // the no-op rule
			NoopEnv E; auto rng = op_ranges(); int lo = 0, hi = 0;
			for (auto& r : rng) if (!strcmp(r.name, "IMUL_RCP")) { lo = r.lo; hi = r.hi; }
			std::vector<std::pair<uint32_t, bool>> ds; ds.push_back({ 0, true });
			for (int k = 0; k < 32; ++k) { ds.push_back({ 1u << k, true }); if (k >= 2) { ds.push_back({ (1u << k) - 1, false }); ds.push_back({ (1u << k) + 1, false }); } }
			ds.push_back({ 3, false }); ds.push_back({ 0xFFFFFFFFu, false });
			for (auto& de : ds) for (int dst = 0; dst < 8; ++dst) for (int op = lo; op < hi; ++op) {
				std::string d = check_noop(E, de.first, dst, op, de.second);
				R.n[de.second ? "noop_cases" : "control_cases"]++;
				if (!d.empty() && R.viol.size() < 4) {
					vf::Violation v; v.key = std::string("c18:noop:") + (de.second ? "noop" : "control"); v.what = d;
					v.replay = vf::Json::obj().set("kind", "noop").set("divisor", (unsigned long long)de.first).set("dst", dst).set("opcode", op).set("expect_noop", de.second);
					R.viol.push_back(v);
				}
			}
			R.sample(vf::Json::obj().set("kind", "noop").set("divisor", 65536).set("dst", 3).set("opcode", lo));
			return R;
		}
		uint64_t per = (1ull << 32) / nsh, b = per * shard, e = b + per;
		for (uint64_t x = b; x < e; ++x) {
			uint32_t d = (uint32_t)x;
			if (pow2or0(d)) { R.n["excluded_zero_or_pow2"]++; continue; }
			u128 ref = (((u128)1) << (63 + bitlen(d))) / d; uint64_t r = (uint64_t)ref;
			if (__builtin_expect(randomx_reciprocal(d) != r || randomx_reciprocal_fast(d) != r || !(r >> 63) || (ref >> 64), 0)) {
				if (R.viol.size() < 3) { vf::Violation v; v.key = "c18:div"; v.what = check_div(d); v.replay = vf::Json::obj().set("kind", "div").set("divisor", (unsigned long long)d); R.viol.push_back(v); }
				R.n["wrong"]++;
			}
			R.n["divisors"]++;
		}
		if (shard % 64 == 0) R.sample(vf::Json::obj().set("kind", "div").set("divisor", (unsigned long long)(b + 12345)).set("reciprocal", vf::hex64(randomx_reciprocal((uint32_t)(b + 12345)))), 1);
		return R;
	});
	vf::Evidence ev; ev.level = "exploration";
	ev.coverage.set("evaluations", (unsigned long long)(total.n["divisors"] + total.n["noop_cases"] + total.n["control_cases"]))
		.set("distinct_nontrivial", (unsigned long long)total.n["divisors"])
		.set("exhaustive", !total.incomplete && total.n["divisors"] + total.n["excluded_zero_or_pow2"] == (1ull << 32))
		.set("rule", "every d in [0,2^32): d zero or power of two is excluded from the arithmetic part (33 values) and goes to the no-op part; for all others randomx_reciprocal(d) == randomx_reciprocal_fast(d) == floor(2^(63+bitlen d)/d) >= 2^63; no-op part: 33 no-op divisors + 62 neighbours (negative control) x 8 dst x all IMUL_RCP opcodes: interpreter decode/last-writer table, x86 emission/last-writer table, execution on both engines");
	ev.assumptions = { "unsigned __int128 division of the host compiler is the arithmetic reference" };
	return vf::finish(args, total, ev);
}
