// C01 - all VM configurations compute the same hash.
// Complete configuration lattice: 8 cache configurations ({default,JIT} x {ref,SSSE3,AVX2,both bits}; the JIT bit also
// selects the compiled or the interpreted dataset initialiser) x 12 VM flag sets (6 light sets on each cache,
// 6 fast sets on a dataset built from each cache) x {v1,v2}, crossed with key / input alphabets.
// Oracle: all digests of one (key,input,version) are equal, and equal to the specification model's digest.
#include "common/rxh.hpp"
#include "common/alph.hpp"
#include "specmodel/specmodel.hpp"
#include <thread>
#ifdef RX_LARGEPAGES
// LARGE_PAGES variants of every cache / dataset / VM class: the sandbox has no huge pages, so the harness owns mmap and
// answers MAP_HUGETLB requests positively (the flag is stripped); everything else is the library's own large-page code path
#include "common/envalloc.hpp"
static const int LP = RANDOMX_FLAG_LARGE_PAGES;
#else
static const int LP = 0;
#endif

using namespace rxh;
#ifndef RX_PROFILE
#define RX_PROFILE "full"
#endif
static spec::Params P() { std::string p = RX_PROFILE; return p == "mini" ? spec::Params::mini() : p == "iter" ? spec::Params::iter() : spec::Params::production(); }
static const bool small = std::string(RX_PROFILE) == "mini";

struct CacheCfg { int flags; const char* name; };
static const CacheCfg CC[8] = {
	{ RANDOMX_FLAG_DEFAULT, "cache-ref" }, { RANDOMX_FLAG_ARGON2_SSSE3, "cache-ssse3" }, { RANDOMX_FLAG_ARGON2_AVX2, "cache-avx2" },
	{ RANDOMX_FLAG_JIT, "cachejit-ref" }, { RANDOMX_FLAG_JIT | RANDOMX_FLAG_ARGON2_SSSE3, "cachejit-ssse3" }, { RANDOMX_FLAG_JIT | RANDOMX_FLAG_ARGON2_AVX2, "cachejit-avx2" },
	{ RANDOMX_FLAG_ARGON2, "cache-argon2mask" }, { RANDOMX_FLAG_JIT | RANDOMX_FLAG_ARGON2, "cachejit-argon2mask" },   // both implementation bits set (the documented mask value, also what a caller gets by OR-ing)
};

struct World {   // everything that depends on the key
	std::string key; bool single_call_compiled = false;
	randomx_cache* cache[8] = {}; randomx_dataset* ds[8] = {};
	struct V { randomx_vm* vm; std::string name; bool born_v2; }; std::vector<V> vms;   // born_v2: created with RANDOMX_FLAG_V2 (the public way to select v2), used for v2 cases only, never switched
	spec::Cache sc;
	std::string build(const std::vector<int>& cache_ids, const std::vector<int>& ds_ids, int threads) {
		for (int c : cache_ids) {
			cache[c] = randomx_alloc_cache((randomx_flags)(CC[c].flags | LP));
			if (!cache[c]) return std::string("randomx_alloc_cache failed for ") + CC[c].name;
			randomx_init_cache(cache[c], key.data(), key.size());
		}
		for (int c : ds_ids) {
			ds[c] = randomx_alloc_dataset((randomx_flags)LP);
			if (!ds[c]) return "randomx_alloc_dataset failed";
			unsigned long n = randomx_dataset_item_count();
			if (threads <= 1 || (single_call_compiled && c == 5)) randomx_init_dataset(ds[c], cache[c], 0, n);   // ONE call of the compiled initialiser for >= 2^25 items (production geometry, thorough tier): see C08
			else {
				std::vector<std::thread> th; unsigned long per = n / threads;
				for (int t = 0; t < threads; ++t) { unsigned long b = per * t, cnt = (t == threads - 1) ? n - b : per; th.emplace_back([=] { randomx_init_dataset(ds[c], cache[c], b, cnt); }); }
				for (auto& t : th) t.join();
			}
		}
		return "";
	}
	std::string make_vms(const std::vector<int>& cache_ids, const std::vector<int>& ds_ids) {
		for (auto& fs : vm_flagsets()) {
			bool full = fs.flags & RANDOMX_FLAG_FULL_MEM;
			for (int c : (full ? ds_ids : cache_ids)) {
				for (int born = 0; born < 2; ++born) {
					randomx_vm* vm = randomx_create_vm((randomx_flags)(fs.flags | LP | (born ? RANDOMX_FLAG_V2 : 0)), full ? nullptr : cache[c], full ? ds[c] : nullptr);
					if (!vm) return std::string("randomx_create_vm failed for ") + fs.name;
					vms.push_back({ vm, std::string(fs.name) + (born ? "+V2" : "") + "@" + CC[c].name, (bool)born });
				}
			}
		}
		return "";
	}
	~World() { for (auto& v : vms) randomx_destroy_vm(v.vm); for (auto d : ds) if (d) randomx_release_dataset(d); for (auto c : cache) if (c) randomx_release_cache(c); }
};

static vf::Json case_json(const std::string& key, const std::string& in, bool v2) {
	return vf::Json::obj().set("profile", RX_PROFILE).set("key", vf::hex(key.data(), key.size())).set("input", vf::hex(in.data(), in.size())).set("v2", v2);
}

// all configurations on one (input, version); "" if all equal and equal to the model
static std::string check_case(World& w, const std::string& in, bool v2, vf::Result& R, bool with_model) {
	uint8_t ref[32]; bool have_ref = false; std::string refname;
	if (with_model) { spec::hash(w.sc, in.data(), in.size(), v2, ref); have_ref = true; refname = "specification"; }
	std::string bad; int nbad = 0, ncfg = 0;
	for (auto& v : w.vms) {
		if (v.born_v2) { if (!v2) continue; } else if (v2) v.vm->setFlagV2(); else v.vm->clearFlagV2();
		uint8_t out[32]; randomx_calculate_hash(v.vm, in.data(), in.size(), out);
		R.n["hashes"]++; ++ncfg;
		if (!have_ref) { memcpy(ref, out, 32); have_ref = true; refname = v.name; continue; }
		if (memcmp(ref, out, 32)) { if (nbad++ < 6) bad += v.name + " "; }
	}
	R.n["cases"]++; R.mx["configurations_per_case"] = std::max<uint64_t>(R.mx["configurations_per_case"], (uint64_t)ncfg);
	if (nbad) return std::to_string(nbad) + " of " + std::to_string(ncfg) + " configurations disagree with " + refname + ": " + bad;
	return "";
}

int main(int argc, char** argv) {
	vf::Args args = vf::parse_args(argc, argv, "C01");
#ifdef RX_LARGEPAGES
	env::init(); env::S().hugepages = true; env::S().tracking = true; env::S().fill = 0xA5;
#endif
	const bool th = args.thorough();
	std::vector<std::string> keys = alph::key_shapes(th);
	std::vector<size_t> lens = alph::input_lengths(th, false);
	if (small) { lens.clear(); for (size_t i = 0; i <= (th ? 300u : 40u); ++i) lens.push_back(i); for (size_t x : { 63u, 64u, 65u, 127u, 128u, 129u, 255u, 256u, 1000u }) if (x > (th ? 300u : 40u)) lens.push_back(x); }
	else { keys = th ? std::vector<std::string>{ "test key 000", alph::pattern(61, 2) } : std::vector<std::string>{ "test key 000" }; if (!th) lens = { 0, 64, 76, 129 }; }
	std::vector<int> all6 = { 0, 1, 2, 3, 4, 5, 6, 7 };   // (name kept) all cache configurations
	std::vector<int> ds_ids = small ? all6 : (th ? std::vector<int>{ 0, 5 } : std::vector<int>{ 5 });   // full: compiled initialiser (and interpreted in thorough)

	if (!args.replay.empty()) {
		vf::Json r = vf::Json::load(args.replay);
		if (r.has("nonce_sweep")) { World w; auto kb = vf::unhex(r.at("key").s); w.key.assign((const char*)kb.data(), kb.size()); std::string d = w.build({ 3 }, { 3 }, 1); if (d.empty()) d = w.make_vms({ 3 }, { 3 }); auto ib = vf::unhex(r.at("input").s); vf::Result R; if (d.empty()) d = check_case(w, std::string((const char*)ib.data(), ib.size()), r.at("v2").b, R, false); printf("replay: %s\n", d.empty() ? "all configurations agree" : d.c_str()); return d.empty() ? 0 : 1; }
		World w; auto kb = vf::unhex(r.at("key").s); w.key.assign((const char*)kb.data(), kb.size());
		std::string d = w.build(all6, ds_ids, small ? 1 : 16); if (d.empty()) d = w.make_vms(all6, ds_ids);
		w.sc.p = P(); w.sc.init(w.key.data(), w.key.size());
		auto ib = vf::unhex(r.at("input").s); vf::Result R;
		if (d.empty()) d = check_case(w, std::string((const char*)ib.data(), ib.size()), r.at("v2").b, R, true);
		if (d.empty() && r.has("ordinal") && small) {   // not visible on fresh VMs: re-run this key's cases in the original order (history-dependent defect)
			int shard = (int)r.at("shard").num(), want = (int)r.at("ordinal").num(), n = 0;
			for (size_t len : lens) for (int v2 = 0; v2 < 2 && n <= want; ++v2) { d = check_case(w, alph::input(len, (int)((len + shard) % 3)), v2, R, true); if (n < want) d.clear(); ++n; }
			if (!d.empty()) d += " [only after the preceding hashes on the same VMs: history-dependent]";
		}
		printf("replay: %s\n", d.empty() ? "all configurations agree" : d.c_str());
		return d.empty() ? 0 : 1;
	}

	vf::Result total;
	if (small) {
		total = vf::run_shards(args, (int)keys.size(), [&](int shard) {
			vf::Result R; World w; w.key = keys[shard];
			vf::set_current(case_json(w.key, "", false).dump());
			std::string d = w.build(all6, ds_ids, 1); if (d.empty()) d = w.make_vms(all6, ds_ids);
			w.sc.p = P(); w.sc.init(w.key.data(), w.key.size());
			if (!d.empty()) { vf::Violation v; v.key = "c01:setup"; v.what = d; v.replay = case_json(w.key, "", false); R.viol.push_back(v); return R; }
			R.n["keys"]++; int ordinal = 0;
			for (size_t len : lens) for (int v2 = 0; v2 < 2; ++v2) {
				if (args.expired()) { R.incomplete = true; return R; }
				std::string in = alph::input(len, (int)((len + shard) % 3));
				vf::set_current(case_json(w.key, in, v2).dump()); vf::watchdog(600);
				d = check_case(w, in, v2, R, true); ++ordinal; alarm(0);
				if (shard == 1 && len == 33) R.sample(case_json(w.key, in, v2), 2);
				if (!d.empty()) { vf::Violation v; v.key = "c01:disagree"; v.what = "key(len " + std::to_string(w.key.size()) + ") input(len " + std::to_string(len) + ") " + (v2 ? "v2: " : "v1: ") + d; v.replay = case_json(w.key, in, v2).set("shard", shard).set("ordinal", ordinal - 1); R.viol.push_back(v); if (R.viol.size() >= 3) return R; }
			}
			return R;
		}, true, 3600);
	} else {
		for (auto& key : keys) {
			World w; w.key = key; w.single_call_compiled = th;
			std::string d = w.build(all6, ds_ids, 16); if (d.empty()) d = w.make_vms(all6, ds_ids);
			w.sc.p = P(); w.sc.init(key.data(), key.size());
			if (!d.empty()) { vf::Violation v; v.key = "c01:setup"; v.what = d; v.replay = case_json(key, "", false); total.viol.push_back(v); break; }
			total.n["keys"]++;
			std::vector<std::pair<size_t, int>> cases; for (size_t len : lens) for (int v2 = 0; v2 < 2; ++v2) cases.push_back({ len, v2 });
			vf::Result r = vf::run_shards(args, (int)cases.size(), [&](int shard) {
				vf::Result R; std::string in = alph::input(cases[shard].first, shard % 3); bool v2 = cases[shard].second;
				vf::set_current(case_json(key, in, v2).dump());
				std::string d = check_case(w, in, v2, R, true);
				if (shard < 2) R.sample(case_json(key, in, v2), 2);
				if (!d.empty()) { vf::Violation v; v.key = "c01:disagree"; v.what = "key(len " + std::to_string(key.size()) + ") input(len " + std::to_string(in.size()) + ") " + (v2 ? "v2: " : "v1: ") + d; v.replay = case_json(key, in, v2); R.viol.push_back(v); }
				return R;
			}, true, 3600);
			total.merge(r);
			if (args.expired()) { total.incomplete = true; break; }
		}
	}
	// nonce sweep: what a miner does - one key, inputs that differ in a counter - on the 12 flag sets of one cache configuration, both versions. A disagreement
	// between engines that needs a coincidence inside a program (seeded change agent8_C01: two address registers with equal low halves, 1e-4 per program at
	// this geometry) shows with a rate; the sweep makes the number of hashed programs large (8 per hash) instead of waiting for the key/input alphabet to hit it.
	if (small && args.replay.empty() && !LP) {   // not repeated in the LARGE_PAGES part
		const unsigned long NN = th ? 200000 : 16000; const int NSH = 32;
		vf::Result rn = vf::run_shards(args, NSH, [&](int shard) {
			vf::Result R; World w; w.key = "nonce sweep key";
			std::string d = w.build({ 3 }, { 3 }, 1); if (d.empty()) d = w.make_vms({ 3 }, { 3 });
			if (!d.empty()) { vf::Violation v; v.key = "c01:setup"; v.what = d; v.replay = case_json(w.key, "", false); R.viol.push_back(v); return R; }
			for (unsigned long n = (unsigned long)shard; n < NN; n += NSH) for (int v2 = 0; v2 < 2; ++v2) {
				std::string in(8, '\0'); for (int b = 0; b < 8; ++b) in[(size_t)b] = (char)((n >> (8 * b)) & 0xFF); in += "blob";
				if ((n & 255) == (unsigned long)shard % 256) vf::set_current(case_json(w.key, in, v2).dump());
				d = check_case(w, in, v2, R, false); R.n["nonce_sweep_hashes"] += w.vms.size();
				if (!d.empty()) { vf::Violation v; v.key = "c01:disagree"; v.what = "nonce sweep, input counter " + std::to_string(n) + (v2 ? " v2: " : " v1: ") + d; v.replay = case_json(w.key, in, v2).set("nonce_sweep", true); R.viol.push_back(v); if (R.viol.size() >= 3) return R; }
			}
			return R;
		}, true, 3600);
		total.merge(rn);
	}
	vf::Evidence ev; ev.level = "exploration";
	ev.coverage.set("evaluations", (unsigned long long)total.n["hashes"]).set("distinct_nontrivial", (unsigned long long)total.n["cases"])
		.set("exhaustive", !total.incomplete)
		.set("rule", std::string("profile ") + RX_PROFILE + ": every (key,input,version) of the alphabets is hashed by every configuration of the lattice (light flag sets x 8 cache configurations incl. both Argon2 bits set, fast flag sets x datasets built by the compiled/interpreted initialiser of those caches; for v2 every configuration twice: a VM created with RANDOMX_FLAG_V2 and a VM switched to v2 after creation); all digests must be equal and equal to the specification model. reduced geometry also: a nonce sweep (one key, 16000 / thorough 200000 counter inputs x both versions) over the 12 flag sets of the JIT cache configuration; evaluations = hashes, distinct = (key,input,version) cases; configurations per case in counters")
		;
#ifdef RX_LARGEPAGES
	ev.assumptions = { "this part runs every cache, dataset and VM with RANDOMX_FLAG_LARGE_PAGES; the sandbox has no huge pages, so the harness-owned mmap answers MAP_HUGETLB requests with ordinary pages (the library's large-page classes and allocator code are the real ones)" };
#else
	ev.assumptions = { "LARGE_PAGES flag sets are exercised by the separate part mini-largepages (harness-owned mmap answers MAP_HUGETLB)" };
#endif
	return vf::finish(args, total, ev, true, true);
}
