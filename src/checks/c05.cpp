// C05 - every instruction word executes with the specified semantics.
// (a) opcode -> instruction type map for all 256 opcodes, (b) single-step enumeration on the interpreter's
// own compileProgram + executeInstruction against the specification model's step(), for every word of W1
// and a machine-state alphabet, (c) whole programs interpreter vs model with FP-domain monitors.
#include "common/progs.hpp"
#include "specmodel/specmodel.hpp"
#include <cfenv>
#include <emmintrin.h>

using namespace rxh;
#ifndef RX_PROFILE
#define RX_PROFILE "mini"
#endif
static spec::Params P() { std::string p = RX_PROFILE; return p == "mini" ? spec::Params::mini() : p == "iter" ? spec::Params::iter() : spec::Params::production(); }
static const bool bigsp = SpSize > (1u << 18);

static randomx_dataset g_ds;
using IVM = randomx::InterpretedVmDefault;

static inline uint64_t dbits(double d) { uint64_t u; memcpy(&u, &d, 8); return u; }
static inline bool bad_fp(uint64_t u) { uint64_t ex = u & 0x7ff0000000000000ull, fr = u & 0xfffffffffffffull; return (ex == 0x7ff0000000000000ull && fr) || (ex == 0 && fr); }

// integer register sets
static const int NRSETS = 8;
static void rset(int id, uint64_t r[8]) {
	static const uint64_t mix[8] = { 0, 1, 2, ~0ull, 1ull << 63, (1ull << 63) - 1, 0xFFFFFFFFull, 0x80000000ull };
	for (int i = 0; i < 8; ++i) switch (id) {
	case 0: r[i] = 0x9E3779B97F4A7C15ull * (i + 1) ^ 0x243F6A8885A308D3ull; break;
	case 1: r[i] = 0; break;
	case 2: r[i] = ~0ull; break;
	case 3: r[i] = mix[i]; break;
	case 4: r[i] = mix[(i + 3) & 7] ^ (i == 2 ? 0x100 : 0); break;
	case 5: r[i] = (uint64_t)SpSize - 8 + 8 * (uint64_t)(i & 1) + ((uint64_t)i << 32); break;       // addresses at the end of the scratchpad
	case 6: r[i] = 0xFFFFFFFF00000000ull | (0xFFu << (8 + i)); break;                                  // condition-mask patterns
	default: r[i] = 0x0123456789ABCDEFull >> i; break;
	}
}
static const int NFPVAR = 3, NLINES = 4;

struct Ctx {
	std::unique_ptr<Engine> E; IVM* vm; spec::VmState st; spec::ProgramCtx pc; spec::Params p; randomx::NativeRegisterFile nreg;
	Ctx() {
		E = make_engine(RANDOMX_FLAG_FULL_MEM, nullptr, &g_ds); if (!E) { fprintf(stderr, "c05: engine\n"); exit(2); }
		vm = static_cast<IVM*>(E->vm); p = P(); st.scratchpad.resize(p.scratchpad_l3);
	}
	void load_image(int id) { fill_scratchpad(vm->scratchpad, id); memcpy(st.scratchpad.data(), vm->scratchpad, SpSize); }
	// decode on both sides; returns "" or configuration mismatch
	std::string decode(const ProgBuf& pb, bool v2) {
		E->set_v2(v2);
		memcpy(&vm->program, pb.b, ProgBytes); vm->randomx_vm::initialize();
		for (unsigned i = 0; i < 4; ++i) nreg.a[i] = rx_load_vec_f128(&vm->reg.a[i].lo);
		vm->compileProgram(vm->program, vm->bytecode, nreg, vm->vmFlags);
		spec::program_configure(st, pb.b, p); spec::decode_program(pb.b, v2, p, pc);
		if (memcmp(st.a, &vm->reg.a, 64)) return "A registers differ from spec 4.5.2";
		if (st.emask[0] != vm->config.eMask[0] || st.emask[1] != vm->config.eMask[1]) return "E masks differ from spec 4.5.6";
		if (st.read_reg[0] != vm->config.readReg0 || st.read_reg[1] != vm->config.readReg1 || st.read_reg[2] != vm->config.readReg2 || st.read_reg[3] != vm->config.readReg3) return "address registers differ from spec 4.5.4";
		uint32_t m = spec::dataset_address_mask(p);
		if ((st.ma & m) != (vm->mem.ma & m) || st.mx != vm->mem.mx) return "ma/mx differ from spec 4.5.3";
		if (st.dataset_offset != vm->datasetOffset) return "dataset offset differs from spec 4.5.5";
		// translation state: decoded type of every slot; target, constant and mask of every CBRANCH
		for (uint32_t s = 0; s < pc.size; ++s) {
			const spec::DecodedInstr& d = pc.ins[s]; const randomx::InstructionByteCode& b = vm->bytecode[s];
			int want = d.nop ? (int)spec::IType::NOP : (d.type == spec::IType::IMUL_RCP ? (int)spec::IType::IMUL_R : (int)d.type);
			if ((int)b.type != want) return "slot " + std::to_string(s) + ": interpreter decodes type " + std::to_string((int)b.type) + ", specification " + std::to_string(want);
			if (d.type == spec::IType::CBRANCH) {
				if (b.target != d.target) return "slot " + std::to_string(s) + ": CBRANCH target " + std::to_string(b.target) + " != specification " + std::to_string(d.target) + " (last writer of the branch register)";
				if (b.imm != d.imm64 || (uint64_t)b.memMask != d.cond_mask) return "slot " + std::to_string(s) + ": CBRANCH constant/mask differ from the specification";
			}
		}
		return "";
	}
	// load machine state `sid` on both sides (bits copied from the model side), returns fprc
	unsigned load_state(unsigned sid) {
		unsigned fprc = sid & 3; sid >>= 2; int rs = sid % NRSETS; sid /= NRSETS; int fv = sid % NFPVAR; sid /= NFPVAR; int line = sid % NLINES;
		rset(rs, st.r);
		uint32_t L = (uint32_t)((line * 0x9E40u + 64 * rs) & (SpSize - 64));
		const uint8_t* sp = st.scratchpad.data();
		for (int i = 0; i < 4; ++i) { spec::convert_f(sp + L + 8 * i, st.f[i]); spec::convert_e(sp + ((L + 32) & (SpSize - 64)) + 8 * i, st.emask, st.e[i]); }
		if (fv >= 1) for (int i = 0; i < 4; ++i) for (int h = 0; h < 2; ++h) { uint64_t u = dbits(st.f[i][h]) ^ 0x80F0000000000000ull; memcpy(&st.f[i][h], &u, 8); }  // after FSCAL_R
		if (fv == 2) for (int i = 0; i < 4; ++i) for (int h = 0; h < 2; ++h) { st.e[i][h] = st.e[i][h] * st.a[i][h] * st.a[(i + 1) & 3][h]; st.f[i][h] += st.a[i][h]; }  // grown E, shifted F (nearest)
		st.fprc = (int)fprc;
		memcpy(nreg.r, st.r, 64);
		for (int i = 0; i < 4; ++i) { nreg.f[i] = _mm_set_pd(st.f[i][1], st.f[i][0]); nreg.e[i] = _mm_set_pd(st.e[i][1], st.e[i][0]); }
		return fprc;
	}
	// execute instruction s on both sides from state sid; "" if identical
	std::string step(int s, unsigned sid, bool v2, vf::Result& R, bool check_conv, int special = -1) {
		fesetround(FE_TONEAREST);
		unsigned fprc = load_state(sid);
		if (special >= 0 && pc.ins[s].type == spec::IType::CBRANCH) {   // force both outcomes: taken, and the nearest not-taken value
			const spec::DecodedInstr& b = pc.ins[s];
			st.r[b.rd] = 0 - b.imm64 + (special == 1 ? (1ull << b.shift) : special == 2 ? (b.cond_mask << 1 & ~b.cond_mask) : 0);
			nreg.r[b.rd] = st.r[b.rd];
		}
		if (check_conv) {   // the conversions of spec 4.6.2 step 2/3 themselves
			unsigned fv = (sid >> 2) / NRSETS % NFPVAR;
			if (fv == 0) {
				unsigned rs = (sid >> 2) % NRSETS, line = (sid >> 2) / NRSETS / NFPVAR % NLINES; uint32_t L = (uint32_t)((line * 0x9E40u + 64 * rs) & (SpSize - 64));
				for (int i = 0; i < 4; ++i) {
					__m128d f = rx_cvt_packed_int_vec_f128(vm->scratchpad + L + 8 * i);
					__m128d e = randomx::BytecodeMachine::maskRegisterExponentMantissa(vm->config, rx_cvt_packed_int_vec_f128(vm->scratchpad + ((L + 32) & (SpSize - 64)) + 8 * i));
					if (memcmp(&f, st.f[i], 16) || memcmp(&e, st.e[i], 16)) return "scratchpad-to-F/E conversion differs from spec 4.6.2";
				}
			}
		}
		const spec::DecodedInstr& d = pc.ins[s];
		bool store = d.type == spec::IType::ISTORE;
		int next_m = spec::step(st, pc, s, v2);
		int pcr = s; set_fprc(fprc);
		randomx::BytecodeMachine::executeInstruction(vm->bytecode[s], pcr, vm->scratchpad, vm->config, vm->vmFlags);
		unsigned f_after = get_fprc(); set_fprc(0);
		R.n["steps"]++;
		if (st.branches_taken) { R.n["branches_taken"] += st.branches_taken; st.branches_taken = 0; }
		std::string dsc;
		if (pcr + 1 != next_m) dsc += "next pc " + std::to_string(pcr + 1) + " != spec " + std::to_string(next_m) + "; ";
		if (memcmp(nreg.r, st.r, 64)) { for (int i = 0; i < 8; ++i) if (nreg.r[i] != st.r[i]) { dsc += "r" + std::to_string(i) + "=" + vf::hex64(nreg.r[i]) + " spec " + vf::hex64(st.r[i]) + "; "; break; } }
		for (int i = 0; i < 4; ++i) {
			if (memcmp(&nreg.f[i], st.f[i], 16)) { dsc += "f" + std::to_string(i) + " differs; "; break; }
			if (memcmp(&nreg.e[i], st.e[i], 16)) { dsc += "e" + std::to_string(i) + " differs; "; break; }
		}
		if ((int)f_after != st.fprc) dsc += "fprc " + std::to_string(f_after) + " != spec " + std::to_string(st.fprc) + "; ";
		// FP-domain invariants on the implementation's registers
		for (int i = 0; i < 4; ++i) {
			uint64_t u[2]; memcpy(u, &nreg.f[i], 16); if (bad_fp(u[0]) || bad_fp(u[1])) { dsc += "f" + std::to_string(i) + " is NaN or subnormal; "; break; }
			memcpy(u, &nreg.e[i], 16); if (bad_fp(u[0]) || bad_fp(u[1])) { dsc += "e" + std::to_string(i) + " is NaN or subnormal; "; break; }
			double ev[2]; memcpy(ev, &nreg.e[i], 16); if (!(ev[0] > 0) || !(ev[1] > 0)) { dsc += "e" + std::to_string(i) + " not positive; "; break; }
		}
		if (st.mon.any()) { dsc += "model FP monitor fired; "; st.mon = spec::FpMonitor(); }
		if (store) {
			R.n["store_steps"]++;
			bool full = !bigsp || (R.n["store_steps"] % 64) == 0;
			uint32_t addr = (uint32_t)((st.r[d.rd] + (uint64_t)(int64_t)(int32_t)d.imm32) & d.mem_mask);
			if (full ? memcmp(vm->scratchpad, st.scratchpad.data(), SpSize) != 0 : memcmp(vm->scratchpad + addr, st.scratchpad.data() + addr, 8) != 0) {
				dsc += "scratchpad after ISTORE differs; "; memcpy(vm->scratchpad, st.scratchpad.data(), SpSize);
			}
		}
		return dsc;
	}
};

static vf::Json step_json(const char* fam, uint64_t idx, int slot, unsigned sid, bool v2, int image, const ProgBuf& p, int special = -1) {
	return vf::Json::obj().set("kind", "step").set("profile", RX_PROFILE).set("family", fam).set("index", (unsigned long long)idx).set("slot", slot).set("state", (int)sid).set("v2", v2).set("sp_image", image).set("special", special)
		.set("word", word_json(p.word(slot))).set("program", vf::hex(p.b, ProgBytes));
}

// whole program: interpreter vs model, FP monitors on
static std::string run_program_pair(Ctx& c, Engine& E, const ProgBuf& p, bool v2, unsigned fprc, bool light, const spec::Cache* sc, vf::Result& R) {
	E.set_v2(v2);
	memcpy(c.st.scratchpad.data(), E.scratchpad(), SpSize);
	c.st.fprc = (int)fprc; c.st.mon = spec::FpMonitor(); c.st.executed = 0;
	fesetround(FE_TONEAREST);
	if (light) spec::run_program(c.st, p.b, v2, c.p, [&](uint64_t i, uint8_t* o) { sc->item(i, o); });
	else spec::run_program(c.st, p.b, v2, c.p, [&](uint64_t i, uint8_t* o) { memcpy(o, g_ds.memory + 64 * i, 64); });
	set_fprc(fprc); E.run(p.b); unsigned fa = get_fprc(); set_fprc(0);
	R.n["programs"]++; R.n["model_instructions"] += c.st.executed;
	R.mx["max_instructions_per_iteration_x1000"] = std::max<uint64_t>(R.mx["max_instructions_per_iteration_x1000"], c.st.executed * 1000 / c.p.program_iterations / c.p.program_size(v2));
	uint8_t rf[256]; c.st.register_file(rf);
	std::string d;
	if (memcmp(rf, &E.reg(), 256)) d += "register file differs from the model; ";
	if (memcmp(c.st.scratchpad.data(), E.scratchpad(), SpSize)) { d += "scratchpad differs from the model; "; }
	if ((int)fa != c.st.fprc) d += "rounding mode differs from the model; ";
	if (c.st.mon.any()) d += "FP monitor: NaN/subnormal result or A/E outside their domain; ";
	return d;
}

int main(int argc, char** argv) {
	vf::Args args = vf::parse_args(argc, argv, "C05");
	const bool bounds_mode = !args.get("as").empty();   // "--as C06": whole-program part only, under ASan+UBSan, a sanitizer abort is the verdict
	if (bounds_mode) args.prop = args.get("as");
	const bool th = args.thorough();
	g_ds.memory = map_bytes(randomx::DatasetSize); g_ds.dealloc = nullptr; fill_dataset_image(g_ds.memory, randomx::DatasetSize, 0xC05);
	std::vector<Family> fam = families(th, args.seed, 2, bigsp ? 1 : 0);
	std::vector<Family> famp = families(th, args.seed, 2, 1);      // whole-program part
	const unsigned NST = 4 * NRSETS * NFPVAR * NLINES;
	const int per_slot = th ? 4 : 2;
	randomx_cache* cache = randomx_alloc_cache(RANDOMX_FLAG_DEFAULT); randomx_init_cache(cache, "test key 000", 12);
	spec::Cache sc; sc.p = P(); if (!bigsp) sc.init("test key 000", 12);

	if (!args.replay.empty()) {
		vf::Json r = vf::Json::load(args.replay); Ctx c; vf::Result R; std::string d;
		if (r.at("kind").s == "opcode") {
			int op = (int)r.at("opcode").num(); randomx::BytecodeMachine bm; randomx::NativeRegisterFile nr; bm.beginCompilation(nr);
			randomx::Instruction w; memset(&w, 0, 8); w.opcode = op; w.dst = 1; w.src = 2; w.setImm32(3); randomx::InstructionByteCode b; bm.compileInstruction(w, 0, b);
			int t = (int)spec::decode_type((uint8_t)op, c.p); int rt = (int)b.type; if (t == (int)spec::IType::IMUL_RCP) t = (int)spec::IType::IMUL_R;
			d = rt == t ? "" : "opcode type differs";
		} else {
			ProgBuf p; auto b = vf::unhex(r.at("program").s); memcpy(p.b, b.data(), std::min(b.size(), ProgBytes));
			bool v2 = r.at("v2").b;
			// first from a clean state; if the case does not show there and the replay names its unit, re-run the unit's prefix in
			// the original order (a defect may depend on what was decoded / executed before - that is a defect, not a harness error)
			auto find_fam = [&](const std::vector<Family>& F) -> const Family* { for (auto& x : F) if (x.name == r.at("family").s) return &x; return nullptr; };
			int image = (int)r.at("sp_image").num(); uint64_t index = (uint64_t)r.at("index").num();
			if (r.at("kind").s == "step") {
				c.load_image(image); d = c.decode(p, v2); if (d.empty()) d = c.step((int)r.at("slot").num(), (unsigned)r.at("state").num(), v2, R, true, r.has("special") ? (int)r.at("special").num() : -1);
				const Family* f = find_fam(fam);
				if (d.empty() && f && r.has("unit_begin")) {
					Ctx c2; c2.load_image(image); ProgBuf q;
					for (uint64_t idx = (uint64_t)r.at("unit_begin").num(); idx <= index && d.empty(); ++idx) {
						f->make(idx, v2, q); d = c2.decode(q, v2); int N = prog_size(v2);
						for (int s2 = 0; s2 < N && d.empty(); ++s2) for (int k = 0; k < per_slot && d.empty(); ++k) { unsigned sid = (unsigned)((idx * 7 + s2 * 13 + k * 61 + q.word(s2).mod) % NST); d = c2.step(s2, sid, v2, R, false, k); }
						if (idx < index) d.clear();   // earlier violations of the same unit are reported on their own
					}
					if (!d.empty()) d += " [reproduces only after the unit's preceding programs: history-dependent]";
				}
			} else {
				bool light = r.at("light").b; unsigned fprc = (unsigned)r.at("fprc").num();
				{ auto E = make_engine(light ? 0 : RANDOMX_FLAG_FULL_MEM, cache, &g_ds); fill_scratchpad(E->scratchpad(), image); d = run_program_pair(c, *E, p, v2, fprc, light, &sc, R); }
				const Family* f = find_fam(famp);
				if (d.empty() && f && r.has("unit_begin")) {
					Ctx c2; auto E = make_engine(light ? 0 : RANDOMX_FLAG_FULL_MEM, cache, &g_ds); fill_scratchpad(E->scratchpad(), image); ProgBuf q;
					for (uint64_t idx = (uint64_t)r.at("unit_begin").num(); idx <= index; ++idx) { f->make(idx, v2, q); d = run_program_pair(c2, *E, q, v2, (unsigned)(idx % 4), light, &sc, R); if (idx < index) { if (!d.empty()) fill_scratchpad(E->scratchpad(), image); d.clear(); } }
					if (!d.empty()) d += " [reproduces only after the unit's preceding programs: history-dependent]";
				}
			}
		}
		printf("replay: %s\n", d.empty() ? "matches the specification" : d.c_str());
		return d.empty() ? 0 : 1;
	}

	struct Unit { int kind; int fam; uint64_t b, e; bool v2; bool light; };
	std::vector<Unit> units;
	if (!bounds_mode) units.push_back({ 0, 0, 0, 256, false, false });
	std::vector<size_t> order; for (size_t f = 0; f < fam.size(); ++f) order.push_back(f);
	std::sort(order.begin(), order.end(), [&](size_t a, size_t b) { return fam[a].count < fam[b].count; });   // small families first: shortest counterexamples first
	for (size_t f : order) {
		if (fam[f].sampling || bounds_mode) continue;
		uint64_t ch = 2048;
		for (int v2 = 0; v2 < 2; ++v2) {
			bool w1 = fam[f].name == "w1a" || fam[f].name == "w1b";
			if (w1 && !th && ((fam[f].name == "w1a") != (v2 == 0))) continue;   // quick: w1a under v1, w1b under v2
			for (uint64_t b = 0; b < fam[f].count; b += ch) units.push_back({ 1, (int)f, b, std::min(fam[f].count, b + ch), (bool)v2, false });
		}
	}
	for (size_t f = 0; f < famp.size(); ++f) for (int v2 = 0; v2 < 2; ++v2) for (int light = 0; light < (bigsp ? 1 : 2); ++light) {
		uint64_t cnt = famp[f].count; if (light) cnt = std::min<uint64_t>(cnt, th ? 4000 : 600);
		if (bounds_mode) cnt = std::min<uint64_t>(cnt, th ? 6000 : 1200);
		if (bigsp && !th) cnt = std::min<uint64_t>(cnt, 2000);
		for (uint64_t b = 0; b < cnt; b += 512) units.push_back({ 2, (int)f, b, std::min(cnt, b + 512), (bool)v2, (bool)light });
	}
	const int nsh = args.jobs * 4;
	vf::Result total = vf::run_shards(args, nsh, [&](int shard) {
		vf::Result R; Ctx c; ProgBuf p; std::unique_ptr<Engine> EF, EL; std::set<uint64_t> outcomes;
		for (size_t u = shard; u < units.size(); u += nsh) {
			if (args.expired() || R.viol.size() >= 3) { R.incomplete = true; break; }
			const Unit& un = units[u];
			if (un.kind == 0) {   // opcode map
				for (int op = 0; op < 256; ++op) {
					randomx::BytecodeMachine bm; randomx::NativeRegisterFile nr; bm.beginCompilation(nr);
					randomx::Instruction w; memset(&w, 0, 8); w.opcode = op; w.dst = 1; w.src = 2; w.setImm32(3); randomx::InstructionByteCode b; bm.compileInstruction(w, 0, b);
					int t = (int)spec::decode_type((uint8_t)op, c.p); int rt = (int)b.type; if (t == (int)spec::IType::IMUL_RCP) t = (int)spec::IType::IMUL_R;
					R.n["opcodes"]++;
					if (rt != t) { vf::Violation v; v.key = "c05:opcode-map"; v.what = "opcode " + std::to_string(op) + " decodes to type " + std::to_string(rt) + ", specification table says " + spec::itype_name((spec::IType)t); v.replay = vf::Json::obj().set("kind", "opcode").set("opcode", op); R.viol.push_back(v); if (R.viol.size() >= 3) break; }
				}
				continue;
			}
			int image = (int)(u % n_sp_images(th));
			if (un.kind == 1) {
				const Family& f = fam[un.fam]; c.load_image(image);
				for (uint64_t idx = un.b; idx < un.e && R.viol.size() < 3; ++idx) {
					f.make(idx, un.v2, p);
					std::string d = c.decode(p, un.v2);
					int N = prog_size(un.v2);
					for (int s = 0; s < N && d.empty(); ++s) for (int k = 0; k < per_slot; ++k) {
						unsigned sid = (unsigned)((idx * 7 + s * 13 + k * 61 + p.word(s).mod) % NST);
						if ((s & 31) == 0 && k == 0) vf::set_current(step_json(f.name.c_str(), idx, s, sid, un.v2, image, p).dump());
						d = c.step(s, sid, un.v2, R, k == 0 && (s & 15) == 0, k);
						if (outcomes.size() < 100000) outcomes.insert(vf::fnv(c.nreg.r, 64) ^ vf::fnv(c.nreg.f, 128));
						if (!d.empty()) {
							vf::Violation v; v.key = std::string("c05:step:") + spec::itype_name(c.pc.ins[s].type); v.what = std::string("step ") + (un.v2 ? "v2 " : "v1 ") + word_json(p.word(s)).s + " state " + std::to_string(sid) + ": " + d;
							v.replay = step_json(f.name.c_str(), idx, s, sid, un.v2, image, p, k).set("unit_begin", (unsigned long long)un.b); R.viol.push_back(v); break;
						}
					}
					if (!d.empty() && R.viol.empty()) { vf::Violation v; v.key = "c05:config"; v.what = d; v.replay = step_json(f.name.c_str(), idx, 0, 0, un.v2, image, p).set("unit_begin", (unsigned long long)un.b); R.viol.push_back(v); }
					R.n["step_programs"]++;
					if (idx == un.b && u < 200) R.sample(step_json(f.name.c_str(), idx, 3, 5, un.v2, image, p).set("program", "..."), 2);
				}
			} else {
				const Family& f = famp[un.fam];
				auto& E = un.light ? EL : EF; if (!E) E = make_engine(un.light ? 0 : RANDOMX_FLAG_FULL_MEM, cache, &g_ds);
				fill_scratchpad(E->scratchpad(), image);
				for (uint64_t idx = un.b; idx < un.e && R.viol.size() < 3; ++idx) {
					f.make(idx, un.v2, p); unsigned fprc = (unsigned)(idx % 4);
					if ((idx & 15) == 0 || bounds_mode) vf::set_current(vf::Json::obj().set("kind", "program").set("profile", RX_PROFILE).set("family", f.name).set("index", (unsigned long long)idx).set("v2", un.v2).set("light", un.light).set("fprc", (int)fprc).set("sp_image", image).set("program", vf::hex(p.b, ProgBytes)).set("finding_key", "c06:sanitizer:" + f.name).dump());
					std::string d = run_program_pair(c, *E, p, un.v2, fprc, un.light, &sc, R);
					if (!d.empty()) {
						vf::Violation v; v.key = "c05:program:" + f.name; v.what = std::string("program ") + (un.v2 ? "v2 " : "v1 ") + f.name + " #" + std::to_string(idx) + (un.light ? " light: " : " fast: ") + d;
						// replay from a clean image if it reproduces there
						v.replay = vf::Json::obj().set("kind", "program").set("profile", RX_PROFILE).set("family", f.name).set("index", (unsigned long long)idx).set("v2", un.v2).set("light", un.light).set("fprc", (int)fprc).set("sp_image", image).set("program", vf::hex(p.b, ProgBytes)).set("unit_begin", (unsigned long long)un.b);
						R.viol.push_back(v); fill_scratchpad(E->scratchpad(), image);
					}
				}
			}
		}
		R.n["distinct_step_outcomes"] = outcomes.size();
		return R;
	}, bounds_mode, 3600);
	vf::Evidence ev; ev.level = "exploration";
	ev.coverage.set("evaluations", (unsigned long long)(total.n["steps"] + total.n["programs"] + total.n["opcodes"])).set("distinct_nontrivial", (unsigned long long)total.n["distinct_step_outcomes"])
		.set("exhaustive", !total.incomplete)
		.set("rule", std::string("profile ") + RX_PROFILE + ": (a) all 256 opcodes: decoded type == cumulative frequency table of the specification; (b) every word of W1 (all opcodes x 64 register pairs x mod x imm32 boundary set; two packings) and of the sequence/saturated/branch/count families is decoded in program context by the interpreter's compileProgram and by the model, then executed alone from " + std::to_string(per_slot) + " machine states per slot drawn round-robin from a " + std::to_string(NST) + "-element alphabet (4 rounding modes x 8 integer register sets x 3 FP variants x 4 scratchpad lines): registers, touched scratchpad, rounding mode, next pc and FP-domain invariants compared; (c) whole programs (reduced W1, seq2, sat, brdist, count, sampled aesrand) interpreter == model incl. scratchpad, with NaN/subnormal/A/E monitors on every executed FP result. distinct = distinct (integer,F) register outcomes observed per shard, summed");
	ev.assumptions = { "IEEE-754 arithmetic of the host; machine states are boundary and generated values, not all 2^128 operand pairs" };
	if (bounds_mode) { ev.coverage.set("rule", std::string("profile ") + RX_PROFILE + ", ASan+UBSan build: whole programs of the families (reduced W1, Sigma^2, saturated, writer, branch-distance, counter, sampled aesrand) x v1/v2 x fast/light on the interpreter; any sanitizer report (heap/stack/global out-of-bounds, use after free, undefined behaviour) aborts the case and is a violation; results are also compared with the model"); ev.coverage.set("distinct_nontrivial", (unsigned long long)total.n["programs"]); }
	return vf::finish(args, total, ev, true, bounds_mode);
}
