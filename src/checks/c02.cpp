// C02 - the hash equals the value defined by the specification (independent model), including
// intermediates: cache bytes, SuperscalarHash programs, dataset items, program bytes and the register
// file after each of the 8 programs.  The digest always comes from the untouched public call.
#include "common/rxh.hpp"
#include "common/alph.hpp"
#include "superscalar.hpp"
#include "specmodel/specmodel.hpp"
#include <cfenv>

using namespace rxh;
#ifndef RX_PROFILE
#define RX_PROFILE "full"
#endif
static spec::Params P() { std::string p = RX_PROFILE; return p == "mini" ? spec::Params::mini() : p == "iter" ? spec::Params::iter() : spec::Params::production(); }

struct Case { std::string key, input; bool v2; };

static vf::Json case_json(const Case& c) {
	return vf::Json::obj().set("profile", RX_PROFILE).set("key", vf::hex(c.key.data(), c.key.size())).set("input", vf::hex(c.input.data(), c.input.size())).set("v2", c.v2)
		.set("keylen", (unsigned long long)c.key.size()).set("inputlen", (unsigned long long)c.input.size());
}

struct KeyCtx {
	std::string key; randomx_cache* cache = nullptr; spec::Cache sc; randomx_vm* vm = nullptr; randomx_vm* vm2 = nullptr;
	~KeyCtx() { if (vm) randomx_destroy_vm(vm); if (vm2) randomx_destroy_vm(vm2); if (cache) randomx_release_cache(cache); }
};

// compare everything that depends on the key only; "" if equal
static std::string check_key(KeyCtx& k, const std::vector<uint64_t>& items, vf::Result& R) {
	k.cache = randomx_alloc_cache(RANDOMX_FLAG_DEFAULT);
	if (!k.cache) return "randomx_alloc_cache failed";
	randomx_init_cache(k.cache, k.key.data(), k.key.size());
	k.sc.p = P(); k.sc.init(k.key.data(), k.key.size());
	if (k.sc.memory.size() != randomx::CacheSize) return "cache size differs from the model";
	if (memcmp(k.sc.memory.data(), k.cache->memory, randomx::CacheSize)) {
		size_t i = 0; while (k.sc.memory[i] == k.cache->memory[i]) ++i;
		return "cache memory differs from Argon2d fill at byte " + std::to_string(i);
	}
	R.n["cache_bytes_compared"] += randomx::CacheSize;
	for (int i = 0; i < RANDOMX_CACHE_ACCESSES; ++i) {
		auto& rp = k.cache->programs[i]; auto& sp = k.sc.programs[i];
		if (rp.getSize() != sp.ins.size()) return "SuperscalarHash program " + std::to_string(i) + " has " + std::to_string(rp.getSize()) + " instructions, model " + std::to_string(sp.ins.size());
		if (rp.getAddressRegister() != sp.addr_reg) return "SuperscalarHash program " + std::to_string(i) + " address register differs";
		for (unsigned j = 0; j < rp.getSize(); ++j) {
			auto& a = rp(j); auto& b = sp.ins[j];
			uint32_t imm = a.getImm32();
			bool rcp = a.opcode == (uint8_t)randomx::SuperscalarInstructionType::IMUL_RCP;
			if (a.opcode != b.opcode || a.dst != b.dst || a.src != b.src || a.mod != b.mod || (!rcp && imm != b.imm32))
				return "SuperscalarHash program " + std::to_string(i) + " instruction " + std::to_string(j) + " differs from the model";
			if (rcp && (imm >= k.cache->reciprocalCache.size() || k.cache->reciprocalCache[imm] != spec::reciprocal(b.imm32)))
				return "SuperscalarHash program " + std::to_string(i) + " instruction " + std::to_string(j) + ": cached reciprocal differs from the model";
		}
		R.n["ss_programs_compared"]++;
	}
	for (uint64_t it : items) {
		uint8_t a[64], b[64]; randomx::initDatasetItem(k.cache, a, it); k.sc.item(it, b);
		if (memcmp(a, b, 64)) return "dataset item " + std::to_string(it) + " differs from the model";
		R.n["items_compared"]++;
	}
	k.vm = randomx_create_vm(RANDOMX_FLAG_DEFAULT, k.cache, nullptr); k.vm2 = randomx_create_vm(RANDOMX_FLAG_DEFAULT, k.cache, nullptr);
	if (!k.vm || !k.vm2) return "randomx_create_vm failed";
	return "";
}

static std::string check_hash(KeyCtx& k, const Case& c, vf::Result& R, bool intermediates) {
	uint8_t out[32], ref[32]; spec::HashTrace tr;
	if (c.v2) { k.vm->setFlagV2(); k.vm2->setFlagV2(); } else { k.vm->clearFlagV2(); k.vm2->clearFlagV2(); }
	memset(out, 0xEE, 32);
	randomx_calculate_hash(k.vm, c.input.data(), c.input.size(), out);
	spec::hash(k.sc, c.input.data(), c.input.size(), c.v2, ref, &tr);
	R.n["hashes"]++; R.n["model_instructions_executed"] += tr.executed; R.n["model_branches_taken"] += tr.branches_taken; R.n["model_fprc_changes"] += tr.fprc_changes;
	if (tr.mon.any()) return "model FP monitor fired (NaN/subnormal/A or E out of domain) - see C05";
	std::string d;
	if (memcmp(out, ref, 32)) d = "digest " + vf::hex(out, 32) + " != specification " + vf::hex(ref, 32);
	if (intermediates || !d.empty()) {
		// replay randomx_calculate_hash step by step on a second VM object and compare with the model's trace
		randomx_vm* vm = k.vm2; alignas(16) uint64_t th[8];
		fenv_t fe; fegetenv(&fe);
		blake2b(th, 64, c.input.data(), c.input.size(), nullptr, 0);
		vm->initScratchpad(&th); vm->resetRoundingMode();
		for (int chain = 0; chain < RANDOMX_PROGRAM_COUNT; ++chain) {
			vm->run(&th);
			size_t n = tr.program_bytes[chain].size();
			if (memcmp(&vm->program, tr.program_bytes[chain].data(), n)) { d += "; program " + std::to_string(chain) + " bytes differ from the model"; break; }
			if (memcmp(&vm->reg, tr.regfile_after[chain].data(), 256)) { d += "; register file after program " + std::to_string(chain) + " differs from the model"; break; }
			blake2b(th, 64, &vm->reg, 256, nullptr, 0);
			R.n["program_intermediates_compared"]++;
		}
		fesetenv(&fe);
	}
	return d;
}

int main(int argc, char** argv) {
	vf::Args args = vf::parse_args(argc, argv, "C02");
	const bool th = args.thorough();
	const bool small = std::string(RX_PROFILE) == "mini";
	const bool lite = args.get("lite") == "1";       // sanitizer / alternative-compiler builds: fewer cases
	// ---- alphabets
	std::vector<std::string> keys = alph::key_shapes(th);
	if (small && !lite) for (int b = 0; b < 256; b += (th ? 1 : 5)) keys.push_back(std::string(1, (char)b));
	if (!small) { std::vector<std::string> k2; for (size_t i = 0; i < keys.size(); ++i) if (th ? (i % 3 == 0) : (i == 0 || i == 1 || i == 6 || i == 16)) k2.push_back(keys[i]); keys = k2; }
	if (lite) keys.resize(std::min<size_t>(keys.size(), 8));
	std::vector<size_t> lens = alph::input_lengths(th, small && !lite);
	if (!small && !th) lens = { 0, 1, 64, 76, 128, 129 };
	std::vector<uint64_t> items;
	{
		uint64_t N = randomx::DatasetSize / 64;
		if (N <= 8192) for (uint64_t i = 0; i < N; i += (th ? 1 : 7)) items.push_back(i);
		else { for (uint64_t i = 0; i < 64; ++i) { items.push_back(i); items.push_back(N - 1 - i); } for (int k = 6; (1ull << k) < N; ++k) { items.push_back((1ull << k) - 1); items.push_back(1ull << k); } for (uint64_t i = 0; i < N; i += N / (th ? 3000 : 300)) items.push_back(i); }
	}
	if (!args.replay.empty()) {
		vf::Json r = vf::Json::load(args.replay); vf::Result R;
		KeyCtx k; auto kb = vf::unhex(r.at("key").s); k.key.assign((const char*)kb.data(), kb.size());
		std::string d = check_key(k, items, R);
		if (d.empty() && r.has("input")) { auto ib = vf::unhex(r.at("input").s); Case c{ k.key, std::string((const char*)ib.data(), ib.size()), r.at("v2").b }; d = check_hash(k, c, R, true); }
		if (d.empty() && r.has("ordinal")) {   // not visible on fresh objects: re-run this key's cases in the original order on one pair of VMs (history-dependent defect)
			KeyCtx k2; k2.key = k.key; d = check_key(k2, items, R); int shard = (int)r.at("shard").num(), want = (int)r.at("ordinal").num(), n = 0;
			for (size_t len : lens) for (int v2 = 0; v2 < 2 && n <= want; ++v2) { Case c{ k2.key, alph::input(len, (int)((len + shard) % 3)), (bool)v2 }; d = check_hash(k2, c, R, (n % 4) == 0); if (n < want) d.clear(); ++n; }
			if (!d.empty()) d += " [only after the preceding hashes on the same VM: history-dependent]";
		}
		printf("replay: %s\n", d.empty() ? "equals the specification" : d.c_str());
		return d.empty() ? 0 : 1;
	}
	vf::Result total = vf::run_shards(args, (int)keys.size(), [&](int shard) {
		vf::Result R; KeyCtx k; k.key = keys[shard];
		Case c0{ k.key, "", false }; vf::set_current(case_json(c0).dump());
		std::string d = check_key(k, items, R);
		R.n["keys"]++;
		if (!d.empty()) { vf::Violation v; v.key = "c02:key"; v.what = "key(len " + std::to_string(k.key.size()) + "): " + d; vf::Json j = case_json(c0); j.o.erase(j.o.begin() + 2, j.o.begin() + 4); v.replay = vf::Json::obj().set("profile", RX_PROFILE).set("key", vf::hex(k.key.data(), k.key.size())); R.viol.push_back(v); return R; }
		int n = 0;
		for (size_t len : lens) for (int v2 = 0; v2 < 2; ++v2) {
			if (args.expired()) { R.incomplete = true; return R; }
			Case c{ k.key, alph::input(len, (int)((len + shard) % 3)), (bool)v2 };
			vf::set_current(case_json(c).dump()); vf::watchdog(600);
			d = check_hash(k, c, R, (n++ % 4) == 0);
			if (shard < 2 && len == 76) R.sample(case_json(c), 2);
			if (!d.empty()) { vf::Violation v; v.key = "c02:hash"; v.what = "key(len " + std::to_string(k.key.size()) + ") input(len " + std::to_string(len) + ") " + (v2 ? "v2" : "v1") + ": " + d; v.replay = case_json(c).set("shard", shard).set("ordinal", n - 1); R.viol.push_back(v); if (R.viol.size() >= 3) return R; }
		}
		alarm(0);
		return R;
	}, true, 3600);
	vf::Evidence ev; ev.level = "exploration";
	ev.coverage.set("evaluations", (unsigned long long)total.n["hashes"]).set("distinct_nontrivial", (unsigned long long)total.n["hashes"])
		.set("exhaustive", !total.incomplete)
		.set("rule", std::string("profile ") + RX_PROFILE + ": for every key of the key alphabet: all cache bytes, the 8 SuperscalarHash programs field by field, dataset items on the index set, then for every input length of the input alphabet x {v1,v2}: digest of the public randomx_calculate_hash (light interpreter VM) == independent specification model; every 4th case additionally compares the 8 generated programs and the register file after each program. distinct = (key,input,version) triples, all different by construction");
	ev.assumptions = { "specmodel (validated at setup against RFC 7693, FIPS-197, RFC 9106 and the published RandomX vectors) is the reading of doc/specs.md", "IEEE-754 double arithmetic of the host" };
	return vf::finish(args, total, ev, true, true);
}
