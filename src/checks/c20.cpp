// c20.cpp - property C20: the RV64GC machine code emitted by the scalar RISC-V JIT back-end
// (src/jit_compiler_rv64.cpp + src/jit_compiler_rv64_static.S) computes the same register file, scratchpad
// and rounding mode as the bytecode interpreter, and its SuperscalarHash/dataset-init code computes the same
// dataset items.  Translation validation: the back-end's C++ is compiled for the host, the static runtime
// is cross-assembled, the emitted code is executed by the instruction-subset emulator in src/emu/rv64 and
// compared with the repository's interpreter on exhaustively enumerated program alphabets.
//
// Build: /verif/src/emu/rv64/build.sh <profile> <outdir>     Run: <outdir>/c20 [--tier quick|thorough] ...
#include <deque>
#include <memory>
#include "common/vf.hpp"
#include "emu/rv64/rv64_engine.hpp"
#include "configuration.h"
#include <cfenv>
#include <array>
#include <tuple>

using namespace c20;

// ================================================================================================ tables
static const char* const TypeName[30] = { "IADD_RS","IADD_M","ISUB_R","ISUB_M","IMUL_R","IMUL_M","IMULH_R","IMULH_M","ISMULH_R","ISMULH_M","IMUL_RCP","INEG_R","IXOR_R","IXOR_M","IROR_R","IROL_R","ISWAP_R","FSWAP_R","FADD_R","FADD_M","FSUB_R","FSUB_M","FSCAL_R","FMUL_R","FDIV_M","FSQRT_R","CBRANCH","CFROUND","ISTORE","NOP" };
enum { T_IADD_RS, T_IADD_M, T_ISUB_R, T_ISUB_M, T_IMUL_R, T_IMUL_M, T_IMULH_R, T_IMULH_M, T_ISMULH_R, T_ISMULH_M, T_IMUL_RCP, T_INEG_R, T_IXOR_R, T_IXOR_M, T_IROR_R, T_IROL_R, T_ISWAP_R, T_FSWAP_R, T_FADD_R, T_FADD_M, T_FSUB_R, T_FSUB_M, T_FSCAL_R, T_FMUL_R, T_FDIV_M, T_FSQRT_R, T_CBRANCH, T_CFROUND, T_ISTORE, T_NOP };
static const int Freq[30] = { RANDOMX_FREQ_IADD_RS, RANDOMX_FREQ_IADD_M, RANDOMX_FREQ_ISUB_R, RANDOMX_FREQ_ISUB_M, RANDOMX_FREQ_IMUL_R, RANDOMX_FREQ_IMUL_M, RANDOMX_FREQ_IMULH_R, RANDOMX_FREQ_IMULH_M,
	RANDOMX_FREQ_ISMULH_R, RANDOMX_FREQ_ISMULH_M, RANDOMX_FREQ_IMUL_RCP, RANDOMX_FREQ_INEG_R, RANDOMX_FREQ_IXOR_R, RANDOMX_FREQ_IXOR_M, RANDOMX_FREQ_IROR_R, RANDOMX_FREQ_IROL_R, RANDOMX_FREQ_ISWAP_R,
	RANDOMX_FREQ_FSWAP_R, RANDOMX_FREQ_FADD_R, RANDOMX_FREQ_FADD_M, RANDOMX_FREQ_FSUB_R, RANDOMX_FREQ_FSUB_M, RANDOMX_FREQ_FSCAL_R, RANDOMX_FREQ_FMUL_R, RANDOMX_FREQ_FDIV_M, RANDOMX_FREQ_FSQRT_R,
	RANDOMX_FREQ_CBRANCH, RANDOMX_FREQ_CFROUND, RANDOMX_FREQ_ISTORE, RANDOMX_FREQ_NOP };
static int typeOfOpcode[256]; static int firstOpcode[30];
static void initTables() { int o = 0; for (int t = 0; t < 30; ++t) { firstOpcode[t] = o; for (int k = 0; k < Freq[t]; ++k) typeOfOpcode[o++] = t; } if (o != 256) { fprintf(stderr, "c20: frequencies do not sum to 256\n"); exit(2); } }

static inline uint64_t mkWord(unsigned opcode, unsigned dst, unsigned src, unsigned mod, uint32_t imm) { return (uint64_t)opcode | ((uint64_t)dst << 8) | ((uint64_t)src << 16) | ((uint64_t)mod << 24) | ((uint64_t)imm << 32); }
static inline uint64_t W(int type, unsigned dst, unsigned src, unsigned mod, uint32_t imm, int which = 0) { return mkWord((unsigned)(firstOpcode[type] + (which ? Freq[type] - 1 : 0)), dst, src, mod, imm); }
static uint64_t NoOp() { return W(T_IMUL_RCP, 0, 0, 0, 0); }   // IMUL_RCP with imm32 = 0: decoded as NOP by every engine
static std::string wordText(uint64_t w) {
	char b[128]; unsigned op = w & 255, dst = (w >> 8) & 255, src = (w >> 16) & 255, mod = (w >> 24) & 255; uint32_t imm = (uint32_t)(w >> 32);
	snprintf(b, sizeof b, "%s(opcode %u, dst %u, src %u, mod 0x%02x, imm32 0x%08x)%s", TypeName[typeOfOpcode[op]], op, dst, src, mod, imm, ((dst & 7) == (src & 7)) ? " [src==dst]" : "");
	return b;
}

// imm32 boundary sets
static std::vector<uint32_t> immSet(bool thorough) {
	std::vector<uint32_t> q = { 0, 1, 2, 3, 13, 31, 32, 33, 63, 64, 0x7FF, 0x800, 0xFFF, 0x1000, 0x1FFF, 0x2000, 0x3FF8, 0x1F7FF, 0x1F800, 0x1FFFF, 0x20000, 0x3FFF8, 0x1FFFF8,
		16384, 262144, 2097144, 2097152, 0x7FFFF7FF, 0x7FFFF800, 0x7FFFFFFF, 0x80000000u, 0x80000001u, 0xFFFFF7FFu, 0xFFFFF800u, 0xFFFE0000u, 0xFFFFFFC0u, 0xFFFFFFFEu, 0xFFFFFFFFu, 0x12345678, 0xDEADBEEFu, 0x55555555,
		0x1F, 0x20, 0xFFFFFFE0u, 0xFFFFFFDFu, 0x7F, 0x80, 0xFF, 0xFFFFFF80u };   // 6-bit compressed and 8-bit edges (DESIGN.md 8.7)
	if (thorough) {
		for (int k = 1; k <= 32; ++k) { uint64_t p = 1ull << k; q.push_back((uint32_t)(p - 1)); q.push_back((uint32_t)p); q.push_back((uint32_t)(p + 1)); }
		for (int k = 2; k <= 31; ++k) { q.push_back((uint32_t)(0xFFFFFFFFull << k)); q.push_back((uint32_t)((0xFFFFFFFFull << k) - 1)); }   // -2^k, -2^k-1
		for (uint32_t v : { 12u, 14u, 62u, 65u, 0x1F7FFu, 0xFFFDFFFFu, 16376u, 16392u, 262136u, 262152u, 2097160u, 3234567890u, 0xAAAAAAAAu, 0x80000800u, 0x800007FFu, 0x7FFFEFFFu, 0x7FFFF000u, 0xFFFFE000u, 0xFFFFDFFFu, 0xFFFC0000u, 0xFFFBFFFFu,
			0x00FFF800u, 0x00FFF7FFu, 0x0001E800u, 0x0001F000u, 0x00020800u, 0xFFFE0800u, 0xFFFDF800u, 0x00001800u, 0x000017FFu, 0xFFFFEFFFu, 0xFFFFF000u, 0x40000000u, 0xC0000000u, 0xBFFFFFFFu, 0x001FFFC0u, 0x00200040u, 0x9E3779B9u, 0x01010101u, 0xFEFEFEFEu,
			100u, 1000u, 10000u, 100000u, 1000000u, 10000000u, 100000000u, 1000000000u, 4000000000u, 0x0000FF00u, 0x00FF0000u, 0xFF000000u, 0x000000FFu, 0x0F0F0F0Fu, 0xF0F0F0F0u, 0x33333333u, 0xCCCCCCCCu, 0x00010001u, 0xFFFEFFFFu,
			5u, 6u, 7u, 9u, 10u, 11u, 15u, 17u, 30u, 34u, 35u, 61u, 66u, 67u, 127u, 129u, 191u, 193u, 0x7FEu, 0x801u, 0xFFEu, 0x1001u, 0x7FFFFFFEu, 0x80000002u, 0xFFFFFFFDu, 0xFFFFFFFCu, 0x3FFFFFFFu, 0x40000001u })
			q.push_back(v);
	}
	std::sort(q.begin(), q.end()); q.erase(std::unique(q.begin(), q.end()), q.end());
	return q;
}
static std::vector<unsigned> modSet(bool all) {
	std::vector<unsigned> q;
	if (all) { for (unsigned i = 0; i < 256; ++i) q.push_back(i); return q; }
	return { 0x00, 0x01, 0x02, 0x03, 0x04, 0x08, 0x0C, 0x1D, 0x7A, 0x8E, 0xD0, 0xD3, 0xE0, 0xE1, 0xF0, 0xFF };
}

// the ~95-word alphabet of family (b): one or two representatives per instruction type and operand form
static std::vector<uint64_t> alphabet() {
	std::vector<uint64_t> a = {
		W(T_IADD_RS, 0, 1, 0x00, 0), W(T_IADD_RS, 2, 3, 0x0C, 0, 1), W(T_IADD_RS, 5, 6, 0x04, 0x12345678), W(T_IADD_RS, 5, 5, 0x08, 0x80000000u), W(T_IADD_RS, 4, 4, 0x00, 7), W(T_IADD_RS, 5, 0, 0x00, 0xFFFFF800u),
		W(T_IADD_M, 0, 1, 0x01, 0x10), W(T_IADD_M, 1, 2, 0x00, 0xFFFFFFF8u, 1), W(T_IADD_M, 3, 3, 0x00, 0x001FFFF8), W(T_IADD_M, 2, 2, 0x03, 0xFFFFFFFFu),
		W(T_ISUB_R, 0, 1, 0, 0), W(T_ISUB_R, 2, 2, 0, 0x12345678, 1), W(T_ISUB_R, 3, 3, 0, 0xFFFFF800u), W(T_ISUB_R, 4, 4, 0, 0x80000000u), W(T_ISUB_R, 6, 6, 0, 0x800),
		W(T_ISUB_M, 4, 5, 0x02, 0x2000), W(T_ISUB_M, 6, 6, 0x00, 0x7FFFFFFF),
		W(T_IMUL_R, 0, 1, 0, 0), W(T_IMUL_R, 6, 6, 0, 0xFFFFFFFFu), W(T_IMUL_R, 7, 7, 0, 0x7FFFF800, 1),
		W(T_IMUL_M, 2, 3, 0x00, 0x20000), W(T_IMUL_M, 1, 1, 0x01, 0x40),
		W(T_IMULH_R, 0, 1, 0, 0), W(T_IMULH_R, 3, 3, 0, 0, 1),
		W(T_IMULH_M, 4, 5, 0x01, 0x3FF8), W(T_IMULH_M, 5, 5, 0x00, 0x1FFFC0),
		W(T_ISMULH_R, 6, 7, 0, 0), W(T_ISMULH_R, 0, 0, 0, 0, 1),
		W(T_ISMULH_M, 1, 2, 0x00, 0xFFFE0000u), W(T_ISMULH_M, 2, 2, 0x02, 0xFFFFFFC0u),
		W(T_IMUL_RCP, 0, 0, 0, 3), W(T_IMUL_RCP, 1, 0, 0, 0xFFFFFFFFu, 1), W(T_IMUL_RCP, 2, 0, 0, 0), W(T_IMUL_RCP, 3, 0, 0, 0x80000000u), W(T_IMUL_RCP, 4, 0, 0, 0x80000001u), W(T_IMUL_RCP, 5, 0, 0, 1),
		W(T_INEG_R, 5, 0, 0, 0), W(T_INEG_R, 0, 0, 0, 0, 1),
		W(T_IXOR_R, 0, 1, 0, 0), W(T_IXOR_R, 7, 7, 0, 0x80000000u), W(T_IXOR_R, 6, 6, 0, 0x7FF, 1),
		W(T_IXOR_M, 3, 4, 0x01, 0x1FFF), W(T_IXOR_M, 4, 4, 0x00, 0xFFFFFFC0u),
		W(T_IROR_R, 0, 1, 0, 0), W(T_IROR_R, 2, 2, 0, 0), W(T_IROR_R, 3, 3, 0, 13), W(T_IROR_R, 4, 4, 0, 63, 1), W(T_IROR_R, 5, 5, 0, 32),
		W(T_IROL_R, 1, 0, 0, 0), W(T_IROL_R, 6, 6, 0, 0), W(T_IROL_R, 7, 7, 0, 1, 1), W(T_IROL_R, 0, 0, 0, 33),
		W(T_ISWAP_R, 0, 1, 0, 0), W(T_ISWAP_R, 2, 2, 0, 0), W(T_ISWAP_R, 7, 6, 0, 0, 1),
		W(T_FSWAP_R, 0, 0, 0, 0), W(T_FSWAP_R, 5, 0, 0, 0), W(T_FSWAP_R, 7, 0, 0, 0, 1),
		W(T_FADD_R, 0, 1, 0, 0), W(T_FADD_R, 3, 3, 0, 0, 1),
		W(T_FADD_M, 1, 2, 0x01, 0x8), W(T_FADD_M, 2, 3, 0x00, 0xFFFFFFF8u, 1),
		W(T_FSUB_R, 1, 0, 0, 0), W(T_FSUB_R, 2, 2, 0, 0, 1),
		W(T_FSUB_M, 0, 7, 0x03, 0x3FF8), W(T_FSUB_M, 3, 0, 0x00, 0x20000),
		W(T_FSCAL_R, 0, 0, 0, 0), W(T_FSCAL_R, 3, 0, 0, 0, 1),
		W(T_FMUL_R, 0, 0, 0, 0), W(T_FMUL_R, 3, 2, 0, 0, 1),
		W(T_FDIV_M, 1, 1, 0x01, 0x10), W(T_FDIV_M, 2, 5, 0x00, 0x80000000u, 1),
		W(T_FSQRT_R, 0, 0, 0, 0), W(T_FSQRT_R, 2, 0, 0, 0, 1),
		W(T_CBRANCH, 0, 0, 0x00, 0x12345678), W(T_CBRANCH, 0, 0, 0xF0, 0xFFFFFFFFu), W(T_CBRANCH, 3, 0, 0x70, 0, 1), W(T_CBRANCH, 3, 0, 0x40, 0x80000000u),
		W(T_CFROUND, 0, 0, 0, 0), W(T_CFROUND, 0, 1, 0, 2), W(T_CFROUND, 0, 2, 0, 13), W(T_CFROUND, 0, 3, 0, 34), W(T_CFROUND, 0, 0, 0, 63),
		W(T_ISTORE, 0, 1, 0x01, 0x10), W(T_ISTORE, 2, 3, 0x00, 0x20000), W(T_ISTORE, 4, 5, 0xE0, 0x1FFFF8), W(T_ISTORE, 6, 6, 0xF1, 0xFFFFFFFFu, 1), W(T_ISTORE, 1, 2, 0xD0, 0x3FFF8), W(T_ISTORE, 7, 0, 0xD3, 0x1000),
	};
	return a;
}

// ================================================================================================ families
struct Tier {
	bool thorough; uint64_t seed; unsigned scale;   // scale > 1: take every scale-th case of the big families (2048-iteration profile)
	std::vector<uint32_t> immQ, immT, immS; std::vector<unsigned> modQ, modA, modOps; std::vector<uint64_t> alpha;
};
struct WordSpace {   // opcode x 65 register pairs x mod x imm, imm fastest
	const std::vector<unsigned>* mods; const std::vector<uint32_t>* imms; const std::vector<unsigned>* opcodes = nullptr;   // opcodes == nullptr: all 256
	uint64_t count() const { return (opcodes ? (uint64_t)opcodes->size() : 256ull) * 65 * mods->size() * imms->size(); }
	uint64_t at(uint64_t i) const {
		uint64_t ni = imms->size(), nm = mods->size();
		uint32_t imm = (*imms)[i % ni]; i /= ni; unsigned mod = (*mods)[i % nm]; i /= nm; unsigned pair = (unsigned)(i % 65); unsigned opcode = (unsigned)(i / 65);
		if (opcodes) opcode = (*opcodes)[opcode];
		unsigned dst, src;
		if (pair < 64) { dst = pair >> 3; src = pair & 7; } else { dst = 0xF8 | (opcode & 7); src = 0xF8 | ((opcode >> 3) & 7); }
		return mkWord(opcode, dst, src, mod, imm);
	}
};
static const uint64_t Mult[4] = { 1000003ull, 7368787ull, 15485867ull, 32452843ull };   // primes; bumped until coprime to the word-space size

struct CaseSpec { Case c; std::string family; uint64_t index; bool sampling = false; };

// dataset offsets (in items) at the immediate-width boundaries a translator can split at: 8 bits, 12 bits (lui/addi, add #imm12), 16 bits (movz/movk), 20 bits
static const uint64_t DSO[] = { 1, 0x7F, 0x80, 0xFF, 0x100, 0x7FF, 0x800, 0x801, 0xFFF, 0x1000, 0x1001, 0x17FF, 0x1800, 0x1801, 0x7FFF, 0x8000, 0xFFFF, 0x10000, 0x10001, 0x3F800, 0x7F7FF, 0x7F800, 0x7FFFE };
static const int NDSO = (int)(sizeof DSO / sizeof DSO[0]);
struct Families {
	Tier t; std::vector<WordSpace> spaces;
	struct Fam { std::string name; uint64_t count; };
	std::vector<Fam> fams;
	std::vector<int> rcpCounts;
	std::vector<uint64_t> satWords; std::vector<std::array<int, 4>> branchProgs;   // {kind, nBig(FDIV_M, 56 bytes), nMid(FADD_R, 8 bytes), nSmall(c.add, 2 bytes)}; kind 0: CBRANCH at slot [1] after FDIV_M fillers std::vector<int> rcpCounts;

	explicit Families(const Tier& tt) : t(tt) {
		spaces.push_back(WordSpace{ &t.modQ, &t.immQ });
		if (t.thorough) {
			spaces.push_back(WordSpace{ &t.modA, &t.immS });            // a1: all 256 opcodes x all 256 mod values x a 16-value imm32 set
			spaces.push_back(WordSpace{ &t.modQ, &t.immT });            // a2: the large imm32 set
			spaces.push_back(WordSpace{ &t.modA, &t.immT, &t.modOps }); // a3: full mod x imm32 cross for one opcode of every type that reads mod
		}
		// (c) saturated programs: the longest encoding of every type (plus a second form for some)
		satWords = { W(T_IADD_RS, 5, 6, 0x0C, 0x7FFFF7FF), W(T_IADD_M, 0, 1, 0x00, 0x1F7FF), W(T_IADD_M, 3, 3, 0x00, 0x001FF7F8), W(T_ISUB_R, 2, 2, 0, 0x12345678), W(T_ISUB_R, 0, 1, 0, 0), W(T_ISUB_M, 4, 5, 0x01, 0x17FF),
			W(T_IMUL_R, 6, 6, 0, 0x7FFFF7FF), W(T_IMUL_R, 0, 1, 0, 0), W(T_IMUL_M, 2, 3, 0x00, 0xFFFDF7FFu), W(T_IMULH_R, 0, 1, 0, 0), W(T_IMULH_M, 4, 5, 0x01, 0x17FF), W(T_ISMULH_R, 6, 7, 0, 0), W(T_ISMULH_M, 1, 2, 0x00, 0x1F7FF),
			W(T_IMUL_RCP, 0, 0, 0, 3), W(T_INEG_R, 5, 0, 0, 0), W(T_IXOR_R, 7, 7, 0, 0x7FFFF7FF), W(T_IXOR_R, 0, 1, 0, 0), W(T_IXOR_M, 3, 4, 0x01, 0x17FF), W(T_IROR_R, 0, 1, 0, 0), W(T_IROR_R, 3, 3, 0, 13), W(T_IROL_R, 1, 0, 0, 0), W(T_IROL_R, 7, 7, 0, 1),
			W(T_ISWAP_R, 0, 1, 0, 0), W(T_FSWAP_R, 5, 0, 0, 0), W(T_FADD_R, 0, 1, 0, 0), W(T_FADD_M, 1, 2, 0x00, 0x1F7FF), W(T_FSUB_R, 1, 0, 0, 0), W(T_FSUB_M, 0, 7, 0x01, 0x17FF), W(T_FSCAL_R, 0, 0, 0, 0), W(T_FMUL_R, 0, 0, 0, 0),
			W(T_FDIV_M, 1, 1, 0x00, 0x1F7FF), W(T_FDIV_M, 2, 5, 0x01, 0x17FF), W(T_FSQRT_R, 0, 0, 0, 0), W(T_CBRANCH, 0, 0, 0x00, 0x7FFFF7FF), W(T_CBRANCH, 3, 0, 0xF0, 0x12345678), W(T_CFROUND, 0, 3, 0, 34), W(T_CFROUND, 0, 1, 0, 2),
			W(T_ISTORE, 4, 5, 0xE0, 0x001F77F8), W(T_ISTORE, 0, 1, 0x00, 0x1F7FF) };
		// branch-distance family: {slot of CBRANCH (coarse sweep with FDIV_M body), or fine sweep: n FADD_R + m c.add fillers}
		for (int k : { 1, 2, 3, 4, 5, 6, 8, 40, 70, 71, 72, 73, 74, 75, 76, 77, 78, 79, 80, 100, 255, 383 }) branchProgs.push_back({ 0, k, 0, 0 });
		for (int bytes = 200; bytes <= 270; bytes += 2) branchProgs.push_back({ 1, 0, bytes / 8, (bytes % 8) / 2 });                                     // around the c.beqz limit (-256)
		for (int bytes = 4030; bytes <= 4104; bytes += 2) branchProgs.push_back({ 1, 70, (bytes - 3920) / 8, ((bytes - 3920) % 8) / 2 });                 // around the beq limit (-4096)
		rcpCounts = { 0, 1, 3, 4, 5, 9, 10, 11, 12, 100, 237, 238, 239, 240, 255, 256, 300, 383, 384 };
		uint64_t A = t.alpha.size();
		auto sc = [&](uint64_t n) { return t.scale <= 1 ? n : std::max<uint64_t>(1, n / t.scale); };
		for (size_t s = 0; s < spaces.size(); ++s) {
			uint64_t n = spaces[s].count();
			uint64_t progs = (n + 255) / 256 + (n + 383) / 384;   // v1 + v2
			fams.push_back({ "a" + std::to_string(s), sc(progs * 2 /*packings*/ * 2 /*modes*/) });
		}
		fams.push_back({ "b2", sc(A * A * 3 * 4 * (t.thorough ? 16 : 8)) });
		if (t.thorough) fams.push_back({ "b3", sc(A * A * A * 4) });
		fams.push_back({ "c-sat", satWords.size() * 4 * 16 });
		fams.push_back({ "c-branch", branchProgs.size() * 2 * 2 * 4 });
		fams.push_back({ "c-rcp", rcpCounts.size() * 2 * 2 * 4 });
		fams.push_back({ "c-writer", (uint64_t)8 * 3 * 15 * 2 * 2 });
		fams.push_back({ "c-dsoff", (uint64_t)NDSO * 2 * 2 * 2 });
		fams.push_back({ "c-entry", A * 2 * 2 * 2 * 2 });
		fams.push_back({ "d-random", sc((uint64_t)(t.thorough ? 1024 : 320) * 4) });
	}
	uint64_t total() const { uint64_t n = 0; for (auto& f : fams) n += f.count; return n; }

	// scale > 1 (2048-iteration profile): take one case out of every `scale`, at a position that varies so that all digits of the index vary
	uint64_t spread(uint64_t i) const { return t.scale <= 1 ? i : i * t.scale + ((i * 2654435761ull) >> 7) % t.scale; }
	static void ctx16(Case& c, unsigned ctx, uint64_t e[16]) { makeEntropy(ctx & 1, e); c.spad = (ctx >> 1) & 1; c.rmode = (ctx >> 2) & 3; }
	static void fill(Case& c, const uint64_t e[16]) { memcpy(c.prog, e, 128); for (unsigned s = 0; s < RANDOMX_PROGRAM_MAX_SIZE; ++s) c.setWord(s, NoOp()); }

	CaseSpec make(uint64_t gi) const {
		CaseSpec cs; size_t f = 0; uint64_t i = gi;
		while (i >= fams[f].count) { i -= fams[f].count; ++f; }
		cs.family = fams[f].name; cs.index = i;
		const std::string& fn = fams[f].name;
		Case& c = cs.c; uint64_t e[16];
		if (fn[0] == 'a') {
			i = spread(i);
			const WordSpace& ws = spaces[(size_t)(fn[1] - '0')];
			uint64_t n = ws.count(), p1 = (n + 255) / 256, p2 = (n + 383) / 384, per = p1 + p2;
			unsigned combo = (unsigned)(i / per); uint64_t p = i % per;   // combo: bit0 packing, bit1 mode
			unsigned packing = combo & 1; c.light = (combo >> 1) & 1;
			c.v2 = p >= p1; if (c.v2) p -= p1;
			unsigned S = c.size();
			ctx16(c, (unsigned)((p + packing * 5 + (c.light ? 3 : 0)) % 16), e); fill(c, e);
			uint64_t mult = packing ? Mult[t.seed % 4] : 1, add = (t.seed * 0x9E3779B97F4A7C15ull) % n;
			while (std::__gcd(mult, n) != 1) mult += 2;   // the index map must be a permutation of [0, n)
			for (unsigned s = 0; s < S; ++s) {
				uint64_t wi = p * S + s; if (wi >= n) break;
				uint64_t j = (uint64_t)(((unsigned __int128)wi * mult + add) % n);
				c.setWord(s, ws.at(j));
			}
		}
		else if (fn == "b2" || fn == "b3") {
			i = spread(i);
			uint64_t A = t.alpha.size(); int L = fn == "b2" ? 2 : 3;
			unsigned vm = (unsigned)(i % 4); i /= 4; c.v2 = vm & 1; c.light = vm >> 1;
			unsigned ctx, pos;
			if (L == 2 && t.thorough) { ctx = (unsigned)(i % 16); i /= 16; pos = (unsigned)(i % 3); i /= 3; }
			else if (L == 2) { unsigned c8 = (unsigned)(i % 8); i /= 8; pos = (unsigned)(i % 3); i /= 3; ctx = (c8 & 3) | ((((c8 >> 2) + 2 * (unsigned)(i % 2)) & 3) << 2); }   // quick: 8 of the 16 contexts, the rounding-mode pair alternating with the sequence
			else { pos = (unsigned)((i + vm) % 3); ctx = (unsigned)((i * 7 + vm) % 16); }
			ctx16(c, ctx, e); fill(c, e);
			unsigned S = c.size(), at = pos == 0 ? 0 : (pos == 1 ? S / 2 : S - L);
			// VERIF_SEED only rotates which alphabet word gets which index
			for (int k = L - 1; k >= 0; --k) { c.setWord(at + k, t.alpha[(i + t.seed) % A]); i /= A; }
		}
		else if (fn == "c-sat") {
			unsigned ctx = (unsigned)(i % 16); i /= 16; unsigned vm = (unsigned)(i % 4); i /= 4; c.v2 = vm & 1; c.light = vm >> 1;
			ctx16(c, ctx, e); fill(c, e);
			for (unsigned s = 0; s < c.size(); ++s) c.setWord(s, satWords[i]);
		}
		else if (fn == "c-branch") {
			unsigned ctx4 = (unsigned)(i % 4); i /= 4; c.light = i % 2; i /= 2; c.v2 = i % 2; i /= 2;
			ctx16(c, ctx4 | ((unsigned)(i % 4) << 2), e); fill(c, e);
			auto bp = branchProgs[i]; unsigned S = c.size(), s = 0;
			c.setWord(s++, W(T_IADD_RS, 0, 1, 0x04, 0));   // writer of r0
			if (bp[0] == 0) { for (int k = 1; k < bp[1] && s < S - 1; ++k) c.setWord(s++, W(T_FDIV_M, (unsigned)(k & 3), (unsigned)(1 + (k & 3)), 0x00, 0x1F7FF)); }
			else {
				for (int k = 0; k < bp[1] && s < S - 1; ++k) c.setWord(s++, W(T_FDIV_M, (unsigned)(k & 3), (unsigned)(1 + (k & 3)), 0x00, 0x1F7FF));
				for (int k = 0; k < bp[2] && s < S - 1; ++k) c.setWord(s++, W(T_FADD_R, (unsigned)(k & 3), (unsigned)((k >> 2) & 3), 0, 0));
				for (int k = 0; k < bp[3] && s < S - 1; ++k) c.setWord(s++, W(T_IADD_RS, 1, 2, 0x00, 0));
			}
			c.setWord(s++, W(T_CBRANCH, 0, 0, (unsigned)((i % 3) << 4), 0x00000100u << (i % 3)));
			if (s < S) c.setWord(s++, W(T_IXOR_R, 2, 0, 0, 0));
		}
		else if (fn == "c-rcp") {
			unsigned ctx4 = (unsigned)(i % 4); i /= 4; c.light = i % 2; i /= 2; c.v2 = i % 2; i /= 2;
			ctx16(c, ctx4 | ((unsigned)(i % 4) << 2), e); fill(c, e);
			int k = rcpCounts[i]; unsigned S = c.size();
			// exactly k effective IMUL_RCP (distinct odd divisors, rotating destination), spread from the start; every 16th slot after them an IXOR_R so values mix
			for (unsigned s = 0; s < S && (int)s < k; ++s) c.setWord(s, W(T_IMUL_RCP, s & 7, 0, 0, 3 + 2 * s + ((s % 5 == 0) ? 0x80000000u : 0), (int)(s & 1)));
			for (unsigned s = (unsigned)std::min<int>(k, (int)S); s < S; s += 16) c.setWord(s, W(T_IXOR_R, s / 16 & 7, (s / 16 + 1) & 7, 0, 0));
		}
		else if (fn == "c-entry") {
			// entry at a branch target: r := 0; r ^= 0xFF << b (last writer of r); A (an alphabet word that does not write r); clobbers; CBRANCH r taken once per iteration:
			// A's code is entered from the branch without passing through the writer (DESIGN.md 8.13)
			c.light = i % 2; i /= 2; c.v2 = i % 2; i /= 2; unsigned cond = (i % 2) ? 15 : 0; i /= 2; unsigned r = (i % 2) ? 6 : 1; i /= 2;
			uint64_t wa = t.alpha[i]; unsigned op = (unsigned)(wa & 0xFF), d = (unsigned)((wa >> 8) & 0xFF), sr = (unsigned)((wa >> 16) & 0xFF);
			bool isBranch = op >= firstOpcode[T_CBRANCH] && op < firstOpcode[T_CBRANCH] + Freq[T_CBRANCH], isSwap = op >= firstOpcode[T_ISWAP_R] && op < firstOpcode[T_ISWAP_R] + Freq[T_ISWAP_R];
			if (isBranch) wa = W(T_ISTORE, (r + 1) & 7, (r + 2) & 7, 0x01, 0x40);
			else { if ((d & 7) == r) d = (d & 0xF8) | ((r + 1) & 7); if (isSwap && (sr & 7) == r) sr = (r + 2) & 7; wa = (wa & ~0xFFFF00ull) | ((uint64_t)d << 8) | ((uint64_t)sr << 16); }
			ctx16(c, (unsigned)((r + cond + i) & 15), e); fill(c, e);
			c.setWord(0, W(T_IMUL_R, r, r, 0, 0)); c.setWord(1, W(T_IXOR_R, r, r, 0, 0xFFu << (cond + 8))); c.setWord(2, wa);
			c.setWord(3, W(T_IMULH_R, (r + 2) & 7, (r + 3) & 7, 0, 0)); c.setWord(4, W(T_ISMULH_M, (r + 3) & 7, (r + 5) & 7, 0x01, 0x100)); c.setWord(5, W(T_ISTORE, (r + 1) & 7, (r + 2) & 7, 0x01, 0x1238));
			c.setWord(6, W(T_CBRANCH, r, 0, cond << 4, 0)); c.setWord(7, W(T_IADD_RS, (r + 1) & 7, (r + 3) & 7, 0, 0));
		}
		else if (fn == "c-dsoff") {
			// the dataset offset of the configuration block at every boundary value (seeded change agent7_C20: the lui/addi split of datasetOffset/64 wrong for low 12 bits == 0x800)
			c.light = i % 2; i /= 2; c.v2 = i % 2; i /= 2; unsigned ctx = (unsigned)(i % 2); i /= 2;
			ctx16(c, ctx | 4, e); e[13] = DSO[i]; fill(c, e);
			c.setWord(0, W(T_IADD_M, 0, 1, 0x01, 0x10)); c.setWord(1, W(T_IXOR_R, 2, 3, 0, 0)); c.setWord(2, W(T_ISTORE, 4, 5, 0x01, 0x40)); c.setWord(3, W(T_IMUL_R, 6, 7, 0, 0));
		}
		else if (fn == "c-writer") {
			// last-writer bookkeeping with the branch FORCED taken (added after seeded change agent3_C19, DESIGN.md 8.9):
			// r := 0; r ^= 0xFF << b; X (non-idempotent, reads r); N (touches r but must not count as a modification of it); Y;
			// CBRANCH r with imm 0 -> taken exactly once per iteration, correct target = slot 2 (so X runs twice).
			c.light = i % 2; i /= 2; c.v2 = i % 2; i /= 2;
			unsigned ci = (unsigned)(i % 15); i /= 15; const unsigned conds[3] = { 0, 9, 15 }; unsigned cond = conds[i % 3]; i /= 3; unsigned r = (unsigned)i;
			ctx16(c, (r + ci) & 15, e); fill(c, e);
			const unsigned o = (r + 1) & 7, q = (r + 2) & 7;
			const uint64_t cands[15] = { W(T_IMUL_RCP, r, 0, 0, 0), W(T_IMUL_RCP, r, 0, 0, 1), W(T_IMUL_RCP, r, 0, 0, 0x80000000u), W(T_IMUL_RCP, r, 0, 0, 65536), W(T_ISWAP_R, r, r, 0, 0),
				W(T_ISTORE, r, o, 0x01, 0x40), W(T_ISTORE, o, r, 0xE0, 0x80), W(T_CFROUND, 0, r, 0, 7), W(T_FADD_M, 1, r, 0x01, 0x100), W(T_FDIV_M, 2, r, 0x00, 0x208), W(T_IADD_M, o, r, 0x01, 0x18), W(T_IXOR_R, o, r, 0, 0),
				W(T_FSWAP_R, r, 0, 0, 0), W(T_IMUL_RCP, o, 0, 0, 5), NoOp() };
			c.setWord(0, W(T_IMUL_R, r, r, 0, 0)); c.setWord(1, W(T_IXOR_R, r, r, 0, 0xFFu << (cond + 8)));
			c.setWord(2, W(T_IADD_RS, q, r, 0x04, 0)); c.setWord(3, cands[ci]); c.setWord(4, W(T_ISTORE, q, o, 0x01, 0x1238));
			c.setWord(5, W(T_CBRANCH, r, 0, cond << 4, 0)); c.setWord(6, W(T_IADD_RS, o, q, 0, 0));
		}
		else {   // d-random: AES-generated program buffers, as VmBase::generateProgram does (sampling, a sanity floor only)
			i = spread(i);
			cs.sampling = true;
			unsigned vm = (unsigned)(i % 4); i /= 4; c.v2 = vm & 1; c.light = vm >> 1;
			alignas(16) uint8_t seed[64]; uint64_t s = 0xABCDEF ^ (i * 0x100000001B3ull) ^ t.seed;
			for (int k = 0; k < 8; ++k) { uint64_t v = splitmix(s); memcpy(seed + 8 * k, &v, 8); }
			alignas(64) static uint8_t buf[ProgramBytes];
			fillAes4Rx4<true>(seed, ProgramBytes, buf);
			memcpy(c.prog, buf, ProgramBytes);
			c.spad = (int)(i & 1); c.rmode = (int)((i >> 1) & 3);
		}
		// the part of the 384-word buffer a v1 program must ignore is not left as no-ops: it mirrors the program's own first words (a translator that
		// looks past the end of the program must not get away with it; in a real hash that part holds generator output)
		if (!c.v2 && !cs.sampling) for (unsigned s = RANDOMX_PROGRAM_SIZE_V1; s < RANDOMX_PROGRAM_MAX_SIZE; ++s) c.setWord(s, c.word(s - RANDOMX_PROGRAM_SIZE_V1));
		return cs;
	}
};

// ================================================================================================ replay json
static vf::Json caseJson(const Case& c) {
	vf::Json j = vf::Json::obj();
	j.set("kind", "program").set("profile", RANDOMX_PROGRAM_ITERATIONS == 16 ? "iter" : (RANDOMX_PROGRAM_ITERATIONS == 2048 ? "full" : "other"))
		.set("iterations", (int)RANDOMX_PROGRAM_ITERATIONS).set("version", c.v2 ? 2 : 1).set("mode", c.light ? "light" : "full")
		.set("program", vf::hex(c.prog, ProgramBytes)).set("scratchpad_image", c.spad).set("dataset_image", 1).set("cache_key", c.cacheKey).set("entry_rounding_mode", c.rmode);
	return j;
}
static Case caseFromJson(const vf::Json& j) {
	Case c; c.v2 = j.at("version").num() == 2; c.light = j.at("mode").str() == "light"; c.spad = (int)j.at("scratchpad_image").num(); c.rmode = (int)j.at("entry_rounding_mode").num();
	if (j.has("cache_key")) c.cacheKey = j.at("cache_key").str();
	auto b = vf::unhex(j.at("program").str()); if (b.size() != ProgramBytes) { fprintf(stderr, "c20: replay program has %zu bytes, expected %zu\n", b.size(), ProgramBytes); exit(2); }
	memcpy(c.prog, b.data(), ProgramBytes); return c;
}

// ================================================================================================ analysis of a disagreement
struct WordClass { int type; bool srcEqDst; uint32_t imm; bool operator<(const WordClass& o) const { return std::tie(type, srcEqDst, imm) < std::tie(o.type, o.srcEqDst, o.imm); } };
static WordClass classOf(uint64_t w) { return WordClass{ typeOfOpcode[w & 255], ((w >> 8) & 7) == ((w >> 16) & 7), (uint32_t)(w >> 32) }; }

struct Analyzer {
	Engine& E; vf::Result& R;
	std::map<WordClass, std::string> known;   // classes already reduced to a single word in this shard -> key
	std::set<std::string> reportedKeys;
	uint64_t extraRuns = 0;
	Analyzer(Engine& e, vf::Result& r) : E(e), R(r) {}

	std::string emittedHex(const Case& c, unsigned slot) {
		// bytes the JIT emitted for instruction `slot` of the program generated last
		auto* j = E.lastJit; int32_t a = j->state.instructionOffsets[slot];
		int32_t b = slot + 1 < c.size() ? j->state.instructionOffsets[slot + 1] : a + 64;
		if (slot + 1 >= c.size()) b = a + 24;   // last slot: the end of its code is not recorded; show the first bytes
		if (b < a || b - a > 64) b = a + 64;
		return "code+" + std::to_string(a) + ": " + vf::hex(j->state.code + a, (size_t)(b - a));
	}
	void handle(const CaseSpec& cs, const Outcome& first) {
		R.n["disagreements_found"]++;
		Case c = cs.c;
		// 1. attribute to an already-reduced word class if neutralising its words makes the case agree
		if (!known.empty()) {
			Case d = c; bool any = false;
			for (unsigned s = 0; s < d.size(); ++s) if (known.count(classOf(d.word(s)))) { d.setWord(s, NoOp()); any = true; }
			if (any) { ++extraRuns; if (E.run(d).agree) { R.n["disagreements_attributed_to_reduced_class"]++; return; } c = d; /* something else is wrong too: reduce what is left */ }
		}
		// 2. greedy reduction: drop every word whose removal keeps the case disagreeing (any kind of disagreement)
		std::vector<unsigned> live; for (unsigned s = 0; s < c.size(); ++s) if (c.word(s) != NoOp()) live.push_back(s);
		// halving first, then single words
		for (size_t chunk = live.size() / 2; chunk >= 1 && live.size() > 1; chunk /= 2) {
			for (size_t at = 0; at < live.size();) {
				Case d = c; size_t n = std::min(chunk, live.size() - at);
				if (n == live.size()) { at += n; continue; }
				for (size_t k = 0; k < n; ++k) d.setWord(live[at + k], NoOp());
				++extraRuns;
				if (!E.run(d).agree) { c = d; live.erase(live.begin() + (long)at, live.begin() + (long)(at + n)); }
				else at += n;
			}
			if (chunk == 1) break;
		}
		Outcome fin = E.run(c); ++extraRuns;
		if (fin.agree) { fin = first; c = cs.c; live.clear(); for (unsigned s = 0; s < c.size(); ++s) if (c.word(s) != NoOp()) live.push_back(s); }
		std::string key, what;
		if (live.size() == 1) {
			uint64_t w = c.word(live[0]); WordClass wc = classOf(w);
			// does the same word disagree with other immediates too? (keeps a defect tied to one imm32 value apart from a broken instruction)
			int alsoBad = 0;
			for (uint32_t probe : { 0x12345678u, 0x00000001u, 0xFFFFF800u }) { Case d = c; d.setWord(live[0], (w & 0xFFFFFFFFull) | ((uint64_t)probe << 32)); ++extraRuns; if (probe != wc.imm && !E.run(d).agree) ++alsoBad; }
			char ib[24]; snprintf(ib, sizeof ib, ":imm=%08x", wc.imm);
			key = std::string("rv64:") + (fin.fault ? "fault:" : "mismatch:") + TypeName[wc.type] + (wc.srcEqDst ? ":src=dst" : "") + (alsoBad >= 2 ? ":imm=any" : ib);
			known[wc] = key;
			E.run(c); ++extraRuns;   // regenerate the code of the reduced case for the report below
			what = "RV64 JIT != interpreter for the single instruction " + wordText(w) + " at slot " + std::to_string(live[0]) + " (all other slots no-ops), v" + (c.v2 ? "2" : "1") + (c.light ? " light" : " full") +
				", entry rounding " + std::to_string(c.rmode) + ": " + fin.kind + ": " + fin.detail + "; emitted " + emittedHex(c, live[0]);
		}
		else {
			std::set<std::string> types; for (unsigned s : live) types.insert(TypeName[typeOfOpcode[c.word(s) & 255]]);
			std::string tl; int n = 0; for (auto& t : types) { if (n++ < 4) tl += (tl.empty() ? "" : "+") + t; }
			key = std::string("rv64:") + (fin.fault ? "fault:" : "mismatch:") + "multi:" + tl;
			what = "RV64 JIT != interpreter for a program reduced to " + std::to_string(live.size()) + " instructions (family " + cs.family + " #" + std::to_string(cs.index) + "): " + fin.kind + ": " + fin.detail;
			if (!live.empty() && live.size() <= 4) for (unsigned s : live) what += "; slot " + std::to_string(s) + " " + wordText(c.word(s));
		}
		if (reportedKeys.insert(key).second) { vf::Violation v; v.key = key; v.what = what; v.replay = caseJson(c); R.viol.push_back(v); }
	}
};

// ================================================================================================ dataset items (family e)
struct DsCase { std::string key; uint32_t start, count; };
static std::vector<DsCase> datasetCases(bool thorough) {
	std::vector<DsCase> v;
	const uint32_t items = (uint32_t)(randomx::DatasetSize / 64), cacheItems = randomx::CacheSize / 64;
	std::vector<std::string> keys = { "test key 000", "test key 001", std::string("\0", 1), "C20 dataset-init key with a longer text 0123456789" };
	if (thorough) { keys.push_back("test key 002"); keys.push_back("x"); }
	for (auto& k : keys) {
		for (uint32_t n = 1; n <= 5; ++n) { v.push_back({ k, 0, n }); v.push_back({ k, items - n, n }); }
		for (uint32_t s : { 1u, 63u, 64u, 4095u, cacheItems - 1, cacheItems, cacheItems + 1, 2 * cacheItems - 2, (1u << 24) + 12345u, (1u << 25) - 1, 33554431u, 33554432u, items / 2, items - 77 }) v.push_back({ k, s, 1 + s % 3 });
		if (thorough) for (uint32_t q = 0; q < 200; ++q) v.push_back({ k, (uint32_t)((q * 2654435761ull) % (items - 4)), 1 + q % 4 });
	}
	return v;
}

// ================================================================================================ modes
static int modeEmitVectors(const std::string& bin, const std::string& txt) {
	int f = rv64emu::selftest(true, bin.c_str(), txt.c_str());
	if (f) return 2;
	// append the emitter's templates (built by the back-end's own rvi()/rvc() helpers inside the JIT translation unit)
	FILE* fb = fopen(bin.c_str(), "ab"); FILE* ft = fopen(txt.c_str(), "a");
	if (!fb || !ft) return 2;
	long pos = ftell(fb); fseek(fb, 0, SEEK_END); pos = ftell(fb);
	for (auto& t : rv64glue::templates()) {
		std::string s = t.llvm; size_t at = s.find('@');
		if (at != std::string::npos) { long long off = atoll(s.c_str() + at + 1); char b[40]; snprintf(b, sizeof b, "0x%llx", (unsigned long long)(pos + off)); s = s.substr(0, at) + b; }
		fwrite(&t.enc, 1, (size_t)t.len, fb); pos += t.len;
		fprintf(ft, "%s\n", s.c_str());
		printf("template rv64::%-10s %-70s -> %0*x  must print: %s\n", t.constant, t.comment, t.len * 2, t.enc, t.llvm);
	}
	fclose(fb); fclose(ft);
	return 0;
}

// Runs a sample of programs (family b alphabet singles, saturated, branch, rcp, random; all modes; dataset init)
// with the execution map on, and writes every DISTINCT executed encoding with the emulator's mnemonic.
static int modeDumpExec(Env& env, const Tier& tier, const std::string& bin, const std::string& txt, const std::string& codeDump) {
	Engine E; std::string err; if (!E.init(&env, err)) { fprintf(stderr, "c20: %s\n", err.c_str()); return 2; }
	E.traceExec = true;
	std::map<uint32_t, int> seen;   // encoding -> form
	uint64_t progs = 0, faults = 0;
	auto harvest = [&](randomx::JitCompilerRV64* j) {
		for (size_t p = 0; p < E.execMap.size(); ++p) if (E.execMap[p]) {
			uint16_t lo; memcpy(&lo, j->state.code + 2 * p, 2); uint32_t enc = lo;
			if ((lo & 3) == 3) { uint16_t hi; memcpy(&hi, j->state.code + 2 * p + 2, 2); enc |= (uint32_t)hi << 16; }
			seen[enc] = E.execMap[p] - 1; E.execMap[p] = 0;
		}
	};
	Families F(tier);
	uint64_t base = 0;
	for (auto& f : F.fams) {
		uint64_t step = f.name[0] == 'a' ? std::max<uint64_t>(1, f.count / 400) : (f.name[0] == 'b' ? std::max<uint64_t>(1, f.count / 3000) : 1);
		for (uint64_t i = 0; i < f.count; i += step) { CaseSpec cs = F.make(base + i); Outcome o = E.run(cs.c); ++progs; if (o.fault) ++faults; harvest(E.lastJit); }
		base += f.count;
	}
	{
		Case c; uint64_t e[16]; makeEntropy(0, e); Families::fill(c, e); c.v2 = true; c.light = true; E.run(c);
		if (!codeDump.empty()) { FILE* f = fopen(codeDump.c_str(), "wb"); if (f) { fwrite(E.lastJit->state.code, 1, E.lay.codeSize, f); fclose(f); } }
	}
	for (auto& d : datasetCases(false)) { E.runDatasetInit(d.key, d.start, d.count); harvest(E.lastJit); if (d.key != "test key 000" && d.start > 100) break; }
	FILE* fb = fopen(bin.c_str(), "wb"); FILE* ft = fopen(txt.c_str(), "w"); if (!fb || !ft) return 2;
	for (auto& kv : seen) { fwrite(&kv.first, 1, (kv.first & 3) == 3 ? 4 : 2, fb); fprintf(ft, "%s\n", rv64emu::formName[kv.second]); }
	fclose(fb); fclose(ft);
	printf("dump-exec: %llu sample programs, %zu distinct executed encodings, %llu emulator stops\n", (unsigned long long)progs, seen.size(), (unsigned long long)faults);
	return 0;
}

static int modeReplay(const vf::Args& a) {
	vf::Json j = vf::Json::load(a.replay);
	const vf::Json* rp = j.get("replay") ? j.get("replay") : &j;
	std::string kind = rp->has("kind") ? rp->at("kind").str() : "program";
	Env env; Engine E; std::string err;
	if (kind == "dataset") {
		if (!env.init(false, false) || !E.init(&env, err)) { fprintf(stderr, "c20: setup failed\n"); return 2; }
		auto kb = vf::unhex(rp->at("cache_key_hex").str());
		Outcome o = E.runDatasetInit(std::string(kb.begin(), kb.end()), (uint32_t)rp->at("start").num(), (uint32_t)rp->at("count").num());
		printf("replay dataset items: %s %s\n", o.agree ? "AGREE" : "DISAGREE", o.detail.c_str());
		return o.agree ? 0 : 1;
	}
	Case c = caseFromJson(*rp);
	if ((int)rp->at("iterations").num() != RANDOMX_PROGRAM_ITERATIONS) { fprintf(stderr, "c20: replay was recorded with %d iterations, this executable has %d\n", (int)rp->at("iterations").num(), RANDOMX_PROGRAM_ITERATIONS); return 2; }
	if (!env.init(!c.light || rp->has("history"), false) || !E.init(&env, err)) { fprintf(stderr, "c20: setup failed %s %s\n", env.error.c_str(), err.c_str()); return 2; }
	E.m.traceCsr = a.opt.count("trace-csr") != 0;
	if (rp->has("history")) { for (auto& hj : rp->at("history").a) { Case h = caseFromJson(hj); if (h.light != c.light) { Env* ev = &env; (void)ev; } E.run(h); } printf("replay: %zu earlier programs translated by the same compiler objects first\n", rp->at("history").a.size()); }
	Outcome o = E.run(c);
	printf("replay: v%d %s, scratchpad image %d, entry rounding %d: %s%s%s\n", c.v2 ? 2 : 1, c.light ? "light" : "full", c.spad, c.rmode, o.agree ? "AGREE" : "DISAGREE ", o.kind.c_str(), o.agree ? "" : (": " + o.detail).c_str());
	for (unsigned s = 0; s < c.size(); ++s) if (c.word(s) != NoOp()) { static int shown = 0; if (shown++ < 8) printf("  slot %u: %s\n", s, wordText(c.word(s)).c_str()); }
	std::string dump = a.get("dump-code");
	if (!dump.empty()) { FILE* f = fopen(dump.c_str(), "wb"); if (f) { fwrite(E.lastJit->state.code, 1, E.lay.codeSize, f); fclose(f); printf("  code buffer written to %s (program code at offset %u..%d)\n", dump.c_str(), E.lay.randomXCodePos, E.lastCodeEnd); } }
	return o.agree ? 0 : 1;
}

// ================================================================================================ main
int main(int argc, char** argv) {
	vf::Args a = vf::parse_args(argc, argv, "C20");
	initTables();
	if (a.opt.count("selftest")) { int f = rv64emu::selftest(true); printf("rv64emu selftest: %s\n", f ? "FAILED" : "passed"); return f ? 2 : 0; }
	if (a.opt.count("emit-vectors")) return modeEmitVectors(a.get("emit-vectors"), a.get("vectors-txt"));
	if (!a.replay.empty()) return modeReplay(a);

	Tier tier; tier.thorough = a.thorough(); tier.seed = a.seed;
	tier.scale = RANDOMX_PROGRAM_ITERATIONS > 64 ? 64 : 1;
	if (a.opt.count("scale")) tier.scale = (unsigned)atoi(a.get("scale").c_str());
	tier.immQ = immSet(false); tier.immT = immSet(true); tier.modQ = modSet(false); tier.modA = modSet(true); tier.alpha = alphabet();
	tier.immS = { 0, 1, 0x7FF, 0x800, 0x1FFF, 0x2000, 0x1FFFF, 0x20000, 0x3FFF8, 0x1FFFF8, 0x7FFFF800, 0x80000000u, 0xFFFFF800u, 0xFFFFFFFFu, 0x12345678, 0xDEADBEEFu };
	for (int ty : { T_IADD_RS, T_IADD_M, T_ISUB_M, T_IMUL_M, T_IMULH_M, T_ISMULH_M, T_IXOR_M, T_FADD_M, T_FSUB_M, T_FDIV_M, T_CBRANCH, T_ISTORE }) tier.modOps.push_back((unsigned)firstOpcode[ty]);

	Env env;
	if (!env.init(true, true)) { fprintf(stderr, "c20: environment setup failed: %s\n", env.error.c_str()); return 2; }
	if (a.opt.count("dump-exec")) return modeDumpExec(env, tier, a.get("dump-exec"), a.get("exec-txt"), a.get("dump-code"));

	if (rv64emu::selftest(false) != 0) { fprintf(stderr, "c20: emulator self-test failed; framework error\n"); return 2; }
	Families F(tier);
	const uint64_t total = F.total();
	auto dsCases = datasetCases(tier.thorough);
	for (auto& d : dsCases) env.cache(d.key);   // initialise every cache once, before forking
	const int NS = 16;
	if (a.opt.count("list")) { for (auto& f : F.fams) printf("family %-9s %llu programs\n", f.name.c_str(), (unsigned long long)f.count); printf("dataset-init cases %zu\n", dsCases.size()); return 0; }

	vf::Result R = vf::run_shards(a, NS, [&](int shard) {
		vf::Result r; Engine E; std::string err; std::deque<Case> hist; std::deque<std::string> histjs; std::string curjs;   // hist: the last programs translated by E's compiler objects, oldest first (histjs: the same as replay JSON)
		if (!E.init(&env, err)) { fprintf(stderr, "c20: %s\n", err.c_str()); _exit(2); }
		Analyzer An(E, r);
		uint64_t done = 0;
		for (uint64_t gi = (uint64_t)shard; gi < total; gi += NS) {
			if ((done & 63) == 0 && a.expired()) { r.incomplete = true; break; }
			CaseSpec cs = F.make(gi);
			// what the parent reports if this process dies inside the library's compiler or the emitted code (a crash of the translator is a verdict): the case and the
			// programs its compiler objects translated before it
			{ std::string js = caseJson(cs.c).dump(); std::string cur = js.substr(0, js.size() - 1) + ",\"finding_key\":\"rv64:crash\",\"history\":["; bool f1 = true; for (auto& h : histjs) { if (!f1) cur += ","; cur += h; f1 = false; } cur += "]}"; vf::set_current(cur); curjs.swap(js); }
			Outcome o = E.run(cs.c);
			++done;
			r.n["programs"]++; r.n["programs_" + cs.family]++;
			r.n[cs.c.v2 ? "programs_v2" : "programs_v1"]++; r.n[cs.c.light ? "programs_light" : "programs_full"]++;
			if (cs.sampling) r.n["programs_sampled_random"]++;
			r.n["guest_instructions"] += o.guestInsns;
			r.mx["guest_instructions_per_program"] = std::max<uint64_t>(r.mx["guest_instructions_per_program"], o.guestInsns);
			if (!o.agree) {
				// does the disagreement need what EARLIER programs left in the compiler object? A fresh compiler decides; if it agrees, the case is reported with the
				// programs that preceded it on this compiler and the replay runs them in order (DESIGN.md 8.13)
				std::unique_ptr<Engine> E2(new Engine); std::string e2; bool hd = false;   // on the heap: an Engine holds the emulator's machine state
				if (E2->init(&env, e2)) { Outcome of = E2->run(cs.c); hd = of.agree; }
				E2.reset();
				if (hd) {
					if (An.reportedKeys.insert("rv64:history").second) { vf::Violation v; v.key = "rv64:history"; v.what = "RV64 JIT != interpreter ONLY after the programs compiled before on the same compiler object (a fresh compiler agrees), family " + cs.family + " #" + std::to_string(cs.index) + ": " + o.kind + ": " + o.detail;
						v.replay = caseJson(cs.c); vf::Json h = vf::Json::arr(); for (auto& q : hist) h.push(caseJson(q)); v.replay.set("history", h); r.viol.push_back(v); }
				}
				else An.handle(cs, o);
				E.resetJit(); hist.clear(); histjs.clear();   // the analysis ran other programs on this compiler: continue with a new one so that `hist` stays its complete history
			}
			else { hist.push_back(cs.c); histjs.push_back(curjs); if (hist.size() > 8) { hist.pop_front(); histjs.pop_front(); } }
			if (o.agree && gi % 50021 == 0) { vf::Json s = vf::Json::obj(); s.set("family", cs.family).set("index", (unsigned long long)cs.index).set("version", cs.c.v2 ? 2 : 1).set("mode", cs.c.light ? "light" : "full").set("guest_instructions", (unsigned long long)o.guestInsns).set("first_word", wordText(cs.c.word(0))).set("result", "agree"); r.sample(s, 2); }
		}
		// dataset items
		for (size_t k = (size_t)shard; k < dsCases.size(); k += NS) {
			if (a.expired()) { r.incomplete = true; break; }
			auto& d = dsCases[k];
			Outcome o = E.runDatasetInit(d.key, d.start, d.count);
			r.n["dataset_init_calls"]++; r.n["dataset_items"] += d.count; r.n["guest_instructions"] += o.guestInsns;
			if (!o.agree) {
				r.n["disagreements_found"]++;
				vf::Violation v; v.key = "rv64:dataset:" + o.kind; v.what = "emitted dataset-init/SuperscalarHash code != initDatasetItem for key hex " + vf::hex(d.key.data(), d.key.size()) + " items [" + std::to_string(d.start) + ", +" + std::to_string(d.count) + "): " + o.detail;
				v.replay = vf::Json::obj(); v.replay.set("kind", "dataset").set("cache_key_hex", vf::hex(d.key.data(), d.key.size())).set("start", d.start).set("count", d.count);
				if (An.reportedKeys.insert(v.key).second) r.viol.push_back(v);
			}
		}
		r.n["analysis_extra_runs"] += An.extraRuns;
		r.n["ms_interpreter"] += (uint64_t)(E.tInterp * 1e3); r.n["ms_jit_codegen"] += (uint64_t)(E.tGen * 1e3); r.n["ms_emulation"] += (uint64_t)(E.tEmu * 1e3); r.n["ms_scratchpad_copy_compare"] += (uint64_t)(E.tMem * 1e3);
		r.n["fp_results_canonicalised_nan"] += E.m.nanResults;
		r.n["misaligned_guest_accesses"] += E.m.misaligned;
		for (int f = 0; f < rv64emu::F_COUNT; ++f) if (E.m.formCount[f]) r.tags.insert(std::string("executed:") + rv64emu::formName[f]);
		return r;
	}, true, 7200);

	// one violation per key
	{ std::set<std::string> seen; std::vector<vf::Violation> u; for (auto& v : R.viol) if (seen.insert(v.key).second) u.push_back(v); R.viol = u; }
	vf::Evidence ev; ev.level = "translation_validation";
	uint64_t progs = R.n["programs"], sampled = R.n["programs_sampled_random"];
	ev.coverage.set("programs", (unsigned long long)progs)
		.set("disagreements_checked", (unsigned long long)(progs + R.n["dataset_init_calls"]))
		.set("exhaustive", !R.incomplete)
		.set("rule", std::string("every program buffer of families a (all 256 opcodes x 65 register pairs x mod set x imm32 boundary set, two packings), b (all sequences over the ") + std::to_string(tier.alpha.size()) +
			"-word alphabet), c (saturated, branch-distance, IMUL_RCP-count) x v1/v2 x full/light is run through the repository's interpreter and through the emitted RV64GC code under the subset emulator; register file (256 bytes), whole scratchpad, final rounding mode and callee-saved registers must be identical; emitted dataset-init code vs initDatasetItem; family d is random sampling and not part of the exhaustive claim")
		.set("enumerated_programs", (unsigned long long)(progs - sampled)).set("sampled_programs", (unsigned long long)sampled)
		.set("alphabet_words", (unsigned long long)tier.alpha.size()).set("imm32_values_quick", (unsigned long long)tier.immQ.size()).set("imm32_values_thorough", (unsigned long long)tier.immT.size())
		.set("iterations_per_program", (int)RANDOMX_PROGRAM_ITERATIONS).set("scale", (int)tier.scale).set("emulator_forms", (int)rv64emu::F_COUNT);
	ev.assumptions = {
		"the CompiledVm::run/execute glue for __riscv (memcpy of eMask into reg.f, mem.memory = dataset + datasetOffset, a0..a3 argument order) is replicated in the harness, not executed",
		"floating point of the guest is host SSE2 binary64 arithmetic under the MXCSR rounding control mapped from frm, FTZ/DAZ off, canonical NaN on NaN results",
		"the emulator implements only the instruction forms the emitters and the static runtime can produce; its decoder is bound to the ISA by the self-test and the llvm-objdump cross-checks run by build.sh",
		"final mem.ma/mx are not compared: the compiled VM never stores them back (they are re-initialised per program)",
		"imm32 and machine-state values come from boundary sets, not from the full 2^32 domain" };
	int rc = vf::finish(a, R, ev);
	printf("C20 %s: %llu programs (%llu enumerated, %llu sampled), %llu dataset-init calls, %llu disagreements, %llu guest instructions, %.1f s%s\n", a.tier.c_str(), (unsigned long long)progs, (unsigned long long)(progs - sampled),
		(unsigned long long)sampled, (unsigned long long)R.n["dataset_init_calls"], (unsigned long long)R.n["disagreements_found"], (unsigned long long)R.n["guest_instructions"], vf::now() - a.t0, R.incomplete ? " INCOMPLETE (deadline)" : "");
	return rc;
}
