// C17 - the portable (non-SIMD) code path computes the same function.
// This harness is compiled twice from the same source: against the default build and against the portable build
// (generic rx_vec_* structs, fenv rounding, 32x32 mulh/smulh, shift rotates).  Each executable runs the SAME
// enumerations on the interpreter and writes a result stream (one line per record); the driver compares the two
// streams line by line.  Records: (1) mulh / smulh / rotr / rotl on all pairs of a boundary set and the complete
// {0,1,2^31,2^32-1}^4 limb lattice; (2) program families (reduced W1, Sigma^2, saturated, branch, count) through a real
// InterpretedVm: register file, scratchpad and rounding mode; (3) hashes and dataset items for the (key,input,version)
// alphabet through the public API; (4) rounding mode / FP environment preservation for the four entry modes.
#include "common/progs.hpp"
#include "common/alph.hpp"
#include <cfenv>

using namespace rxh;
#ifndef RX_PROFILE
#define RX_PROFILE "mini"
#endif

static FILE* g_out;
static void rec(const char* kind, uint64_t id, uint64_t v) { fprintf(g_out, "%s %llu %016llx\n", kind, (unsigned long long)id, (unsigned long long)v); }

static void set_round(unsigned m) { static const int fe[4] = { FE_TONEAREST, FE_DOWNWARD, FE_UPWARD, FE_TOWARDZERO }; fesetround(fe[m & 3]); }
static unsigned get_round() { return get_fprc(); }   // MXCSR rounding field: the default build changes MXCSR only, fesetround (portable build) changes MXCSR and x87 together

int main(int argc, char** argv) {
	vf::Args args = vf::parse_args(argc, argv, "C17");
	const bool th = args.thorough();
	std::string stream = args.get("stream"); if (stream.empty()) { fprintf(stderr, "c17: --stream <file> required\n"); return 2; }
	long only = atol(args.get("only", "-1").c_str());
	vf::Result R;
	// every shard writes its own file; the parent concatenates in shard order (deterministic)
	const int nsh = 32;
	std::vector<uint64_t> bs = { 0, 1, 2, 3, 0x7FFFFFFFull, 0x80000000ull, 0xFFFFFFFFull, 0x100000000ull, 0x100000001ull, 0x7FFFFFFFFFFFFFFFull, 0x8000000000000000ull, 0x8000000000000001ull, ~0ull, ~1ull, 0xFFFFFFFF00000000ull, 0x00000000FFFFFFFEull, 0x5555555555555555ull, 0xAAAAAAAAAAAAAAAAull, 0x0123456789ABCDEFull, 0xFEDCBA9876543210ull };
	for (int k = 1; k < 64; ++k) { bs.push_back(1ull << k); bs.push_back((1ull << k) - 1); bs.push_back(~(1ull << k)); }
	std::sort(bs.begin(), bs.end()); bs.erase(std::unique(bs.begin(), bs.end()), bs.end());
	std::vector<Family> fam = families(th, args.seed, 2, 1, th ? 400 : 100);
	std::vector<std::string> keys = alph::key_shapes(false); if (!th) keys.resize(6);
	std::vector<size_t> lens = th ? alph::input_lengths(false, false) : std::vector<size_t>{ 0, 1, 64, 76, 129 };

	vf::Result total = vf::run_shards(args, nsh, [&](int shard) {
		vf::Result R; std::string path = stream + "." + std::to_string(shard); g_out = fopen(path.c_str(), "w"); if (!g_out) { perror("stream"); _exit(2); }
		// (1) integer helpers
		if (shard == 0) {
			uint64_t id = 0;
			for (uint64_t a : bs) for (uint64_t b : bs) { uint64_t h = mulh(a, b) * 0x9E3779B97F4A7C15ull ^ (uint64_t)smulh((int64_t)a, (int64_t)b); h = h * 31 + rotr(a, (unsigned)(b & 63)); h = h * 31 + rotl(a, (unsigned)(b & 63)); rec("arith", id++, h); R.n["arith_pairs"]++; }
			// all operand pairs built from 32-bit limbs of a boundary set: every carry pattern of a 32x32 -> 128 decomposition occurs
			static const uint64_t limb[9] = { 0, 1, 2, 0x55555555ull, 0x7FFFFFFFull, 0x80000000ull, 0x80000001ull, 0xFFFFFFFEull, 0xFFFFFFFFull };
			for (int i = 0; i < 6561; ++i) { uint64_t a = (limb[i % 9] << 32) | limb[(i / 9) % 9], b = (limb[(i / 81) % 9] << 32) | limb[(i / 729) % 9]; rec("limbs", (uint64_t)i, mulh(a, b) ^ (uint64_t)smulh((int64_t)a, (int64_t)b) * 3); R.n["arith_pairs"]++; }
		}
		// (2) programs on the interpreter
		{
			static randomx_dataset ds; ds.memory = map_bytes(randomx::DatasetSize); ds.dealloc = nullptr; fill_dataset_image(ds.memory, randomx::DatasetSize, 0xC17);
			auto E = make_engine(RANDOMX_FLAG_FULL_MEM, nullptr, &ds); ProgBuf p; uint64_t gid = 0;
			for (size_t f = 0; f < fam.size(); ++f) for (int v2 = 0; v2 < 2; ++v2) {
				uint64_t cnt = fam[f].count; if (fam[f].name == "w1a" || fam[f].name == "w1b") cnt = std::min<uint64_t>(cnt, th ? 60000 : 12000);
				for (uint64_t idx = 0; idx < cnt; ++idx, ++gid) {
					if ((int)(gid % nsh) != shard) continue; if (only >= 0 && (long)gid != only) continue;
					fam[f].make(idx, v2, p); E->set_v2(v2); fill_scratchpad(E->scratchpad(), (int)(idx % 3));
					unsigned m = (unsigned)(idx % 4); set_round(m); E->run(p.b); unsigned after = get_round(); set_round(0);
					rec("prog", gid, vf::fnv(&E->reg(), 256) ^ (vf::fnv(E->scratchpad(), SpSize) * 7) ^ after); R.n["programs"]++;
				}
			}
		}
		// (3) hashes and dataset items, (4) FP environment preservation
		for (size_t k = 0; k < keys.size(); ++k) {
			if ((int)(k % nsh) != shard) continue;
			randomx_cache* c = randomx_alloc_cache(RANDOMX_FLAG_DEFAULT); randomx_init_cache(c, keys[k].data(), keys[k].size());
			rec("cache", k, vf::fnv(c->memory, randomx::CacheSize));
			for (uint64_t it : { (uint64_t)0, (uint64_t)1, (uint64_t)(randomx::DatasetSize / 64 - 1), (uint64_t)12345 % (randomx::DatasetSize / 64) }) { uint8_t o[64]; randomx::initDatasetItem(c, o, it); rec("item", k * 1000003 + it, vf::fnv(o, 64)); R.n["items"]++; }
			randomx_vm* vm = randomx_create_vm(RANDOMX_FLAG_DEFAULT, c, nullptr);
			for (size_t li = 0; li < lens.size(); ++li) for (int v2 = 0; v2 < 2; ++v2) {
				if (v2) vm->setFlagV2(); else vm->clearFlagV2(); std::string in = alph::input(lens[li], (int)((li + k) % 3)); uint8_t o[32];
				unsigned m = (unsigned)((li + v2) % 4); fenv_t before, after; set_round(m); fegetenv(&before);
				randomx_calculate_hash(vm, in.data(), in.size(), o);
				fegetenv(&after); set_round(0);
				rec("hash", (k * 100 + li) * 2 + v2, vf::fnv(o, 32)); bool changed = memcmp(&before, &after, sizeof before) != 0; rec("fenv", (k * 100 + li) * 2 + v2, changed ? 1 : 0); R.n["hashes"]++;
				if (changed && R.viol.size() < 2) { vf::Violation v; v.key = "c17:fenv"; v.what = "the FP environment of the caller (entry rounding mode " + std::to_string(m) + ") is not preserved by randomx_calculate_hash in this build"; v.replay = vf::Json::obj().set("kind", "fenv"); R.viol.push_back(v); }
			}
			randomx_destroy_vm(vm); randomx_release_cache(c);
		}
		if (shard == 0) { R.sample(vf::Json::obj().set("record", "arith <pair index> <digest of mulh,smulh,rotr,rotl>").set("example_pair", "a=0x8000000000000000 b=0xffffffffffffffff")); R.sample(vf::Json::obj().set("record", "prog <global index> <digest of register file, scratchpad, rounding mode>").set("family", fam[0].name)); R.sample(vf::Json::obj().set("record", "hash <key,input,version> <digest>; fenv <same id> <0 = preserved>")); }
		fclose(g_out);
		return R;
	});
	// concatenate shard files
	{ FILE* o = fopen(stream.c_str(), "w"); for (int s = 0; s < nsh; ++s) { std::string p = stream + "." + std::to_string(s); FILE* i = fopen(p.c_str(), "r"); if (!i) continue; char buf[65536]; size_t n; while ((n = fread(buf, 1, sizeof buf, i)) > 0) fwrite(buf, 1, n, o); fclose(i); unlink(p.c_str()); } fclose(o); }
	vf::Evidence ev; ev.level = "exploration";
	uint64_t n = total.n["arith_pairs"] + total.n["programs"] + total.n["hashes"] + total.n["items"];
	ev.coverage.set("evaluations", (unsigned long long)n).set("distinct_nontrivial", (unsigned long long)n).set("exhaustive", !total.incomplete)
		.set("rule", std::string("profile ") + RX_PROFILE + ": result stream of this build: mulh/smulh/rotr/rotl on all pairs of a ~210-value boundary set and the {0,1,2^31,2^32-1}^4 limb lattice; interpreter runs of the program families (reduced W1, Sigma^2, saturated, branch-distance, counter) x v1/v2 x entry rounding mode = index mod 4; cache digest, dataset items and public-API hashes for the key/input alphabet x v1/v2 with the FP environment compared before/after under the four entry rounding modes. The deciding step is the driver's line-by-line comparison of the default build's and the portable build's streams");
	ev.assumptions = { "the portable path is exercised as compiled by this host's g++ for x86-64; a miscompilation specific to another architecture's compiler is out of reach" };
	return vf::finish(args, total, ev);
}
