// C09 - SuperscalarHash programs are well-formed and spec-conformant for every key of the key set;
// interpreting a program == running the x86 code generated for it, on a register-vector alphabet.
#include "specmodel/specmodel.hpp"
#include "common/rxh.hpp"
#include "common/alph.hpp"
#include "superscalar.hpp"
#include "blake2_generator.hpp"
#include "reciprocal.h"
#include "jit_compiler_x86.hpp"
#include "jit_compiler_x86_static.hpp"

using namespace rxh;
using randomx::SuperscalarInstructionType;

static std::string key_of(uint64_t id, const std::vector<std::string>& shapes) {
	if (id < shapes.size()) return shapes[id]; id -= shapes.size();
	if (id == 0) return ""; id -= 1;
	if (id < 256) return std::string(1, (char)id); id -= 256;
	if (id < 65536) { std::string s(2, '\0'); s[0] = (char)(id >> 8); s[1] = (char)(id & 255); return s; } id -= 65536;
	static const unsigned char third[4] = { 0x00, 0x55, 0xAA, 0xFF };
	std::string s(3, '\0'); s[0] = (char)(id >> 10); s[1] = (char)((id >> 2) & 255); s[2] = (char)third[id & 3]; return s;   // three-byte keys, third byte from a 4-value set
}

// Table 6.1.1 rules, checked directly on the repository's program object
static std::string wellformed(randomx::SuperscalarProgram& p) {
	uint32_t n = p.getSize();
	if (n < 1 || n > 3 * 170 + 2) return "program size " + std::to_string(n) + " outside 1.." + std::to_string(3 * 170 + 2);
	for (uint32_t j = 0; j < n; ++j) {
		auto& i = p(j); std::string at = "instruction " + std::to_string(j) + ": ";
		if (i.opcode > 13) return at + "opcode " + std::to_string(i.opcode) + " is not one of the ten kinds";
		if (i.dst > 7 || i.src > 7) return at + "register outside r0-r7";
		switch ((SuperscalarInstructionType)i.opcode) {
		case SuperscalarInstructionType::ISUB_R: case SuperscalarInstructionType::IXOR_R: case SuperscalarInstructionType::IMUL_R:
			if (i.dst == i.src) return at + "source and destination are the same register"; break;
		case SuperscalarInstructionType::IADD_RS:
			if (i.dst == i.src) return at + "IADD_RS source and destination are the same register";
			if (i.dst == 5) return at + "IADD_RS with destination r5"; break;
		case SuperscalarInstructionType::IROR_C:
			if ((i.getImm32() & 63) == 0) return at + "IROR_C with rotation count 0"; break;
		case SuperscalarInstructionType::IMUL_RCP:
			if (randomx::isZeroOrPowerOf2(i.getImm32())) return at + "IMUL_RCP divisor is zero or a power of two"; break;
		default: break;
		}
	}
	int a = p.getAddressRegister(); if (a < 0 || a > 7) return "address register out of range";
	return "";
}

// ---- native execution of one generated program -------------------------------------------------------
struct Native {
	randomx::JitCompilerX86 jit; uint8_t* zero; uint8_t* entry = nullptr; randomx::SuperscalarProgramList* list;
	Native() {
		zero = map_bytes(randomx::CacheSize);   // all-zero cache image: the interleaved cache XORs are identities
		list = new randomx::SuperscalarProgramList();
		for (auto& q : *list) { q.setSize(0); q.setAddressRegister(0); }
	}
	// program under test first, the other seven empty
	void load(randomx::SuperscalarProgram& p, std::vector<uint64_t>& rcp) {
		(*list)[0] = p;
		jit.enableWriting(); jit.generateSuperscalarHash(*list, rcp); jit.enableExecution();
		if (!entry) {   // locate the generated code: it follows the copy of randomx_sshash_init .. randomx_program_end
			size_t initSize = (const uint8_t*)&randomx_program_end - (const uint8_t*)&randomx_sshash_init;
			uint8_t* c = jit.getCode(); size_t sz = jit.getCodeSize();
			for (size_t off = 0; off + initSize < sz; off += 64) if (!memcmp(c + off, (const void*)&randomx_sshash_init, 32)) { entry = c + off + initSize; break; }
			if (!entry) { fprintf(stderr, "c09: cannot locate the SuperscalarHash code in the JIT buffer\n"); exit(2); }
		}
	}
	void run(uint64_t r[8]) {
		register uint64_t* regs asm("rax") = r; register void* z asm("rdi") = zero; register void* e asm("rcx") = entry;
		asm volatile(
			"push %%rbx\n push %%rbp\n push %%r12\n push %%r13\n push %%r14\n push %%r15\n push %%rax\n"
			"mov %%rdi, %%rbx\n"
			"mov 0(%%rax), %%r8\n mov 8(%%rax), %%r9\n mov 16(%%rax), %%r10\n mov 24(%%rax), %%r11\n"
			"mov 32(%%rax), %%r12\n mov 40(%%rax), %%r13\n mov 48(%%rax), %%r14\n mov 56(%%rax), %%r15\n"
			"sub $8, %%rsp\n call *%%rcx\n add $8, %%rsp\n"
			"pop %%rax\n"
			"mov %%r8, 0(%%rax)\n mov %%r9, 8(%%rax)\n mov %%r10, 16(%%rax)\n mov %%r11, 24(%%rax)\n"
			"mov %%r12, 32(%%rax)\n mov %%r13, 40(%%rax)\n mov %%r14, 48(%%rax)\n mov %%r15, 56(%%rax)\n"
			"pop %%r15\n pop %%r14\n pop %%r13\n pop %%r12\n pop %%rbp\n pop %%rbx\n"
			: "+r"(regs), "+r"(z), "+r"(e) : : "rdx", "rsi", "r8", "r9", "r10", "r11", "memory", "cc");
	}
};

static std::vector<std::array<uint64_t, 8>> reg_vectors(bool th) {
	static const uint64_t bv[] = { 0, 1, 2, ~0ull, 1ull << 63, (1ull << 63) - 1, 0xFFFFFFFFull, 0x100000000ull, 0x80000000ull, 0x7FFFFFFFull, 0x5555555555555555ull, 0xAAAAAAAAAAAAAAAAull, 0x0123456789ABCDEFull };
	std::vector<std::array<uint64_t, 8>> v;
	for (uint64_t b : bv) { std::array<uint64_t, 8> a; a.fill(b); v.push_back(a); }
	std::array<uint64_t, 8> g; for (int i = 0; i < 8; ++i) g[i] = 0x9E3779B97F4A7C15ull * (i + 1) ^ 0xD1B54A32D192ED03ull;
	v.push_back(g);
	for (int i = 0; i < 8; ++i) for (uint64_t b : bv) { if (!th && (b != 0 && b != ~0ull && b != (1ull << 63) && b != 0xFFFFFFFFull)) continue; auto a = g; a[i] = b; v.push_back(a); }
	for (int k = 0; k < (th ? 24 : 6); ++k) { std::array<uint64_t, 8> a; for (int i = 0; i < 8; ++i) a[i] = (6364136223846793005ull * (k + 1) + 1442695040888963407ull) * (i * 2 + 1) ^ (uint64_t)k << (i * 7); v.push_back(a); }   // item-number-like
	return v;
}

static std::string check_key(const std::string& key, Native& nat, const std::vector<std::array<uint64_t, 8>>& rv, vf::Result& R, spec::GenStats& gs, bool native) {
	randomx::Blake2Generator gen(key.data(), key.size()); spec::BlakeGenerator mg(key.data(), key.size()); spec::Params P = spec::Params::production();
	std::vector<uint64_t> rcp;   // as in initCache: ONE reciprocal table for the 8 programs of a key, so the indices of the later programs exceed 255 for some keys
	for (int i = 0; i < RANDOMX_CACHE_ACCESSES; ++i) {
		randomx::SuperscalarProgram prog; prog.setSize(0);
		randomx::generateSuperscalar(prog, gen);
		std::string pi = "program " + std::to_string(i) + ": ";
		std::string d = wellformed(prog); if (!d.empty()) return pi + d;
		spec::SsProgram sp = spec::generate_superscalar(mg, P, &gs);
		if (sp.ins.size() != prog.getSize()) return pi + "size " + std::to_string(prog.getSize()) + " != specification generator " + std::to_string(sp.ins.size());
		for (uint32_t j = 0; j < prog.getSize(); ++j) { auto& a = prog(j); auto& b = sp.ins[j]; if (a.opcode != b.opcode || a.dst != b.dst || a.src != b.src || a.mod != b.mod || a.getImm32() != b.imm32) return pi + "instruction " + std::to_string(j) + " differs from the specification generator"; }
		if (prog.getAddressRegister() != sp.addr_reg) return pi + "address register r" + std::to_string(prog.getAddressRegister()) + " is not the register with the longest dependency chain (r" + std::to_string(sp.addr_reg) + ")";
		R.n["programs"]++; R.n["instructions"] += prog.getSize(); R.mx["program_size"] = std::max<uint64_t>(R.mx["program_size"], prog.getSize());
		if (!native) continue;
		// as initCache does: replace IMUL_RCP immediates by indices into the reciprocal cache
		randomx::SuperscalarProgram cp = prog;
		for (uint32_t j = 0; j < cp.getSize(); ++j) if ((SuperscalarInstructionType)cp(j).opcode == SuperscalarInstructionType::IMUL_RCP) { rcp.push_back(randomx_reciprocal(cp(j).getImm32())); cp(j).setImm32((uint32_t)rcp.size() - 1); }
		R.mx["reciprocal_table_size"] = std::max<uint64_t>(R.mx["reciprocal_table_size"], rcp.size());
		nat.load(cp, rcp);
		for (auto& v : rv) {
			uint64_t a[8], b[8], c[8]; memcpy(a, v.data(), 64); memcpy(b, v.data(), 64); memcpy(c, v.data(), 64);
			randomx::executeSuperscalar(a, cp, &rcp); nat.run(b); spec::execute_superscalar(c, sp);
			R.n["executions"]++;
			if (memcmp(a, c, 64)) return pi + "interpreted execution differs from the specification";
			if (memcmp(a, b, 64)) { int k = 0; while (a[k] == b[k]) ++k; return pi + "native code differs from the interpreter in r" + std::to_string(k) + " (interp " + vf::hex64(a[k]) + ", native " + vf::hex64(b[k]) + ")"; }
		}
	}
	return "";
}

// ---- instruction forms --------------------------------------------------------------------------------
// The generator draws 32-bit immediates, shifts, rotation counts and register pairs from the key; a slip of the native emitter for one
// immediate class (say a sign-extended 8-bit form for 128..255) shows in one key out of tens of thousands (seeded change agent6_C08).
// So the emitter and the two executors are also compared on every instruction FORM: type x dst x src x shift x imm32 boundary set,
// in synthetic programs (well-formedness is irrelevant to an emitter), with reciprocal indices below and above 255.
static std::string check_forms(int type, Native& nat, const std::vector<std::array<uint64_t, 8>>& rv, vf::Result& R, bool th) {
	static const uint32_t IM[] = { 0, 1, 2, 3, 7, 8, 13, 31, 32, 33, 63, 64, 0x7F, 0x80, 0x81, 0xC4, 0xDC, 0xFF, 0x100, 0x7FF, 0x800, 0x7FFF, 0x8000, 0xFFFF, 0x10000, 0x7FFFFF, 0x800000, 0x7FFFFFFF, 0x80000000u, 0x80000001u,
		0xFFFFFF00u, 0xFFFFFF7Fu, 0xFFFFFF80u, 0xFFFFFF81u, 0xFFFF7FFFu, 0xFFFF8000u, 0xFFFFFFFEu, 0xFFFFFFFFu, 0x12345678u, 0xEDCBA987u };
	auto T = (SuperscalarInstructionType)type;
	const bool has_imm = T == SuperscalarInstructionType::IROR_C || (type >= (int)SuperscalarInstructionType::IADD_C7 && type <= (int)SuperscalarInstructionType::IXOR_C9) || T == SuperscalarInstructionType::IMUL_RCP;
	const bool has_src = !has_imm;
	std::vector<uint32_t> imms; if (has_imm) imms.assign(IM, IM + sizeof IM / sizeof IM[0]); else imms = { 0 };
	for (uint32_t imm : imms) for (int shift = 0; shift < (T == SuperscalarInstructionType::IADD_RS ? 4 : 1); ++shift) for (int rbase : { 0, 250 }) {
		if (T == SuperscalarInstructionType::IMUL_RCP && (imm == 0 || (imm & (imm - 1)) == 0)) continue;   // the generator never emits these divisors
		if (T != SuperscalarInstructionType::IMUL_RCP && rbase) continue;
		if (T == SuperscalarInstructionType::IROR_C && imm > 63 && !th) continue;
		randomx::SuperscalarProgram cp; cp.setSize(0); cp.setAddressRegister(0); spec::SsProgram sp; std::vector<uint64_t> rcp((size_t)rbase, 0x9E3779B97F4A7C15ull);
		unsigned n = 0;
		for (int d = 0; d < 8; ++d) for (int sr = 0; sr < (has_src ? 8 : 1); ++sr) {
			if (T == SuperscalarInstructionType::IADD_RS && d == 5) continue;   // never generated: r5 as IADD_RS destination needs a displacement on x86 (RegisterNeedsDisplacement; Table 6.1.1 check above enforces it on generated programs)
			randomx::Instruction& in = cp(n); in.opcode = (uint8_t)type; in.dst = (uint8_t)d; in.src = (uint8_t)(has_src ? sr : d); in.mod = (uint8_t)(shift << 2); in.setImm32(imm);
			spec::SsInstr mi{ (uint8_t)type, (uint8_t)d, (uint8_t)(has_src ? sr : d), (uint8_t)(shift << 2), imm }; sp.ins.push_back(mi);
			if (T == SuperscalarInstructionType::IMUL_RCP) { uint32_t dv = imm + (uint32_t)d * 2; while (dv == 0 || (dv & (dv - 1)) == 0) dv += 3; sp.ins.back().imm32 = dv; rcp.push_back(randomx_reciprocal(dv)); in.setImm32((uint32_t)rcp.size() - 1); }
			++n;
		}
		cp.setSize(n);
		nat.load(cp, rcp);
		for (auto& v : rv) {
			uint64_t a[8], b[8], c[8]; memcpy(a, v.data(), 64); memcpy(b, v.data(), 64); memcpy(c, v.data(), 64);
			randomx::executeSuperscalar(a, cp, &rcp); nat.run(b); spec::execute_superscalar(c, sp);
			R.n["form_executions"]++;
			char t[120]; snprintf(t, sizeof t, "instruction type %d, imm32 0x%08x, shift %d, reciprocal table offset %d: ", type, imm, shift, rbase);
			if (memcmp(a, c, 64)) return std::string(t) + "interpreted execution differs from the specification";
			if (memcmp(a, b, 64)) { int k = 0; while (a[k] == b[k]) ++k; return std::string(t) + "native code differs from the interpreter in r" + std::to_string(k) + " (interp " + vf::hex64(a[k]) + ", native " + vf::hex64(b[k]) + ")"; }
		}
		R.n["form_programs"]++;
	}
	return "";
}

// ---- injected generator states ---------------------------------------------------------------------------
// A program starts wherever the previous one left the Blake2Generator stream, so "for every key" contains "from every generator state
// (64 buffered bytes, read position)". Rare DRAWS - a 32-bit draw that is zero, a power of two, all ones; byte draws at their extremes -
// cannot be reached through keys (seeded change agent7_C09: powers of two accepted as IMUL_RCP divisors, 1.6e-6 per key), but they can be
// placed in the buffered bytes: the repository's generator and the model's start from the SAME injected state and must produce the same
// well-formed program. Families: every 4-byte window a power of two / zero / all ones / a boundary word, mixed with pseudo-random bytes.
static void make_state(uint64_t id, uint8_t d[64]) {
	uint64_t z = id * 0x9E3779B97F4A7C15ull + 0x1234567; auto nx = [&]() { z ^= z >> 12; z ^= z << 25; z ^= z >> 27; return z * 0x2545F4914F6CDD1Dull; };
	static const uint32_t BW[] = { 0, 1, 2, 3, 4, 0x80000000u, 0xFFFFFFFFu, 0x7FFFFFFFu, 0x00010000u, 63, 64, 255, 256 };
	int fam = (int)(id % 5); unsigned phase = (unsigned)((id / 5) % 4);
	for (int i = 0; i < 64; ++i) d[i] = (uint8_t)(nx() >> 56);
	switch (fam) {
	case 0: for (int i = 0; i < 64; ++i) d[i] = ((unsigned)i % 4 == phase) ? (uint8_t)(1u << (nx() >> 61)) : 0; break;                                  // every window of 4 bytes is a power of two
	case 1: for (int i = 0; i < 64; ++i) if ((nx() >> 60) != 0) d[i] = 0; break;                                                                          // mostly zero
	case 2: for (int i = 0; i < 64; ++i) if ((nx() >> 60) != 0) d[i] = 0xFF; break;                                                                       // mostly ones
	case 3: for (int w = 0; w * 4 + (int)phase + 4 <= 64; ++w) if (nx() >> 63) { uint32_t v = BW[(nx() >> 32) % (sizeof BW / sizeof BW[0])]; memcpy(d + w * 4 + phase, &v, 4); } break;   // boundary words at one alignment among random bytes
	default: { int from = (int)((nx() >> 58) & 63); for (int i = from; i < 64; ++i) d[i] = ((unsigned)i % 4 == phase) ? (uint8_t)(1u << (nx() >> 61)) : 0; } break;   // random prefix, then power-of-two windows
	}
}
static std::string check_state(uint64_t id, vf::Result& R, spec::GenStats& gs) {
	uint8_t d[64]; make_state(id, d); size_t pos = (size_t)((id / 20) % 3 == 0 ? (id / 60) % 64 : 0);
	randomx::Blake2Generator gen("", 0); memcpy(gen.data, d, 64); gen.dataIndex = pos;
	spec::BlakeGenerator mg("", 0); memcpy(mg.s_, d, 64); mg.pos_ = pos;
	spec::Params P = spec::Params::production();
	randomx::SuperscalarProgram prog; prog.setSize(0); randomx::generateSuperscalar(prog, gen);
	R.n["injected_states"]++;
	std::string w = wellformed(prog); if (!w.empty()) return w;
	spec::SsProgram sp = spec::generate_superscalar(mg, P, &gs);
	if (sp.ins.size() != prog.getSize()) return "size " + std::to_string(prog.getSize()) + " != specification generator " + std::to_string(sp.ins.size());
	for (uint32_t j = 0; j < prog.getSize(); ++j) { auto& a = prog(j); auto& b = sp.ins[j]; if (a.opcode != b.opcode || a.dst != b.dst || a.src != b.src || a.mod != b.mod || a.getImm32() != b.imm32) return "instruction " + std::to_string(j) + " differs from the specification generator"; }
	if (prog.getAddressRegister() != sp.addr_reg) return "address register differs from the specification generator";
	if (memcmp(gen.data, mg.s_, 64) || gen.dataIndex != mg.pos_) return "generator state after the program differs from the specification generator (different number of draws)";
	return "";
}

int main(int argc, char** argv) {
	vf::Args args = vf::parse_args(argc, argv, "C09");
	const bool th = args.thorough();
	std::vector<std::string> shapes = alph::key_shapes(true);
	auto rv = reg_vectors(th);
	if (!args.replay.empty()) {
		vf::Json r = vf::Json::load(args.replay);
		if (r.has("state_id")) { vf::Result R; spec::GenStats gs; std::string d = check_state((uint64_t)r.at("state_id").num(), R, gs); printf("replay: %s\n", d.empty() ? "conformant" : d.c_str()); return d.empty() ? 0 : 1; }
		if (r.has("form_type")) { vf::Result R; Native nat; std::string d = check_forms((int)r.at("form_type").num(), nat, rv, R, th); printf("replay: %s\n", d.empty() ? "conformant" : d.c_str()); return d.empty() ? 0 : 1; }
		auto k = vf::unhex(r.at("rxkey").s); vf::Result R; spec::GenStats gs; Native nat;
		std::string d = check_key(std::string((const char*)k.data(), k.size()), nat, rv, R, gs, true);
		printf("replay: %s\n", d.empty() ? "conformant" : d.c_str()); return d.empty() ? 0 : 1;
	}
	// every tier generates and compares the programs of ALL 65536 two-byte keys (a generator slip that needs a rare coincidence shows in
	// about 1 key out of several thousand, seeded change agent5_C09); native execution runs on a subset; thorough adds 262144 three-byte keys
	uint64_t nkeys = shapes.size() + 1 + 256 + 65536 + (th ? 262144 : 0);
	std::vector<uint64_t> ids; for (uint64_t i = 0; i < nkeys; ++i) ids.push_back(i);
	const int nsh = 64;
	vf::Result total = vf::run_shards(args, nsh, [&](int shard) {
		vf::Result R; spec::GenStats gs; Native nat;
		if (shard < (int)SuperscalarInstructionType::COUNT) {
			vf::set_current(vf::Json::obj().set("form_type", shard).dump());
			std::string d = check_forms(shard, nat, rv, R, th);
			if (!d.empty()) { vf::Violation v; v.key = "c09:form"; v.what = d; v.replay = vf::Json::obj().set("form_type", shard); R.viol.push_back(v); }
		}
		{ const uint64_t NS = th ? 2000000 : 200000;
		  for (uint64_t id = (uint64_t)shard; id < NS && R.viol.size() < 3; id += nsh) {
			std::string d = check_state(id, R, gs);
			if (!d.empty()) { vf::Violation v; v.key = "c09:state"; v.what = "generator state #" + std::to_string(id) + " (buffered bytes with rare draws): " + d; v.replay = vf::Json::obj().set("state_id", (unsigned long long)id); R.viol.push_back(v); }
		  } }
		for (size_t i = shard; i < ids.size(); i += nsh) {
			if (args.expired()) { R.incomplete = true; break; }
			std::string key = key_of(ids[i], shapes);
			vf::set_current(vf::Json::obj().set("rxkey", vf::hex(key.data(), key.size())).dump());
			bool native = ids[i] < shapes.size() + 257 || (th ? (ids[i] < shapes.size() + 257 + 65536 && i % 8 == (size_t)shard % 8) : ((ids[i] - shapes.size() - 257) % 17 == 0 && ids[i] < shapes.size() + 257 + 65536));   // native execution: shapes, one-byte keys, every 17th (quick) / 8th (thorough) two-byte key
			std::string d = check_key(key, nat, rv, R, gs, native);
			R.n["keys"]++;
			if (i < 3) R.sample(vf::Json::obj().set("rxkey", vf::hex(key.data(), key.size())).set("programs", 8), 2);
			if (!d.empty()) { vf::Violation v; v.key = "c09:" + d.substr(0, d.find(':')); v.what = "key " + vf::hex(key.data(), std::min<size_t>(key.size(), 16)) + " (len " + std::to_string(key.size()) + "): " + d; v.replay = vf::Json::obj().set("rxkey", vf::hex(key.data(), key.size())); R.viol.push_back(v); if (R.viol.size() >= 3) break; }
		}
		// rare generator paths reached (from the model, which equals the repository's generator on every compared program)
		R.n["path_thrown_away"] = gs.thrown_away; R.n["path_stall_cycles"] = gs.stall_cycles; R.n["path_r5_source_rule"] = gs.r5_source_rule;
		R.n["path_mul_port_saturation"] = gs.mul_port_saturation; R.n["path_size_cap"] = gs.size_cap_reached; R.n["path_chained_mul"] = gs.chained_mul_allowed; R.n["path_group_aborted"] = gs.group_aborted; R.n["path_port_map_exhausted"] = gs.port_map_exhausted;
		return R;
	}, true, 3600);
	vf::Evidence ev; ev.level = "exploration";
	vf::Json never = vf::Json::arr();
	for (const char* p : { "path_thrown_away", "path_stall_cycles", "path_r5_source_rule", "path_mul_port_saturation", "path_size_cap", "path_chained_mul", "path_group_aborted", "path_port_map_exhausted" }) if (total.n[p] == 0) never.push(p);
	ev.coverage.set("evaluations", (unsigned long long)(total.n["programs"] + total.n["executions"] + total.n["form_executions"])).set("distinct_nontrivial", (unsigned long long)total.n["programs"])
		.set("exhaustive", !total.incomplete).set("generator_paths_never_reached", never)
		.set("rule", "keys: the key-shape alphabet, the empty key, all 256 one-byte keys, all 65536 two-byte keys and (thorough) 262144 three-byte keys; for each of the 8 programs of a key: generation terminates, Table 6.1.1 well-formedness checked on the repository's program object, every field and the address register equal the specification generator; executeSuperscalar == x86 code generated by generateSuperscalarHash (program under test first, seven empty programs, all-zero cache image so the interleaved XORs are identities, one reciprocal table per key filled across its 8 programs as initCache does, entered through a trampoline that loads r8-r15) == model executor on the register-vector alphabet (native execution for the shapes, the one-byte keys and every 17th / 8th two-byte key). injected generator states: 200000 (thorough 2000000) states (64 buffered bytes + read position) in which 32-bit draws are zero / powers of two / all ones / boundary words and byte draws are extreme: program from the repository's generator == program from the model generator from the same state, well-formed, same number of draws; instruction forms: every type x dst x src x shift x a 40-value imm32 boundary set (8-/16-/32-bit edges), reciprocal indices below and above 255, in synthetic programs: interpreter == native == model. distinct = programs");
	ev.assumptions = { "chapter 6 under-specifies the order of random-number consumption; the model generator is a second implementation frozen in /verif (it detects changes, it cannot certify the generator against prose)", "keys reach the generator only through Blake2b, so the key set is a large deterministic population, not a partition proof" };
	return vf::finish(args, total, ev, true, true);
}
