// C06 - execution and code generation stay inside their buffers for every program.
// Environment in which ANY out-of-bounds access faults: the harness allocator runs in electric-fence mode, so the
// scratchpad, the dataset, the cache and the VM objects are allocated by the library itself with exactly the sizes
// it asks for and end at a PROT_NONE page (start preceded by one); JIT code buffers are page mappings bracketed by
// PROT_NONE pages.  The adversarial program alphabet (saturated programs of every encoding, all address registers,
// extreme immediates, forced register values, maximal dataset offset with ma = mx = 0xFFFFFFFF) is run on the x86
// JIT and on the interpreter; after every code generation the code position and the integrity of everything
// emitted earlier (SuperscalarHash routine, epilogue) are checked; the exact worst-case code size per instruction
// word is obtained by enumeration.  API clause: inputs of every length ending / beginning at a guard page.
#include "common/progs.hpp"
#include "common/envalloc.hpp"
#include "jit_compiler_x86.hpp"
#include "jit_compiler_x86_static.hpp"

using namespace rxh;
#ifndef RX_PROFILE
#define RX_PROFILE "full"
#endif
static const bool heavy = RANDOMX_PROGRAM_ITERATIONS > 64;
#ifdef RX_LARGEPAGES
static const int LP = RANDOMX_FLAG_LARGE_PAGES;   // large-page allocator variants: the harness answers MAP_HUGETLB requests (page mappings bracketed by PROT_NONE)
#else
static const int LP = 0;
#endif

struct Env {
	randomx_cache* cache = nullptr; randomx_dataset* ds = nullptr;
	void build() { env::Track t; env::S().efence = true; env::S().hugepages = LP != 0; cache = randomx_alloc_cache((randomx_flags)(RANDOMX_FLAG_JIT | LP)); randomx_init_cache(cache, "test key 000", 12); ds = randomx_alloc_dataset((randomx_flags)LP); if (!cache || !ds) { fprintf(stderr, "c06: allocation failed\n"); exit(2); } }
};
static Env g_env;

struct Cfg { bool jit, full, hard, v2; std::string name() const { return std::string(jit ? "jit" : "int") + (hard ? "-hard" : "-soft") + (full ? "-fast" : "-light") + (v2 ? "-v2" : "-v1"); } int flags() const { return (jit ? RANDOMX_FLAG_JIT : 0) | (full ? RANDOMX_FLAG_FULL_MEM : 0) | (hard ? RANDOMX_FLAG_HARD_AES : 0); } };

struct Runner {
	Cfg c; std::unique_ptr<Engine> E; randomx::JitCompilerX86* jc = nullptr; std::vector<uint8_t> snap; int32_t prev_end = 0; size_t ssh_off = 0, code_size = 0; size_t epi_off = 0;
	explicit Runner(const Cfg& cfg) : c(cfg) {
		{ env::Track t; E = make_engine(c.flags() | LP, g_env.cache, g_env.ds); }
		if (!E) { fprintf(stderr, "c06: engine %s\n", c.name().c_str()); exit(2); }
		E->set_v2(c.v2);
		if (c.jit) {
			jc = jit_of(*E); code_size = jc->getCodeSize(); uint8_t* code = jc->getCode();
			size_t initSize = (const uint8_t*)&randomx_program_end - (const uint8_t*)&randomx_sshash_init;
			if (!c.full) { for (size_t off = 0; off + initSize < code_size; off += 64) if (!memcmp(code + off, (const void*)&randomx_sshash_init, 32)) { ssh_off = off; break; } if (!ssh_off) { fprintf(stderr, "c06: SuperscalarHash area not found\n"); exit(2); } }
			size_t epiSize = (const uint8_t*)&randomx_sshash_load - (const uint8_t*)&randomx_program_epilogue;
			if (epiSize < code_size && !memcmp(code + code_size - epiSize, (const void*)&randomx_program_epilogue, std::min<size_t>(epiSize, 32))) epi_off = code_size - epiSize;
			if (!epi_off) { fprintf(stderr, "c06: epilogue not found in the code buffer\n"); exit(2); }
		}
	}
	// returns "" or a description of a bounds problem
	std::string run(const ProgBuf& p, unsigned fprc, vf::Result& R) {
		if (jc && snap.empty()) { snap.assign(jc->getCode(), jc->getCode() + code_size); prev_end = 0; }
		set_fprc(fprc); { env::Track t; E->run(p.b); } set_fprc(0);
		R.n["programs"]++;
		if (!jc) return "";
		int32_t end = jc->codePos; R.mx["code_end"] = std::max<uint64_t>(R.mx["code_end"], (uint64_t)end);
		size_t limit = c.full ? epi_off : ssh_off;
		if (end < 0 || (size_t)end > limit) return "generated program code ends at offset " + std::to_string(end) + ", beyond the program area (limit " + std::to_string(limit) + ")";
		// everything above max(previous end, this end) must be untouched: SuperscalarHash routine, epilogue, unused tail
		size_t from = (size_t)std::max(end, prev_end); const uint8_t* code = jc->getCode();
		if (memcmp(code + from, snap.data() + from, code_size - from)) { size_t k = from; while (code[k] == snap[k]) ++k; return "code generation modified byte " + std::to_string(k) + " of the code buffer, outside the program being emitted (" + (ssh_off && k >= ssh_off ? "SuperscalarHash / epilogue area" : "unused tail") + ")"; }
		memcpy(snap.data(), code, (size_t)std::max(end, prev_end)); prev_end = end;
		return "";
	}
};

static vf::Json case_json(const Cfg& c, const char* fam, uint64_t idx, int image, unsigned fprc, const ProgBuf& p, uint64_t unit_begin = ~0ull) {
	return vf::Json::obj().set("unit_begin", (unsigned long long)(unit_begin == ~0ull ? idx : unit_begin)).set("kind", "program").set("profile", RX_PROFILE).set("cfg", c.name()).set("jit", c.jit).set("full", c.full).set("hard", c.hard).set("v2", c.v2).set("family", fam).set("index", (unsigned long long)idx).set("sp_image", image).set("fprc", (int)fprc).set("program", vf::hex(p.b, ProgBytes)).set("finding_key", std::string("c06:crash:") + c.name());
}

// API clause: input ends / begins at a guard page, 32-byte output ends at a guard page
// [guard][4096 usable][guard]: a buffer of n bytes that either starts right after a guard page or ends right before one
struct GuardBuf {
	uint8_t* page = nullptr;
	uint8_t* at(size_t len, bool at_end) {
		if (!page) { env::Untrack u; page = (uint8_t*)env::sys_mmap(nullptr, 3 * 4096, PROT_READ | PROT_WRITE, MAP_PRIVATE | MAP_ANONYMOUS); syscall(SYS_mprotect, page, 4096, PROT_NONE); syscall(SYS_mprotect, page + 8192, 4096, PROT_NONE); }
		return at_end ? page + 8192 - len : page + 4096;
	}
};
// [4096 usable][guard]: n output bytes ending at the guard page, the rest of the page is a canary
struct OutBuf {
	uint8_t* base = nullptr;
	uint8_t* prepare(size_t n) {
		if (!base) { env::Untrack u; base = (uint8_t*)env::sys_mmap(nullptr, 2 * 4096, PROT_READ | PROT_WRITE, MAP_PRIVATE | MAP_ANONYMOUS); syscall(SYS_mprotect, base + 4096, 4096, PROT_NONE); }
		memset(base, 0xAB, 4096); return base + 4096 - n;
	}
	bool clean(size_t n) const { for (size_t i = 0; i < 4096 - n; ++i) if (base[i] != 0xAB) return false; return true; }
};

// randomx_init_cache reads exactly key[0..n): the key is placed against a guard page on either side; the cache built from it
// must equal the cache built from an ordinary copy (memory and SuperscalarHash programs, observed through a light hash)
static std::string key_case(int cflags, size_t len, bool at_end) {
	static GuardBuf kb; uint8_t* key = kb.at(len, at_end); for (size_t i = 0; i < len; ++i) key[i] = (uint8_t)(i * 13 + len + 1);
	std::vector<uint8_t> copy(key, key + len); if (copy.empty()) copy.push_back(0);
	env::Track t;
	randomx_cache* a = randomx_alloc_cache((randomx_flags)(cflags | LP)); randomx_cache* b = randomx_alloc_cache((randomx_flags)(cflags | LP));
	if (!a || !b) return "randomx_alloc_cache failed";
	randomx_init_cache(a, key, len); randomx_init_cache(b, copy.data(), len);
	std::string d;
	if (memcmp(a->memory, b->memory, randomx::CacheSize)) d = "cache content depends on the placement of the key buffer";
	if (d.empty()) { uint8_t ha[32], hb[32]; randomx_vm* va = randomx_create_vm((randomx_flags)((cflags & RANDOMX_FLAG_JIT) | LP), a, nullptr); randomx_vm* vb = randomx_create_vm((randomx_flags)((cflags & RANDOMX_FLAG_JIT) | LP), b, nullptr);
		if (!va || !vb) d = "randomx_create_vm failed"; else { randomx_calculate_hash(va, "k", 1, ha); randomx_calculate_hash(vb, "k", 1, hb); if (memcmp(ha, hb, 32)) d = "hash depends on the placement of the key buffer"; }
		if (va) randomx_destroy_vm(va); if (vb) randomx_destroy_vm(vb); }
	randomx_release_cache(a); randomx_release_cache(b);
	return d;
}

// pipelined interface: first(in0) next(in1) last - both inputs against guard pages, both outputs end at a guard page
static std::string pipe_case(randomx_vm* vm, size_t len0, size_t len1, bool at_end) {
	static GuardBuf b0, b1; static OutBuf o0, o1;
	uint8_t* i0 = b0.at(len0, at_end); uint8_t* i1 = b1.at(len1, at_end);
	for (size_t i = 0; i < len0; ++i) i0[i] = (uint8_t)(i * 7 + len0); for (size_t i = 0; i < len1; ++i) i1[i] = (uint8_t)(i * 11 + len1 + 3);
	std::vector<uint8_t> c0(i0, i0 + len0), c1(i1, i1 + len1); uint8_t r0[32], r1[32];
	uint8_t* out0 = o0.prepare(32); uint8_t* out1 = o1.prepare(32);
	{ env::Track t; randomx_calculate_hash_first(vm, i0, len0); randomx_calculate_hash_next(vm, i1, len1, out0); randomx_calculate_hash_last(vm, out1);
	  randomx_calculate_hash(vm, c0.data(), len0, r0); randomx_calculate_hash(vm, c1.data(), len1, r1); }
	if (memcmp(out0, r0, 32) || memcmp(out1, r1, 32)) return "pipelined digest differs from the single-call digest";
	if (!o0.clean(32) || !o1.clean(32)) return "pipelined hash wrote outside the 32 output bytes";
	return "";
}

// randomx_calculate_commitment(input, n, hash_in[32], com_out[32])
static std::string commit_case(size_t len, bool at_end) {
	static GuardBuf ib, hb; static OutBuf ob;
	uint8_t* in = ib.at(len, at_end); for (size_t i = 0; i < len; ++i) in[i] = (uint8_t)(i * 5 + len);
	uint8_t* h = hb.at(32, at_end); for (int i = 0; i < 32; ++i) h[i] = (uint8_t)(0xC0 + i);
	uint8_t* out = ob.prepare(32); std::vector<uint8_t> ci(in, in + len); if (ci.empty()) ci.push_back(0); uint8_t ch[32]; memcpy(ch, h, 32); uint8_t ref[32];
	{ env::Track t; randomx_calculate_commitment(in, len, h, out); randomx_calculate_commitment(ci.data(), len, ch, ref); }
	if (memcmp(out, ref, 32)) return "commitment depends on the placement of its buffers";
	if (!ob.clean(32)) return "commitment wrote outside the 32 output bytes";
	return "";
}

static std::string api_case(randomx_vm* vm, size_t len, bool at_end) {
	static uint8_t* page = nullptr; static uint8_t* outp = nullptr;
	if (!page) { env::Untrack u; page = (uint8_t*)env::sys_mmap(nullptr, 3 * 4096, PROT_READ | PROT_WRITE, MAP_PRIVATE | MAP_ANONYMOUS); syscall(SYS_mprotect, page, 4096, PROT_NONE); syscall(SYS_mprotect, page + 8192, 4096, PROT_NONE);
		outp = (uint8_t*)env::sys_mmap(nullptr, 2 * 4096, PROT_READ | PROT_WRITE, MAP_PRIVATE | MAP_ANONYMOUS); syscall(SYS_mprotect, outp + 4096, 4096, PROT_NONE); }
	uint8_t* in = at_end ? page + 8192 - len : page + 4096; for (size_t i = 0; i < len; ++i) in[i] = (uint8_t)(i * 7 + len);
	uint8_t* out = outp + 4096 - 32; memset(outp, 0xAB, 4096);
	uint8_t ref[32]; std::vector<uint8_t> copy(in, in + len);
	{ env::Track t; randomx_calculate_hash(vm, in, len, out); randomx_calculate_hash(vm, copy.data(), len, ref); }
	if (memcmp(out, ref, 32)) return "digest depends on the placement of the input buffer";
	for (int i = 0; i < 4096 - 32; ++i) if (outp[i] != 0xAB) return "hash wrote outside the 32 output bytes";
	return "";
}

int main(int argc, char** argv) {
	vf::Args args = vf::parse_args(argc, argv, "C06");
	const bool th = args.thorough();
	env::init(); env::S().fill = 0xA5; g_env.build();
	std::vector<Family> fam = families(th, args.seed, heavy ? 0 : 2, heavy ? 2 : 1, heavy ? 60 : 200);
	std::vector<Cfg> cfgs;
	for (int jit = 1; jit >= 0; --jit) for (int full = 0; full < 2; ++full) for (int v2 = 0; v2 < 2; ++v2) for (int hard = 0; hard < 2; ++hard) { if (!v2 && hard && !th) continue; if (!jit && heavy && !th && (hard || !full)) continue; cfgs.push_back({ (bool)jit, (bool)full, (bool)hard, (bool)v2 }); }

	if (!args.replay.empty()) {
		vf::Json r = vf::Json::load(args.replay); vf::Result R; std::string d;
		if (r.at("kind").s == "program") {
			Cfg c{ r.at("jit").b, r.at("full").b, r.at("hard").b, r.at("v2").b }; ProgBuf p; auto b = vf::unhex(r.at("program").s); memcpy(p.b, b.data(), std::min(b.size(), ProgBytes));
			{ Runner rn(c); fill_scratchpad(rn.E->scratchpad(), (int)r.at("sp_image").num()); d = rn.run(p, (unsigned)r.at("fprc").num(), R); }
			const Family* f = nullptr; for (auto& x : fam) if (x.name == r.at("family").s) f = &x;
			if (d.empty() && f && (uint64_t)r.at("unit_begin").num() < (uint64_t)r.at("index").num()) {   // the registers (and so the addresses) depend on the scratchpad left by the unit's earlier programs: re-run them in order
				Runner rn(c); fill_scratchpad(rn.E->scratchpad(), (int)r.at("sp_image").num()); ProgBuf q;
				for (uint64_t idx = (uint64_t)r.at("unit_begin").num(); idx <= (uint64_t)r.at("index").num(); ++idx) { f->make(idx, c.v2, q); if (idx % 3 == 0) { static const int ext[4] = { 2, 7, 8, 9 }; set_config_block(q, ext[idx % 4]); } d = rn.run(q, (unsigned)(idx % 4), R); if (idx < (uint64_t)r.at("index").num()) d.clear(); }
			}
		}
		else if (r.at("kind").s == "apikey") d = key_case((int)r.at("flags").num(), (size_t)r.at("len").num(), r.at("at_end").b);
		else if (r.at("kind").s == "apicommit") d = commit_case((size_t)r.at("len").num(), r.at("at_end").b);
		else if (r.at("kind").s == "apipipe") { randomx_vm* vm; { env::Track t; vm = randomx_create_vm((randomx_flags)r.at("flags").num(), g_env.cache, nullptr); } d = pipe_case(vm, (size_t)r.at("len").num(), (size_t)r.at("len1").num(), r.at("at_end").b); }
		else if (r.at("kind").s == "api") { env::Track t; randomx_vm* vm = randomx_create_vm((randomx_flags)r.at("flags").num(), g_env.cache, nullptr); d = api_case(vm, (size_t)r.at("len").num(), r.at("at_end").b); }
		else d = "size budget: rerun the check";
		printf("replay: %s\n", d.empty() ? "inside all buffers" : d.c_str()); return d.empty() ? 0 : 1;
	}

	struct Unit { int cfg, fam; uint64_t b, e; };
	std::vector<Unit> units;
	for (size_t ci = 0; ci < cfgs.size(); ++ci) for (size_t f = 0; f < fam.size(); ++f) {
		uint64_t cnt = fam[f].count; bool slow = !cfgs[ci].jit || !cfgs[ci].full;
		if (heavy && slow) cnt = std::min<uint64_t>(cnt, fam[f].name == "sat" || fam[f].name == "brdist" || fam[f].name == "count" ? cnt : (th ? 400 : 64));
		if (!heavy && slow && (fam[f].name == "w1a" || fam[f].name == "w1b" || fam[f].name == "seq2")) cnt = std::min<uint64_t>(cnt, th ? 20000 : 3000);
		uint64_t ch = heavy ? 32 : 1024;
		for (uint64_t b = 0; b < cnt; b += ch) units.push_back({ (int)ci, (int)f, b, std::min(cnt, b + ch) });
	}
	const int nsh = args.jobs * 3;
	vf::Result total = vf::run_shards(args, nsh + 2, [&](int shard) {
		vf::Result R; ProgBuf p;
		if (shard == nsh) {   // exact worst-case code size per instruction word, by enumeration of the emitters
			Cfg c{ true, true, false, true }; Runner rn(c); auto imms = imm_set(true); int worst = 0; Word ww{}; uint64_t n = 0;
			for (int op = 0; op < 256; ++op) for (int d = 0; d < 8; ++d) for (int s = 0; s < 8; ++s) for (int mod : { 0x00, 0x01, 0x03, 0x0C, 0xD0, 0xE0, 0xF3 }) {
				ProgBuf q; q.fill_noop(); set_config_block(q, 0); int slot = 0;
				for (size_t i = 0; i < imms.size() && slot < RANDOMX_PROGRAM_MAX_SIZE; ++i) q.set_word(slot++, W(op, d, s, mod, imms[i]));
				randomx::Program prog; memcpy(&prog, q.b, ProgBytes); randomx::ProgramConfiguration pc{};
				{ env::Track t; rn.jc->generateProgram(prog, pc); }
				for (int i = 0; i + 1 < slot; ++i) { int sz = rn.jc->instructionOffsets[i + 1] - rn.jc->instructionOffsets[i]; ++n; if (sz > worst) { worst = sz; ww = q.word(i); } }
			}
			R.n["emitted_words_measured"] = n; R.mx["worst_instruction_code_size"] = (uint64_t)worst;
			R.tags.insert("worst-case x86 code size of one instruction word: " + std::to_string(worst) + " bytes (" + word_json(ww).s + ")");
			// the budget: a program of 384 copies of the worst word must fit for every configuration (checked again by the 'sat' family)
			for (auto& cc : cfgs) if (cc.jit) { Runner r2(cc); ProgBuf q; set_config_block(q, 2); for (int s = 0; s < RANDOMX_PROGRAM_MAX_SIZE; ++s) q.set_word(s, ww); fill_scratchpad(r2.E->scratchpad(), 1);
				vf::set_current(case_json(cc, "worst", 0, 1, 0, q).dump());
				std::string d = r2.run(q, 0, R); if (!d.empty()) { vf::Violation v; v.key = "c06:size-budget"; v.what = cc.name() + ": program of " + std::to_string(RANDOMX_PROGRAM_MAX_SIZE) + " x the longest encoding: " + d; v.replay = case_json(cc, "worst", 0, 1, 0, q); R.viol.push_back(v); } }
			return R;
		}
		if (shard == nsh + 1) {   // API clause
			for (int flags : { (int)RANDOMX_FLAG_DEFAULT, (int)RANDOMX_FLAG_JIT, (int)(RANDOMX_FLAG_JIT | RANDOMX_FLAG_HARD_AES) }) {
				if (heavy && flags == RANDOMX_FLAG_DEFAULT && !th) continue;
				randomx_vm* vm; { env::Track t; vm = randomx_create_vm((randomx_flags)flags, g_env.cache, nullptr); }
				for (size_t len = 0; len <= (heavy && !th ? 130u : 300u); ++len) for (int at_end = 0; at_end < 2; ++at_end) {
					vf::Json rp = vf::Json::obj().set("kind", "api").set("flags", flags).set("len", (unsigned long long)len).set("at_end", (bool)at_end).set("finding_key", "c06:api-crash");
					vf::set_current(rp.dump());
					std::string d = api_case(vm, len, at_end); R.n["api_cases"]++;
					if (!d.empty() && R.viol.size() < 3) { vf::Violation v; v.key = "c06:api"; v.what = d + " (input length " + std::to_string(len) + (at_end ? ", ending at a guard page)" : ", starting after a guard page)"); v.replay = rp; R.viol.push_back(v); }
				}
				// pipelined interface: a few length pairs around the Blake2b block size
				for (size_t l0 : { 0u, 1u, 64u, 127u, 128u, 129u }) for (size_t l1 : { 0u, 76u, 128u, 255u }) for (int at_end = 0; at_end < 2; ++at_end) {
					vf::Json rp = vf::Json::obj().set("kind", "apipipe").set("flags", flags).set("len", (unsigned long long)l0).set("len1", (unsigned long long)l1).set("at_end", (bool)at_end).set("finding_key", "c06:api-crash");
					vf::set_current(rp.dump());
					std::string d = pipe_case(vm, l0, l1, at_end); R.n["api_cases"]++;
					if (!d.empty() && R.viol.size() < 3) { vf::Violation v; v.key = "c06:api"; v.what = d + " (first/next/last, input lengths " + std::to_string(l0) + ", " + std::to_string(l1) + ")"; v.replay = rp; R.viol.push_back(v); }
				}
				{ env::Track t; randomx_destroy_vm(vm); }
			}
			// the key of randomx_init_cache is an input of the API as well: every length, both placements, every cache implementation
			{
				std::vector<size_t> klens; if (heavy) klens = th ? std::vector<size_t>{ 0, 1, 59, 60, 61, 62, 63, 64, 65, 127, 128, 129 } : std::vector<size_t>{ 61, 64 };   // the key is read by code that does not depend on the profile: the mini part covers every length
				else for (size_t l = 0; l <= (th ? 300u : 140u); ++l) klens.push_back(l);
				std::vector<int> cfl = { (int)RANDOMX_FLAG_DEFAULT, (int)RANDOMX_FLAG_JIT };
				if (!heavy) for (int j : { 0, (int)RANDOMX_FLAG_JIT }) { cfl.push_back(j | RANDOMX_FLAG_ARGON2_SSSE3); cfl.push_back(j | RANDOMX_FLAG_ARGON2_AVX2); }
				if (heavy && !th) cfl = { (int)RANDOMX_FLAG_JIT };
				for (int cf : cfl) for (size_t len : klens) for (int at_end = 0; at_end < 2; ++at_end) {
					vf::Json rp = vf::Json::obj().set("kind", "apikey").set("flags", cf).set("len", (unsigned long long)len).set("at_end", (bool)at_end).set("finding_key", "c06:api-crash");
					vf::set_current(rp.dump());
					std::string d = key_case(cf, len, at_end); R.n["api_cases"]++; R.n["api_key_cases"]++;
					if (!d.empty() && R.viol.size() < 3) { vf::Violation v; v.key = "c06:api"; v.what = d + " (key length " + std::to_string(len) + (at_end ? ", ending at a guard page)" : ", starting after a guard page)"); v.replay = rp; R.viol.push_back(v); }
				}
				for (size_t len = 0; len <= 300; ++len) for (int at_end = 0; at_end < 2; ++at_end) {
					vf::Json rp = vf::Json::obj().set("kind", "apicommit").set("len", (unsigned long long)len).set("at_end", (bool)at_end).set("finding_key", "c06:api-crash");
					vf::set_current(rp.dump());
					std::string d = commit_case(len, at_end); R.n["api_cases"]++;
					if (!d.empty() && R.viol.size() < 3) { vf::Violation v; v.key = "c06:api"; v.what = d + " (commitment, input length " + std::to_string(len) + ")"; v.replay = rp; R.viol.push_back(v); }
				}
			}
			return R;
		}
		std::map<int, std::unique_ptr<Runner>> rn;
		for (size_t u = shard; u < units.size(); u += nsh) {
			if (args.expired() || R.viol.size() >= 3) { R.incomplete = true; break; }
			const Unit& un = units[u]; const Cfg& c = cfgs[un.cfg]; const Family& f = fam[un.fam];
			if (!rn[un.cfg]) rn[un.cfg].reset(new Runner(c));
			Runner& r = *rn[un.cfg]; int image = (int)(u % 3); fill_scratchpad(r.E->scratchpad(), image);
			for (uint64_t idx = un.b; idx < un.e; ++idx) {
				f.make(idx, c.v2, p); if (idx % 3 == 0) { static const int ext[4] = { 2, 7, 8, 9 }; set_config_block(p, ext[idx % 4]); }   // extreme configuration blocks more often
				unsigned fprc = (unsigned)(idx % 4);
				vf::set_current(case_json(c, f.name.c_str(), idx, image, fprc, p, un.b).dump()); vf::watchdog(heavy ? 180 : 60);
				std::string d = r.run(p, fprc, R);
				if (idx == un.b && u < 40) R.sample(case_json(c, f.name.c_str(), idx, image, fprc, p).set("program", "..."), 2);
				if (!d.empty()) { vf::Violation v; v.key = "c06:codebuf:" + c.name(); v.what = c.name() + " family " + f.name + " #" + std::to_string(idx) + ": " + d; v.replay = case_json(c, f.name.c_str(), idx, image, fprc, p, un.b); R.viol.push_back(v); break; }
			}
			if (env::S().ef_overruns) { vf::Violation v; v.key = "c06:overrun"; v.what = "a library block was written past its end (slack canary damaged)"; v.replay = vf::Json::obj().set("kind", "overrun"); R.viol.push_back(v); }
		}
		alarm(0);
		return R;
	}, true, 3600);
	vf::Evidence ev; ev.level = "exploration";
	ev.coverage.set("evaluations", (unsigned long long)(total.n["programs"] + total.n["api_cases"] + total.n["emitted_words_measured"])).set("distinct_nontrivial", (unsigned long long)total.n["programs"])
		.set("exhaustive", !total.incomplete)
		.set("rule", std::string("profile ") + RX_PROFILE + ": adversarial program families (saturated programs of every Sigma word, branch-distance, counter-threshold, reduced W1 with extreme immediates, all address registers, sequences; extreme configuration blocks with ma = mx = 0xFFFFFFFF and maximal dataset offset; scratchpad images forcing registers to 0, -1, 2^21-8, 2^32-1) on x86 JIT and interpreter, fast and light, v1/v2, soft/hard AES, with every library buffer (scratchpad, dataset, cache, VM object) ending at a PROT_NONE page and code buffers bracketed by PROT_NONE pages: a fault is a violation; after every code generation: end of the emitted program within the program area, all previously emitted code (SuperscalarHash routine, epilogue) and the unused tail byte-identical; worst-case code size per instruction word measured over all opcodes x register pairs x mod classes x ~250 immediates and a 384-slot program of that word generated for every JIT configuration; API: every input length 0..300 ending at / starting after a guard page, 32-byte output ending at a guard page; the same for the pipelined first/next/last calls (length pairs around the Blake2b block size), for the key of randomx_init_cache (every key length of the alphabet x both placements x every cache implementation: cache content and a hash must equal those obtained from an ordinary copy of the key) and for randomx_calculate_commitment (input 0..300, hash_in against guard pages, 32-byte output)");
	ev.assumptions = { "guard pages have 4 KiB granularity on the low side of a 64-byte-aligned buffer (the high side is exact)", "reads of the wrong line inside the right buffer are C04's business" };
	return vf::finish(args, total, ev, true, true);
}
