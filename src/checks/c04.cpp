// C04 - x86-64 JIT == interpreter on every program of the enumerated families.
// Real InterpretedVm and real CompiledVm objects (created through randomx_create_vm), program buffers
// injected, both run through their own initialize() + code generation + execute().
// Oracle: bit equality of the 256-byte register file, the whole scratchpad and the rounding mode.
#include "common/progs.hpp"
#include "jit_compiler_x86.hpp"

using namespace rxh;

#ifndef RX_PROFILE
#define RX_PROFILE "full"
#endif
static const bool heavy = RANDOMX_PROGRAM_ITERATIONS > 64;   // production iteration count: smaller alphabets

struct Cfg { bool v2, hard, light; std::string name() const { return std::string(v2 ? "v2" : "v1") + (hard ? "-hard" : "-soft") + (light ? "-light" : "-fast"); } };

static randomx_cache* g_cache = nullptr;
static randomx_dataset g_ds;
static std::vector<Family> g_fam_fast, g_fam_light;

struct Pair {
	std::unique_ptr<Engine> I, J; Cfg c; uint64_t compared_branches = 0, unparsed_branches = 0;
	Pair(const Cfg& cfg) : c(cfg) {
		int base = (cfg.light ? 0 : RANDOMX_FLAG_FULL_MEM) | (cfg.hard ? RANDOMX_FLAG_HARD_AES : 0);
		I = make_engine(base, g_cache, &g_ds); J = make_engine(base | RANDOMX_FLAG_JIT, g_cache, &g_ds);
		if (!I || !J) { fprintf(stderr, "c04: cannot create engines for %s\n", cfg.name().c_str()); exit(2); }
		I->set_v2(cfg.v2); J->set_v2(cfg.v2);
	}
	void load_image(int id) { fill_scratchpad(I->scratchpad(), id); memcpy(J->scratchpad(), I->scratchpad(), SpSize); }
	// returns "" if equal, else a description
	std::string step(const ProgBuf& p, unsigned fprc) {
		set_fprc(fprc); I->run(p.b); unsigned fi = get_fprc();
		set_fprc(fprc); J->run(p.b); unsigned fj = get_fprc();
		set_fprc(0);
		std::string d;
		if (memcmp(&I->reg(), &J->reg(), sizeof(randomx::RegisterFile))) {
			const uint64_t* a = (const uint64_t*)&I->reg(); const uint64_t* b = (const uint64_t*)&J->reg();
			for (int i = 0; i < 32; ++i) if (a[i] != b[i]) { d += "regfile q" + std::to_string(i) + " interp=" + vf::hex64(a[i]) + " jit=" + vf::hex64(b[i]) + "; "; break; }
		}
		if (memcmp(I->scratchpad(), J->scratchpad(), SpSize)) {
			size_t k = 0; while (I->scratchpad()[k] == J->scratchpad()[k]) ++k;
			d += "scratchpad differs at byte " + std::to_string(k) + "; ";
		}
		if (fi != fj) d += "rounding mode interp=" + std::to_string(fi) + " jit=" + std::to_string(fj) + "; ";
		// translation state: every CBRANCH must jump to the same instruction in both engines, whether or not it was taken in this run
		{
			randomx::InstructionByteCode* bc = bytecode_of(*I); randomx::JitCompilerX86* jc = jit_of(*J); int N = prog_size(c.v2);
			for (int s = 0; s + 1 < N; ++s) if (bc[s].type == randomx::InstructionType::CBRANCH) {
				X86Branch xb; if (!decode_x86_cbranch(jc, s, jc->instructionOffsets[s + 1], xb)) { ++unparsed_branches; continue; }
				int32_t want = jc->instructionOffsets[bc[s].target + 1];
				if (xb.target_off != want) { d += "CBRANCH in slot " + std::to_string(s) + ": JIT jumps to code offset " + std::to_string(xb.target_off) + ", interpreter target is slot " + std::to_string(bc[s].target + 1) + " (offset " + std::to_string(want) + "); "; break; }
				++compared_branches;
			}
		}
		return d;
	}
};

static const std::vector<Family>& fams(const Cfg& c) { return c.light ? g_fam_light : g_fam_fast; }

static vf::Json case_json(const Cfg& c, const std::string& fam, uint64_t idx, const ProgBuf& p, int image, unsigned fprc) {
	vf::Json j = vf::Json::obj();
	j.set("profile", RX_PROFILE).set("cfg", c.name()).set("v2", c.v2).set("hard", c.hard).set("light", c.light)
		.set("family", fam).set("index", (unsigned long long)idx).set("sp_image", image).set("fprc", (int)fprc)
		.set("program", vf::hex(p.b, ProgBytes));
	return j;
}

struct Unit { int cfg; int fam; uint64_t begin, end; };

int main(int argc, char** argv) {
	vf::Args args = vf::parse_args(argc, argv, "C04");
	const bool th = args.thorough();
	// shared, read-only after this point
	g_ds.memory = map_bytes(randomx::DatasetSize); g_ds.dealloc = nullptr;
	fill_dataset_image(g_ds.memory, randomx::DatasetSize, 0xC04);
	g_cache = randomx_alloc_cache((randomx_flags)(RANDOMX_FLAG_JIT));
	if (!g_cache) { fprintf(stderr, "c04: cache allocation failed\n"); return 2; }
	randomx_init_cache(g_cache, "test key 000", 12);
	if (!heavy) { g_fam_fast = families(th, args.seed, th ? 3 : 2, 0); g_fam_light = families(th, args.seed, 2, 1); }
	else if (th) { g_fam_fast = families(th, args.seed, 2, 1); g_fam_light = families(th, args.seed, 0, 2, 200); }
	else { g_fam_fast = families(th, args.seed, 0, 2, 100); g_fam_light = families(th, args.seed, 0, 2, 40); }

	std::vector<Cfg> cfgs = { { false, false, false }, { true, false, false }, { true, true, false }, { false, false, true }, { true, true, true }, { true, false, true } };
	if (th) { cfgs.push_back({ false, true, false }); cfgs.push_back({ false, true, true }); }

	if (!args.replay.empty()) {
		vf::Json r = vf::Json::load(args.replay);
		Cfg c{ r.at("v2").b, r.at("hard").b, r.at("light").b };
		ProgBuf p; auto bytes = vf::unhex(r.at("program").s); memcpy(p.b, bytes.data(), std::min(bytes.size(), ProgBytes));
		Pair pr(c); vf::watchdog(300);
		if (r.has("prefix_begin")) {   // state-dependent: re-run the unit prefix
			const Family* f = nullptr; for (auto& x : fams(c)) if (x.name == r.at("family").s) f = &x;
			if (!f) return 2;
			pr.load_image((int)r.at("sp_image").num());
			ProgBuf q;
			for (uint64_t i = (uint64_t)r.at("prefix_begin").num(); i < (uint64_t)r.at("index").num(); ++i) { f->make(i, c.v2, q); if (!pr.step(q, (unsigned)(i % 4)).empty()) memcpy(pr.J->scratchpad(), pr.I->scratchpad(), SpSize); }
		} else pr.load_image((int)r.at("sp_image").num());
		std::string d = pr.step(p, (unsigned)r.at("fprc").num());
		printf("replay %s: %s\n", c.name().c_str(), d.empty() ? "engines agree" : d.c_str());
		return d.empty() ? 0 : 1;
	}

	// work units
	std::vector<Unit> units;
	const uint64_t CH = heavy ? 256 : 8192;
	for (size_t ci = 0; ci < cfgs.size(); ++ci) {
		auto& F = fams(cfgs[ci]);
		std::vector<size_t> order; for (size_t f = 0; f < F.size(); ++f) order.push_back(f);
		std::sort(order.begin(), order.end(), [&](size_t a, size_t b) { return F[a].count < F[b].count; });
		for (size_t fi : order) {
			uint64_t ch = cfgs[ci].light ? CH / 8 : CH;
			for (uint64_t b = 0; b < F[fi].count; b += ch) units.push_back({ (int)ci, (int)fi, b, std::min(F[fi].count, b + ch) });
		}
	}
	const int nsh = args.jobs * 4;
	vf::Result total = vf::run_shards(args, nsh, [&](int shard) {
		vf::Result R; std::map<int, std::unique_ptr<Pair>> pairs; std::set<uint64_t> digests;
		ProgBuf p;
		for (size_t u = shard; u < units.size(); u += nsh) {
			if (args.expired()) { R.incomplete = true; break; }
			const Unit& un = units[u]; const Cfg& c = cfgs[un.cfg]; const Family& f = fams(c)[un.fam];
			if (!pairs[un.cfg]) pairs[un.cfg].reset(new Pair(c));
			Pair& pr = *pairs[un.cfg];
			int image = (int)(u % n_sp_images(th)); pr.load_image(image);
			int bad = 0;
			for (uint64_t idx = un.begin; idx < un.end; ++idx) {
				f.make(idx, c.v2, p); unsigned fprc = (unsigned)(idx % 4);
				vf::set_current(case_json(c, f.name, idx, p, image, fprc).set("prefix_begin", (unsigned long long)un.begin).set("finding_key", "c04:hang-or-crash:" + c.name()).dump()); vf::watchdog(heavy ? 120 : 30);
				std::string d = pr.step(p, fprc);
				R.n[f.sampling ? "sampled_programs" : "programs"]++;
				R.n["programs_" + f.name]++;
				if (digests.size() < 200000) digests.insert(vf::fnv(&pr.I->reg(), 256));
				if (idx == un.begin && u < (size_t)nsh * 2) R.sample(case_json(c, f.name, idx, p, image, fprc).set("program", vf::hex(p.b + 128, 32) + "..."), 2);
				if (!d.empty()) {
					R.n["disagreements"]++;
					// minimal replay: does it reproduce from a clean scratchpad image?
					vf::Violation v; v.key = "c04:" + c.name() + ":" + f.name; v.what = "JIT != interpreter (" + c.name() + ", family " + f.name + " #" + std::to_string(idx) + "): " + d;
					bool fresh = false;
					for (int im = 0; im < n_sp_images(th) && !fresh; ++im) { Pair q(c); q.load_image(im); if (!q.step(p, fprc).empty()) { v.replay = case_json(c, f.name, idx, p, im, fprc); fresh = true; } }
					if (!fresh) { v.replay = case_json(c, f.name, idx, p, image, fprc); v.replay.set("prefix_begin", (unsigned long long)un.begin); }
					R.viol.push_back(v);
					memcpy(pr.J->scratchpad(), pr.I->scratchpad(), SpSize);
					if (++bad >= 3) break;
				}
			}
			R.n["units"]++;
			if (R.viol.size() >= 3) { R.incomplete = true; break; }
		}
		alarm(0);
		R.n["distinct_regfile_digests"] = digests.size();
		for (auto& kv : pairs) if (kv.second) { R.n["branch_targets_compared"] += kv.second->compared_branches; R.n["branch_encodings_not_recognised"] += kv.second->unparsed_branches; }
		return R;
	}, true, 7200);   // a program that crashes or does not terminate in one engine is a verdict (replayed before it is reported)

	vf::Evidence ev; ev.level = "translation_validation";
	uint64_t progs = total.n["programs"] + total.n["sampled_programs"];
	ev.coverage.set("programs", (unsigned long long)progs).set("disagreements_checked", (unsigned long long)total.n["disagreements"])
		.set("exhaustive", !total.incomplete)
		.set("rule", std::string("profile ") + RX_PROFILE + ": every program of the families w1a/w1b (all 256 opcodes x 64 register pairs x mod x imm32 boundary set, two packings), seq (all Sigma^k sequences at start/middle/end), sat, brdist, count, run through a real InterpretedVm and a real CompiledVm (x86 JIT), configurations v1/v2 x soft/hard AES x fast/light, entry rounding mode = index mod 4, scratchpad evolving in lockstep and compared completely after every program; 'aesrand' programs are a sampled sanity floor counted separately")
		.set("evaluations", (unsigned long long)progs).set("distinct_nontrivial", (unsigned long long)total.n["distinct_regfile_digests"]);
	ev.assumptions = { "program = composition of enumerated words; dataset content is one fixed pseudo-random image; light mode over one real cache",
		"CompiledVm::run glue (6 lines) replicated in the harness because the program generator cannot be inverted; the real run() is covered by C01/C02" };
	return vf::finish(args, total, ev, true, true);
}
