// C12 - AES generators and fingerprint: software == hardware == FIPS-197 (independent model).
#include "common/rxh.hpp"
#include "soft_aes.h"
#include "specmodel/specmodel.hpp"
#include <wmmintrin.h>

using namespace rxh;

static std::string round_case(const uint8_t st[16], const uint8_t key[16]) {
	__m128i s = _mm_loadu_si128((const __m128i*)st), k = _mm_loadu_si128((const __m128i*)key);
	uint8_t me[16], md[16]; memcpy(me, st, 16); memcpy(md, st, 16);
	spec::aes_enc_round(me, key); spec::aes_dec_round(md, key);
	__m128i se = soft_aesenc(s, k), sd = soft_aesdec(s, k), he = _mm_aesenc_si128(s, k), hd = _mm_aesdec_si128(s, k);
	if (memcmp(&se, me, 16)) return "soft_aesenc differs from the FIPS-197 encryption round";
	if (memcmp(&he, me, 16)) return "hardware aesenc differs from the FIPS-197 encryption round";
	if (memcmp(&sd, md, 16)) return "soft_aesdec differs from the FIPS-197 inverse round";
	if (memcmp(&hd, md, 16)) return "hardware aesdec differs from the FIPS-197 inverse round";
	// template dispatch used by the library
	__m128i te = aesenc<true>(s, k), td = aesdec<true>(s, k), ue = aesenc<false>(s, k), ud = aesdec<false>(s, k);
	if (memcmp(&te, me, 16) || memcmp(&ue, me, 16)) return "aesenc<> dispatch differs from the encryption round";
	if (memcmp(&td, md, 16) || memcmp(&ud, md, 16)) return "aesdec<> dispatch differs from the inverse round";
	return "";
}

// all 2x4x256 T-table entries against S-box o MixColumns columns; "" if all agree
static std::string table_check(uint64_t* n) {
	for (int t = 0; t < 4; ++t) for (int x = 0; x < 256; ++x) {
		uint8_t s[16] = { 0 }; s[t] = spec::aes_sbox((uint8_t)x); spec::aes_mix_columns(s); uint32_t e; memcpy(&e, s, 4);
		uint8_t q[16] = { 0 }; q[t] = spec::aes_inv_sbox((uint8_t)x); spec::aes_inv_mix_columns(q); uint32_t dd; memcpy(&dd, q, 4);
		if (n) *n += 2;
		if (randomx_aes_lut_enc[t][x] != e) return "randomx_aes_lut_enc[" + std::to_string(t) + "][" + std::to_string(x) + "] != MixColumns(S-box) column";
		if (randomx_aes_lut_dec[t][x] != dd) return "randomx_aes_lut_dec[" + std::to_string(t) + "][" + std::to_string(x) + "] != InvMixColumns(InvS-box) column";
	}
	return "";
}

static void make_seed(int id, uint8_t s[64]) {
	memset(s, 0, 64);
	if (id == 0) return;
	if (id == 1) { memset(s, 0xFF, 64); return; }
	if (id < 2 + 512) { int k = id - 2; s[k / 8] = (uint8_t)(1u << (k % 8)); return; }
	for (int i = 0; i < 64; ++i) s[i] = (uint8_t)((i + 1) * (id * 2 + 1) * 37 + (i * i));
}
static const int NSEEDS = 2 + 512 + 3;

static void make_buf(int id, uint8_t* b, size_t n) {
	switch (id % 5) {
	case 0: memset(b, 0, n); break;
	case 1: memset(b, 0xFF, n); break;
	case 2: for (size_t i = 0; i < n; ++i) b[i] = (uint8_t)(i * 131 + (i >> 8) * 7 + id); break;
	case 3: memset(b, 0, n); b[(id * 977) % n] = (uint8_t)(1 + id); break;
	default: for (size_t i = 0; i < n; ++i) b[i] = (uint8_t)((i * 2654435761u) >> 11); break;
	}
}

// Buffers with an explicitly chosen placement: 4096-aligned base + off (off in {0, 64}), so that the 64-byte-aligned and the
// 128-byte-aligned situation are both enumerated instead of being left to the allocator (the library only promises 64).
struct ABuf { uint8_t* raw; uint8_t* p; size_t n; ABuf(size_t n_, size_t off) : n(n_) { if (posix_memalign((void**)&raw, 4096, n_ + 4096)) { perror("posix_memalign"); exit(2); } p = raw + off; } ~ABuf() { free(raw); } uint8_t* data() { return p; } bool eq(const std::vector<uint8_t>& v) const { return v.size() == n && !memcmp(p, v.data(), n); } };

// generator state OVERLAPPING the output buffer (the repository's own test calls fillAes1Rx4(state, 64, state)): the software and the hardware
// instantiation must leave bit-identical memory images for every 16-byte displacement of the state against the buffer; for the form the repository's own test uses
// (state == buffer, 64 bytes) the image must also be the model's.
static std::string alias_case(int seed_id, size_t size, long delta) {
	const size_t PAD = 192, TOT = size + 2 * PAD; ABuf A(TOT, 0), B(TOT, 0);
	for (size_t i = 0; i < TOT; ++i) A.data()[i] = B.data()[i] = (uint8_t)(i * 29 + 7);
	alignas(16) uint8_t seed[64]; make_seed(seed_id, seed);
	uint8_t* outA = A.data() + PAD; uint8_t* outB = B.data() + PAD; memcpy(outA + delta, seed, 64); memcpy(outB + delta, seed, 64);
	fillAes1Rx4<true>(outA + delta, size, outA); fillAes1Rx4<false>(outB + delta, size, outB);
	if (memcmp(A.data(), B.data(), TOT)) { size_t k = 0; while (A.data()[k] == B.data()[k]) ++k; return "fillAes1Rx4 with the state at buffer" + std::string(delta < 0 ? "" : "+") + std::to_string(delta) + ": software and hardware paths leave different memory (first difference at buffer" + (k >= PAD ? "+" : "") + std::to_string((long)k - (long)PAD) + ")"; }
	if (delta == 0 && size == 64) {   // the one aliased form the repository itself uses (fillAes1Rx4(state, 64, state)): the image is unambiguous there; for the other displacements only the property's own clause (software == hardware) is demanded
		std::vector<uint8_t> mo(size); alignas(16) uint8_t st[64]; memcpy(st, seed, 64); spec::fill_aes_1rx4(st, size, mo.data()); memcpy(mo.data() + delta, st, 64);
		if (memcmp(outA, mo.data(), size)) return "fillAes1Rx4 with the state being output block " + std::to_string(delta / 64) + ": memory differs from AesGenerator1R (blocks from the initial state, final state stored last)";
	}
	return "";
}

// composite functions for one (seed, size, buffer image, placement); "" if all agree
static std::string composite_case(int seed_id, size_t size, int buf_id, size_t off = 0) {
	ABuf so(size, off), ho(size, off); std::vector<uint8_t> mo(size);
	alignas(16) uint8_t s1[64], s2[64], s3[64];
	make_seed(seed_id, s1); memcpy(s2, s1, 64); memcpy(s3, s1, 64);
	fillAes1Rx4<true>(s1, size, so.data()); fillAes1Rx4<false>(s2, size, ho.data()); spec::fill_aes_1rx4(s3, size, mo.data());
	if (!so.eq(mo)) return "fillAes1Rx4<soft> output differs from AesGenerator1R";
	if (!ho.eq(mo)) return "fillAes1Rx4<hard> output differs from AesGenerator1R";
	if (memcmp(s1, s3, 64) || memcmp(s2, s3, 64)) return "fillAes1Rx4 final state differs from AesGenerator1R";
	make_seed(seed_id, s1); memcpy(s2, s1, 64); memcpy(s3, s1, 64);
	fillAes4Rx4<true>(s1, size, so.data()); fillAes4Rx4<false>(s2, size, ho.data()); spec::fill_aes_4rx4(s3, size, mo.data());
	if (!so.eq(mo)) return "fillAes4Rx4<soft> output differs from AesGenerator4R";
	if (!ho.eq(mo)) return "fillAes4Rx4<hard> output differs from AesGenerator4R";
	// fingerprint
	ABuf buf(size, off); make_buf(buf_id, buf.data(), size);
	alignas(16) uint8_t h1[64], h2[64], h3[64];
	hashAes1Rx4<true>(buf.data(), size, h1); hashAes1Rx4<false>(buf.data(), size, h2); spec::hash_aes_1rx4(buf.data(), size, h3);
	if (memcmp(h1, h3, 64)) return "hashAes1Rx4<soft> differs from AesHash1R";
	if (memcmp(h2, h3, 64)) return "hashAes1Rx4<hard> differs from AesHash1R";
	// combined step == fingerprint followed by refill
	for (int hard = 0; hard < 2; ++hard) {
		ABuf b2(size, off); memcpy(b2.data(), buf.data(), size); alignas(16) uint8_t hh[64], fs[64], ms[64];
		make_seed(seed_id, fs); memcpy(ms, fs, 64);
		if (hard) hashAndFillAes1Rx4<false>(b2.data(), size, hh, fs); else hashAndFillAes1Rx4<true>(b2.data(), size, hh, fs);
		spec::fill_aes_1rx4(ms, size, mo.data());
		if (memcmp(hh, h3, 64)) return std::string("hashAndFillAes1Rx4<") + (hard ? "hard" : "soft") + "> fingerprint differs from AesHash1R of the old content";
		if (!b2.eq(mo)) return std::string("hashAndFillAes1Rx4<") + (hard ? "hard" : "soft") + "> refill differs from AesGenerator1R";
		if (memcmp(fs, ms, 64)) return std::string("hashAndFillAes1Rx4<") + (hard ? "hard" : "soft") + "> final generator state differs";
	}
	return "";
}

int main(int argc, char** argv) {
	vf::Args args = vf::parse_args(argc, argv, "C12");
	const bool th = args.thorough();
	if (!args.replay.empty()) {
		vf::Json r = vf::Json::load(args.replay); std::string d;
		if (r.at("kind").s == "round") { auto s = vf::unhex(r.at("state").s), k = vf::unhex(r.at("rkey").s); d = round_case(s.data(), k.data()); }
		else if (r.at("kind").s == "alias") d = alias_case((int)r.at("seed").num(), (size_t)r.at("size").num(), (long)r.at("delta").num());
		else if (r.at("kind").s == "composite") d = composite_case((int)r.at("seed").num(), (size_t)r.at("size").num(), (int)r.at("buf").num(), r.has("off") ? (size_t)r.at("off").num() : 0);
		else d = table_check(nullptr);
		printf("replay: %s\n", d.empty() ? "agrees" : d.c_str()); return d.empty() ? 0 : 1;
	}
	// sizes
	std::vector<size_t> sizes; for (size_t s = 64; s <= 4096; s += 64) sizes.push_back(s);
	sizes.push_back(4160); sizes.push_back(8192); sizes.push_back(65536);
	std::vector<size_t> big = { 262144, 2097152 };
	std::vector<std::array<uint8_t, 16>> keys;
	{ std::array<uint8_t, 16> k{}; keys.push_back(k); k.fill(0xFF); keys.push_back(k); for (int i = 0; i < 16; ++i) { k.fill(0); k[i] = (uint8_t)(0x1B * (i + 1)); keys.push_back(k); } for (int i = 0; i < 16; ++i) k[i] = (uint8_t)(i * 17 + 3); keys.push_back(k); }
	const int nsh = 120 + 16;   // 120 byte-position pairs, then 16 composite shards
	vf::Result total = vf::run_shards(args, nsh + 1, [&](int shard) {
		vf::Result R;
		auto viol = [&](const std::string& key, const std::string& what, const vf::Json& rp) { if (R.viol.size() < 3) { vf::Violation v; v.key = key; v.what = what; v.replay = rp; R.viol.push_back(v); } };
		if (shard < 120) {   // all states with two non-zero bytes at this position pair, key 0; thorough: also a generic key
			int a = 0, b = 1, k = shard; for (a = 0; a < 16; ++a) { if (k < 15 - a) { b = a + 1 + k; break; } k -= 15 - a; }
			uint8_t st[16];
			for (int kk = 0; kk < (th ? 2 : 1); ++kk) for (int x = 1; x < 256; ++x) for (int y = 1; y < 256; ++y) {
				memset(st, 0, 16); st[a] = (uint8_t)x; st[b] = (uint8_t)y;
				const uint8_t* key = keys[kk ? keys.size() - 1 : 0].data();
				std::string d = round_case(st, key); R.n["round_cases"]++;
				if (!d.empty()) { viol("c12:round", d, vf::Json::obj().set("kind", "round").set("state", vf::hex(st, 16)).set("rkey", vf::hex(key, 16))); if (R.viol.size() >= 3) return R; }
			}
			if (shard == 7) R.sample(vf::Json::obj().set("kind", "round").set("state", vf::hex(st, 16)).set("rkey", vf::hex(keys[0].data(), 16)));
			return R;
		}
		if (shard == nsh) {   // one-byte deviations x all keys, zero state, and the T-tables
			uint8_t st[16];
			for (auto& key : keys) for (int a = -1; a < 16; ++a) for (int x = 1; x < 256; ++x) {
				memset(st, 0, 16); if (a >= 0) st[a] = (uint8_t)x; else if (x > 1) break;
				std::string d = round_case(st, key.data()); R.n["round_cases"]++;
				if (!d.empty()) viol("c12:round", d, vf::Json::obj().set("kind", "round").set("state", vf::hex(st, 16)).set("rkey", vf::hex(key.data(), 16)));
			}
			{ uint64_t n = 0; std::string d = table_check(&n); R.n["table_entries"] += n; if (!d.empty()) viol("c12:table", d, vf::Json::obj().set("kind", "table")); }
			return R;
		}
		int cs = shard - 120;   // composite shards
		for (int seed = cs; seed < NSEEDS; seed += 16) {
			bool generic = seed < 2 || seed >= 2 + 512;
			for (size_t si = 0; si < sizes.size(); ++si) {
				if (!generic && !th && (si % 8) != (size_t)(seed % 8) && sizes[si] != 64 && sizes[si] != 4096 && sizes[si] != 4160) continue;   // quick: one-hot seeds take a rotating eighth of the sizes
				for (size_t off : { (size_t)0, (size_t)64 }) {
				std::string d = composite_case(seed, sizes[si], seed + (int)si, off); R.n["composite_cases"]++; R.n["composite_bytes"] += sizes[si];
				if (!d.empty()) { viol("c12:composite", d + " (seed " + std::to_string(seed) + ", size " + std::to_string(sizes[si]) + ", buffer at 4096k+" + std::to_string(off) + ")", vf::Json::obj().set("kind", "composite").set("seed", seed).set("size", (unsigned long long)sizes[si]).set("buf", seed + (int)si).set("off", (unsigned long long)off)); if (R.viol.size() >= 3) return R; }
				}
			}
			if (generic) for (size_t sz : big) {
				if (!th && sz > 262144 && seed != 2 + 512) continue;
				for (size_t off : { (size_t)0, (size_t)64 }) {
				std::string d = composite_case(seed, sz, seed, off); R.n["composite_cases"]++; R.n["composite_bytes"] += sz;
				if (!d.empty()) viol("c12:composite", d + " (seed " + std::to_string(seed) + ", size " + std::to_string(sz) + ", buffer at 4096k+" + std::to_string(off) + ")", vf::Json::obj().set("kind", "composite").set("seed", seed).set("size", (unsigned long long)sz).set("buf", seed).set("off", (unsigned long long)off));
				}
			}
		}
		if (cs < 4) for (size_t size : { (size_t)64, (size_t)128, (size_t)192, (size_t)256, (size_t)1024, (size_t)4096 }) for (long delta = -128; delta <= (long)size + 64; delta += 16) for (int seed : { cs, 2 + 512 + (cs % 3) }) {
			std::string d = alias_case(seed, size, delta); R.n["alias_cases"]++;
			if (!d.empty() && R.viol.size() < 3) viol("c12:alias", d + " (seed " + std::to_string(seed) + ", size " + std::to_string(size) + ")", vf::Json::obj().set("kind", "alias").set("seed", seed).set("size", (unsigned long long)size).set("delta", (long long)delta));
		}
		if (cs == 0) R.sample(vf::Json::obj().set("kind", "composite").set("seed", 0).set("size", 64).set("buf", 0));
		return R;
	});
	vf::Evidence ev; ev.level = "exploration";
	ev.coverage.set("evaluations", (unsigned long long)(total.n["round_cases"] + total.n["composite_cases"] + total.n["table_entries"] + total.n["alias_cases"]))
		.set("distinct_nontrivial", (unsigned long long)(total.n["round_cases"] + total.n["composite_cases"])).set("exhaustive", !total.incomplete)
		.set("rule", "single rounds: every 16-byte state with at most two non-zero bytes (all 120 position pairs x 255^2 values, all 16x255 single bytes, zero) with key 0, single-byte states with 19 keys: soft_aesenc/dec == _mm_aesenc/dec == aesenc<>/aesdec<> dispatch == FIPS-197 round computed from the GF(2^8) definition; all 2x4x256 T-table entries; composites: fillAes1Rx4, fillAes4Rx4, hashAes1Rx4, hashAndFillAes1Rx4 in both template instantiations == model, seeds {0, FF.., 512 one-hot, 3 generic} x sizes {64..4096 step 64, 4160, 8192, 65536, 256 KiB, 2 MiB (generic seeds)} x 5 buffer images x 2 buffer placements (128-byte aligned and 64 mod 128); combined step == (fingerprint of old content, refill, generator state); fillAes1Rx4 with the generator state overlapping the output buffer at every 16-byte displacement (6 sizes): software and hardware paths leave identical memory, and the model's image for the form fillAes1Rx4(state, 64, state)");
	ev.assumptions = { "the model's AES round is built from the FIPS-197 definitions (S-box from field inverse + affine map) and was checked against FIPS-197 appendix B at setup" };
	return vf::finish(args, total, ev);
}
