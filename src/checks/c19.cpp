// c19.cpp - property C19: the AArch64 code emitted by /repo/src/jit_compiler_a64.cpp (+ jit_compiler_a64_static.S)
// computes the same register file / scratchpad / rounding mode as the bytecode interpreter, and its SuperscalarHash
// code computes the same dataset items.  The back-end's C++ runs on the host, the emitted A64 code runs in the
// instruction-subset emulator src/emu/a64 (translation validation by exhaustive enumeration of program alphabets).
// Build: src/emu/a64/build.sh <profile> <outdir>.
#include <deque>
#include "emu/a64/c19_families.hpp"
#include "c19_build_info.hpp"
#include <libgen.h>

int a64_selftest(bool verbose, long* nchecks, int* nforms);

using namespace c19;
using vf::Json;

static const int NSHARDS = 16;
static const bool SUBSET_PROFILE = RANDOMX_PROGRAM_ITERATIONS > 64;   // "full": only families (c) and (d), fewer combinations

// ------------------------------------------------------------------ replay <-> case
static Json case_json(const CaseSpec& c) {
	Json j = Json::obj();
	j.set("profile", C19_PROFILE).set("family", c.family).set("version", c.version).set("mode", c.mode ? "light" : "full").set("aes", c.aes ? "hard" : "soft")
		.set("cfg", c.cfg).set("scratchpad_image", c.sp).set("entry_rounding_mode", c.rm).set("dataset_image", c.mode ? "cache:test key 000" : "staggered-prng-19")
		.set("program", vf::hex(c.prog, PROG_BYTES));
	return j;
}
static bool case_from_json(const Json& j, CaseSpec& c) {
	static std::string fam; fam = j.has("family") ? j.at("family").s : "replay"; c.family = fam.c_str();
	c.version = (int)j.at("version").num(); c.mode = j.at("mode").s == "light"; c.aes = j.at("aes").s == "hard";
	c.cfg = (int)j.at("cfg").num(); c.sp = (int)j.at("scratchpad_image").num(); c.rm = (int)j.at("entry_rounding_mode").num();
	std::vector<uint8_t> p = vf::unhex(j.at("program").s);
	if (p.size() != PROG_BYTES) return false;
	memcpy(c.prog, p.data(), PROG_BYTES);
	return true;
}
static std::vector<int> live_slots(const CaseSpec& c) { std::vector<int> v; for (int i = 0; i < prog_size(c.version); ++i) if (!is_filler(get(c.prog, i))) v.push_back(i); return v; }
static std::string dims(const CaseSpec& c) { char b[128]; snprintf(b, sizeof b, "v%d %s %s-AES cfg%d sp%d rm%d", c.version, c.mode ? "light" : "full", c.aes ? "hard" : "soft", c.cfg, c.sp, c.rm); return b; }

// delta-debugging over program slots (replaced by the IMUL_RCP-0 filler), then simplification of the other dimensions
static Outcome minimize(Engine& eng, CaseSpec& c, uint64_t& runs) {
	Outcome last = eng.run(c); ++runs;
	if (last.agree) return last;
	auto fails = [&](const CaseSpec& t, Outcome& o) { o = eng.run(t); ++runs; return !o.agree; };
	std::vector<int> live = live_slots(c);
	size_t n = 2;
	while (live.size() >= 1 && runs < 4000) {
		size_t chunk = (live.size() + n - 1) / n; bool reduced = false;
		for (size_t s = 0; s < live.size(); s += chunk) {
			CaseSpec t = c; std::vector<int> rest;
			for (size_t i = 0; i < live.size(); ++i) { if (i >= s && i < s + chunk) put(t.prog, live[i], filler()); else rest.push_back(live[i]); }
			Outcome o;
			if (fails(t, o)) { c = t; live = rest; last = o; n = n > 2 ? n - 1 : 2; reduced = true; break; }
		}
		if (!reduced) { if (chunk == 1) break; n = std::min(n * 2, live.size()); }
	}
	for (int dim = 0; dim < 5; ++dim) {
		CaseSpec t = c;
		if (dim == 0) t.mode = 0; else if (dim == 1) t.aes = 1; else if (dim == 2) t.rm = 0; else if (dim == 3) { t.cfg = 0; memcpy(t.prog, eng.env.cfg[0], 128); } else t.version = 1;
		if (dim == 4 && (int)live.size() && live.back() >= prog_size(1)) continue;
		Outcome o; if (memcmp(&t, &c, sizeof t) && fails(t, o)) { c = t; last = o; }
	}
	return last;
}
static std::string violation_key(const CaseSpec& c, const Outcome& o) {
	std::vector<int> live = live_slots(c);
	std::string k = o.cls.rfind("emu:", 0) == 0 ? o.cls + ":" : "";
	if (live.empty()) return k + "static:" + o.cls + ":v" + std::to_string(c.version) + (c.mode ? ":light" : ":full") + (c.aes ? ":hard" : ":soft");
	if (live.size() == 1) { Word w = get(c.prog, live[0]); char b[96]; int t = optab().type_of[w.op];
		snprintf(b, sizeof b, "%s/%s/imm=0x%08x", type_name(t), (w.src & 7) == (w.dst & 7) ? "self" : "reg", w.imm); return k + b; }
	std::string s = "seq:"; for (size_t i = 0; i < live.size() && i < 4; ++i) { if (i) s += "+"; s += type_name(optab().type_of[get(c.prog, live[i]).op]); }
	if (live.size() > 4) s += "+..";
	return k + s;
}
static std::string describe_case(const CaseSpec& c, const Outcome& o) {
	std::vector<int> live = live_slots(c);
	std::string s = std::string("A64 JIT != interpreter [") + c.family + ", " + dims(c) + "]: " + o.what + "; minimal program:";
	if (live.empty()) s += " (all slots no-op)";
	for (size_t i = 0; i < live.size() && i < 6; ++i) s += " slot" + std::to_string(live[i]) + "=" + word_str(get(c.prog, live[i]));
	if (live.size() > 6) s += " ... (" + std::to_string(live.size()) + " words)";
	return s;
}

// disassembly of the emitted VM-instruction area (up to the closing branch)
static void print_emitted(Engine& eng, FILE* f) {
	const uint8_t* code = eng.jit.getCode(); size_t pos = prologue_size();
	fprintf(f, "emitted AArch64 code for the program body (code+0x%zx ..):\n", pos);
	for (int n = 0; n < 4800; ++n, pos += 4) {
		uint32_t w; memcpy(&w, code + pos, 4);
		std::string d = a64::Emu::describe(w, pos);
		fprintf(f, "  %6zx: %08x  %s\n", pos, w, d.empty() ? "<not an instruction of the supported subset>" : d.c_str());
		if ((w & 0xFC000000u) == 0x14000000u && n > 0) { uint32_t prev; memcpy(&prev, code + pos - 4, 4); if ((prev & 0xFF20FC1Fu) == 0x4A000014u) break; }   // eor w20, rA, rB ; b <loop tail>
	}
}

// ------------------------------------------------------------------ family (e): dataset items
static const char* const DS_KEYS[] = { "test key 000", "test key 001", "", "RandomX example key\0with a zero", "\xff\xfe\xfd key", "k" };
static const size_t DS_KEYLEN[] = { 12, 12, 0, 31, 8, 1 };
struct DsEngine {
	a64::Emu& emu; randomx::JitCompilerA64& jit; uint8_t* stack; size_t stack_size; size_t buf_size;
	alignas(64) uint8_t out[64 * 8];
	bool run(randomx_cache* cache, uint64_t start, unsigned count, std::string& what) {
		memset(out, 0xEE, sizeof out);
		emu.clear_ranges();
		emu.add_range(jit.getCode(), buf_size, a64::PERM_R | a64::PERM_X, "code");
		emu.add_range(stack, stack_size, a64::PERM_R | a64::PERM_W, "stack");
		emu.add_range(out, 64 * count, a64::PERM_W, "dataset-out");
		emu.add_range(cache->memory, randomx::CacheSize, a64::PERM_R, "cache");
		emu.add_range(cache, 8, a64::PERM_R, "cache-struct");
		a64::Cpu& cpu = emu.cpu; memset(&cpu, 0, sizeof cpu);
		for (int i = 4; i < 31; ++i) cpu.x[i] = 0xA5A5000000000000ull + i;
		uint64_t top = (uint64_t)(uintptr_t)(stack + stack_size - 256);
		a64::Stop st = emu.call((uint64_t)(uintptr_t)jit.getDatasetInitFunc(), (uint64_t)(uintptr_t)cache, (uint64_t)(uintptr_t)out, start, start + count, top, 10000000);
		if (st != a64::STOP_RET) { what = "emulated dataset-init code stopped: " + emu.error; return false; }
		for (unsigned i = 0; i < count; ++i) {
			alignas(64) uint8_t ref[64]; randomx::initDatasetItem(cache, ref, start + i);
			if (memcmp(ref, out + 64 * i, 64)) { char b[200]; uint64_t x, y; int q = 0; for (; q < 8; ++q) if (memcmp(ref + 8 * q, out + 64 * i + 8 * q, 8)) break; memcpy(&x, ref + 8 * q, 8); memcpy(&y, out + 64 * i + 8 * q, 8);
				snprintf(b, sizeof b, "dataset item %llu word %d: initDatasetItem=0x%016llx emitted A64 code=0x%016llx", (unsigned long long)(start + i), q, (unsigned long long)x, (unsigned long long)y); what = b; return false; }
		}
		bool ok = cpu.sp == top; for (int i = 19; i <= 29; ++i) ok = ok && cpu.x[i] == 0xA5A5000000000000ull + i;
		if (!ok) { what = "dataset-init code does not restore sp/x19-x29"; return false; }
		return true;
	}
};

// ------------------------------------------------------------------ one shard
struct Plan { bool thorough; uint64_t seed; bool light; };

struct Pred { int type; bool self; bool any_imm; uint32_t imm; bool any_mod; uint8_t mod; };     // single-word disagreement already reported by this shard
static bool neutralize(CaseSpec& c, const std::vector<Pred>& preds) {
	bool changed = false;
	for (int i = 0; i < prog_size(c.version); ++i) { Word w = get(c.prog, i); if (is_filler(w)) continue;
		for (const Pred& p : preds) if (optab().type_of[w.op] == p.type && ((w.src & 7) == (w.dst & 7)) == p.self && (p.any_imm || w.imm == p.imm) && (p.any_mod || w.mod == p.mod)) { put(c.prog, i, filler()); changed = true; break; } }
	return changed;
}
// Every disagreement is either attributed to an already reported single-word key (the program agrees once those words are
// replaced by the filler) or minimised to a new key.  Nothing is left unexplained unless the budget is exhausted (-> incomplete).
static void report(Engine& eng, vf::Result& r, CaseSpec c, const Outcome& first, std::set<std::string>& keys, int& minimized, std::vector<Pred>& preds, std::deque<CaseSpec>& hist) {
	r.n["mismatches"]++;
	// A compiler object translates many programs (8 per hash, every hash of a VM): does this disagreement need what EARLIER programs left in it? Run the case on a fresh
	// compiler: if that agrees, the case is reported together with the programs that preceded it on this compiler, and the replay runs them in order (seeded change agent7_C19).
	{ Engine fresh(eng.env); Outcome of = fresh.run(c); r.n["disagreements_checked"]++;
	  if (of.agree) {
		// a defect that depends on HOW MANY programs the object has translated (not on which): the same case repeated that many times on a fresh object
		uint64_t reps = std::min<uint64_t>(eng.compiled, 4000); bool rep_ok = false;
		if (reps > 8) { Engine again(eng.env); Outcome ol; for (uint64_t q = 0; q < reps; ++q) { ol = again.run(c); if (!ol.agree) break; } rep_ok = !ol.agree; r.n["disagreements_checked"]++; }
		if (rep_ok && keys.insert("history-count").second) {
			vf::Violation v; v.key = "history-count"; v.what = "A64 JIT != interpreter once the same compiler object has translated many programs (a fresh object agrees; the case repeated up to " + std::to_string(reps) + " times on one object disagrees) [" + std::string(c.family) + ", " + dims(c) + "]: " + first.what;
			v.replay = case_json(c); v.replay.set("first_difference", first.what).set("repeat", (unsigned long long)reps); r.viol.push_back(v);
			eng.reset_jit(); hist.clear(); return;
		}
		if (keys.insert("history").second) {
			vf::Violation v; v.key = "history"; v.what = "A64 JIT != interpreter ONLY after the programs compiled before on the same compiler object (a fresh compiler agrees) [" + std::string(c.family) + ", " + dims(c) + "]: " + first.what;
			v.replay = case_json(c); v.replay.set("first_difference", first.what); Json h = Json::arr(); for (auto& q : hist) h.push(case_json(q)); v.replay.set("history", h);
			r.viol.push_back(v);
		}
		eng.reset_jit(); hist.clear(); return;
	  } }
	if (!preds.empty()) {
		CaseSpec t = c;
		if (neutralize(t, preds)) { Outcome o = eng.run(t); r.n["disagreements_checked"]++; if (o.agree) { r.n["mismatches_attributed_to_reported_keys"]++; return; } c = t; }
	}
	if (minimized >= 12) { r.n["mismatches_unexplained"]++; r.incomplete = true; return; }
	++minimized;
	uint64_t runs = 0; Outcome o = minimize(eng, c, runs);
	r.n["disagreements_checked"]++; r.n["minimizer_runs"] += runs;
	if (o.agree) { vf::Violation v; v.key = "flaky"; v.what = "disagreement did not reproduce on re-run: " + first.what; v.replay = case_json(c); r.viol.push_back(v); return; }
	std::string key = violation_key(c, o);
	std::vector<int> live = live_slots(c);
	if (live.size() == 1 && o.cls.rfind("emu:", 0) != 0) {
		// generalise the single word: does the disagreement depend on imm32 / mod at all?
		Word w = get(c.prog, live[0]); Pred p{ optab().type_of[w.op], (w.src & 7) == (w.dst & 7), false, w.imm, false, w.mod };
		{ CaseSpec t = c; Word x = w; x.imm = w.imm ? 0 : 1; put(t.prog, live[0], x); Outcome o2 = eng.run(t); ++runs; if (!o2.agree) { p.any_imm = true; } }
		{ CaseSpec t = c; Word x = w; x.mod = w.mod ? 0 : 1; put(t.prog, live[0], x); Outcome o2 = eng.run(t); ++runs; if (!o2.agree) { p.any_mod = true; } }
		char b[128]; std::string ks = std::string(type_name(p.type)) + (p.self ? "/self" : "/reg");
		if (!p.any_mod) { snprintf(b, sizeof b, "/mod=0x%02x", w.mod); ks += b; }
		if (p.any_imm) ks += "/imm=*"; else { snprintf(b, sizeof b, "/imm=0x%08x", w.imm); ks += b; }
		key = ks; preds.push_back(p);
		eng.run(c);   // leave the engine state of the reported case for describe/replay consistency
	}
	if (!keys.insert(key).second) return;
	vf::Violation v; v.key = key; v.what = describe_case(c, o); v.replay = case_json(c); v.replay.set("first_difference", o.what);
	r.viol.push_back(v);
}

static vf::Result shard_main(const vf::Args& a, Env& env, const Plan& pl, int shard) {
	vf::Result r; Engine eng(env);
	std::set<std::string> keys; int minimized = 0; std::vector<Pred> preds; std::deque<CaseSpec> hist;   // hist: the last programs translated by eng's compiler object, oldest first
	std::deque<std::string> histjs; std::string curjs;
	auto one = [&](CaseSpec& c, const char* fam, bool sampled) {
		c.family = fam;
		// what the parent reports if this process dies inside the library's compiler (a crash of the translator is a verdict): the case and the programs translated before it
		{ std::string js = case_json(c).dump(); std::string cur = js.substr(0, js.size() - 1) + ",\"finding_key\":\"a64:crash\",\"compiled_before\":" + std::to_string(eng.compiled) + ",\"history\":["; bool f1 = true; for (auto& h : histjs) { if (!f1) cur += ","; cur += h; f1 = false; } cur += "]}"; vf::set_current(cur); curjs.swap(js); }
		Outcome o = eng.run(c);
		r.n[sampled ? "programs_sampled" : "programs"]++; r.n[std::string("cases_") + fam]++;
		if (c.mode) r.n["cases_light"]++; if (c.version == 2) r.n["cases_v2"]++; if (c.aes) r.n["cases_hard_aes"]++;
		r.mx["guest_insns_per_case"] = std::max(r.mx["guest_insns_per_case"], o.guest_insns);
		if (!o.agree) { report(eng, r, c, o, keys, minimized, preds, hist); eng.reset_jit(); hist.clear(); histjs.clear(); }   // the reporter ran other programs on this compiler: start again from a new one so that `hist` stays the complete history
		else { hist.push_back(c); histjs.push_back(curjs); if (hist.size() > 8) { hist.pop_front(); histjs.pop_front(); } }
		if (o.agree && r.samples.size() < 1 && shard == 0) { Json s = case_json(c); s.set("program", vf::hex(c.prog, 160) + "..."); s.set("guest_instructions", (unsigned long long)o.guest_insns).set("result", "agree"); r.sample(s); }
	};
	auto stop = [&]() { if (r.incomplete) return true; if (a.expired()) { r.incomplete = true; return true; } return false; };
	CaseSpec c;
	uint64_t job = 0;   // global job counter: job % NSHARDS selects the shard
	auto mine = [&]() { return (int)(job++ % NSHARDS) == shard; };

	// ---- (c) saturated / branch distance / thresholds / rounding: every program x every combination
	{
		std::vector<NamedProg> fc = family_c();
		unsigned ncombo = SUBSET_PROFILE ? (pl.thorough ? 32 : 8) : 128;
		for (size_t p = 0; p < fc.size() && !stop(); ++p) for (int v = 1; v <= 2; ++v) for (unsigned k = 0; k < ncombo; ++k) {
			if (!mine()) continue;
			c.version = v; set_combo(c, SUBSET_PROFILE ? (unsigned)(k * 37 + p * 11 + v) : k, pl.light);
			if (!build_c(env, c, fc[p])) continue;
			one(c, "c_structural", false);
			if (stop()) break;
		}
		r.mx["family_c_programs"] = fc.size() * 2;
		// ---- (c2) dataset offsets (in items) at the immediate-width boundaries a translator can split at: 8 bits, 12 bits (add #imm12), 16 bits (movz/movk), 20 bits
		static const uint64_t DSO[] = { 1, 0x7F, 0x80, 0xFF, 0x100, 0x7FF, 0x800, 0x801, 0xFFF, 0x1000, 0x1001, 0x17FF, 0x1800, 0x1801, 0x7FFF, 0x8000, 0xFFFF, 0x10000, 0x10001, 0x3F800, 0x7F7FF, 0x7F800, 0x7FFFE };
		for (uint64_t dso : DSO) for (int v = 1; v <= 2; ++v) for (unsigned k = 0; k < 4 && !stop(); ++k) {
			if (!mine()) continue;
			c.version = v; set_combo(c, k | (3u << 2) | ((unsigned)(dso & 3) << 5), pl.light);
			if (!build_c(env, c, fc[(size_t)(dso % 3)])) continue;
			memcpy(c.prog + 13 * 8, &dso, 8);
			one(c, "c_dataset_offset", false);
		}
	}
	// ---- (d) programs from the real generator (sampling floor)
	{
		uint64_t n = SUBSET_PROFILE ? (pl.thorough ? 500 : 100) : (pl.thorough ? 3000 : 400);
		for (uint64_t i = 0; i < n && !stop(); ++i) for (int v = 1; v <= 2; ++v) for (unsigned k = 0; k < (SUBSET_PROFILE ? 2u : 4u); ++k) {
			if (!mine()) continue;
			c.version = v; set_combo(c, (unsigned)(i * 13 + k * 37 + v), pl.light); build_random(env, c, i);
			one(c, "d_random", true);
		}
	}
	// light mode costs ~4x (every iteration runs the emitted SuperscalarHash): in the two big enumerations only every 2nd (thorough: 4th)
	// light-mode combination stays light -> 25% / 12.5% of their cases
	uint64_t thin_n = 0; const uint64_t thin_div = pl.thorough ? 4 : 2;
	auto thin = [&](CaseSpec& cs) { if (cs.mode && (thin_n++ % thin_div)) cs.mode = 0; };
	if (!SUBSET_PROFILE) {
		// ---- (e) dataset items: one cache key per shard
		int nkeys = pl.thorough ? 6 : 3;
		if (pl.light && shard < nkeys && !stop()) {
			randomx_cache* cache = env.cache;
			if (shard > 0) { cache = randomx_alloc_cache((randomx_flags)(randomx_get_flags() & (RANDOMX_FLAG_ARGON2_AVX2 | RANDOMX_FLAG_ARGON2_SSSE3))); randomx_init_cache(cache, DS_KEYS[shard], DS_KEYLEN[shard]); }
			eng.use_cache(cache);
			DsEngine de{ eng.emu, eng.jit, eng.stack, eng.stack_size, eng.buf_size, {} };
			const uint64_t last = randomx::DatasetSize / 64 - 1;
			std::vector<uint64_t> starts = { 0, 1, 2, 63, 64, 1000, 0x3FFFFF, 0x400000, 0x400001, 0xFFFFFF, 0x1000000, 0x1FFFFFF, 0x2000000, last - 4, last - 1, last };
			vf::Rng g(77 + (uint64_t)shard); unsigned nrand = pl.thorough ? 20000 : 2500;
			for (unsigned i = 0; i < nrand; ++i) starts.push_back(g.below(last - 5));
			for (size_t i = 0; i < starts.size() && !stop(); ++i) for (unsigned cnt = 1; cnt <= 5; ++cnt) {
				if (i >= 16 && cnt != 1 + i % 5) continue;
				if (starts[i] + cnt - 1 > last) continue;
				std::string what; r.n["dataset_calls"]++; r.n["dataset_items"] += cnt;
				if (!de.run(cache, starts[i], cnt, what)) {
					r.n["mismatches"]++; r.n["disagreements_checked"]++;
					std::string w2; bool again = de.run(cache, starts[i], cnt, w2);
					vf::Violation v; v.key = again ? "flaky" : (what.rfind("emulated", 0) == 0 ? "dataset:emu" : "dataset:item"); v.what = "A64 dataset-init code != initDatasetItem [key #" + std::to_string(shard) + "]: " + what;
					v.replay = Json::obj(); v.replay.set("profile", C19_PROFILE).set("family", "e_dataset").set("cache_key_index", shard).set("start", (unsigned long long)starts[i]).set("count", cnt);
					if (keys.insert(v.key).second) r.viol.push_back(v);
					if (r.n["mismatches"] > 300) r.incomplete = true;
				}
			}
			r.n["dataset_keys"]++;
			eng.use_cache(env.cache);
		}
		// ---- (b) sequences
		FamB fb(pl.thorough);
		for (uint64_t j = 0; j < fb.jobs() && !stop(); ++j) {
			if (!mine()) continue;
			for (unsigned q = 0; q < (pl.thorough ? 1u : 3u); ++q) {
				set_combo(c, (unsigned)((j >> 1) * 29 + (j & 1) * 64 + j / 977 + q * 43), pl.light); thin(c); fb.build(env, c, j);
				one(c, "b_sequences", false);
			}
		}
		r.mx["family_b_alphabet"] = fb.alpha.size(); r.mx["family_b_length"] = (uint64_t)fb.L;
		// ---- (a) every instruction word, two packings x two versions
		FamA fa(pl.thorough, pl.seed);
		r.mx["family_a_words"] = fa.N; r.mx["family_a_imm_values"] = fa.imms.size(); r.mx["family_a_mod_values"] = fa.mods.size();
		unsigned K = pl.thorough ? 1 : 3;
		for (int packing = 0; packing < 2; ++packing) for (int v = 1; v <= 2; ++v) {
			uint64_t np = fa.programs(v);
			for (uint64_t k = 0; k < np && !stop(); ++k) {
				if (!mine()) continue;
				for (unsigned q = 0; q < K; ++q) {
					c.version = v; set_combo(c, (unsigned)(k * 37 + q * 53 + packing * 11 + v * 5), pl.light); thin(c);
					fa.build(env, c, packing, k);
					one(c, "a_words", false);
				}
				r.n["a_words_covered"] += std::min<uint64_t>((uint64_t)prog_size(v), fa.N - k * (uint64_t)prog_size(v));
			}
		}
	}
	r.n["guest_instructions"] = eng.total_insns + 0;
	for (int k = 1; k < a64::K_COUNT; ++k) if (eng.emu.kind_count[k]) r.tags.insert(std::string("insn: ") + a64::kind_name(k));
	if (eng.emu.fp_special) r.n["fp_nan_or_subnormal_seen"] = eng.emu.fp_special;
	return r;
}

// ------------------------------------------------------------------ replay
static int do_replay(const vf::Args& a) {
	Json j = Json::load(a.replay);
	std::string prof = j.has("profile") ? j.at("profile").s : C19_PROFILE;
	if (prof != C19_PROFILE) {   // hand over to the sibling executable built for that profile
		std::string self = a.self, sib = prof == "full" ? self + ".full" : self.substr(0, self.rfind(".full"));
		execl(sib.c_str(), sib.c_str(), "--replay", a.replay.c_str(), (char*)nullptr);
		fprintf(stderr, "c19: cannot exec %s for profile %s\n", sib.c_str(), prof.c_str()); return 2;
	}
	std::string fam = j.has("family") ? j.at("family").s : "";
	Env env;
	if (fam == "e_dataset") {
		int ki = (int)j.at("cache_key_index").num();
		make_env(env, true);
		randomx_cache* cache = env.cache;
		if (ki > 0) { cache = randomx_alloc_cache((randomx_flags)(randomx_get_flags() & (RANDOMX_FLAG_ARGON2_AVX2 | RANDOMX_FLAG_ARGON2_SSSE3))); randomx_init_cache(cache, DS_KEYS[ki], DS_KEYLEN[ki]); }
		Engine eng(env); eng.use_cache(cache);
		DsEngine de{ eng.emu, eng.jit, eng.stack, eng.stack_size, eng.buf_size, {} };
		std::string what; bool ok = de.run(cache, (uint64_t)j.at("start").num(), (unsigned)j.at("count").num(), what);
		printf("replay e_dataset key#%d start=%lld count=%lld: %s\n", ki, (long long)j.at("start").num(), (long long)j.at("count").num(), ok ? "agree" : what.c_str());
		return ok ? 0 : 1;
	}
	CaseSpec c;
	if (!case_from_json(j, c)) { fprintf(stderr, "c19: bad replay file\n"); return 2; }
	make_env(env, c.mode == 1 || j.has("history"));
	Engine eng(env);
	if (j.has("history")) { for (auto& hj : j.at("history").a) { CaseSpec h; if (case_from_json(hj, h)) eng.run(h); } printf("replay: %zu earlier programs translated by the same compiler object first\n", j.at("history").a.size()); }
	Outcome o = eng.run(c);
	{ uint64_t reps = j.has("repeat") ? (uint64_t)j.at("repeat").num() : (j.has("compiled_before") ? std::min<uint64_t>((uint64_t)j.at("compiled_before").num(), 4000) : 0);
	  if (o.agree && reps > 1) { for (uint64_t q = 1; q < reps && o.agree; ++q) o = eng.run(c); printf("replay: the case repeated up to %llu times on one compiler object\n", (unsigned long long)reps); } }
	printf("replay [%s] %s: %s\n", c.family, dims(c).c_str(), o.agree ? "interpreter and emulated A64 JIT agree" : o.what.c_str());
	std::vector<int> live = live_slots(c);
	for (size_t i = 0; i < live.size() && i < 24; ++i) printf("  slot %d: %s\n", live[i], word_str(get(c.prog, live[i])).c_str());
	if (!o.agree || a.get("show") == "1") {
		if (live.size() <= 24) print_emitted(eng, stdout);
		const randomx::RegisterFile* ir = c.aes ? &eng.vh[c.mode]->reg : &eng.vs[c.mode]->reg;
		const uint64_t* x = (const uint64_t*)ir; const uint64_t* y = (const uint64_t*)&eng.jreg;
		for (int i = 0; i < 32; ++i) printf("  reg[%2d] interpreter=%016llx a64=%016llx%s\n", i, (unsigned long long)x[i], (unsigned long long)y[i], x[i] == y[i] ? "" : "   <-- differs");
	}
	return o.agree ? 0 : 1;
}

// ------------------------------------------------------------------ decoder binding: Emu::describe vs llvm-objdump on every distinct executed word
static std::string norm(std::string s) {
	std::string o; size_t i = 0;
	size_t cm = s.find("//"); if (cm != std::string::npos) s = s.substr(0, cm);
	cm = s.find('<'); if (cm != std::string::npos) s = s.substr(0, cm);
	while (i < s.size()) {
		char ch = s[i];
		if (ch == ' ' || ch == '\t') { ++i; continue; }
		bool numstart = isdigit((unsigned char)ch) && (i == 0 || !(isalnum((unsigned char)s[i - 1]) || s[i - 1] == '.' || s[i - 1] == '['));
		if (numstart) { char* end; unsigned long long v = strtoull(s.c_str() + i, &end, 0); o += std::to_string(v); i = (size_t)(end - s.c_str()); continue; }
		o += (char)tolower((unsigned char)ch); ++i;
	}
	// canonical spellings
	auto rep = [&](const std::string& x, const std::string& y) { size_t p; while ((p = o.find(x)) != std::string::npos) o.replace(p, x.size(), y); };
	rep("#", "");
	return o;
}
static int do_bindcheck(const vf::Args& a, const std::string& work) {
	Env env; make_env(env, true);
	Engine eng(env); eng.emu.record_words = true;
	CaseSpec c; std::vector<NamedProg> fc = family_c(); FamA fa(false, 0); FamB fb(false);
	unsigned n = 0;
	const unsigned sub = SUBSET_PROFILE ? 12 : 1;   // the 2048-iteration build samples fewer programs (same code shapes, 128x the run time)
	for (size_t p = 0; p < fc.size(); p += sub) for (int v = 1; v <= 2; ++v) { c.version = v; set_combo(c, (unsigned)(p * 7 + v), true); if (build_c(env, c, fc[p])) { c.family = "bind"; eng.run(c); ++n; } }
	for (uint64_t k = 0; k < fa.programs(1); k += 97 * sub) for (int v = 1; v <= 2; ++v) { c.version = v; set_combo(c, (unsigned)k, true); fa.build(env, c, (int)(k & 1), k % fa.programs(v)); eng.run(c); ++n; }
	for (uint64_t jb = 0; jb < fb.jobs(); jb += 41 * sub) { set_combo(c, (unsigned)jb, true); fb.build(env, c, jb); eng.run(c); ++n; }
	for (uint64_t i = 0; i < 40; i += sub) for (int v = 1; v <= 2; ++v) { c.version = v; set_combo(c, (unsigned)(i * 5 + v), true); build_random(env, c, i); eng.run(c); ++n; }
	{ DsEngine de{ eng.emu, eng.jit, eng.stack, eng.stack_size, eng.buf_size, {} }; std::string w; de.run(env.cache, 5, 3, w); }
	std::set<uint32_t> ws(eng.emu.seen_words.begin(), eng.emu.seen_words.end());
	std::vector<uint32_t> words(ws.begin(), ws.end());
	std::string sfile = work + "/bind.s", ofile = work + "/bind.o", dfile = work + "/bind.dis";
	{ std::ofstream f(sfile); f << ".text\n"; char b[32]; for (uint32_t w : words) { snprintf(b, sizeof b, ".inst 0x%08x\n", w); f << b; } }
	std::string od = "(llvm-objdump -d --triple=aarch64 --mattr=+crypto --no-show-raw-insn %s '" + ofile + "' 2>/dev/null || llvm-objdump-14 -d --triple=aarch64 --mattr=+crypto --no-show-raw-insn %s '" + ofile + "')";
	auto odcmd = [&](const char* opt, const std::string& out) { std::string c = od; size_t p; while ((p = c.find("%s")) != std::string::npos) c.replace(p, 2, opt); return c + " > '" + out + "'"; };
	std::string cmd = "clang --target=aarch64-linux-gnu -march=armv8-a+crypto -c '" + sfile + "' -o '" + ofile + "' && " + odcmd("-M no-aliases", dfile) + " && " + odcmd("", dfile + "2");
	if (system(cmd.c_str())) { fprintf(stderr, "c19 --bindcheck: clang/llvm-objdump failed\n"); return 2; }
	auto load = [&](const std::string& path) {
		std::vector<std::string> v; std::ifstream f(path); std::string line;
		while (std::getline(f, line)) {
			size_t p = line.find(':'); if (p == std::string::npos || p == 0 || p > 16) continue;
			bool hexaddr = true; for (size_t i = 0; i < p; ++i) if (!isxdigit((unsigned char)line[i]) && line[i] != ' ') hexaddr = false;
			if (!hexaddr || line.find('<') < p) continue;
			size_t q = line.find_first_not_of(" \t", p + 1); if (q == std::string::npos) continue;
			std::string t = line.substr(q); for (char& ch : t) if (ch == '\t') ch = ' ';
			v.push_back(t);
		}
		return v;
	};
	std::vector<std::string> dis = load(dfile), dis2 = load(dfile + "2");
	if (dis2.size() != words.size()) { fprintf(stderr, "c19 --bindcheck: alias-mode disassembly has %zu lines for %zu words\n", dis2.size(), words.size()); return 2; }
	if (dis.size() != words.size()) { fprintf(stderr, "c19 --bindcheck: %zu words but %zu disassembly lines\n", words.size(), dis.size()); return 2; }
	int bad = 0, undefined = 0; (void)a;
	for (size_t i = 0; i < words.size(); ++i) {
		std::string mine = a64::Emu::describe(words[i], 4 * i), theirs = dis[i];
		if (theirs.find("<unknown>") != std::string::npos || theirs.find("udf") == 0) { ++undefined; fprintf(stderr, "bindcheck: executed word 0x%08x is undefined for llvm-objdump (emulator: %s)\n", words[i], mine.c_str()); continue; }
		std::string x = norm(mine), y = norm(theirs), y2 = norm(dis2[i]);   // y: -M no-aliases, y2: default printing (LLVM 14 prints a bogus "lsl #3" for S=0 register offsets in no-aliases mode)
		// printer aliases that LLVM 14 keeps even with -M no-aliases
		if (x != y && x != y2) {
			a64::Op o; a64::Emu::decode(words[i], o); std::string alt;
			char b[128];
			if (o.kind == a64::K_LOGIC_IMM && o.a == 1 && o.rn == 31) { snprintf(b, sizeof b, "mov%s,%lld", o.sf ? (o.rd == 31 ? "sp" : ("x" + std::to_string(o.rd)).c_str()) : ("w" + std::to_string(o.rd)).c_str(), (long long)(o.sf ? (int64_t)o.mask : (int64_t)(int32_t)o.mask)); alt = b; }
			if (o.kind == a64::K_MOVWIDE && o.a != 3) { uint64_t v = (uint64_t)o.imm << o.b; if (o.a == 0) v = ~v; if (!o.sf) v &= 0xffffffffu; snprintf(b, sizeof b, "mov%c%u,%lld", o.sf ? 'x' : 'w', o.rd, (long long)(o.sf ? (int64_t)v : (int64_t)(int32_t)v)); alt = b; }
			if (o.kind == a64::K_UBFM && o.d == 63) { snprintf(b, sizeof b, "lsrx%u,x%u,%u", o.rd, o.rn, o.c); alt = b; }
			if (o.kind == a64::K_UBFM && o.d + 1 == o.c) { snprintf(b, sizeof b, "lslx%u,x%u,%u", o.rd, o.rn, 63 - o.d); alt = b; }
			if (o.kind == a64::K_PRFM_UOFF) { static const char* pn[] = { "pldl1keep","pldl1strm","pldl2keep","pldl2strm","pldl3keep","pldl3strm" }; if (o.rd < 6) { std::string m2 = mine; size_t p = m2.find('#'); size_t q = m2.find(','); if (p != std::string::npos) m2 = "prfm " + std::string(pn[o.rd]) + m2.substr(q); alt = norm(m2); } }
			if (o.kind == a64::K_MRS_FPCR || o.kind == a64::K_MSR_FPCR) alt = x;
			if (o.kind == a64::K_MOVI) { snprintf(b, sizeof b, "moviv%u.4s,%lld", o.rd, (long long)o.imm); alt = b; }
			auto strip0 = [](std::string z) { size_t p; while ((p = z.find(",0]")) != std::string::npos) z.replace(p, 3, "]"); return z; };
			if (o.kind == a64::K_BFM) { if (o.d < o.c) snprintf(b, sizeof b, "bfix%u,x%u,%u,%u", o.rd, o.rn, 64 - o.c, o.d + 1); else snprintf(b, sizeof b, "bfxilx%u,x%u,%u,%u", o.rd, o.rn, o.c, o.d - o.c + 1); alt = b; }
			if (alt != y && alt != y2 && strip0(x) != strip0(y) && strip0(x) != strip0(y2) && norm(alt) != y) {
				// LLVM negative immediates are printed signed; ours too.  Anything left is a genuine decoder disagreement.
				++bad; fprintf(stderr, "bindcheck MISMATCH word 0x%08x: emulator '%s' llvm '%s'\n", words[i], mine.c_str(), theirs.c_str());
			}
		}
	}
	Json j = Json::obj(); j.set("programs_run", n).set("distinct_words", (unsigned long long)words.size()).set("decoder_mismatches", bad).set("undefined_for_llvm", undefined);
	{ std::ofstream o(a.self + ".bind.json"); o << j.dump() << "\n"; }
	printf("bindcheck: %zu distinct executed instruction words from %u programs, %d decoder mismatches, %d undefined for llvm-objdump\n", words.size(), n, bad, undefined);
	return (bad || undefined) ? 2 : 0;
}

// ------------------------------------------------------------------ main
int main(int argc, char** argv) {
	vf::Args a = vf::parse_args(argc, argv, "C19");
	{ char buf[4096]; ssize_t n = readlink("/proc/self/exe", buf, sizeof buf - 1); if (n > 0) { buf[n] = 0; a.self = buf; } }
	if (a.opt.count("selftest")) {
		long nc = 0; int nf = 0; int f = a64_selftest(true, &nc, &nf);
		printf("a64 emulator selftest: %d form groups, %ld checks, %d failures\n", nf, nc, f);
		return f ? 2 : 0;
	}
	if (a.opt.count("bindcheck")) return do_bindcheck(a, a.get("bindcheck"));
	if (!a.replay.empty()) return do_replay(a);

	long st_checks = 0; int st_forms = 0;
	if (a64_selftest(false, &st_checks, &st_forms)) { fprintf(stderr, "c19: emulator self-test failed: framework error\n"); return 2; }
	Plan pl; pl.thorough = a.thorough(); pl.seed = a.seed; pl.light = !a.opt.count("no-light");
	Env env; make_env(env, pl.light);
	vf::Result r = vf::run_shards(a, NSHARDS, [&](int s) { return shard_main(a, env, pl, s); }, true, 7200);
	{ std::set<std::string> seen; std::vector<vf::Violation> u; for (auto& v : r.viol) if (seen.insert(v.key).second) u.push_back(v); r.viol = u; }
	const std::string child_out = a.get("child-result");
	if (!child_out.empty()) { std::ofstream f(child_out); f << r.to_json().dump() << "\n"; return 0; }
	// the 2048-iteration subset runs in the sibling executable built for the full profile
	bool full_ran = false;
	if (!SUBSET_PROFILE && !a.opt.count("no-full") && !r.incomplete) {
		std::string sib = a.self + ".full", tmp = vf::verif_dir() + "/build/replay/c19-full-" + std::to_string(getpid()) + ".json";
		if (access(sib.c_str(), X_OK) == 0) {
			vf::mkdirs(vf::verif_dir() + "/build/replay");
			pid_t pid = fork();
			if (pid == 0) {
				std::string dl = std::to_string(a.deadline_s > 0 ? std::max(1.0, a.deadline_s - (vf::now() - a.t0)) : 0.0), seed = std::to_string(a.seed), jobs = std::to_string(a.jobs);
				execl(sib.c_str(), sib.c_str(), "--tier", a.tier.c_str(), "--seed", seed.c_str(), "--jobs", jobs.c_str(), "--deadline", dl.c_str(), "--child-result", tmp.c_str(), (char*)nullptr); _exit(127);
			}
			int stt = 0; waitpid(pid, &stt, 0);
			if (WIFEXITED(stt) && WEXITSTATUS(stt) == 0) {
				vf::Result fr = vf::Result::from_json(Json::load(tmp)); unlink(tmp.c_str()); full_ran = true;
				for (auto& kv : fr.n) { if (kv.first == "programs" || kv.first == "programs_sampled" || kv.first == "mismatches" || kv.first == "disagreements_checked" || kv.first == "guest_instructions") r.n[kv.first] += kv.second; r.n["full_profile_" + kv.first] += kv.second; }
				{ std::set<std::string> seen; for (auto& v : r.viol) seen.insert(v.key); for (auto& v : fr.viol) if (seen.insert(v.key).second) r.viol.push_back(v); }
				r.incomplete |= fr.incomplete; r.tags.insert(fr.tags.begin(), fr.tags.end());
			} else { fprintf(stderr, "c19: full-profile sibling failed: framework error\n"); return 2; }
		}
	}
	vf::Evidence ev; ev.level = "translation_validation";
	ev.coverage.set("programs", (unsigned long long)r.n["programs"]).set("disagreements_checked", (unsigned long long)r.n["disagreements_checked"]).set("exhaustive", !r.incomplete);
	ev.coverage.set("sampled_programs_not_counted_as_enumeration", (unsigned long long)r.n["programs_sampled"]);
	ev.coverage.set("profile", std::string(C19_PROFILE) + (full_ran ? "+full(subset)" : "")).set("emulator_selftest_checks", (long long)st_checks).set("emulator_selftest_form_groups", st_forms);
	ev.coverage.set("template_audit", Json::parse(C19_TEMPLATE_AUDIT));
	{ std::ifstream bf(a.self + ".bind.json"); if (bf) { std::stringstream ss; ss << bf.rdbuf(); ev.coverage.set("decoder_binding_vs_llvm_objdump", Json::parse(ss.str())); } else ev.coverage.set("decoder_binding_vs_llvm_objdump", "not run (build.py runs it)"); }
	ev.coverage.set("rule",
		"Every program buffer below is injected into the repository's InterpretedVm/InterpretedLightVm (oracle) and, via the host-compiled JitCompilerA64 plus the cross-assembled static runtime, "
		"executed by the A64 subset emulator; register file (256 B), whole scratchpad, exit rounding mode, mx/ma and AAPCS64 callee-saved state are compared. "
		"(a) all 256 opcodes x 65 (dst,src) pairs x mod set x imm32 boundary set, packed 256/384 words per program in two packings (imm-fastest and opcode-fastest, rotated by VERIF_SEED) for v1 and v2; "
		"(b) all sequences of length 2 (thorough 3) over the representative alphabet at program start/middle/end in IMUL_RCP-0 filler; "
		"(c) saturated programs for the longest encoding of every type, branch-distance, IMUL_RCP literal-register (12) and 32-bit literal (64) threshold, rounding-control and max-code programs x all 128 combinations "
		"(soft/hard AES x full/light memory x 4 config blocks x 2 scratchpad images x 4 entry rounding modes); (a),(b) rotate through the 128 combinations; "
		"(d) AES-generated programs (sampling, counted separately); (e) emitted dataset-init/SuperscalarHash code vs initDatasetItem for several keys and item ranges; "
		"the full (2048-iteration) profile re-runs (c),(d) on fewer combinations. Any instruction outside the emitters' subset, any access outside the registered buffers and any mismatch is a violation.");
	ev.assumptions = { "CompiledVm::run/execute glue for __aarch64__ (memcpy(reg.f, config.eMask), mem.memory = dataset + offset) is replicated in the harness, not executed",
		"randomx_reciprocal_fast on the host stands for the C randomx_reciprocal used on ARM (equality is property C18)",
		"FP arithmetic of the emulated NEON instructions is host IEEE-754 double arithmetic under the rounding mode/flush mode of the emulated FPCR; NaN payload/default-NaN rules are not modelled (counter fp_nan_or_subnormal_seen)",
		"the emulator implements only the instruction forms the emitters and the static runtime can produce; it is bound to the architecture by the per-form self-test and by the llvm-objdump comparison of every executed word",
		"the full-memory dataset is a synthetic image (every 2 MiB chunk shows a different window of a PRNG file), not a real 2 GiB dataset; light mode uses a real cache" };
	return vf::finish(a, r, ev);
}
