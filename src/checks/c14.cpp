// C14 - concurrent hashing and dataset initialisation over shared data are race-free.
// E-sched: real threads under a cooperative scheduler (src/common/sched.c, invisible to TSan), every schedule with
// at most B preemptions explored (iterative context bounding: 0, 1, .. B), each execution in a forked child of this
// TSan-instrumented executable.  Scheduling points: every API call, every allocation/mapping call the library makes
// (link-time --wrap), every call through cache->datasetInit.  Oracles: (1) every thread's digests and the dataset
// bytes equal the sequential reference; (2) TSan reports nothing - because the scheduler's hand-offs create no
// happens-before edge, a conflicting access pair between two operations is reported whichever order they ran in;
// (3) a free-running pass of the same bodies (no scheduler; sampling, reported separately).
#include "common/rxh.hpp"
#include "common/sched.h"
#include <pthread.h>
#include <map>
#include <tuple>
#include <sys/wait.h>

using namespace rxh;
#ifndef RX_PROFILE
#define RX_PROFILE "mini"
#endif

extern "C" {
void __tsan_read_range(void* addr, unsigned long size);
void __tsan_write_range(void* addr, unsigned long size);
}
static volatile int g_tsan_reports = 0;
extern "C" void __tsan_on_report(void*) { ++g_tsan_reports; }
extern "C" const char* __tsan_default_options() { return "halt_on_error=0:exitcode=0:report_signal_unsafe=0:second_deadlock_stack=0:history_size=2"; }

static thread_local int t_tid = -1;
// ---- scheduling points at the libc calls the library makes (-Wl,--wrap=...)
extern "C" {
void* __real_malloc(size_t); void __real_free(void*); int __real_posix_memalign(void**, size_t, size_t);
void* __real__Znwm(size_t); void __real__ZdlPv(void*);
void* __real_mmap(void*, size_t, int, int, int, off_t); int __real_munmap(void*, size_t); int __real_mprotect(void*, size_t, int);
#define SITE ((unsigned)(uintptr_t)__builtin_return_address(0))
void* __wrap_malloc(size_t n) { sch_point_ks(t_tid, 0, SITE); return __real_malloc(n); }
void __wrap_free(void* p) { sch_point_ks(t_tid, 0, SITE); __real_free(p); }
int __wrap_posix_memalign(void** o, size_t a, size_t n) { sch_point_ks(t_tid, 0, SITE); return __real_posix_memalign(o, a, n); }
void* __wrap__Znwm(size_t n) { sch_point_ks(t_tid, 0, SITE); return __real__Znwm(n); }
void __wrap__ZdlPv(void* p) { sch_point_ks(t_tid, 0, SITE); __real__ZdlPv(p); }
void* __wrap_mmap(void* a, size_t n, int p, int f, int fd, off_t o) { sch_point_ks(t_tid, 0, SITE); return __real_mmap(a, n, p, f & ~MAP_HUGETLB, fd, o); }   // no huge pages in the sandbox: LARGE_PAGES classes get ordinary pages
int __wrap_munmap(void* a, size_t n) { sch_point_ks(t_tid, 0, SITE); return __real_munmap(a, n); }
int __wrap_mprotect(void* a, size_t n, int p) { sch_point_ks(t_tid, 0, SITE); return __real_mprotect(a, n, p); }
}

// ---- shared fixture
static const char* KEY = "test key 000";
static randomx_cache* g_cache[2];          // [0] default (interpreted initialiser), [1] JIT (compiled initialiser)
static randomx_dataset* g_ds;               // fully initialised, shared by fast VMs
static randomx_dataset* g_target;           // initialised by D operations
static std::vector<uint8_t> g_ref_ds;
static randomx::DatasetInitFunc* g_real_init[2];
static const uint8_t CANARY = 0x5C;

template<int W> static void init_wrapper(randomx_cache* c, uint8_t* out, uint32_t a, uint32_t b) {
	sch_point_k(t_tid, 1);
	if (W == 1) { __tsan_read_range(c->memory, randomx::CacheSize); __tsan_write_range(out, 64ul * (b - a)); }   // effects of the emitted code, declared to the race detector
	g_real_init[W](c, out, a, b);
	sch_point_k(t_tid, 1);
}

struct OpT { int kind; int a, b, c; };   // 0 create_vm(flags a)  1 hash(input a)  2 destroy_vm  3 init_dataset(cache a, start b, count c)
                                         // 4 own: alloc+init cache (key a, extra cache flags b)  5 own: create vm  6 own: hash(a)  7 own: re-key (key a) + set_cache  8 own: destroy+release
                                         // 9 randomx_get_flags()  10 own: alloc dataset + init it from the own cache + create a fast JIT VM (replaces 5)
struct ThreadProg { std::vector<OpT> ops; };
struct Scenario { std::string name; std::vector<ThreadProg> th; };
static const char* INPUTS[3] = { "This is a test", "", "Lorem ipsum dolor sit amet" };
static const char* OWNKEYS[2] = { "own key A", "own key B with more than fifteen bytes" };

struct ThreadOut { std::vector<std::array<uint8_t, 32>> digests; bool failed = false; };
struct Ctx { const Scenario* sc; int tid; ThreadOut out; bool sched; };

static void* body(void* p) {
	Ctx* c = (Ctx*)p; t_tid = c->sched ? c->tid : -1;
	if (c->sched) sch_thread_begin(c->tid);
	randomx_vm* vm = nullptr; randomx_cache* own = nullptr; randomx_dataset* ownds = nullptr; int vmflags = 0;
	for (const OpT& o : c->sc->th[c->tid].ops) {
		if (c->sched) sch_point_k(c->tid, 1);
		switch (o.kind) {
		case 0: vmflags = o.a; vm = randomx_create_vm((randomx_flags)o.a, (o.a & RANDOMX_FLAG_FULL_MEM) ? nullptr : g_cache[1], (o.a & RANDOMX_FLAG_FULL_MEM) ? g_ds : nullptr); if (!vm) c->out.failed = true; break;
		case 1: case 6: if (vm) { std::array<uint8_t, 32> d;
			if (o.kind == 1 && (vmflags & RANDOMX_FLAG_JIT)) { if (vmflags & RANDOMX_FLAG_FULL_MEM) __tsan_read_range(g_ds->memory, randomx::DatasetSize); else __tsan_read_range(g_cache[1]->memory, randomx::CacheSize); }
			randomx_calculate_hash(vm, INPUTS[o.a], strlen(INPUTS[o.a]), d.data()); c->out.digests.push_back(d); } break;
		case 2: if (vm) randomx_destroy_vm(vm); vm = nullptr; break;
		case 3: randomx_init_dataset(g_target, g_cache[o.a], (unsigned long)o.b, (unsigned long)o.c); break;
		case 4: own = randomx_alloc_cache((randomx_flags)(RANDOMX_FLAG_JIT | o.b)); if (own) randomx_init_cache(own, OWNKEYS[o.a], strlen(OWNKEYS[o.a])); else c->out.failed = true; break;
		case 5: vmflags = RANDOMX_FLAG_JIT; if (own) vm = randomx_create_vm(RANDOMX_FLAG_JIT, own, nullptr); break;
		case 7: if (own && vm) { randomx_init_cache(own, OWNKEYS[o.a], strlen(OWNKEYS[o.a])); randomx_vm_set_cache(vm, own); } break;
		case 8: if (vm) randomx_destroy_vm(vm); vm = nullptr; if (ownds) randomx_release_dataset(ownds); ownds = nullptr; if (own) randomx_release_cache(own); own = nullptr; break;
		case 9: { volatile int f = (int)randomx_get_flags(); (void)f; break; }
		case 10: vmflags = RANDOMX_FLAG_JIT | RANDOMX_FLAG_FULL_MEM; if (own) { ownds = randomx_alloc_dataset(RANDOMX_FLAG_DEFAULT); if (ownds) { randomx_init_dataset(ownds, own, 0, randomx_dataset_item_count()); vm = randomx_create_vm((randomx_flags)vmflags, nullptr, ownds); } else c->out.failed = true; } break;
		}
	}
	if (c->sched) sch_thread_end(c->tid);
	return nullptr;
}

struct RunHdr { int ntrace; int tsan; int mismatch; int diverged; int truncated; char what[200]; };
struct RunResult : RunHdr { std::vector<sch_pt> trace; RunResult() { clear(); } void clear() { memset(static_cast<RunHdr*>(this), 0, sizeof(RunHdr)); trace.clear(); } };

// sequential reference: thread programs one after another
// Runs in a forked child: whatever the library memoises in the shared objects during the reference run must not be
// inherited by the explored executions (seeded change agent4_C14: a memo in the shared cache, warm after the reference
// run, made every explored execution read-only). Every explored execution starts from the fixture state, as the reference does.
static void reference(const Scenario& sc, std::vector<ThreadOut>& ref, std::vector<uint8_t>& ds) {
	const size_t N = randomx::DatasetSize, MAXD = 16, per = 8 + MAXD * 32, total = N + per * sc.th.size();
	uint8_t* shm = (uint8_t*)__real_mmap(nullptr, total, PROT_READ | PROT_WRITE, MAP_SHARED | MAP_ANONYMOUS, -1, 0);
	if (shm == MAP_FAILED) { fprintf(stderr, "c14: mmap for the reference run failed\n"); _exit(3); }
	fflush(stdout); fflush(stderr);
	pid_t pid = fork();
	if (pid == 0) {
		memset(g_target->memory, CANARY, N);
		for (size_t t = 0; t < sc.th.size(); ++t) {
			Ctx c{ &sc, (int)t, {}, false }; body(&c);
			uint8_t* q = shm + N + per * t; uint32_t n = (uint32_t)std::min(c.out.digests.size(), MAXD), f = c.out.failed; memcpy(q, &n, 4); memcpy(q + 4, &f, 4);
			for (uint32_t i = 0; i < n; ++i) memcpy(q + 8 + 32 * i, c.out.digests[i].data(), 32);
		}
		memcpy(shm, g_target->memory, N); _exit(0);
	}
	int st; waitpid(pid, &st, 0);
	if (!(WIFEXITED(st) && WEXITSTATUS(st) == 0)) { fprintf(stderr, "c14: the sequential reference run of '%s' terminated abnormally\n", sc.name.c_str()); _exit(3); }
	ref.clear();
	for (size_t t = 0; t < sc.th.size(); ++t) { ThreadOut o; uint8_t* q = shm + N + per * t; uint32_t n, f; memcpy(&n, q, 4); memcpy(&f, q + 4, 4); o.failed = f; for (uint32_t i = 0; i < n; ++i) { std::array<uint8_t, 32> d; memcpy(d.data(), q + 8 + 32 * i, 32); o.digests.push_back(d); } ref.push_back(o); }
	ds.assign(shm, shm + N);
	__real_munmap(shm, total);
}

static void run_once(const Scenario& sc, const std::vector<int>& prefix, bool sched, const std::vector<ThreadOut>& ref, const std::vector<uint8_t>& refds, RunResult& rr) {
	rr.clear(); memset(g_target->memory, CANARY, randomx::DatasetSize); g_tsan_reports = 0;
	int n = (int)sc.th.size(); std::vector<Ctx> ctx; for (int t = 0; t < n; ++t) ctx.push_back(Ctx{ &sc, t, {}, sched });
	if (sched) sch_init(n, prefix.data(), (int)prefix.size()); else sch_disable();
	std::vector<pthread_t> th(n);
	for (int t = 0; t < n; ++t) pthread_create(&th[t], nullptr, body, &ctx[t]);
	for (int t = 0; t < n; ++t) pthread_join(th[t], nullptr);
	sch_disable();
	for (int t = 0; t < n; ++t) {
		if (ctx[t].out.failed || ctx[t].out.digests.size() != ref[t].digests.size()) { rr.mismatch = 1; snprintf(rr.what, sizeof rr.what, "thread %d: an operation failed", t); }
		else for (size_t i = 0; i < ref[t].digests.size(); ++i) if (ctx[t].out.digests[i] != ref[t].digests[i]) { rr.mismatch = 1; snprintf(rr.what, sizeof rr.what, "thread %d: digest %zu differs from the sequential execution", t, i); }
	}
	if (memcmp(g_target->memory, refds.data(), randomx::DatasetSize)) { rr.mismatch = 1; size_t i = 0; while (g_target->memory[i] == refds[i]) ++i; snprintf(rr.what, sizeof rr.what, "dataset differs from the sequential execution at item %zu", i / 64); }
	rr.tsan = g_tsan_reports; rr.diverged = sched ? sch_diverged() : 0;
	if (sched) { const sch_pt* tr; int k = sch_trace(&tr); rr.ntrace = std::min(k, (int)SCH_MAXP); rr.truncated = k >= (int)SCH_MAXP; rr.trace.assign(tr, tr + rr.ntrace); }
}

// one schedule in a forked child; TSan's report text goes to a file
static bool run_child(const Scenario& sc, const std::vector<int>& prefix, bool sched, const std::vector<ThreadOut>& ref, const std::vector<uint8_t>& refds, RunResult& rr, std::string* tsan_text) {
	int pfd[2]; if (pipe(pfd)) return false;
	char path[64]; snprintf(path, sizeof path, "/tmp/c14.tsan.%d", (int)getpid());
	fflush(stdout); fflush(stderr);
	pid_t pid = fork();
	if (pid == 0) {
		close(pfd[0]); int fd = open(path, O_WRONLY | O_CREAT | O_TRUNC, 0600); if (fd >= 0) { dup2(fd, 2); close(fd); }
		RunResult r; run_once(sc, prefix, sched, ref, refds, r);
		if (write(pfd[1], static_cast<RunHdr*>(&r), sizeof(RunHdr))) {} size_t nb = sizeof(sch_pt) * r.trace.size(), off = 0; while (off < nb) { ssize_t k = write(pfd[1], (const char*)r.trace.data() + off, nb - off); if (k <= 0) break; off += (size_t)k; } _exit(0);
	}
	close(pfd[1]); rr.clear(); size_t got = 0; auto rd = [&](void* dst, size_t n) { size_t g = 0; while (g < n) { ssize_t k = read(pfd[0], (char*)dst + g, n - g); if (k <= 0) break; g += (size_t)k; } return g; };
	got = rd(static_cast<RunHdr*>(&rr), sizeof(RunHdr)); bool full = got == sizeof(RunHdr);
	if (full && rr.ntrace > 0 && rr.ntrace <= (int)SCH_MAXP) { rr.trace.resize((size_t)rr.ntrace); full = rd(rr.trace.data(), sizeof(sch_pt) * (size_t)rr.ntrace) == sizeof(sch_pt) * (size_t)rr.ntrace; }
	close(pfd[0]); int st; waitpid(pid, &st, 0);
	if (tsan_text) { tsan_text->clear(); FILE* f = fopen(path, "r"); if (f) { char line[300]; int n = 0; while (fgets(line, sizeof line, f) && n < 40) { if (strstr(line, "WARNING: ThreadSanitizer") || strstr(line, "Location is") || strstr(line, " #0 ") || strstr(line, "Write of size") || strstr(line, "Read of size") || strstr(line, "Previous")) { *tsan_text += line; ++n; } } fclose(f); } }
	unlink(path);
	return full && WIFEXITED(st) && WEXITSTATUS(st) == 0;
}

static std::vector<Scenario> scenarios(bool th) {
	std::vector<Scenario> v; auto& FS = vm_flagsets();
	auto V = [&](int f, int x, bool v2 = false) { return ThreadProg{ { { 0, f | (v2 ? RANDOMX_FLAG_V2 : 0), 0, 0 }, { 1, x, 0, 0 }, { 2, 0, 0, 0 } } }; };
	// all ordered pairs of flag sets sharing the cache / the dataset (quick: each set with itself and with its ring neighbour)
	for (size_t i = 0; i < FS.size(); ++i) for (size_t j = 0; j < FS.size(); ++j) {
		if (!th && !(i == j || j == (i + 5) % FS.size())) continue;
		v.push_back({ std::string("V(") + FS[i].name + ") || V(" + FS[j].name + ")", { V(FS[i].flags, 0), V(FS[j].flags, (int)((i + j) % 3)) } });
	}
	// mixed algorithm versions on different threads (each thread's VM is its own; per-version state must not be process-wide)
	for (size_t i = 0; i < FS.size(); ++i) {
		if (!th && (FS[i].flags & RANDOMX_FLAG_SECURE)) continue;
		size_t j = th ? (i + 3) % FS.size() : i;
		v.push_back({ std::string("V(") + FS[i].name + ",v1) || V(" + FS[j].name + ",v2)", { V(FS[i].flags, 1, false), V(FS[j].flags, 1, true) } });
	}
	v.push_back({ "V(jit-soft-light,v2) || V(jit-hard-fast,v2)", { V(RANDOMX_FLAG_JIT, 0, true), V(RANDOMX_FLAG_JIT | RANDOMX_FLAG_HARD_AES | RANDOMX_FLAG_FULL_MEM, 2, true) } });
	// dataset initialisation on disjoint ranges from one cache: blocks of a partition, incl. <4-item and remainder blocks side by side
	uint64_t N = randomx::DatasetSize / 64;
	for (int which = 0; which < 2; ++which) {
		v.push_back({ std::string("D[0,3) || D[3,10) ") + (which ? "compiled" : "interpreted"), { { { { 3, which, 0, 3 } } }, { { { 3, which, 3, 7 } } } } });
		v.push_back({ std::string("D[8,10) || D[10,11) || D[11,24) ") + (which ? "compiled" : "interpreted"), { { { { 3, which, 8, 2 } } }, { { { 3, which, 10, 1 } } }, { { { 3, which, 11, 13 } } } } });
		v.push_back({ std::string("D[N-9,N-4) || D[N-4,N-1) || D[N-1,N) ") + (which ? "compiled" : "interpreted"), { { { { 3, which, (int)(N - 9), 5 } } }, { { { 3, which, (int)(N - 4), 3 } } }, { { { 3, which, (int)(N - 1), 1 } } } } });
		v.push_back({ std::string("D[0,N/2) || D[N/2,N) ") + (which ? "compiled" : "interpreted"), { { { { 3, which, 0, (int)(N / 2) } } }, { { { 3, which, (int)(N / 2), (int)(N - N / 2) } } } } });
		v.push_back({ std::string("D[0,6);D[6,8) || D[8,9);D[9,16) ") + (which ? "compiled" : "interpreted"), { { { { 3, which, 0, 6 }, { 3, which, 6, 2 } } }, { { { 3, which, 8, 1 }, { 3, which, 9, 7 } } } } });
	}
	// operations on objects nobody else uses, next to a thread hashing on the shared cache
	ThreadProg own{ { { 4, 0, 0, 0 }, { 5, 0, 0, 0 }, { 6, 0, 0, 0 }, { 7, 1, 0, 0 }, { 6, 1, 0, 0 }, { 8, 0, 0, 0 } } };
	v.push_back({ "O(own cache lifecycle) || V(jit-hard-light)", { own, V(RANDOMX_FLAG_JIT | RANDOMX_FLAG_HARD_AES, 0) } });
	v.push_back({ "O || O", { own, own } });
	v.push_back({ "O || D[0,5) compiled", { own, { { { 3, 1, 0, 5 } } } } });
	// rarely used paths next to each other: other Argon2 implementations, own datasets, LARGE_PAGES classes, randomx_get_flags
	for (int ar : { (int)RANDOMX_FLAG_ARGON2_AVX2, (int)RANDOMX_FLAG_ARGON2_SSSE3 }) {
		ThreadProg oa{ { { 9, 0, 0, 0 }, { 4, 0, ar, 0 }, { 5, 0, 0, 0 }, { 6, 0, 0, 0 }, { 8, 0, 0, 0 } } }, ob{ { { 4, 1, ar, 0 }, { 9, 0, 0, 0 }, { 5, 0, 0, 0 }, { 6, 1, 0, 0 }, { 8, 0, 0, 0 } } };
		v.push_back({ std::string("O(") + (ar == (int)RANDOMX_FLAG_ARGON2_AVX2 ? "avx2" : "ssse3") + ",get_flags) || O(same implementation, other key)", { oa, ob } });
	}
	{ ThreadProg od{ { { 4, 0, 0, 0 }, { 10, 0, 0, 0 }, { 6, 0, 0, 0 }, { 8, 0, 0, 0 } } };
	  v.push_back({ "OD(own cache + own dataset + fast VM) || V(jit-soft-fast)", { od, V(RANDOMX_FLAG_JIT | RANDOMX_FLAG_FULL_MEM, 1) } });
	  v.push_back({ "OD || OD", { od, od } }); }
	v.push_back({ "V(jit-hard-light+LARGE_PAGES) || V(sec-soft-light+LARGE_PAGES)", { V(RANDOMX_FLAG_JIT | RANDOMX_FLAG_HARD_AES | RANDOMX_FLAG_LARGE_PAGES, 0), V(RANDOMX_FLAG_JIT | RANDOMX_FLAG_SECURE | RANDOMX_FLAG_LARGE_PAGES, 1) } });
	v.push_back({ "V(int-soft-fast+LARGE_PAGES) || V(int-soft-fast+LARGE_PAGES)", { V(RANDOMX_FLAG_FULL_MEM | RANDOMX_FLAG_LARGE_PAGES, 0), V(RANDOMX_FLAG_FULL_MEM | RANDOMX_FLAG_LARGE_PAGES, 2) } });
	if (th) v.push_back({ "V(int-hard-light) || V(jit-soft-fast) || V(sec-hard-light)", { V(RANDOMX_FLAG_HARD_AES, 0), V(RANDOMX_FLAG_FULL_MEM | RANDOMX_FLAG_JIT, 1), V(RANDOMX_FLAG_JIT | RANDOMX_FLAG_SECURE | RANDOMX_FLAG_HARD_AES, 2) } });
	return v;
}

static vf::Json sched_json(const std::vector<int>& s) { vf::Json a = vf::Json::arr(); for (int x : s) a.push(x); return a; }

int main(int argc, char** argv) {
	vf::Args args = vf::parse_args(argc, argv, "C14");
	if (!args.get("as").empty()) args.prop = args.get("as");   // the dataset scenarios also serve C08 (thread assignment of init_dataset calls)
	const bool th = args.thorough();
	const int bound = atoi(args.get("bound", th ? "3" : "2").c_str());
	const long cap = atol(args.get("cap", th ? "3000" : "300").c_str());    // schedules per scenario (reported if hit)
	std::vector<Scenario> SC = scenarios(th);
	if (args.get("only-dataset") == "1") { std::vector<Scenario> d; for (auto& x : SC) if (x.name.rfind("D[", 0) == 0) d.push_back(x); SC = d; }
	auto fixture = [&]() {
		g_cache[0] = randomx_alloc_cache(RANDOMX_FLAG_DEFAULT); g_cache[1] = randomx_alloc_cache(RANDOMX_FLAG_JIT);
		randomx_init_cache(g_cache[0], KEY, strlen(KEY)); randomx_init_cache(g_cache[1], KEY, strlen(KEY));
		g_ds = randomx_alloc_dataset(RANDOMX_FLAG_DEFAULT); randomx_init_dataset(g_ds, g_cache[1], 0, randomx_dataset_item_count());
		g_target = randomx_alloc_dataset(RANDOMX_FLAG_DEFAULT);
		for (int w = 0; w < 2; ++w) g_real_init[w] = g_cache[w]->datasetInit;
		g_cache[0]->datasetInit = &init_wrapper<0>; g_cache[1]->datasetInit = &init_wrapper<1>;
	};
	if (!args.replay.empty()) {
		vf::Json r = vf::Json::load(args.replay); fixture(); const Scenario* sc = nullptr; for (auto& s : SC) if (s.name == r.at("scenario").s) sc = &s;
		if (!sc) { printf("replay: unknown scenario\n"); return 2; }
		std::vector<int> pre; for (auto& x : r.at("schedule").a) pre.push_back((int)x.num());
		std::vector<ThreadOut> ref; std::vector<uint8_t> refds; reference(*sc, ref, refds);
		RunResult a, b; std::string text; bool sched = r.at("scheduled").b;
		if (!run_child(*sc, pre, sched, ref, refds, a, &text)) { printf("replay: execution terminated abnormally\n"); return 1; }
		if (!sched) for (int tries = 0; tries < 200 && !(a.tsan || a.mismatch); ++tries) { if (!run_child(*sc, pre, false, ref, refds, a, &text)) { printf("replay: execution terminated abnormally\n"); return 1; } }   // a free-running execution is not deterministic: repeat
		if (sched) { run_child(*sc, pre, true, ref, refds, b, nullptr); if (a.ntrace != b.ntrace || memcmp(a.trace.data(), b.trace.data(), sizeof(sch_pt) * (size_t)a.ntrace) || a.diverged) { printf("replay: schedule is not reproducible (harness error)\n"); return 2; } }
		printf("replay %s: tsan reports %d, result mismatch %d %s\n%s", sc->name.c_str(), a.tsan, a.mismatch, a.what, text.c_str());
		return (a.tsan || a.mismatch) ? 1 : 0;
	}
	vf::Result total = vf::run_shards(args, (int)SC.size(), [&](int shard) {
		vf::Result R; fixture(); const Scenario& sc = SC[shard];
		std::vector<ThreadOut> ref; std::vector<uint8_t> refds; reference(sc, ref, refds);
		std::set<std::string> outcomes; long runs = 0; bool capped = false; int completed_bound = -1;
		auto report = [&](const std::vector<int>& sch, bool scheduled, const RunResult& rr, const std::string& text) {
			if (R.viol.size() >= 2) return;
			vf::Violation v; std::string loc; size_t p = text.find("Location is"); if (p != std::string::npos) loc = text.substr(p, text.find('\n', p) - p);
			std::string g; size_t q = loc.find('\''); if (q != std::string::npos) g = loc.substr(q + 1, loc.find('\'', q + 1) - q - 1);
			v.key = rr.tsan ? "c14:race:" + (g.empty() ? std::string("unknown") : g) : "c14:result";
			v.what = sc.name + ": " + (rr.tsan ? "data race reported by TSan (" + (loc.empty() ? std::string("see replay") : loc) + ")" : std::string(rr.what)) + (scheduled ? " under schedule of " + std::to_string(sch.size()) + " choices" : " in the free-running pass");
			v.replay = vf::Json::obj().set("scenario", sc.name).set("schedule", sched_json(sch)).set("scheduled", scheduled).set("tsan_text", text);
			R.viol.push_back(v);
		};
		// iterative context bounding: all schedules with at most b preemptions, b = 0..bound
		int phase = 0;   // 0: preemptions only at operation-level points (API call boundaries, datasetInit calls); 1: at every point (also inside operations: allocation / mapping calls)
		std::function<void(const std::vector<int>&, int)> explore = [&](const std::vector<int>& prefix, int b) {
			if (capped || R.viol.size() >= 2) return;
			if (runs >= cap) { capped = true; return; }
			RunResult rr; std::string text; ++runs;
			bool ok = run_child(sc, prefix, true, ref, refds, rr, &text);
			R.n["schedules"]++; R.n["scheduling_points"] += ok ? rr.ntrace : 0;
			if (!ok) { RunResult z; z.mismatch = 1; snprintf(z.what, sizeof z.what, "execution terminated abnormally"); report(prefix, true, z, text); return; }
			if (rr.truncated) { R.n["executions_with_truncated_trace"]++; R.incomplete = true; }
			if (rr.diverged) { fprintf(stderr, "c14: schedule prefix diverged on replay (nondeterminism the harness does not own) in %s\n", sc.name.c_str()); _exit(3); }
			std::vector<int> full; for (int i = 0; i < rr.ntrace; ++i) full.push_back(rr.trace[i].chosen);
			outcomes.insert(std::to_string(rr.tsan > 0) + "/" + std::to_string(rr.mismatch) + "/" + std::to_string(rr.ntrace));
			if (rr.tsan || rr.mismatch) { report(full, true, rr, text); return; }
			// candidate points inside operations: per (thread, operation, call site) only the first two and the last dynamic occurrence - points reached again and
			// again from one call site inside one operation (allocation in a loop) are represented by those; operation-level points are always candidates
			std::vector<char> cand((size_t)rr.ntrace, 1);
			{ std::map<std::tuple<int, int, unsigned>, std::vector<int>> occ; int opidx[SCH_MAXT] = { 0 };
			  for (int i = 0; i < rr.ntrace; ++i) { const sch_pt& q = rr.trace[i]; if (q.running < 0) continue; if (q.kind == 1) { ++opidx[q.running]; continue; } occ[std::make_tuple(q.running, opidx[q.running], q.site)].push_back(i); }
			  for (auto& kv : occ) { auto& v = kv.second; for (size_t k = 2; k + 1 < v.size(); ++k) cand[(size_t)v[k]] = 0; } }
			// preemptions already used by this execution up to point i
			int used = 0;
			for (int i = 0; i < rr.ntrace; ++i) {
				const sch_pt& p = rr.trace[i];
				if (i >= (int)prefix.size()) {
					for (int alt = 0; alt < (int)sc.th.size(); ++alt) {
						if (alt == p.chosen || !(p.enabled & (1u << alt))) continue;
						int cost = used + ((p.running >= 0 && alt != p.running) ? 1 : 0);
						if (cost > b) continue;
						if (phase == 0 && p.kind != 1 && p.running >= 0 && alt != p.running) continue;
						if (phase == 1 && !cand[(size_t)i] && p.running >= 0 && alt != p.running) continue;
						std::vector<int> np(full.begin(), full.begin() + i); np.push_back(alt);
						explore(np, b);
					}
				}
				if (p.running >= 0 && p.chosen != p.running) ++used;
			}
		};
		// phase 0 first (few points, deeper bound), then phase 1 with its own budget: when a cap cuts the search short it cuts the least valuable part
		int completed_op = -1; long runs_op = 0; bool capped_op = false;
		std::string per_bound;
		phase = 0; for (int b = 0; b <= bound + 1 && !capped && R.viol.empty(); ++b) { long before = runs; explore({}, b); if (!capped && R.viol.empty()) completed_op = b; per_bound += (b ? "/" : "") + std::to_string(runs - before); }
		runs_op = runs; capped_op = capped; runs = 0; capped = false;
		phase = 1; for (int b = 0; b <= bound && !capped && R.viol.empty(); ++b) { explore({}, b); if (!capped && R.viol.empty()) completed_bound = b; }
		runs += runs_op;
		R.mx["preemption_bound_completed"] = (uint64_t)std::max(completed_bound, 0); R.mx["op_level_preemption_bound_completed"] = (uint64_t)std::max(completed_op, 0);
		if (capped || capped_op) { R.n["scenarios_capped"]++; R.incomplete = true; }
		R.n["scenarios"]++; R.n["distinct_outcomes"] += outcomes.size();
		R.tags.insert(sc.name + ": " + std::to_string(runs) + " schedules; operation-level preemptions: bound completed " + std::to_string(completed_op) + " [" + per_bound + " schedules per bound]" + (capped_op ? " (cap hit)" : "") + "; all points: bound completed " + std::to_string(completed_bound) + (capped ? " (cap hit)" : ""));
		// free-running pass (sampling; never the deciding step)
		if (R.viol.empty()) for (int rep = 0; rep < (th ? 100 : 20); ++rep) { RunResult rr; std::string text; bool ok = run_child(sc, {}, false, ref, refds, rr, &text); R.n["free_running_runs"]++; if (!ok || rr.tsan || rr.mismatch) { if (!ok) { rr.mismatch = 1; snprintf(rr.what, sizeof rr.what, "execution terminated abnormally"); } report({}, false, rr, text); break; } }
		if (shard < 2) R.sample(vf::Json::obj().set("scenario", sc.name).set("threads", (int)sc.th.size()).set("schedule_example", "thread ids chosen at each scheduling point, e.g. [0,0,0,1,1,0,...]"), 2);
		return R;
	}, false, 7200);
	vf::Evidence ev; ev.level = "model_checking";
	ev.coverage.set("states", (unsigned long long)total.n["scheduling_points"]).set("transitions", (unsigned long long)total.n["scheduling_points"]).set("traces_validated_against_impl", (unsigned long long)total.n["schedules"])
		.set("evaluations", (unsigned long long)total.n["schedules"]).set("distinct_nontrivial", (unsigned long long)total.n["scenarios"])
		.set("schedules", (unsigned long long)total.n["schedules"]).set("preemption_bound", bound).set("exhaustive", !total.incomplete)
		.set("free_running_sampled_runs", (unsigned long long)total.n["free_running_runs"])
		.set("rule", std::string("profile ") + RX_PROFILE + ", TSan build: scenarios = pairs of V(f,X)=create_vm/hash/destroy over the shared cache or dataset (" + (th ? "all 144 ordered pairs of the 12 flag sets" : "each flag set with itself and with a ring neighbour") + "), init_dataset on disjoint blocks of partitions (compiled and interpreted initialiser; <4-item, remainder and tail blocks side by side), own-object lifecycles next to shared use (own caches with each Argon2 implementation, own datasets with fast VMs, randomx_get_flags), LARGE_PAGES VM classes (ordinary pages); for each scenario first every schedule with at most bound+1 preemptions placed at operation-level points (API call boundaries, datasetInit calls), then every schedule with at most the stated number of preemptions at operation-level points and at the allocation/mapping calls inside operations (per thread, operation and call site: the first two and the last dynamic occurrence), each phase with its own schedule budget, each executed on the implementation in a fresh process; oracle = sequential results + no TSan report (hand-offs invisible to TSan); 'states' counts scheduling points visited, 'transitions' the choices taken");
	ev.assumptions = { "accesses made by JIT-emitted code and static assembly are visible to the race detector only through the ranges declared at the call boundary", "weak-memory reorderings are not modelled (irrelevant for read-only sharing, which the absence of conflicting pairs establishes)", "TSan's allocator decides block placement; address reuse is not an explored dimension here" };
	return vf::finish(args, total, ev, true, true);
}
