// C11 - Blake2b and the commitment conform to RFC 7693.
// E-hist over the streaming state machine (blake2b_state is a POD, so states are copied and compared):
// state n = "n message bytes consumed"; EVERY update of every chunk length from every n must land on the
// canonical state of n+k, and final() from every n must give the model's digest of the n-byte prefix.
// Because equal states have equal futures this covers all 2^(L-1) chunkings of every prefix.
#include "specmodel/specmodel.hpp"
#include "common/rxh.hpp"

struct Canon { uint64_t h[8], t[2], f[2]; unsigned buflen, outlen; uint8_t last; uint8_t buf[128]; };
static Canon canon(const blake2b_state& s) {
	Canon c; memset(&c, 0, sizeof c); memcpy(c.h, s.h, 64); memcpy(c.t, s.t, 16); memcpy(c.f, s.f, 16); c.buflen = s.buflen; c.outlen = s.outlen; c.last = s.last_node;
	if (s.buflen <= 128) memcpy(c.buf, s.buf, s.buflen); return c;
}
static std::vector<uint8_t> message(size_t n, int pat) { std::vector<uint8_t> m(n); for (size_t i = 0; i < n; ++i) m[i] = pat == 0 ? (uint8_t)i : pat == 1 ? (uint8_t)(i * 151 + (i >> 7) * 13 + 7) : (uint8_t)0xFF; return m; }
static std::vector<uint8_t> keybytes(size_t n) { std::vector<uint8_t> k(n); for (size_t i = 0; i < n; ++i) k[i] = (uint8_t)(0xA0 + i * 3); return k; }

static int rx_init(blake2b_state* S, size_t outlen, const std::vector<uint8_t>& key) { return key.empty() ? blake2b_init(S, outlen) : blake2b_init_key(S, outlen, key.data(), key.size()); }

// one streaming graph; returns "" or first discrepancy. counts states/transitions.
static std::string graph(size_t Lmax, size_t outlen, size_t keylen, int pat, vf::Result& R, vf::Json* where) {
	auto M = message(Lmax, pat); auto key = keybytes(keylen);
	std::vector<Canon> st(Lmax + 1); std::vector<blake2b_state> raw(Lmax + 1); std::vector<char> have(Lmax + 1, 0);
	if (rx_init(&raw[0], outlen, key) != 0) return "init failed";
	st[0] = canon(raw[0]); have[0] = 1;
	for (size_t n = 0; n <= Lmax; ++n) {
		if (!have[n]) return "state " + std::to_string(n) + " unreachable (harness)";
		// final from n
		{
			blake2b_state s = raw[n]; uint8_t out[64], ref[64]; memset(out, 0xAA, 64);
			if (blake2b_final(&s, out, outlen) != 0) return "final failed at n=" + std::to_string(n);
			spec::blake2b_ref(ref, outlen, M.data(), n, key.empty() ? nullptr : key.data(), key.size());
			R.n["transitions"]++; R.n["finals"]++;
			if (memcmp(out, ref, outlen)) { if (where) where->set("n", (unsigned long long)n).set("k", -1); return "digest of the " + std::to_string(n) + "-byte prefix differs from RFC 7693 (outlen " + std::to_string(outlen) + ", keylen " + std::to_string(keylen) + ")"; }
			for (size_t i = outlen; i < 64; ++i) if (out[i] != 0xAA) return "final wrote beyond outlen";
			// a finalised state must refuse further use
			if (blake2b_update(&s, M.data(), 1) != -1) return "update after final did not fail";
		}
		for (size_t k = 0; n + k <= Lmax; ++k) {
			blake2b_state s = raw[n];
			if (blake2b_update(&s, M.data() + n, k) != 0) return "update failed";
			R.n["transitions"]++;
			Canon c = canon(s);
			if (!have[n + k]) { st[n + k] = c; raw[n + k] = s; have[n + k] = 1; R.n["states"]++; }
			else if (memcmp(&c, &st[n + k], sizeof c)) { if (where) where->set("n", (unsigned long long)n).set("k", (unsigned long long)k); return "update(" + std::to_string(k) + " bytes) from state " + std::to_string(n) + " does not reach the canonical state " + std::to_string(n + k) + " (chunking changes the result)"; }
		}
	}
	R.n["states"]++;   // state 0
	return "";
}

static std::string oneshot(size_t len, size_t outlen, size_t keylen, int pat) {
	auto M = message(len, pat); auto key = keybytes(keylen);
	uint8_t out[66], ref[64]; memset(out, 0xAA, 66);
	int rc = blake2b(out + 1, outlen, M.data(), len, key.empty() ? nullptr : key.data(), key.size());
	if (rc != 0) return "blake2b() failed";
	spec::blake2b_ref(ref, outlen, M.data(), len, key.empty() ? nullptr : key.data(), key.size());
	if (memcmp(out + 1, ref, outlen)) return "blake2b(len " + std::to_string(len) + ", outlen " + std::to_string(outlen) + ", keylen " + std::to_string(keylen) + ") differs from RFC 7693";
	if (out[0] != 0xAA || out[1 + outlen] != 0xAA) return "blake2b() wrote outside the output buffer";
	return "";
}

// long messages: one-shot and in two/three chunks whose sizes put a LARGE remainder into one update() call (a bulk path for many blocks at once is only
// entered there; seeded change agent8_C02: 8-block bulk loop swallows the last block when the remainder is an exact multiple of 1024)
static std::string long_case(size_t len, size_t first, size_t outlen, size_t keylen) {
	auto M = message(len, (int)(len % 3)); auto key = keybytes(keylen); uint8_t ref[64], got[64];
	spec::blake2b_ref(ref, outlen, M.data(), len, key.empty() ? nullptr : key.data(), key.size());
	if (blake2b(got, outlen, M.data(), len, key.empty() ? nullptr : key.data(), key.size()) != 0) return "blake2b() failed";
	if (memcmp(got, ref, outlen)) return "blake2b(len " + std::to_string(len) + ", outlen " + std::to_string(outlen) + ", keylen " + std::to_string(keylen) + ") differs from RFC 7693";
	if (first <= len) { blake2b_state S; if (keylen) blake2b_init_key(&S, outlen, key.data(), keylen); else blake2b_init(&S, outlen);
		blake2b_update(&S, M.data(), first); blake2b_update(&S, M.data() + first, len - first); blake2b_final(&S, got, outlen);
		if (memcmp(got, ref, outlen)) return "update(" + std::to_string(first) + ") + update(" + std::to_string(len - first) + ") differs from RFC 7693 (outlen " + std::to_string(outlen) + ", keylen " + std::to_string(keylen) + ")"; }
	return "";
}
static std::vector<size_t> long_lengths(bool th) {
	std::vector<size_t> v; for (size_t l = 0; l <= (th ? 16640u : 8448u); ++l) v.push_back(l);                     // every length up to 66 (thorough 130) blocks
	for (int k = 14; k <= 21; ++k) for (long d : { -129L, -128L, -1L, 0L, 1L, 127L, 128L, 129L }) v.push_back((size_t)((1L << k) + d));
	for (size_t k = 1; k <= 1024; k *= 2) { v.push_back(128 + 1024 * k); v.push_back(1024 * k); v.push_back(256 + 1024 * k); }
	return v;
}

static std::string rejections() {
	uint8_t out[80]; uint8_t in[8] = { 1, 2, 3 }; uint8_t key[80] = { 9 };
	auto clean = [&]() { for (int i = 0; i < 80; ++i) if (out[i] != 0xAA) return false; return true; };
	auto reset = [&]() { memset(out, 0xAA, 80); };
	reset(); if (blake2b(out + 8, 0, in, 3, nullptr, 0) != -1 || !clean()) return "outlen 0 not rejected cleanly";
	reset(); if (blake2b(out + 8, 65, in, 3, nullptr, 0) != -1 || !clean()) return "outlen 65 not rejected cleanly";
	reset(); if (blake2b(out + 8, 32, in, 3, key, 65) != -1 || !clean()) return "keylen 65 not rejected cleanly";
	reset(); if (blake2b(out + 8, 32, nullptr, 3, nullptr, 0) != -1 || !clean()) return "NULL input with non-zero length not rejected cleanly";
	reset(); if (blake2b(out + 8, 32, in, 3, nullptr, 5) != -1 || !clean()) return "NULL key with non-zero length not rejected cleanly";
	if (blake2b(nullptr, 32, in, 3, nullptr, 0) != -1) return "NULL output not rejected";
	blake2b_state S;
	if (blake2b_init(&S, 0) != -1 || blake2b_init(&S, 65) != -1) return "blake2b_init accepts an invalid outlen";
	if (blake2b_init_key(&S, 32, key, 0) != -1 || blake2b_init_key(&S, 32, key, 65) != -1 || blake2b_init_key(&S, 32, nullptr, 8) != -1 || blake2b_init_key(&S, 0, key, 8) != -1) return "blake2b_init_key accepts invalid parameters";
	if (blake2b_init(&S, 48) != 0) return "init 48 failed";
	blake2b_update(&S, in, 3);
	reset(); if (blake2b_final(&S, out + 8, 47) != -1 || !clean()) return "final into a too small buffer not rejected cleanly";
	if (blake2b_update(&S, nullptr, 4) != -1) return "update(NULL, 4) not rejected";
	if (blake2b_update(&S, nullptr, 0) != 0) return "update(NULL, 0) must be a no-op";
	reset(); if (blake2b_final(&S, out + 8, 48) != 0) return "final after rejected calls failed";
	uint8_t ref[64]; spec::blake2b_ref(ref, 48, in, 3); if (memcmp(out + 8, ref, 48)) return "rejected calls disturbed the state";
	return "";
}

// counter handling with an injected counter: state after j full blocks gets t0 set so that the next increments carry
static std::string counter_case(uint64_t t0, uint64_t t1, size_t more, size_t outlen) {
	auto M = message(256 + more, 1);
	blake2b_state S; blake2b_init(&S, outlen); blake2b_update(&S, M.data(), 256);   // 128 bytes compressed, 128 buffered
	spec::Blake2b m; m.init(outlen); m.update(M.data(), 256);
	S.t[0] = t0; S.t[1] = t1; m.set_counter(t0, t1);
	blake2b_update(&S, M.data() + 256, more); m.update(M.data() + 256, more);
	uint8_t a[64], b[64]; if (blake2b_final(&S, a, outlen) != 0) return "final failed"; m.final(b);
	if (memcmp(a, b, outlen)) return "digest with byte counter starting at t0=" + vf::hex64(t0) + " t1=" + vf::hex64(t1) + " (+" + std::to_string(more) + " bytes) differs from RFC 7693 (128-bit counter carry)";
	return "";
}

// Messages longer than 4 GiB handed over in ONE call (added after seeded change agent5_C11: a 32-bit length inside blake2b_update
// is invisible to any message streamed in smaller pieces). The message is a private zero-page mapping (no RAM) with a few
// patterned pages; the reference is the library's own streaming interface in 1 MiB chunks (chunking independence; the streamed
// digest of such a message is compared with the model in the thorough tier).
static const uint64_t HUGE_N = (1ull << 32) + 4873;
static uint8_t* huge_msg() {
	static uint8_t* big = nullptr;
	if (!big) { big = (uint8_t*)mmap(nullptr, HUGE_N, PROT_READ | PROT_WRITE, MAP_PRIVATE | MAP_ANONYMOUS | MAP_NORESERVE, -1, 0); if (big == MAP_FAILED) { fprintf(stderr, "c11: cannot map the 4 GiB message\n"); _exit(3); }
		for (uint64_t i = 0; i < 300; ++i) { big[i] = (uint8_t)(i * 7 + 1); big[HUGE_N - 1 - i] = (uint8_t)(i * 11 + 3); big[(1ull << 32) - 150 + i] = (uint8_t)(i * 13 + 5); } }
	return big;
}
static std::string huge_case(int mode, bool with_model) {
	uint8_t* big = huge_msg(); uint8_t key[32]; for (int i = 0; i < 32; ++i) key[i] = (uint8_t)(0x40 + i); uint8_t h32[32]; for (int i = 0; i < 32; ++i) h32[i] = (uint8_t)(0x80 + 3 * i);
	const size_t outlen = mode == 3 ? 32 : 64; uint8_t ref[64], got[64], mdl[64];
	{ blake2b_state S; spec::Blake2b m; if (mode == 2) { blake2b_init_key(&S, outlen, key, 32); if (with_model) m.init(outlen, key, 32); } else { blake2b_init(&S, outlen); if (with_model) m.init(outlen); }
	  for (uint64_t done = 0; done < HUGE_N; ) { size_t n = (size_t)std::min<uint64_t>(1 << 20, HUGE_N - done); blake2b_update(&S, big + done, n); if (with_model) m.update(big + done, n); done += n; }
	  if (mode == 3) { blake2b_update(&S, h32, 32); if (with_model) m.update(h32, 32); }
	  blake2b_final(&S, ref, outlen); if (with_model) { m.final(mdl); if (memcmp(ref, mdl, outlen)) return "streamed digest of a 2^32+4873 byte message differs from RFC 7693"; } }
	const char* what = "";
	switch (mode) {
	case 0: what = "one-shot blake2b()"; if (blake2b(got, 64, big, HUGE_N, nullptr, 0) != 0) return "blake2b() rejected a 2^32+4873 byte message"; break;
	case 1: { what = "update(77) + update(2^32+4796)"; blake2b_state S; blake2b_init(&S, 64); blake2b_update(&S, big, 77); blake2b_update(&S, big + 77, HUGE_N - 77); blake2b_final(&S, got, 64); break; }
	case 2: { what = "keyed, one update of 2^32+4873 bytes"; blake2b_state S; blake2b_init_key(&S, 64, key, 32); blake2b_update(&S, big, HUGE_N); blake2b_final(&S, got, 64); break; }
	default: what = "randomx_calculate_commitment on a 2^32+4873 byte input"; randomx_calculate_commitment(big, HUGE_N, h32, got); break;
	}
	if (memcmp(got, ref, outlen)) return std::string(what) + ": digest differs from the digest of the same bytes streamed in 1 MiB chunks";
	return "";
}

int main(int argc, char** argv) {
	vf::Args args = vf::parse_args(argc, argv, "C11");
	const bool th = args.thorough();
	struct Combo { size_t outlen, keylen; int pat; };
	std::vector<Combo> combos = { { 64, 0, 0 }, { 32, 0, 1 }, { 1, 0, 2 }, { 64, 64, 1 }, { 32, 1, 0 }, { 63, 32, 1 }, { 48, 63, 2 }, { 33, 0, 1 } };
	const size_t Lmax = th ? 1025 : 400;
	if (!args.replay.empty()) {
		vf::Json r = vf::Json::load(args.replay); vf::Result R; std::string d;
		std::string k = r.at("kind").s;
		if (k == "graph") d = graph((size_t)r.at("Lmax").num(), (size_t)r.at("outlen").num(), (size_t)r.at("keylen").num(), (int)r.at("pat").num(), R, nullptr);
		else if (k == "oneshot") d = oneshot((size_t)r.at("len").num(), (size_t)r.at("outlen").num(), (size_t)r.at("keylen").num(), (int)r.at("pat").num());
		else if (k == "reject") d = rejections();
		else if (k == "long") d = long_case((size_t)r.at("len").num(), (size_t)r.at("first").num(), (size_t)r.at("outlen").num(), (size_t)r.at("keylen").num());
		else if (k == "huge1") d = huge_case((int)r.at("mode").num(), r.at("with_model").b);
		else if (k == "counter") d = counter_case((uint64_t)r.at("t0").i, (uint64_t)r.at("t1").i, (size_t)r.at("more").num(), (size_t)r.at("outlen").num());
		else if (k == "commit") { size_t n = (size_t)r.at("len").num(); auto in = message(n, 1); uint8_t h[32], a[32], b[32]; for (int i = 0; i < 32; ++i) h[i] = (uint8_t)(i * (int)r.at("h").num() + 1); randomx_calculate_commitment(in.data(), n, h, a); spec::commitment(in.data(), n, h, b); d = memcmp(a, b, 32) ? "commitment differs" : ""; }
		printf("replay: %s\n", d.empty() ? "conforms" : d.c_str()); return d.empty() ? 0 : 1;
	}
	const int NG = (int)combos.size(), NO = 16;
	vf::Result total = vf::run_shards(args, NG + NO + 6, [&](int shard) {
		vf::Result R;
		auto viol = [&](const std::string& key, const std::string& what, const vf::Json& rp) { if (R.viol.size() < 3) { vf::Violation v; v.key = key; v.what = what; v.replay = rp; R.viol.push_back(v); } };
		if (shard < NG) {
			Combo c = combos[shard]; vf::Json w = vf::Json::obj();
			std::string d = graph(Lmax, c.outlen, c.keylen, c.pat, R, &w);
			R.n["graphs"]++;
			R.sample(vf::Json::obj().set("kind", "graph").set("Lmax", (unsigned long long)Lmax).set("outlen", (unsigned long long)c.outlen).set("keylen", (unsigned long long)c.keylen).set("transition", "update(k bytes) from state n, for all n+k<=Lmax; final from all n"), 1);
			if (!d.empty()) viol("c11:stream", d, w.set("kind", "graph").set("Lmax", (unsigned long long)Lmax).set("outlen", (unsigned long long)c.outlen).set("keylen", (unsigned long long)c.keylen).set("pat", c.pat));
			return R;
		}
		if (shard < NG + NO) {   // one-shot: all lengths x all outlen x key lengths
			int s = shard - NG; size_t maxlen = th ? 1100 : 520;
			static const size_t kl[] = { 0, 1, 32, 63, 64 };
			{ auto LL = long_lengths(th); static const size_t firsts[] = { 0, 1, 77, 127, 128, 129 };
			  for (size_t i = (size_t)s; i < LL.size(); i += NO) { size_t len = LL[i]; size_t first = firsts[i % 6]; size_t ol = (i % 5 == 0) ? 32 : 64, kl2 = (i % 7 == 0) ? 32 : 0;
				std::string d = long_case(len, first, ol, kl2); R.n["long_message_cases"]++;
				if (!d.empty()) { viol("c11:long", d, vf::Json::obj().set("kind", "long").set("len", (unsigned long long)len).set("first", (unsigned long long)first).set("outlen", (unsigned long long)ol).set("keylen", (unsigned long long)kl2)); if (R.viol.size() >= 3) return R; } } }
			for (size_t len = s; len <= maxlen; len += NO) for (size_t outlen = 1; outlen <= 64; ++outlen) for (size_t k : kl) {
				if (!th && k != 0 && (outlen % 8) != (len % 8)) continue;
				std::string d = oneshot(len, outlen, k, (int)(len % 3)); R.n["oneshot_cases"]++;
				if (!d.empty()) { viol("c11:oneshot", d, vf::Json::obj().set("kind", "oneshot").set("len", (unsigned long long)len).set("outlen", (unsigned long long)outlen).set("keylen", (unsigned long long)k).set("pat", (int)(len % 3))); if (R.viol.size() >= 3) return R; }
			}
			return R;
		}
		if (shard == NG + NO) {   // rejections, counters, commitment
			std::string d = rejections(); R.n["rejection_suites"]++;
			if (!d.empty()) viol("c11:reject", d, vf::Json::obj().set("kind", "reject"));
			static const uint64_t t0s[] = { 0xFFFFFFFFFFFFFF00ull, 0xFFFFFFFFFFFFFF80ull, 0xFFFFFFFFFFFFFFFFull - 127, 0xFFFFFF80ull, 0xFFFFFFFFull, 0x100000000ull - 128, 0x7FFFFFFFFFFFFF80ull, 128 };
			for (uint64_t t0 : t0s) for (uint64_t t1 : { 0ull, 1ull, ~0ull }) for (size_t more : { 0u, 1u, 127u, 128u, 129u, 300u }) for (size_t outlen : { 64u, 32u }) {
				d = counter_case(t0, t1, more, outlen); R.n["counter_cases"]++;
				if (!d.empty()) viol("c11:counter", d, vf::Json::obj().set("kind", "counter").set("t0", (unsigned long long)t0).set("t1", (unsigned long long)t1).set("more", (unsigned long long)more).set("outlen", (unsigned long long)outlen));
			}
			for (size_t n = 0; n <= 300; ++n) for (int hh = 1; hh <= 4; ++hh) {
				auto in = message(n, 1); uint8_t h[32], a[33], b[32]; for (int i = 0; i < 32; ++i) h[i] = (uint8_t)(i * hh + 1);
				a[32] = 0xAA; randomx_calculate_commitment(in.data(), n, h, a); spec::commitment(in.data(), n, h, b); R.n["commitment_cases"]++;
				if (memcmp(a, b, 32) || a[32] != 0xAA) viol("c11:commit", "commitment(input len " + std::to_string(n) + ") != Blake2b-256(input || hash)", vf::Json::obj().set("kind", "commit").set("len", (unsigned long long)n).set("h", hh));
			}
			return R;
		}
		if (shard >= NG + NO + 2) {   // > 4 GiB in ONE call
			int mode = shard - (NG + NO + 2); vf::Json rp = vf::Json::obj().set("kind", "huge1").set("mode", mode).set("with_model", th);
			vf::set_current(rp.dump());
			std::string d = huge_case(mode, th); R.n["huge_single_call_cases"]++; R.n["huge_bytes"] += HUGE_N * 2;
			if (!d.empty()) viol("c11:huge1", d, rp);
			return R;
		}
		// > 4 GiB message streamed in 1 MiB chunks (thorough only): real counter beyond 2^32
		if (th) {
			std::vector<uint8_t> chunk(1 << 20); for (size_t i = 0; i < chunk.size(); ++i) chunk[i] = (uint8_t)(i * 7 + (i >> 9));
			blake2b_state S; blake2b_init(&S, 64); spec::Blake2b m; m.init(64);
			uint64_t totalb = (4096ull << 20) + 129, done = 0;
			while (done < totalb) { size_t n = (size_t)std::min<uint64_t>(chunk.size(), totalb - done); blake2b_update(&S, chunk.data(), n); m.update(chunk.data(), n); done += n; }
			uint8_t a[64], b[64]; blake2b_final(&S, a, 64); m.final(b); R.n["huge_messages"]++; R.n["huge_bytes"] += totalb;
			if (memcmp(a, b, 64)) viol("c11:huge", "digest of a 4 GiB + 129 byte message differs from RFC 7693", vf::Json::obj().set("kind", "huge"));
		}
		return R;
	});
	vf::Evidence ev; ev.level = "model_checking";
	ev.coverage.set("states", (unsigned long long)total.n["states"]).set("transitions", (unsigned long long)total.n["transitions"])
		.set("traces_validated_against_impl", (unsigned long long)total.n["transitions"])
		.set("evaluations", (unsigned long long)(total.n["transitions"] + total.n["oneshot_cases"] + total.n["counter_cases"] + total.n["commitment_cases"]))
		.set("distinct_nontrivial", (unsigned long long)total.n["states"]).set("exhaustive", !total.incomplete)
		.set("rule", "streaming state machine explored on the implementation itself: states = bytes consumed (0..Lmax) per (outlen,keylen,message) combination; transitions = update of every chunk length k from every state n (n+k<=Lmax) checked against the canonical state of n+k, and final() from every state checked against the model's digest of the prefix; plus every message length 0..8448 (thorough 16640) and lengths around 2^14..2^21 and 128+1024k, one-shot and as update(a)+update(rest) for a in {0,1,77,127,128,129} (a large remainder in one update call); plus one-shot blake2b over all lengths x outlen 1..64 x key lengths {0,1,32,63,64}, parameter rejection with guarded output buffers, injected 128-bit counters around 2^32 and 2^64, commitment for all input lengths 0..300 x 4 hashes; messages of 2^32+4873 bytes handed over in ONE call (one-shot, update after a partial block, keyed, commitment) == the same bytes streamed in 1 MiB chunks (== model in thorough); thorough adds a real 4 GiB + 129 byte streamed message");
	ev.assumptions = { "specmodel Blake2b (RFC 7693; cross-checked against python hashlib on 1000 cases at setup)" };
	return vf::finish(args, total, ev);
}
