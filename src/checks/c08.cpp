// C08 - fast-mode dataset == light-mode items == specification items, however the initialisation is
// split into calls; a call writes exactly the requested items.
// (a) item indices: whole dataset (mini; full in thorough) / index set (full quick), compiled and interpreted
//     initialiser through the public call, vs initDatasetItem and the specification model;
// (b) call shapes: explicit-state search over randomx_init_dataset(start,count) calls on a canary-filled,
//     guard-page-bracketed dataset image: every start of 24-item windows at the beginning / middle / end x
//     every count 0..12; every composition of a 12-item range into consecutive calls and every order of
//     the calls of compositions with at most 4 parts.   (c) threads: see the C08 'sched' part (E-sched + TSan).
#include "specmodel/specmodel.hpp"
#include "common/rxh.hpp"
#include "superscalar.hpp"
#include "reciprocal.h"
#include "jit_compiler_x86.hpp"
#include <thread>

using namespace rxh;
#ifndef RX_PROFILE
#define RX_PROFILE "full"
#endif
static const bool small = std::string(RX_PROFILE) == "mini";
static spec::Params P() { return small ? spec::Params::mini() : spec::Params::production(); }
static const uint64_t N = randomx::DatasetSize / 64;
static const uint8_t CANARY = 0xC5;

struct Guarded {   // [guard page][... dataset bytes ending exactly at a page boundary][guard page]
	uint8_t* base; size_t total; uint8_t* mem;
	explicit Guarded(bool shared = false) {
		size_t body = (randomx::DatasetSize + 4095) & ~(size_t)4095; total = body + 8192;
		if (shared) { base = (uint8_t*)mmap(nullptr, total, PROT_READ | PROT_WRITE, MAP_SHARED | MAP_ANONYMOUS | MAP_NORESERVE, -1, 0); if (base == MAP_FAILED) { perror("mmap"); exit(2); } }
		else base = map_bytes(total); mprotect(base, 4096, PROT_NONE); mprotect(base + 4096 + body, 4096, PROT_NONE);
		mem = base + 4096 + (body - randomx::DatasetSize);
	}
	~Guarded() { munmap(base, total); }
};

static randomx_cache* g_cache[2]; static spec::Cache g_sc; static const char* g_key = "test key 000";

static void ref_item(int which, uint64_t idx, uint8_t out[64]) { randomx::initDatasetItem(g_cache[which], out, idx); }

// one call on a window; verifies requested items and that everything else in [lo,hi) is still canary
static std::string call_and_check(randomx_dataset& ds, int which, uint64_t start, uint64_t count, uint64_t lo, uint64_t hi) {
	randomx_init_dataset(&ds, g_cache[which], start, count);
	for (uint64_t i = lo; i < hi; ++i) {
		const uint8_t* p = ds.memory + 64 * i;
		if (i >= start && i < start + count) { uint8_t r[64]; ref_item(which, i, r); if (memcmp(p, r, 64)) return "item " + std::to_string(i) + " written by init_dataset(start " + std::to_string(start) + ", count " + std::to_string(count) + ") differs from the light-mode item"; }
		else for (int b = 0; b < 64; ++b) if (p[b] != CANARY) return "init_dataset(start " + std::to_string(start) + ", count " + std::to_string(count) + ") wrote outside the requested range (item " + std::to_string(i) + ")";
	}
	return "";
}

static std::string shape_case(Guarded& g, int which, uint64_t start, uint64_t count) {
	randomx_dataset ds; ds.memory = g.mem; ds.dealloc = nullptr;
	uint64_t lo = start > 64 ? start - 64 : 0, hi = std::min<uint64_t>(N, start + count + 64);
	if (small) { lo = 0; hi = N; }
	memset(g.mem + 64 * lo, CANARY, 64 * (hi - lo));
	return call_and_check(ds, which, start, count, lo, hi);
}

// composition `mask` of 12 items (bit i set = cut after item i), calls issued in permutation `perm`
static std::string partition_case(Guarded& g, int which, uint64_t base, unsigned mask, const std::vector<int>& perm, vf::Result& R) {
	std::vector<std::pair<uint64_t, uint64_t>> blocks; uint64_t s = 0;
	for (int i = 0; i < 12; ++i) if (i == 11 || (mask >> i & 1)) { blocks.push_back({ base + s, (uint64_t)i + 1 - s }); s = i + 1; }
	randomx_dataset ds; ds.memory = g.mem; ds.dealloc = nullptr;
	uint64_t lo = base > 16 ? base - 16 : 0, hi = std::min<uint64_t>(N, base + 12 + 16);
	memset(g.mem + 64 * lo, CANARY, 64 * (hi - lo));
	std::vector<char> done(12, 0);
	for (size_t k = 0; k < blocks.size(); ++k) {
		auto b = blocks[perm.empty() ? k : (size_t)perm[k]];
		randomx_init_dataset(&ds, g_cache[which], b.first, b.second); R.n["transitions"]++;
		for (uint64_t i = b.first; i < b.first + b.second; ++i) done[i - base] = 1;
		// state after every call: covered items == reference, everything else canary
		for (uint64_t i = lo; i < hi; ++i) {
			const uint8_t* p = ds.memory + 64 * i; bool cov = i >= base && i < base + 12 && done[i - base];
			if (cov) { uint8_t r[64]; ref_item(which, i, r); if (memcmp(p, r, 64)) return "after call (start " + std::to_string(b.first) + ", count " + std::to_string(b.second) + "): item " + std::to_string(i) + " differs from the light-mode item"; }
			else for (int q = 0; q < 64; ++q) if (p[q] != CANARY) return "call (start " + std::to_string(b.first) + ", count " + std::to_string(b.second) + ") wrote item " + std::to_string(i) + " outside its range";
		}
	}
	return "";
}

static std::vector<uint64_t> index_set(bool th) {
	std::vector<uint64_t> v;
	for (uint64_t i = 0; i < 4096 && i < N; ++i) { v.push_back(i); v.push_back(N - 1 - i); }
	for (int k = 6; (1ull << k) < N; ++k) for (int d = -64; d <= 64; ++d) { uint64_t x = (1ull << k) + d; if (x < N) v.push_back(x); }
	uint64_t step = N / (th ? 100000 : 20000); if (!step) step = 1;
	for (uint64_t i = 0; i < N; i += step) v.push_back(i);
	std::sort(v.begin(), v.end()); v.erase(std::unique(v.begin(), v.end()), v.end());
	return v;
}

// (d) the compiled initialiser on SuperscalarHash programs the key alphabet does not produce: a real JIT cache whose eight programs are replaced by
// synthetic ones holding every instruction type with one imm32 of a boundary set (8-/16-/32-bit edges), recompiled exactly as initCacheCompile
// does; items written by randomx_init_dataset must equal initDatasetItem on the same cache (seeded change agent6_C08: an imm8 form for 128..255
// shows in one key out of 45000).
static std::string synthetic_case(uint32_t imm, vf::Result& R) {
	using T = randomx::SuperscalarInstructionType;
	randomx_cache* c = randomx_alloc_cache(RANDOMX_FLAG_JIT); if (!c) return "randomx_alloc_cache failed";
	randomx_init_cache(c, g_key, 12);
	c->reciprocalCache.clear(); for (int k = 0; k < 250; ++k) c->reciprocalCache.push_back(0x9E3779B97F4A7C15ull + k);   // real entries start above index 249
	for (int j = 0; j < RANDOMX_CACHE_ACCESSES; ++j) {
		auto& pr = c->programs[j]; unsigned n = 0;
		for (int rep = 0; rep < 2; ++rep) for (int t = 0; t < (int)T::COUNT; ++t) {
			int d = (j + t + rep * 3) & 7, sr = (j + 2 * t + 1 + rep) & 7; if ((T)t == T::IADD_RS && d == 5) d = 6;
			randomx::Instruction& in = pr(n++); in.opcode = (uint8_t)t; in.dst = (uint8_t)d; in.src = (uint8_t)sr; in.mod = (uint8_t)(((j + t) & 3) << 2); in.setImm32(imm);
			if ((T)t == T::IMUL_RCP) { uint32_t dv = imm + 2 * (uint32_t)j + (uint32_t)rep; while (dv == 0 || (dv & (dv - 1)) == 0) dv += 3; c->reciprocalCache.push_back(randomx_reciprocal(dv)); in.setImm32((uint32_t)c->reciprocalCache.size() - 1); }
			if ((T)t == T::IROR_C) in.setImm32(imm & 63);
		}
		pr.setSize(n); pr.setAddressRegister((j * 3 + 1) & 7);
	}
	c->jit->enableWriting(); c->jit->generateSuperscalarHash(c->programs, c->reciprocalCache); c->jit->generateDatasetInitCode(); c->jit->enableExecution();
	Guarded g; randomx_dataset ds; ds.memory = g.mem; ds.dealloc = nullptr; std::string d;
	const uint64_t starts[3] = { 0, (N / 2) & ~3ull, N - 64 };
	for (uint64_t st : starts) { randomx_init_dataset(&ds, c, st, 64);
		for (uint64_t i = st; i < st + 64 && d.empty(); ++i) { uint8_t a[64]; randomx::initDatasetItem(c, a, i); R.n["synthetic_items"]++; if (memcmp(a, g.mem + 64 * i, 64)) { char t[160]; snprintf(t, sizeof t, "synthetic SuperscalarHash programs with imm32 0x%08x: item %llu written by the compiled initialiser differs from the interpreted item", imm, (unsigned long long)i); d = t; } } }
	randomx_release_cache(c);
	return d;
}

int main(int argc, char** argv) {
	vf::Args args = vf::parse_args(argc, argv, "C08");
	const bool th = args.thorough();
	g_cache[0] = randomx_alloc_cache(RANDOMX_FLAG_DEFAULT); g_cache[1] = randomx_alloc_cache(RANDOMX_FLAG_JIT);
	if (!g_cache[0] || !g_cache[1]) return 2;
	randomx_init_cache(g_cache[0], g_key, 12); randomx_init_cache(g_cache[1], g_key, 12);
	g_sc.p = P(); g_sc.init(g_key, 12);
	const uint64_t starts_mid = (N / 2) & ~3ull;

	if (!args.replay.empty()) {
		vf::Json r = vf::Json::load(args.replay); std::string d; vf::Result R; Guarded g; std::string k = r.at("kind").s;
		if (k == "shape") d = shape_case(g, (int)r.at("which").num(), (uint64_t)r.at("start").num(), (uint64_t)r.at("count").num());
		else if (k == "partition") { std::vector<int> perm; for (auto& x : r.at("perm").a) perm.push_back((int)x.num()); d = partition_case(g, (int)r.at("which").num(), (uint64_t)r.at("base").num(), (unsigned)r.at("mask").num(), perm, R); }
		else if (k == "item") { uint64_t i = (uint64_t)r.at("index").num(); uint8_t a[64], b[64], c[64]; ref_item(0, i, a); g_sc.item(i, b); randomx_dataset ds; ds.memory = g.mem; ds.dealloc = nullptr; uint64_t s = i & ~3ull; if (s + 4 > N) s = N - 4; randomx_init_dataset(&ds, g_cache[(int)r.at("which").num()], s, 4); memcpy(c, g.mem + 64 * i, 64); d = memcmp(a, b, 64) ? "light item differs from the specification" : memcmp(a, c, 64) ? "dataset item differs from the light item" : ""; }
		else if (k == "synthetic") d = synthetic_case((uint32_t)r.at("imm32").num(), R);
		else if (k == "single-call") { randomx_dataset ds; ds.memory = g.mem; ds.dealloc = nullptr; randomx_init_dataset(&ds, g_cache[1], 0, N); uint64_t i = (uint64_t)r.at("index").num(); uint8_t a[64]; ref_item(1, i, a); d = memcmp(a, g.mem + 64 * i, 64) ? "item differs from the light-mode item after one call for the whole dataset" : ""; }
		else {   // whole dataset through both initialisers (a fault here terminates the replay by signal, which counts as reproduced)
			Guarded g2[2]; for (int which = 0; which < 2; ++which) { randomx_dataset ds; ds.memory = g2[which].mem; ds.dealloc = nullptr; randomx_init_dataset(&ds, g_cache[which], 0, N); }
			d = memcmp(g2[0].mem, g2[1].mem, randomx::DatasetSize) ? "compiled and interpreted initialisers differ" : "";
		}
		printf("replay: %s\n", d.empty() ? "holds" : d.c_str()); return d.empty() ? 0 : 1;
	}

	vf::Result total;
	// ---------------- (a) item indices
	{
		bool whole = small || th;
		std::vector<uint64_t> idx = index_set(th);
		if (whole) {
			Guarded g[2] = { Guarded(true), Guarded(true) };   // shared mappings: initialised in a forked child so that a fault is a verdict, not a harness crash
			vf::Result ri = vf::run_shards(args, 1, [&](int) {
				vf::Result R;
				vf::set_current(vf::Json::obj().set("kind", "whole").set("finding_key", "c08:whole-crash").dump());
				for (int which = 0; which < 2; ++which) {
					randomx_dataset ds; ds.memory = g[which].mem; ds.dealloc = nullptr;
					// production geometry: ONE call must be able to cover 2^25 items (2 GiB) and more - a 32-bit byte count inside an initialiser is invisible to
					// any partition into 16 ranges (seeded change agent6_C01). Compiled initialiser: a single call for the whole dataset; interpreted
					// initialiser (13 us per item): a single call for the first 2^25+8 items, the rest split over 14 threads.
					std::vector<std::thread> ths; const uint64_t BIG1 = (1ull << 25) + 8;
					if (small || which == 1 || N <= BIG1) ths.emplace_back([&, which] { randomx_dataset d2 = ds; randomx_init_dataset(&d2, g_cache[which], 0, N); });
					else {
						ths.emplace_back([&, which] { randomx_dataset d2 = ds; randomx_init_dataset(&d2, g_cache[which], 0, BIG1); });
						const int nt = 14; uint64_t rest = N - BIG1, per = (rest / nt) & ~3ull;
						for (int t = 0; t < nt; ++t) { uint64_t b = BIG1 + per * t, cnt = t == nt - 1 ? N - b : per; ths.emplace_back([&, b, cnt, which] { randomx_dataset d2 = ds; randomx_init_dataset(&d2, g_cache[which], b, cnt); }); }
					}
					for (auto& t : ths) t.join();
					R.n["items_initialised"] += N;
				}
				return R;
			}, true, 1800);
			total.merge(ri);
			if (ri.viol.empty()) {
			if (memcmp(g[0].mem, g[1].mem, randomx::DatasetSize)) {
				uint64_t i = 0; while (!memcmp(g[0].mem + 64 * i, g[1].mem + 64 * i, 64)) ++i;
				vf::Violation v; v.key = "c08:whole"; v.what = "compiled and interpreted dataset initialisers differ at item " + std::to_string(i); v.replay = vf::Json::obj().set("kind", "whole").set("index", (unsigned long long)i).set("which", 1); total.viol.push_back(v);
			}
			total.n["whole_dataset_bytes_compared"] += randomx::DatasetSize;
			// index set against light items and the specification model, sharded
			vf::Result r = vf::run_shards(args, 32, [&](int shard) {
				vf::Result R;
				for (size_t k = shard; k < idx.size(); k += 32) {
					uint64_t i = idx[k]; uint8_t a[64], b[64]; ref_item(0, i, a); g_sc.item(i, b); R.n["items_vs_model"]++;
					const char* w = memcmp(a, b, 64) ? "light-mode item differs from the specification" : memcmp(a, g[0].mem + 64 * i, 64) ? "dataset (interpreted initialiser) differs from the light-mode item" : memcmp(a, g[1].mem + 64 * i, 64) ? "dataset (compiled initialiser) differs from the light-mode item" : nullptr;
					if (w && R.viol.size() < 3) { vf::Violation v; v.key = "c08:item"; v.what = std::string(w) + " at item " + std::to_string(i); v.replay = vf::Json::obj().set("kind", "item").set("index", (unsigned long long)i).set("which", 1); R.viol.push_back(v); }
				}
				if (small) for (uint64_t i = shard; i < N; i += 32) { uint8_t a[64]; ref_item(1, i, a); R.n["items_vs_light"]++; if (memcmp(a, g[0].mem + 64 * i, 64) && R.viol.size() < 3) { vf::Violation v; v.key = "c08:item"; v.what = "dataset differs from the light-mode item " + std::to_string(i); v.replay = vf::Json::obj().set("kind", "item").set("index", (unsigned long long)i).set("which", 0); R.viol.push_back(v); } }
				return R;
			});
			total.merge(r);
			}
		} else {
			vf::Result r = vf::run_shards(args, 33, [&](int shard) {
				vf::Result R; Guarded g; randomx_dataset ds; ds.memory = g.mem; ds.dealloc = nullptr;
				if (shard == 32) {   // ONE call of the compiled initialiser for the whole dataset (>= 2^25 items), compared with light-mode items on a strided sample
					vf::set_current(vf::Json::obj().set("kind", "single-call").dump()); vf::watchdog(1500);
					randomx_init_dataset(&ds, g_cache[1], 0, N); alarm(0); R.n["items_initialised"] += N;
					std::vector<uint64_t> smp; for (uint64_t i = 0; i < N; i += 4099) smp.push_back(i);
					for (uint64_t c : { (uint64_t)0, (uint64_t)1 << 24, (uint64_t)1 << 25, N }) for (int d = -8; d < 8; ++d) { int64_t i = (int64_t)c + d; if (i >= 0 && (uint64_t)i < N) smp.push_back((uint64_t)i); }
					for (uint64_t i : smp) { uint8_t a[64]; ref_item(1, i, a); R.n["single_call_items_compared"]++;
						if (memcmp(a, g.mem + 64 * i, 64)) { vf::Violation v; v.key = "c08:single-call"; v.what = "after ONE randomx_init_dataset call for the whole dataset (compiled initialiser), item " + std::to_string(i) + " differs from the light-mode item"; v.replay = vf::Json::obj().set("kind", "single-call").set("index", (unsigned long long)i); R.viol.push_back(v); break; } }
					return R;
				}
				for (size_t k = shard; k < idx.size(); k += 32) {
					uint64_t i = idx[k]; uint8_t a[64], b[64]; ref_item(0, i, a); g_sc.item(i, b); R.n["items_vs_model"]++;
					uint64_t s = i & ~3ull; if (s + 4 > N) s = N - 4;
					{ char cur[160]; snprintf(cur, sizeof cur, "{\"kind\":\"item\",\"index\":%llu,\"which\":1,\"finding_key\":\"c08:item-crash\"}", (unsigned long long)i); vf::set_current(cur); }   // a call that writes outside the dataset faults: that is a verdict of this item
					const char* w = memcmp(a, b, 64) ? "light-mode item differs from the specification" : nullptr;
					for (int which = 0; which < 2 && !w; ++which) { randomx_init_dataset(&ds, g_cache[which], s, 4); R.n["items_initialised"] += 4; if (memcmp(a, g.mem + 64 * i, 64)) w = which ? "dataset (compiled initialiser) differs from the light-mode item" : "dataset (interpreted initialiser) differs from the light-mode item"; }
					if (w && R.viol.size() < 3) { vf::Violation v; v.key = "c08:item"; v.what = std::string(w) + " at item " + std::to_string(i); v.replay = vf::Json::obj().set("kind", "item").set("index", (unsigned long long)i).set("which", 1); R.viol.push_back(v); }
				}
				return R;
			}, true, 3600);
			total.merge(r);
		}
	}
	// ---------------- (b) call shapes and partitions
	{
		std::vector<uint64_t> wins = { 0, starts_mid, N - 24 };
		struct Job { int kind; int which; uint64_t a; unsigned b; };
		std::vector<Job> jobs;
		for (int which = 0; which < 2; ++which) for (uint64_t w : wins) for (uint64_t s = w; s < w + 24 && s < N; ++s) jobs.push_back({ 0, which, s, 0 });
		for (int which = 0; which < 2; ++which) for (uint64_t base : { (uint64_t)0, starts_mid + 1, N - 12 }) for (unsigned m = 0; m < 2048; m += 64) jobs.push_back({ 1, which, base, m });
		vf::Result r = vf::run_shards(args, 48, [&](int shard) {
			vf::Result R; Guarded g; std::set<std::string> seen;
			for (size_t j = shard; j < jobs.size(); j += 48) {
				const Job& job = jobs[j];
				if (job.kind == 0) {
					for (uint64_t c = 0; c <= 12 && job.a + c <= N; ++c) {
						vf::Json rp = vf::Json::obj().set("kind", "shape").set("which", job.which).set("start", (unsigned long long)job.a).set("count", (unsigned long long)c);
						vf::set_current(rp.dump());
						std::string d = shape_case(g, job.which, job.a, c); R.n["transitions"]++; R.n["shape_calls"]++;
						seen.insert(std::to_string(job.a % 4) + "/" + std::to_string(c));
						if (j < 2 && c == 5) R.sample(rp, 1);
						if (!d.empty() && R.viol.size() < 3) { vf::Violation v; v.key = "c08:shape"; v.what = d; v.replay = rp; R.viol.push_back(v); }
					}
				} else {
					for (unsigned m = job.b; m < job.b + 64; ++m) {
						int parts = __builtin_popcount(m) + 1;
						std::vector<std::vector<int>> perms; perms.push_back({});
						if (parts <= 4 && parts > 1) { std::vector<int> p(parts); for (int i = 0; i < parts; ++i) p[i] = i; perms.clear(); do perms.push_back(p); while (std::next_permutation(p.begin(), p.end())); }
						for (auto& pm : perms) {
							vf::Json pj = vf::Json::arr(); for (int x : pm) pj.push(x);
							vf::Json rp = vf::Json::obj().set("kind", "partition").set("which", job.which).set("base", (unsigned long long)job.a).set("mask", (int)m).set("perm", pj);
							vf::set_current(rp.dump());
							std::string d = partition_case(g, job.which, job.a, m, pm, R); R.n["partition_histories"]++;
							if (m == 0x155 && pm.empty()) R.sample(rp, 1);
							if (!d.empty() && R.viol.size() < 3) { vf::Violation v; v.key = "c08:partition"; v.what = d; v.replay = rp; R.viol.push_back(v); }
						}
					}
				}
			}
			R.n["distinct_call_classes"] = seen.size();
			return R;
		}, true, 1800);
		total.merge(r);
	}
	// ---------------- (d) synthetic SuperscalarHash programs through the compiled initialiser
	{
		static const uint32_t IM[] = { 0, 1, 2, 3, 7, 8, 13, 31, 32, 33, 63, 64, 0x7F, 0x80, 0x81, 0xC4, 0xDC, 0xFF, 0x100, 0x7FF, 0x800, 0x7FFF, 0x8000, 0xFFFF, 0x10000, 0x7FFFFF, 0x800000, 0x7FFFFFFF, 0x80000000u, 0x80000001u,
			0xFFFFFF00u, 0xFFFFFF7Fu, 0xFFFFFF80u, 0xFFFFFF81u, 0xFFFF7FFFu, 0xFFFF8000u, 0xFFFFFFFEu, 0xFFFFFFFFu, 0x12345678u, 0xEDCBA987u };
		const int NI = (int)(sizeof IM / sizeof IM[0]);
		vf::Result r = vf::run_shards(args, small ? 8 : 4, [&](int shard) {
			vf::Result R;
			for (int k = shard; k < NI; k += (small ? 8 : 4)) {
				if (!small && !th && (k % 5)) continue;   // production geometry: cache initialisation costs a second per case
				vf::Json rp = vf::Json::obj().set("kind", "synthetic").set("imm32", (unsigned long long)IM[k]); vf::set_current(rp.dump());
				std::string d = synthetic_case(IM[k], R); R.n["synthetic_caches"]++;
				if (!d.empty() && R.viol.size() < 3) { vf::Violation v; v.key = "c08:synthetic"; v.what = d; v.replay = rp; R.viol.push_back(v); }
			}
			return R;
		}, true, 1800);
		total.merge(r);
	}
	vf::Evidence ev; ev.level = "model_checking";
	uint64_t states = total.n["shape_calls"] + total.n["transitions"];
	ev.coverage.set("states", (unsigned long long)states).set("transitions", (unsigned long long)total.n["transitions"]).set("traces_validated_against_impl", (unsigned long long)(total.n["shape_calls"] + total.n["partition_histories"]))
		.set("evaluations", (unsigned long long)(total.n["items_vs_model"] + total.n["items_initialised"] + total.n["transitions"])).set("distinct_nontrivial", (unsigned long long)(total.n["items_vs_model"] + total.n["partition_histories"]))
		.set("exhaustive", !total.incomplete)
		.set("rule", std::string("profile ") + RX_PROFILE + ": (a) " + (small || th ? "the whole dataset is initialised through the public call by the compiled initialiser (ONE call) and by the interpreted initialiser (production geometry: one call for the first 2^25+8 items, 14 threads for the rest) and compared byte for byte" : "every item of the index set is initialised through the public call by both initialisers, and ONE call of the compiled initialiser covers the whole dataset (strided sample compared with light-mode items)") + "; index set (first/last 4096, +-64 around every power of two, strided) against initDatasetItem and the specification model; (b) states = dataset-image contents after a call history, explored on the implementation: every (start,count) with start in 24-item windows at the beginning/middle/end and count 0..12, every composition of a 12-item range (2048) into consecutive calls and every order of the calls of compositions with <= 4 parts; after EVERY call the covered items equal the reference and every other byte of the observation window (whole dataset on mini) is still canary; dataset bracketed by PROT_NONE pages; (d) JIT caches whose eight SuperscalarHash programs are synthetic (every instruction type twice, one imm32 of a 40-value boundary set, reciprocal indices above 249), recompiled as initCacheCompile does: items written by the compiled initialiser == initDatasetItem");
	ev.assumptions = { "one key; item values for other keys are covered by C02/C09", "on the full profile the canary window is +-64 items around the call (guard pages catch the ends)" };
	return vf::finish(args, total, ev, true, true);
}
