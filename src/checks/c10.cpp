// C10 - the cache is the Argon2d (v0x13) memory fill, identical across the three implementations.
// Reduced instances are driven through the library's own entry points (randomx_argon2_initialize,
// randomx_argon2_fill_memory_blocks, instance.impl) exactly as initCache does, with run-time sizes;
// the production-size cache goes through the public API.  Oracle: specmodel Argon2d (RFC 9106).
#include "specmodel/specmodel.hpp"
#include "common/rxh.hpp"
#include "common/alph.hpp"
#include "argon2.h"
#include "argon2_core.h"
#include <map>

using namespace rxh;

static randomx_argon2_impl* impl_of(int i) { return i == 0 ? &randomx_argon2_fill_segment_ref : i == 1 ? randomx_argon2_impl_ssse3() : randomx_argon2_impl_avx2(); }
static const char* impl_name(int i) { return i == 0 ? "ref" : i == 1 ? "ssse3" : "avx2"; }

// mirror of initCache's Argon2 part with run-time m/t (lanes fixed to 1 as in RandomX)
static void fill_with_library(const std::string& key, uint32_t m, uint32_t t, int impl, uint8_t* memory) {
	argon2_instance_t instance; argon2_context context;
	context.out = nullptr; context.outlen = 0;
	context.pwd = (uint8_t*)key.data(); context.pwdlen = (uint32_t)key.size();
	context.salt = (uint8_t*)RANDOMX_ARGON_SALT; context.saltlen = (uint32_t)randomx::ArgonSaltSize;
	context.secret = NULL; context.secretlen = 0; context.ad = NULL; context.adlen = 0;
	context.t_cost = t; context.m_cost = m; context.lanes = 1; context.threads = 1;
	context.allocate_cbk = NULL; context.free_cbk = NULL; context.flags = ARGON2_DEFAULT_FLAGS; context.version = ARGON2_VERSION_NUMBER;
	uint32_t segment_length = m / (context.lanes * ARGON2_SYNC_POINTS);
	instance.version = context.version; instance.passes = t; instance.memory_blocks = m; instance.segment_length = segment_length;
	instance.lane_length = segment_length * ARGON2_SYNC_POINTS; instance.lanes = 1; instance.threads = 1; instance.type = Argon2_d;
	instance.memory = (block*)memory; instance.impl = impl_of(impl);
	randomx_argon2_initialize(&instance, &context);
	randomx_argon2_fill_memory_blocks(&instance);
}

static std::string reduced_case(const std::string& key, uint32_t m, uint32_t t, int prefill) {
	std::vector<uint8_t> ref; spec::argon2d_fill(key.data(), key.size(), RANDOMX_ARGON_SALT, randomx::ArgonSaltSize, m, t, 1, ref);
	for (int impl = 0; impl < 3; ++impl) {
		if (!impl_of(impl)) return std::string("implementation ") + impl_name(impl) + " unavailable";
		std::vector<uint8_t> mem((size_t)m * 1024 + 64, prefill ? 0xFF : 0x00);
		uint8_t* p = mem.data() + (64 - ((uintptr_t)mem.data() & 63)) % 64;
		fill_with_library(key, m, t, impl, p);
		if (ref.size() != (size_t)m * 1024 || memcmp(p, ref.data(), ref.size())) {
			size_t i = 0; while (i < ref.size() && p[i] == ref[i]) ++i;
			return std::string("Argon2d fill (") + impl_name(impl) + ", m=" + std::to_string(m) + " blocks, t=" + std::to_string(t) + ", key length " + std::to_string(key.size()) + ") differs from RFC 9106 at byte " + std::to_string(i);
		}
	}
	return "";
}

// public API at the profile's size: all bytes, 3 implementations, and re-initialisation leaves no trace
static std::string api_case(const std::string& k1, const std::string& k2, int prefill, const spec::Params& P) {
	std::vector<uint8_t> ref; spec::argon2d_fill(k2.data(), k2.size(), P.argon_salt.data(), P.argon_salt.size(), P.argon_memory_kib, P.argon_iterations, P.argon_lanes, ref);
	static const int fl[3] = { RANDOMX_FLAG_DEFAULT, RANDOMX_FLAG_ARGON2_SSSE3, RANDOMX_FLAG_ARGON2_AVX2 };
	for (int impl = 0; impl < 3; ++impl) {
		randomx_cache* c = randomx_alloc_cache((randomx_flags)fl[impl]); if (!c) return "randomx_alloc_cache failed";
		memset(randomx_get_cache_memory(c), prefill ? 0xFF : 0, randomx::CacheSize);
		if (k1 != k2) randomx_init_cache(c, k1.data(), k1.size());
		randomx_init_cache(c, k2.data(), k2.size());
		bool bad = ref.size() != randomx::CacheSize || memcmp(randomx_get_cache_memory(c), ref.data(), ref.size());
		size_t i = 0; if (bad) { const uint8_t* p = (const uint8_t*)randomx_get_cache_memory(c); while (i < ref.size() && p[i] == ref[i]) ++i; }
		randomx_release_cache(c);
		if (bad) return std::string("cache (") + impl_name(impl) + (k1 != k2 ? ", re-initialised from another key" : "") + ") differs from the Argon2d fill of the key (length " + std::to_string(k2.size()) + ") at byte " + std::to_string(i);
	}
	return "";
}

// Forced reference index: the pseudo-random J1 (low 32 bits of the previous block) decides which block is referenced, through
// rel = area - 1 - ((area * (J1^2 >> 32)) >> 32). Through keys J1 is uniform and the rounding edges of that mapping (products that are exact
// multiples of 2^32) occur about once in 2^29 blocks (seeded change agent7_C10: an inlined index computation in ONE implementation wrong
// exactly there). The first block of a segment takes J1 from a block the segment does not rewrite, so J1 can be planted: for instance sizes
// whose reference area at that block is divisible by a large power of two, every planted J1 of a boundary set, every pass and slice - the
// three fill implementations must produce the same segment from the same memory.
static std::string forced_case(uint32_t m, uint32_t pass, uint32_t slice, uint32_t j1, vf::Result& R) {
	static std::map<uint32_t, std::vector<uint8_t>> base;
	if (!base.count(m)) { std::vector<uint8_t> b((size_t)m * 1024 + 64); uint8_t* q = b.data() + (64 - ((uintptr_t)b.data() & 63)) % 64; fill_with_library("forced reference index", m, 3, 0, q); base[m] = std::vector<uint8_t>(q, q + (size_t)m * 1024); }
	const uint32_t seg = m / 4, start = slice * seg + (pass == 0 && slice == 0 ? 2 : 0), prev = (start == 0) ? m - 1 : start - 1;
	std::vector<std::vector<uint8_t>> out(3);
	for (int impl = 0; impl < 3; ++impl) {
		std::vector<uint8_t> mem((size_t)m * 1024 + 64); uint8_t* q = mem.data() + (64 - ((uintptr_t)mem.data() & 63)) % 64; memcpy(q, base[m].data(), (size_t)m * 1024);
		memcpy(q + (size_t)prev * 1024, &j1, 4);
		argon2_instance_t instance; memset(&instance, 0, sizeof instance);
		instance.version = ARGON2_VERSION_NUMBER; instance.passes = 3; instance.memory_blocks = m; instance.segment_length = seg; instance.lane_length = seg * ARGON2_SYNC_POINTS; instance.lanes = 1; instance.threads = 1; instance.type = Argon2_d;
		instance.memory = (block*)q; instance.impl = impl_of(impl);
		argon2_position_t pos; pos.pass = pass; pos.lane = 0; pos.slice = (uint8_t)slice; pos.index = 0;
		(*impl_of(impl))(&instance, pos);
		out[impl].assign(q, q + (size_t)m * 1024); R.n["forced_segments"]++;
	}
	for (int impl = 1; impl < 3; ++impl) if (out[impl] != out[0]) { size_t i = 0; while (out[impl][i] == out[0][i]) ++i; char t[200]; snprintf(t, sizeof t, "segment fill (%s) differs from the reference implementation at block %zu for m=%u, pass %u, slice %u, planted J1=0x%08x", impl_name(impl), i / 1024, m, pass, slice, j1); return t; }
	return "";
}
static std::vector<uint32_t> j1_set() {
	std::vector<uint32_t> v = { 0, 1, 2, 3, 0x7FFFFFFFu, 0x80000000u, 0x80000001u, 0xFFFFFFFEu, 0xFFFFFFFFu, 0x0000FFFFu, 0x00010000u, 0xB504F333u, 0xB504F334u };   // 0xB504F334^2 >> 32 crosses 2^31
	for (int sh = 8; sh < 32; ++sh) { uint32_t b = 1u << sh; v.push_back(b); v.push_back(b - 1); v.push_back(b + 1); v.push_back(b | (b >> 1)); v.push_back(0u - b); }
	return v;
}

// Production size only: lanes longer than 65536 blocks exist only there (seeded change agent9_C10: a 16-bit lane-start test in ONE implementation, hit by
// about one key in 45). Many keys, the three implementations against each other (the reference implementation itself is compared with the model on the keys of
// the main alphabet).
static std::string sweep_case(int k) {
	char key[32]; snprintf(key, sizeof key, "C10 sweep key %d", k);
	static const int fl[3] = { RANDOMX_FLAG_DEFAULT, RANDOMX_FLAG_ARGON2_SSSE3, RANDOMX_FLAG_ARGON2_AVX2 }; randomx_cache* c[3];
	for (int i = 0; i < 3; ++i) { c[i] = randomx_alloc_cache((randomx_flags)fl[i]); if (!c[i]) return "randomx_alloc_cache failed"; randomx_init_cache(c[i], key, strlen(key)); }
	std::string d;
	for (int i = 1; i < 3 && d.empty(); ++i) if (memcmp(randomx_get_cache_memory(c[0]), randomx_get_cache_memory(c[i]), randomx::CacheSize)) { const uint8_t* a = (const uint8_t*)randomx_get_cache_memory(c[0]); const uint8_t* b = (const uint8_t*)randomx_get_cache_memory(c[i]); size_t q = 0; while (a[q] == b[q]) ++q;
		d = std::string("cache of key '") + key + "' built by the " + impl_name(i) + " implementation differs from the reference implementation's at block " + std::to_string(q / 1024); }
	for (int i = 0; i < 3; ++i) randomx_release_cache(c[i]);
	return d;
}

#ifndef RX_PROFILE
#define RX_PROFILE "full"
#endif

int main(int argc, char** argv) {
	vf::Args args = vf::parse_args(argc, argv, "C10");
	const bool th = args.thorough();
	const bool small = std::string(RX_PROFILE) == "mini";
	spec::Params P = small ? spec::Params::mini() : spec::Params::production();
	if (!args.replay.empty()) {
		vf::Json r = vf::Json::load(args.replay); std::string d;
		auto k = vf::unhex(r.at("key").s); std::string key((const char*)k.data(), k.size());
		if (r.at("kind").s == "sweep") d = sweep_case((int)r.at("k").num());
		else if (r.at("kind").s == "forced") { vf::Result R; d = forced_case((uint32_t)r.at("m").num(), (uint32_t)r.at("pass").num(), (uint32_t)r.at("slice").num(), (uint32_t)r.at("j1").num(), R); }
		else if (r.at("kind").s == "reduced") d = reduced_case(key, (uint32_t)r.at("m").num(), (uint32_t)r.at("t").num(), (int)r.at("prefill").num());
		else { auto k0 = vf::unhex(r.at("key1").s); d = api_case(std::string((const char*)k0.data(), k0.size()), key, (int)r.at("prefill").num(), P); }
		printf("replay: %s\n", d.empty() ? "equals Argon2d" : d.c_str()); return d.empty() ? 0 : 1;
	}
	struct Case { int kind; std::string k1, key; uint32_t m, t; int prefill; };
	std::vector<Case> cases;
	if (small) {
		// reduced-instance lattice: m x t x every key length
		std::vector<uint32_t> ms = { 8, 12, 16, 20, 24, 28, 32, 36, 40, 44, 48, 52, 56, 60, 64, 128, 1024 };
		for (uint32_t m : ms) for (uint32_t t = 1; t <= 4; ++t) {
			std::vector<size_t> kl;
			if (m <= 16 || th) for (size_t l = 0; l <= 300; l += (m == 8 && t <= 2 ? 1 : (th ? 1 : 13))) kl.push_back(l); else kl = { 0, 1, 12, 60, 61, 64, 65, 127, 128, 129, 256, 300 };
			if (m >= 1024 && !th) kl = { 0, 12, 129 };
			for (size_t l : kl) cases.push_back({ 0, "", alph::pattern(l, (int)(l % 3)), m, t, (int)((l + m) & 1) });
		}
		// public API at mini size: all ordered pairs of 4 keys (re-initialisation) x prefill
		std::vector<std::string> ks = { "", "test key 000", alph::pattern(61, 2), alph::pattern(300, 0) };
		for (auto& a : ks) for (auto& b : ks) for (int pf = 0; pf < 2; ++pf) cases.push_back({ 1, a, b, 0, 0, pf });
	} else {
		std::vector<std::string> ks = th ? std::vector<std::string>{ "test key 000", "", alph::pattern(1, 0), alph::pattern(60, 2), alph::pattern(61, 2), alph::pattern(128, 0), alph::pattern(129, 1), alph::pattern(300, 2) } : std::vector<std::string>{ "test key 000", alph::pattern(129, 1) };
		for (auto& k : ks) cases.push_back({ 1, k, k, 0, 0, 1 });
		cases.push_back({ 1, "test key 001", "test key 000", 0, 0, 0 });
	}
	vf::Result total = vf::run_shards(args, (int)std::min<size_t>(cases.size(), 64), [&](int shard) {
		vf::Result R; size_t nsh = std::min<size_t>(cases.size(), 64);
		for (size_t i = shard; i < cases.size(); i += nsh) {
			if (args.expired()) { R.incomplete = true; break; }
			const Case& c = cases[i]; std::string d;
			vf::Json rp = vf::Json::obj().set("kind", c.kind ? "api" : "reduced").set("profile", RX_PROFILE).set("key", vf::hex(c.key.data(), c.key.size())).set("key1", vf::hex(c.k1.data(), c.k1.size())).set("m", (int)c.m).set("t", (int)c.t).set("prefill", c.prefill);
			vf::set_current(rp.dump());
			if (c.kind == 0) { d = reduced_case(c.key, c.m, c.t, c.prefill); R.n["reduced_instances"]++; R.n["bytes_compared"] += 3ull * c.m * 1024; }
			else { d = api_case(c.k1, c.key, c.prefill, P); R.n["api_caches"] += 3; R.n["bytes_compared"] += 3ull * randomx::CacheSize; if (c.k1 != c.key) R.n["reinit_pairs"]++; }
			if (i < 3 || c.kind == 1) R.sample(rp, 2);
			if (!d.empty()) { vf::Violation v; v.key = c.kind ? "c10:api" : "c10:reduced"; v.what = d; v.replay = rp; R.viol.push_back(v); if (R.viol.size() >= 3) break; }
		}
		return R;
	}, true, 3600);
	if (!small) {
		const int NK = th ? 512 : 128;
		vf::Result rs = vf::run_shards(args, 16, [&](int shard) {
			vf::Result R;
			for (int k = shard; k < NK && R.viol.empty(); k += 16) {
				vf::Json rp = vf::Json::obj().set("kind", "sweep").set("k", k).set("key", "").set("key1", "").set("m", 0).set("t", 0).set("prefill", 0);
				vf::set_current(rp.dump());
				std::string d = sweep_case(k); R.n["sweep_keys"]++; R.n["bytes_compared"] += 2ull * randomx::CacheSize;
				if (!d.empty()) { vf::Violation v; v.key = "c10:sweep"; v.what = d; v.replay = rp; R.viol.push_back(v); }
			}
			return R;
		}, true, 3600);
		total.merge(rs);
	}
	if (small) {
		// m = 4s with 3s-1 (area of the first block of a segment in passes > 0) or s-1 / 2s-1 (pass 0) divisible by a large power of two, plus ordinary sizes
		std::vector<uint32_t> ms = { 44, 172, 684, 2732, 68, 260, 1028, 64, 1024 }; auto J = j1_set();
		vf::Result rf = vf::run_shards(args, (int)ms.size(), [&](int shard) {
			vf::Result R; uint32_t m = ms[(size_t)shard];
			for (uint32_t pass = 0; pass < 3; ++pass) for (uint32_t slice = 0; slice < 4; ++slice) for (uint32_t j1 : J) {
				vf::Json rp = vf::Json::obj().set("kind", "forced").set("m", (int)m).set("pass", (int)pass).set("slice", (int)slice).set("j1", (unsigned long long)j1).set("key", "").set("key1", "").set("t", 3).set("prefill", 0);
				vf::set_current(rp.dump());
				std::string d = forced_case(m, pass, slice, j1, R);
				if (!d.empty() && R.viol.size() < 3) { vf::Violation v; v.key = "c10:forced"; v.what = d; v.replay = rp; R.viol.push_back(v); }
			}
			return R;
		}, true, 3600);
		total.merge(rf);
	}
	vf::Evidence ev; ev.level = "exploration";
	ev.coverage.set("evaluations", (unsigned long long)(total.n["reduced_instances"] * 3 + total.n["api_caches"] + total.n["forced_segments"])).set("distinct_nontrivial", (unsigned long long)(total.n["reduced_instances"] + total.n["api_caches"] / 3))
		.set("exhaustive", !total.incomplete)
		.set("rule", std::string("profile ") + RX_PROFILE + ": reduced instances (memory blocks m in {8,12,..,64,128,1024} x passes 1..4 x key lengths 0..300, lanes 1) through randomx_argon2_initialize / fill_memory_blocks with each of the three fill implementations: every byte == RFC 9106 Argon2d model; public API at the profile's cache size: all bytes for each key x 3 implementations, and re-initialisation over every ordered key pair with 0x00/0xFF prefilled buffers; production size: 128 (thorough 512) further keys, the three implementations against each other byte for byte; planted reference index: for 9 instance sizes (reference areas divisible by 2^5..2^11 among them) x 3 passes x 4 slices x a 133-value J1 set planted in the block the first block of the segment reads: the three implementations produce identical segments");
	ev.assumptions = { "specmodel Argon2d validated against the RFC 9106 section 5.1 vector at setup; lanes > 1 is outside RandomX's configuration and not driven through the library" };
	return vf::finish(args, total, ev, true, true);
}
