// Parameters, reciprocal, BlakeGenerator, Cache / Dataset items and the top level hash.
#include "specmodel.hpp"

#include <cstring>

namespace spec {

// ---------------------------------------------------------------------------
// Parameter sets
// ---------------------------------------------------------------------------
Params Params::production() { return Params(); }

Params Params::mini() {
    Params p;
    p.argon_memory_kib = 256;
    p.dataset_base_size = 262144;
    p.dataset_extra_size = 65472;
    p.program_iterations = 16;
    p.scratchpad_l3 = 65536;
    p.scratchpad_l2 = 16384;
    p.scratchpad_l1 = 4096;
    return p;
}

Params Params::iter() {
    Params p;
    p.program_iterations = 16;
    return p;
}

// ---------------------------------------------------------------------------
// 5.2.6: rcp = floor(2^x / d), x the largest integer with rcp < 2^64
// ---------------------------------------------------------------------------
uint64_t reciprocal(uint32_t d) {
    if (d == 0) return 0;
    // 2^x / d < 2^64  <=>  2^(x-64) < d.  The largest such x-64 is floor(log2(d)) when d is not a
    // power of two and log2(d)-1 when it is.
    int k = 0;
    while (k < 32 && ((uint64_t)1 << (k + 1)) <= d) ++k;          // k = floor(log2(d))
    if (((uint64_t)1 << k) == d) --k;
    unsigned __int128 numerator = (unsigned __int128)1 << (64 + k);
    return (uint64_t)(numerator / d);
}

// ---------------------------------------------------------------------------
// 3.5 BlakeGenerator
// ---------------------------------------------------------------------------
BlakeGenerator::BlakeGenerator(const void* key, size_t n, int nonce) {
    // The seed may be 0-60 bytes; longer input is cut.  The last four bytes of the
    // state hold a little-endian nonce (0 for the Cache programs).
    std::memset(s_, 0, sizeof s_);
    if (n > 60) n = 60;
    if (n > 0) std::memcpy(s_, key, n);
    store_le32(s_ + 60, (uint32_t)nonce);
    // 3.5.1: S = Hash512(S)
    uint8_t t[64];
    blake2b(t, 64, s_, 64);
    std::memcpy(s_, t, 64);
    rehash_count = 1;
    pos_ = 0;
}

void BlakeGenerator::need(size_t n) {
    if (pos_ + n > 64) {   // 3.5.2: not enough unused bytes left (the remainder is dropped)
        uint8_t t[64];
        blake2b(t, 64, s_, 64);
        std::memcpy(s_, t, 64);
        ++rehash_count;
        pos_ = 0;
    }
}

uint8_t BlakeGenerator::byte() {
    need(1);
    return s_[pos_++];
}

uint32_t BlakeGenerator::u32() {
    need(4);
    uint32_t v = load_le32(s_ + pos_);
    pos_ += 4;
    return v;
}

// ---------------------------------------------------------------------------
// Chapter 7
// ---------------------------------------------------------------------------
void Cache::init(const void* key, size_t keylen) {
    // 7.1
    argon2d_fill(key, keylen, p.argon_salt.data(), p.argon_salt.size(),
                 p.argon_memory_kib, p.argon_iterations, p.argon_lanes, memory);
    // 7.2
    programs.clear();
    gen_stats = GenStats();
    BlakeGenerator gen(key, keylen);
    for (uint32_t i = 0; i < p.cache_accesses; ++i)
        programs.push_back(generate_superscalar(gen, p, &gen_stats));
}

void Cache::item(uint64_t index, uint8_t out[64]) const {
    // 7.3
    uint64_t r[8];
    r[0] = (index + 1) * 6364136223846793005ull;
    r[1] = r[0] ^ 9298411001130361340ull;
    r[2] = r[0] ^ 12065312585734608966ull;
    r[3] = r[0] ^ 9306329213124626780ull;
    r[4] = r[0] ^ 5281919268842080866ull;
    r[5] = r[0] ^ 10536153434571861004ull;
    r[6] = r[0] ^ 3398623926847679864ull;
    r[7] = r[0] ^ 9549104520008361294ull;
    const uint64_t items_in_cache = memory.size() / 64;
    uint64_t cache_index = index;
    for (uint32_t i = 0; i < p.cache_accesses; ++i) {
        const uint8_t* line = memory.data() + (cache_index % items_in_cache) * 64;
        execute_superscalar(r, programs[i]);
        for (int k = 0; k < 8; ++k) r[k] ^= load_le64(line + 8 * k);
        cache_index = r[programs[i].addr_reg];
    }
    for (int k = 0; k < 8; ++k) store_le64(out + 8 * k, r[k]);
}

// ---------------------------------------------------------------------------
// Chapter 2
// ---------------------------------------------------------------------------
void hash_with(const Params& p, const std::function<void(uint64_t, uint8_t*)>& dataset_item,
               const void* input, size_t inlen, bool v2, uint8_t out[32], HashTrace* trace) {
    // 2. S = Hash512(H)
    uint8_t seed[64];
    blake2b(seed, 64, input, inlen);
    if (trace) trace->seed.assign(seed, seed + 64);

    // 3., 4. Scratchpad from AesGenerator1R(S)
    VmState vm;
    vm.scratchpad.assign(p.scratchpad_l3, 0);
    fill_aes_1rx4(seed, p.scratchpad_l3, vm.scratchpad.data());

    // 5. gen4 = AesGenerator4R(gen1.state)
    uint8_t gen4_state[64];
    std::memcpy(gen4_state, seed, 64);

    // 6.
    vm.fprc = 0;

    const size_t prog_len = 128 + 8 * (size_t)p.program_size(v2);
    std::vector<uint8_t> prog(prog_len);
    uint8_t regfile[256];

    for (uint32_t i = 0; i < p.program_count; ++i) {
        // 7.
        fill_aes_4rx4(gen4_state, prog_len, prog.data());
        // 8.
        run_program(vm, prog.data(), v2, p, dataset_item);
        vm.register_file(regfile);
        if (trace) {
            trace->program_bytes.push_back(prog);
            std::array<uint8_t, 256> rf;
            std::memcpy(rf.data(), regfile, 256);
            trace->regfile_after.push_back(rf);
        }
        // 9., 10. (skipped in the last iteration)
        if (i + 1 < p.program_count) blake2b(gen4_state, 64, regfile, 256);
    }

    // 12., 13.
    uint8_t fingerprint[64];
    hash_aes_1rx4(vm.scratchpad.data(), vm.scratchpad.size(), fingerprint);
    std::memcpy(regfile + 192, fingerprint, 64);
    // 14.
    blake2b(out, 32, regfile, 256);

    if (trace) {
        trace->scratchpad_hash.assign(fingerprint, fingerprint + 64);
        trace->executed = vm.executed;
        std::memcpy(trace->executed_by_type, vm.executed_by_type, sizeof vm.executed_by_type);
        trace->branches_taken = vm.branches_taken;
        trace->fprc_changes = vm.fprc_changes;
        trace->mon = vm.mon;
    }
}

void hash(const Cache& cache, const void* input, size_t inlen, bool v2, uint8_t out[32], HashTrace* trace) {
    hash_with(cache.p, [&cache](uint64_t index, uint8_t* item) { cache.item(index, item); }, input, inlen, v2, out, trace);
}

void commitment(const void* input, size_t n, const uint8_t hash[32], uint8_t out[32]) {
    Blake2b b;
    b.init(32);
    b.update(input, n);
    b.update(hash, 32);
    b.final(out);
}

} // namespace spec
