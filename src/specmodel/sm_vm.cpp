// RandomX virtual machine: spec chapters 4 (machine, programming, loop) and 5 (instruction set).
//
// Floating point: scalar IEEE-754 doubles, two per register, computed with the
// hardware rounding mode selected through fesetround().  Operands and results
// pass through volatile objects so that no operation is evaluated at compile
// time or moved across a rounding mode change.  Compile with -frounding-math.
#include "specmodel.hpp"

#include <cfenv>
#include <cmath>
#include <cstring>

namespace spec {

namespace {

inline uint64_t rotr64(uint64_t x, unsigned n) { n &= 63; return n ? (x >> n) | (x << (64 - n)) : x; }
inline uint64_t rotl64(uint64_t x, unsigned n) { n &= 63; return n ? (x << n) | (x >> (64 - n)) : x; }
inline uint64_t sign_extend(uint32_t v) { return (uint64_t)(int64_t)(int32_t)v; }

inline uint64_t bits_of(double d) { uint64_t u; std::memcpy(&u, &d, 8); return u; }
inline double double_of(uint64_t u) { double d; std::memcpy(&d, &u, 8); return d; }

// Table 4.3.1
int hw_rounding_mode(int fprc) {
    switch (fprc & 3) {
    case 0: return FE_TONEAREST;
    case 1: return FE_DOWNWARD;
    case 2: return FE_UPWARD;
    default: return FE_TOWARDZERO;
    }
}

inline void use_rounding(int fprc) {
    // Unconditional: fegetround() reports only the x87 control word on x86-64, while code outside the
    // model may have changed MXCSR alone; never trust a cached or partially read mode.
    std::fesetround(hw_rounding_mode(fprc));
}

double fp_add(double a, double b) { volatile double x = a, y = b; volatile double r = x + y; return r; }
double fp_sub(double a, double b) { volatile double x = a, y = b; volatile double r = x - y; return r; }
double fp_mul(double a, double b) { volatile double x = a, y = b; volatile double r = x * y; return r; }
double fp_div(double a, double b) { volatile double x = a, y = b; volatile double r = x / y; return r; }
double fp_sqrt(double a) { volatile double x = a; volatile double r = std::sqrt(x); return r; }

const uint64_t EXP_FIELD = 0x7ff0000000000000ull;
const uint64_t FRAC_FIELD = 0x000fffffffffffffull;

// monitor for results of floating point instructions
inline void watch_result(FpMonitor& m, double v, bool group_e) {
    uint64_t u = bits_of(v);
    uint64_t ex = u & EXP_FIELD, fr = u & FRAC_FIELD;
    if (ex == EXP_FIELD) {
        if (fr) m.nan_result++;
        else if (group_e) m.e_infinite++;
        else m.f_infinite++;
    }
    else if (ex == 0 && fr != 0) m.subnormal_result++;
}
inline void watch_e(FpMonitor& m, double v) { if (!(v > 0.0)) m.e_not_positive++; }

} // namespace

RoundingGuard::RoundingGuard() : saved(std::fegetround()) {}
RoundingGuard::~RoundingGuard() { std::fesetround(saved); }

const char* itype_name(IType t) {
    static const char* names[ITYPE_COUNT] = {
        "IADD_RS", "IADD_M", "ISUB_R", "ISUB_M", "IMUL_R", "IMUL_M", "IMULH_R", "IMULH_M", "ISMULH_R", "ISMULH_M",
        "IMUL_RCP", "INEG_R", "IXOR_R", "IXOR_M", "IROR_R", "IROL_R", "ISWAP_R", "FSWAP_R", "FADD_R", "FADD_M",
        "FSUB_R", "FSUB_M", "FSCAL_R", "FMUL_R", "FDIV_M", "FSQRT_R", "CBRANCH", "CFROUND", "ISTORE", "NOP"
    };
    return (int)t < ITYPE_COUNT ? names[(int)t] : "?";
}

// 5.1.1: the number of opcodes of an instruction is its frequency; ranges are assigned cumulatively.
IType decode_type(uint8_t opcode, const Params& p) {
    uint32_t ceiling = 0;
    for (int t = 0; t < ITYPE_COUNT; ++t) {
        ceiling += p.freq[t];
        if (opcode < ceiling) return (IType)t;
    }
    return IType::NOP;
}

uint32_t dataset_address_mask(const Params& p) {
    return (uint32_t)((p.dataset_base_size - 1) & ~(uint64_t)63);
}

// 4.3.1
void convert_f(const uint8_t mem[8], double out[2]) {
    out[0] = (double)(int32_t)load_le32(mem);
    out[1] = (double)(int32_t)load_le32(mem + 4);
}

// 4.3.2
void convert_e(const uint8_t mem[8], const uint64_t emask[2], double out[2]) {
    double f[2];
    convert_f(mem, f);
    for (int half = 0; half < 2; ++half) {
        uint64_t u = bits_of(f[half]);
        uint64_t exponent = (u >> 52) & 0x7ff;
        uint64_t fraction = u & FRAC_FIELD;
        uint64_t mask_fraction = emask[half] & 0x3fffff;            // 22 bits
        uint64_t mask_exponent = (emask[half] >> 52) & 0x7f0;       // 0b011 mmmm 0000
        // 1. sign = 0;  2./3. upper seven exponent bits from the mask, lower four kept
        exponent = mask_exponent | (exponent & 0xf);
        // 4. bottom 22 fraction bits from the mask
        fraction = (fraction & ~(uint64_t)0x3fffff) | mask_fraction;
        out[half] = double_of((exponent << 52) | fraction);
    }
}

void VmState::register_file(uint8_t out[256]) const {
    for (int i = 0; i < 8; ++i) store_le64(out + 8 * i, r[i]);
    for (int i = 0; i < 4; ++i) {
        store_le64(out + 64 + 16 * i, bits_of(f[i][0]));
        store_le64(out + 64 + 16 * i + 8, bits_of(f[i][1]));
        store_le64(out + 128 + 16 * i, bits_of(e[i][0]));
        store_le64(out + 128 + 16 * i + 8, bits_of(e[i][1]));
        store_le64(out + 192 + 16 * i, bits_of(a[i][0]));
        store_le64(out + 192 + 16 * i + 8, bits_of(a[i][1]));
    }
}

// ---------------------------------------------------------------------------
// 4.5 VM programming (configuration part)
// ---------------------------------------------------------------------------
void program_configure(VmState& st, const uint8_t cfg[128], const Params& p) {
    uint64_t q[16];
    for (int i = 0; i < 16; ++i) q[i] = load_le64(cfg + 8 * i);

    // 4.5.2 group A: +1.fraction * 2^exponent, exponent 0..31
    for (int i = 0; i < 8; ++i) {
        uint64_t fraction = q[i] & FRAC_FIELD;       // bits 0-51
        uint64_t exponent = q[i] >> 59;              // bits 59-63
        uint64_t biased = exponent + 1023;
        double v = double_of((biased << 52) | fraction);
        st.a[i / 2][i % 2] = v;
        if (!(v >= 1.0 && v < 4294967296.0)) st.mon.a_out_of_range++;
    }
    // 4.5.3
    st.ma = (uint32_t)q[8];
    st.mx = (uint32_t)q[10];
    // 4.5.4
    for (int i = 0; i < 4; ++i) st.read_reg[i] = 2 * i + (uint32_t)((q[12] >> i) & 1);
    // 4.5.5
    st.dataset_offset = (q[13] % (p.dataset_extra_size / 64 + 1)) * 64;
    // 4.5.6 + 4.3.2: fraction mask bits 0-21, exponent mask bits 60-63; exponent = 011 mmmm xxxx
    for (int half = 0; half < 2; ++half) {
        uint64_t w = q[14 + half];
        uint64_t exponent = (0x3ull << 8) | ((w >> 60) << 4);
        st.emask[half] = (w & 0x3fffff) | (exponent << 52);
    }
}

// ---------------------------------------------------------------------------
// Decoding (chapter 5)
// ---------------------------------------------------------------------------
void decode_program(const uint8_t* prog_bytes, bool v2, const Params& p, ProgramCtx& ctx) {
    ctx.v2 = v2;
    ctx.size = p.program_size(v2);
    ctx.ins.assign(ctx.size, DecodedInstr());
    ctx.last_writer.assign(ctx.size + 1, std::array<int, 8>());
    // table 4.2.1
    ctx.l1_mask = (p.scratchpad_l1 - 1) & ~7u;
    ctx.l2_mask = (p.scratchpad_l2 - 1) & ~7u;
    ctx.l3_mask = (p.scratchpad_l3 - 1) & ~7u;
    ctx.l3_mask64 = (p.scratchpad_l3 - 1) & ~63u;

    std::array<int, 8> writer;
    writer.fill(-1);   // "At the beginning of each program iteration, all registers are considered to be unmodified."

    const uint8_t* code = prog_bytes + 128;
    for (uint32_t i = 0; i < ctx.size; ++i) {
        ctx.last_writer[i] = writer;
        DecodedInstr& d = ctx.ins[i];
        const uint8_t* w = code + 8 * i;
        d.opcode = w[0]; d.dst = w[1]; d.src = w[2]; d.mod = w[3];
        d.imm32 = load_le32(w + 4);
        d.type = decode_type(d.opcode, p);
        d.nop = false;
        d.src_is_imm = false;
        d.imm64 = sign_extend(d.imm32);
        d.mem_mask = 0; d.shift = 0; d.cond_mask = 0; d.target = -1;
        d.rd = d.dst % 8;
        d.rs = d.src % 8;
        const uint32_t mod_mem = d.mod & 3, mod_shift = (d.mod >> 2) & 3, mod_cond = d.mod >> 4;
        const uint32_t l12 = mod_mem ? ctx.l1_mask : ctx.l2_mask;   // table 5.1.4

        switch (d.type) {
        case IType::IADD_RS:
            d.shift = mod_shift;
            writer[d.rd] = (int)i;
            break;
        case IType::IADD_M: case IType::ISUB_M: case IType::IMUL_M: case IType::IMULH_M:
        case IType::ISMULH_M: case IType::IXOR_M:
            if (d.rs == d.rd) { d.src_is_imm = true; d.mem_mask = ctx.l3_mask; }   // src = 0, level L3
            else d.mem_mask = l12;
            writer[d.rd] = (int)i;
            break;
        case IType::ISUB_R: case IType::IMUL_R: case IType::IXOR_R:
            if (d.rs == d.rd) d.src_is_imm = true;                                  // src = imm32 (sign-extended)
            writer[d.rd] = (int)i;
            break;
        case IType::IROR_R: case IType::IROL_R:
            if (d.rs == d.rd) { d.src_is_imm = true; d.imm64 = d.imm32 & 63; }
            writer[d.rd] = (int)i;
            break;
        case IType::IMULH_R: case IType::ISMULH_R:
            writer[d.rd] = (int)i;
            break;
        case IType::IMUL_RCP:
            if (is_zero_or_power_of_2(d.imm32)) d.nop = true;                       // 5.2.6, not a writer (5.4.2)
            else { d.imm64 = reciprocal(d.imm32); writer[d.rd] = (int)i; }
            break;
        case IType::INEG_R:
            writer[d.rd] = (int)i;
            break;
        case IType::ISWAP_R:
            if (d.rs == d.rd) d.nop = true;
            else { writer[d.rd] = (int)i; writer[d.rs] = (int)i; }
            break;
        case IType::FSWAP_R:
            break;                                   // rd 0-3: f, 4-7: e
        case IType::FADD_R: case IType::FSUB_R: case IType::FMUL_R:
            d.rd = d.dst % 4; d.rs = d.src % 4;
            break;
        case IType::FADD_M: case IType::FSUB_M: case IType::FDIV_M:
            d.rd = d.dst % 4;
            d.mem_mask = l12;
            break;
        case IType::FSCAL_R: case IType::FSQRT_R:
            d.rd = d.dst % 4;
            break;
        case IType::CBRANCH: {
            uint32_t b = mod_cond + p.jump_offset;
            uint64_t cimm = sign_extend(d.imm32) | (1ull << b);
            if (b > 0) cimm &= ~(1ull << (b - 1));
            d.imm64 = cimm;
            d.shift = b;
            d.cond_mask = ((1ull << p.jump_bits) - 1) << b;
            d.target = writer[d.rd];
            writer.fill((int)i);                     // "considered to modify all integer registers"
        } break;
        case IType::CFROUND:
            d.imm64 = d.imm32 & 63;
            break;
        case IType::ISTORE:
            d.mem_mask = (mod_cond >= 14) ? ctx.l3_mask : l12;
            break;
        case IType::NOP:
            d.nop = true;
            break;
        }
    }
    ctx.last_writer[ctx.size] = writer;
}

// ---------------------------------------------------------------------------
// Execution of one instruction
// ---------------------------------------------------------------------------
int step(VmState& st, const ProgramCtx& ctx, int pc, bool v2) {
    const DecodedInstr& d = ctx.ins[(size_t)pc];
    st.executed++;
    st.executed_by_type[(int)d.type]++;
    int next = pc + 1;
    if (d.nop) return next;

    uint8_t* sp = st.scratchpad.data();
    auto mem_addr = [&](uint64_t base) -> uint32_t { return (uint32_t)(base + sign_extend(d.imm32)) & d.mem_mask; };
    auto int_mem = [&]() -> uint64_t { return load_le64(sp + mem_addr(d.src_is_imm ? 0 : st.r[d.rs])); };
    auto int_src = [&]() -> uint64_t { return d.src_is_imm ? d.imm64 : st.r[d.rs]; };

    uint64_t& dst = st.r[d.rd];

    switch (d.type) {
    case IType::IADD_RS: {
        uint64_t v = dst + (st.r[d.rs] << d.shift);
        if (d.rd == 5) v += sign_extend(d.imm32);
        dst = v;
    } break;
    case IType::IADD_M: dst += int_mem(); break;
    case IType::ISUB_R: dst -= int_src(); break;
    case IType::ISUB_M: dst -= int_mem(); break;
    case IType::IMUL_R: dst *= int_src(); break;
    case IType::IMUL_M: dst *= int_mem(); break;
    case IType::IMULH_R: dst = (uint64_t)(((unsigned __int128)dst * st.r[d.rs]) >> 64); break;
    case IType::IMULH_M: dst = (uint64_t)(((unsigned __int128)dst * int_mem()) >> 64); break;
    case IType::ISMULH_R: dst = (uint64_t)(((__int128)(int64_t)dst * (int64_t)st.r[d.rs]) >> 64); break;
    case IType::ISMULH_M: dst = (uint64_t)(((__int128)(int64_t)dst * (int64_t)int_mem()) >> 64); break;
    case IType::IMUL_RCP: dst *= d.imm64; break;
    case IType::INEG_R: dst = 0 - dst; break;
    case IType::IXOR_R: dst ^= int_src(); break;
    case IType::IXOR_M: dst ^= int_mem(); break;
    case IType::IROR_R: dst = rotr64(dst, (unsigned)(int_src() & 63)); break;
    case IType::IROL_R: dst = rotl64(dst, (unsigned)(int_src() & 63)); break;
    case IType::ISWAP_R: { uint64_t t = st.r[d.rs]; st.r[d.rs] = dst; dst = t; } break;

    case IType::FSWAP_R: {
        double* reg = (d.rd < 4) ? st.f[d.rd] : st.e[d.rd - 4];
        double t = reg[0]; reg[0] = reg[1]; reg[1] = t;
    } break;
    case IType::FADD_R:
        use_rounding(st.fprc);
        for (int h = 0; h < 2; ++h) { st.f[d.rd][h] = fp_add(st.f[d.rd][h], st.a[d.rs][h]); watch_result(st.mon, st.f[d.rd][h], false); }
        break;
    case IType::FSUB_R:
        use_rounding(st.fprc);
        for (int h = 0; h < 2; ++h) { st.f[d.rd][h] = fp_sub(st.f[d.rd][h], st.a[d.rs][h]); watch_result(st.mon, st.f[d.rd][h], false); }
        break;
    case IType::FADD_M: {
        double m[2];
        convert_f(sp + mem_addr(st.r[d.rs]), m);
        use_rounding(st.fprc);
        for (int h = 0; h < 2; ++h) { st.f[d.rd][h] = fp_add(st.f[d.rd][h], m[h]); watch_result(st.mon, st.f[d.rd][h], false); }
    } break;
    case IType::FSUB_M: {
        double m[2];
        convert_f(sp + mem_addr(st.r[d.rs]), m);
        use_rounding(st.fprc);
        for (int h = 0; h < 2; ++h) { st.f[d.rd][h] = fp_sub(st.f[d.rd][h], m[h]); watch_result(st.mon, st.f[d.rd][h], false); }
    } break;
    case IType::FSCAL_R:
        for (int h = 0; h < 2; ++h) {
            st.f[d.rd][h] = double_of(bits_of(st.f[d.rd][h]) ^ 0x80F0000000000000ull);
            watch_result(st.mon, st.f[d.rd][h], false);
        }
        break;
    case IType::FMUL_R:
        use_rounding(st.fprc);
        for (int h = 0; h < 2; ++h) {
            st.e[d.rd][h] = fp_mul(st.e[d.rd][h], st.a[d.rs][h]);
            watch_result(st.mon, st.e[d.rd][h], true); watch_e(st.mon, st.e[d.rd][h]);
        }
        break;
    case IType::FDIV_M: {
        double m[2];
        convert_e(sp + mem_addr(st.r[d.rs]), st.emask, m);
        use_rounding(st.fprc);
        for (int h = 0; h < 2; ++h) {
            watch_e(st.mon, m[h]);
            st.e[d.rd][h] = fp_div(st.e[d.rd][h], m[h]);
            watch_result(st.mon, st.e[d.rd][h], true); watch_e(st.mon, st.e[d.rd][h]);
        }
    } break;
    case IType::FSQRT_R:
        use_rounding(st.fprc);
        for (int h = 0; h < 2; ++h) {
            st.e[d.rd][h] = fp_sqrt(st.e[d.rd][h]);
            watch_result(st.mon, st.e[d.rd][h], true); watch_e(st.mon, st.e[d.rd][h]);
        }
        break;

    case IType::CBRANCH:
        dst += d.imm64;
        if ((dst & d.cond_mask) == 0) { next = d.target + 1; st.branches_taken++; }
        break;
    case IType::CFROUND: {
        uint64_t v = rotr64(st.r[d.rs], (unsigned)d.imm64);
        // v1: always; v2: only if bits 2-5 of the rotated value are zero
        if (!v2 || (v & 60) == 0) { st.fprc = (int)(v & 3); st.fprc_changes++; }
    } break;
    case IType::ISTORE:
        store_le64(sp + mem_addr(dst), st.r[d.rs]);
        break;
    case IType::NOP:
        break;
    }
    return next;
}

// ---------------------------------------------------------------------------
// 4.6 VM execution
// ---------------------------------------------------------------------------
void run_program(VmState& st, const uint8_t* prog_bytes, bool v2, const Params& p,
                 const std::function<void(uint64_t item_index, uint8_t out[64])>& dataset_item) {
    RoundingGuard guard;
    if (st.scratchpad.size() != p.scratchpad_l3) st.scratchpad.resize(p.scratchpad_l3);

    program_configure(st, prog_bytes, p);
    ProgramCtx ctx;
    decode_program(prog_bytes, v2, p, ctx);

    // 4.6.1
    uint32_t ic = p.program_iterations;
    uint32_t sp_addr0 = st.mx;
    uint32_t sp_addr1 = st.ma;
    for (int i = 0; i < 8; ++i) st.r[i] = 0;

    uint8_t* sp = st.scratchpad.data();
    const int n = (int)ctx.size;

    // 4.6.2
    while (ic != 0) {
        // 1.
        uint64_t mix = st.r[st.read_reg[0]] ^ st.r[st.read_reg[1]];
        sp_addr0 ^= (uint32_t)mix;
        sp_addr1 ^= (uint32_t)(mix >> 32);
        // 2.
        const uint32_t a0 = sp_addr0 & ctx.l3_mask64;
        for (int i = 0; i < 8; ++i) st.r[i] ^= load_le64(sp + a0 + 8 * i);
        // 3.
        const uint32_t a1 = sp_addr1 & ctx.l3_mask64;
        for (int i = 0; i < 4; ++i) convert_f(sp + a1 + 8 * i, st.f[i]);
        for (int i = 0; i < 4; ++i) {
            convert_e(sp + a1 + 32 + 8 * i, st.emask, st.e[i]);
            watch_e(st.mon, st.e[i][0]); watch_e(st.mon, st.e[i][1]);
        }
        // 4.
        for (int pc = 0; pc < n; ) pc = step(st, ctx, pc, v2);
        // 5.  mt = ma; mp ^= low 32 bits of (readReg2 ^ readReg3); mp = mx (v1) or ma (v2)
        uint32_t mt = st.ma;
        uint32_t& mp = v2 ? st.ma : st.mx;
        mp ^= (uint32_t)(st.r[st.read_reg[2]] ^ st.r[st.read_reg[3]]);
        // 6. the prefetch has no architectural effect
        // 7.
        uint64_t read_addr = st.dataset_offset + ((mt % p.dataset_base_size) & ~(uint64_t)63);
        uint8_t item[64];
        dataset_item(read_addr / 64, item);
        for (int i = 0; i < 8; ++i) st.r[i] ^= load_le64(item + 8 * i);
        // 8.
        { uint32_t t = st.mx; st.mx = st.ma; st.ma = t; }
        // 9.
        for (int i = 0; i < 8; ++i) store_le64(sp + a1 + 8 * i, st.r[i]);
        // 10.
        if (!v2) {
            for (int i = 0; i < 4; ++i)
                for (int h = 0; h < 2; ++h)
                    st.f[i][h] = double_of(bits_of(st.f[i][h]) ^ bits_of(st.e[i][h]));
        } else {
            uint8_t fb[4][16], key[16];
            for (int i = 0; i < 4; ++i) { store_le64(fb[i], bits_of(st.f[i][0])); store_le64(fb[i] + 8, bits_of(st.f[i][1])); }
            for (int k = 0; k < 4; ++k) {
                store_le64(key, bits_of(st.e[k][0])); store_le64(key + 8, bits_of(st.e[k][1]));
                aes_enc_round(fb[0], key);
                aes_dec_round(fb[1], key);
                aes_enc_round(fb[2], key);
                aes_dec_round(fb[3], key);
            }
            for (int i = 0; i < 4; ++i) { st.f[i][0] = double_of(load_le64(fb[i])); st.f[i][1] = double_of(load_le64(fb[i] + 8)); }
        }
        // 11.
        for (int i = 0; i < 4; ++i) { store_le64(sp + a0 + 16 * i, bits_of(st.f[i][0])); store_le64(sp + a0 + 16 * i + 8, bits_of(st.f[i][1])); }
        // 12., 13.
        sp_addr0 = 0;
        sp_addr1 = 0;
        --ic;
    }
}

} // namespace spec
