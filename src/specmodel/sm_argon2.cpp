// Argon2d version 0x13 per RFC 9106.
#include "specmodel.hpp"

#include <cstring>

namespace spec {

namespace {

const uint32_t ARGON_VERSION = 0x13;
const uint32_t ARGON_TYPE_D = 0;
const uint32_t SLICES = 4;           // "SL = 4 vertical slices" (RFC 9106 section 3.4)
const size_t BLOCK_BYTES = 1024;
const size_t BLOCK_WORDS = 128;

// RFC 9106 section 3.3: variable-length hash function H'
void h_prime(uint8_t* out, uint32_t outlen, const uint8_t* in, size_t inlen) {
    uint8_t len_le[4];
    store_le32(len_le, outlen);
    if (outlen <= 64) {
        Blake2b b;
        b.init(outlen);
        b.update(len_le, 4);
        b.update(in, inlen);
        b.final(out);
        return;
    }
    // r = ceil(T/32) - 2
    uint32_t r = (outlen + 31) / 32 - 2;
    uint8_t v[64];
    Blake2b b;
    b.init(64);
    b.update(len_le, 4);
    b.update(in, inlen);
    b.final(v);                                   // V_1
    std::memcpy(out, v, 32);
    uint32_t written = 32;
    for (uint32_t i = 2; i <= r; ++i) {           // V_2 .. V_r
        uint8_t next[64];
        blake2b(next, 64, v, 64);
        std::memcpy(v, next, 64);
        std::memcpy(out + written, v, 32);
        written += 32;
    }
    uint32_t last_len = outlen - 32 * r;          // V_(r+1)
    uint8_t last[64];
    blake2b(last, last_len, v, 64);
    std::memcpy(out + written, last, last_len);
}

inline uint64_t rotr64(uint64_t x, unsigned n) { return (x >> n) | (x << (64 - n)); }

// RFC 9106 section 3.6: GB, the BLAKE2b quarter round with multiplications
inline void gb(uint64_t& a, uint64_t& b, uint64_t& c, uint64_t& d) {
    const uint64_t lo = 0xffffffffull;
    a = a + b + 2 * (a & lo) * (b & lo);
    d = rotr64(d ^ a, 32);
    c = c + d + 2 * (c & lo) * (d & lo);
    b = rotr64(b ^ c, 24);
    a = a + b + 2 * (a & lo) * (b & lo);
    d = rotr64(d ^ a, 16);
    c = c + d + 2 * (c & lo) * (d & lo);
    b = rotr64(b ^ c, 63);
}

// Permutation P on eight 16-byte registers = sixteen 64-bit words v0..v15
inline void perm_p(uint64_t v[16]) {
    gb(v[0], v[4], v[8], v[12]);
    gb(v[1], v[5], v[9], v[13]);
    gb(v[2], v[6], v[10], v[14]);
    gb(v[3], v[7], v[11], v[15]);
    gb(v[0], v[5], v[10], v[15]);
    gb(v[1], v[6], v[11], v[12]);
    gb(v[2], v[7], v[8], v[13]);
    gb(v[3], v[4], v[9], v[14]);
}

// RFC 9106 section 3.5: compression function G.  result = G(x, y), optionally XORed onto 'old'.
void compress_g(const uint64_t x[BLOCK_WORDS], const uint64_t y[BLOCK_WORDS],
                const uint64_t* old_or_null, uint64_t result[BLOCK_WORDS]) {
    uint64_t r[BLOCK_WORDS], q[BLOCK_WORDS];
    for (size_t i = 0; i < BLOCK_WORDS; ++i) { r[i] = x[i] ^ y[i]; q[i] = r[i]; }
    // R is an 8x8 matrix of 16-byte registers; P is applied to every row ...
    for (int row = 0; row < 8; ++row)
        perm_p(&q[16 * row]);
    // ... and then to every column
    for (int col = 0; col < 8; ++col) {
        uint64_t v[16];
        for (int row = 0; row < 8; ++row) {
            v[2 * row] = q[16 * row + 2 * col];
            v[2 * row + 1] = q[16 * row + 2 * col + 1];
        }
        perm_p(v);
        for (int row = 0; row < 8; ++row) {
            q[16 * row + 2 * col] = v[2 * row];
            q[16 * row + 2 * col + 1] = v[2 * row + 1];
        }
    }
    for (size_t i = 0; i < BLOCK_WORDS; ++i) {
        uint64_t z = q[i] ^ r[i];
        if (old_or_null) z ^= old_or_null[i];
        result[i] = z;
    }
}

void load_block(const uint8_t* p, uint64_t w[BLOCK_WORDS]) {
    for (size_t i = 0; i < BLOCK_WORDS; ++i) w[i] = load_le64(p + 8 * i);
}
void store_block(uint8_t* p, const uint64_t w[BLOCK_WORDS]) {
    for (size_t i = 0; i < BLOCK_WORDS; ++i) store_le64(p + 8 * i, w[i]);
}

struct Argon2dRun {
    uint32_t lanes, columns, segment, passes;   // columns = q = m'/p
    std::vector<uint8_t>* mem;

    uint8_t* block(uint32_t lane, uint32_t col) { return mem->data() + ((size_t)lane * columns + col) * BLOCK_BYTES; }

    // RFC 9106 section 3.4: one segment of one lane
    void fill_segment(uint32_t pass, uint32_t slice, uint32_t lane) {
        uint32_t first = (pass == 0 && slice == 0) ? 2 : 0;   // B[i][0], B[i][1] come from H0
        for (uint32_t idx = first; idx < segment; ++idx) {
            uint32_t col = slice * segment + idx;
            uint32_t prev_col = (col == 0) ? columns - 1 : col - 1;
            uint64_t prev[BLOCK_WORDS];
            load_block(block(lane, prev_col), prev);

            // 3.4.1.1 Argon2d: J1, J2 = first and second 32 bits of the previous block
            uint32_t j1 = (uint32_t)(prev[0] & 0xffffffffull);
            uint32_t j2 = (uint32_t)(prev[0] >> 32);

            // 3.4.2: lane of the reference block
            uint32_t ref_lane = j2 % lanes;
            if (pass == 0 && slice == 0) ref_lane = lane;
            bool same = (ref_lane == lane);

            // size of the reference set W
            uint64_t w_size;
            if (pass == 0) {
                // only what has been computed so far: finished slices of this pass + current segment
                if (same) w_size = (uint64_t)slice * segment + idx - 1;          // excluding B[i][j-1]
                else w_size = (uint64_t)slice * segment - (idx == 0 ? 1 : 0);
            } else {
                // the last SL-1 = 3 finished segments (+ current segment for the same lane)
                if (same) w_size = (uint64_t)(SLICES - 1) * segment + idx - 1;
                else w_size = (uint64_t)(SLICES - 1) * segment - (idx == 0 ? 1 : 0);
            }

            // mapping J1 -> position, favouring recent blocks
            uint64_t x = ((uint64_t)j1 * (uint64_t)j1) >> 32;
            uint64_t y = (w_size * x) >> 32;
            uint64_t zz = w_size - 1 - y;

            // W starts at the segment following the current one (pass > 0) or at column 0 (pass 0)
            uint64_t start = 0;
            if (pass != 0) start = ((uint64_t)(slice + 1) % SLICES) * segment;
            uint32_t ref_col = (uint32_t)((start + zz) % columns);

            uint64_t ref[BLOCK_WORDS], cur[BLOCK_WORDS], out[BLOCK_WORDS];
            load_block(block(ref_lane, ref_col), ref);
            if (pass == 0) {
                compress_g(prev, ref, nullptr, out);
            } else {
                // version 0x13: the new block is XORed onto the old one
                load_block(block(lane, col), cur);
                compress_g(prev, ref, cur, out);
            }
            store_block(block(lane, col), out);
        }
    }
};

} // namespace

void argon2d_tag(const void* pwd, size_t pwdlen, const void* salt, size_t saltlen,
                 const void* secret, size_t secretlen, const void* ad, size_t adlen,
                 uint32_t m_blocks, uint32_t t_cost, uint32_t lanes,
                 uint8_t* tag, uint32_t taglen,
                 std::vector<uint8_t>* memory_out) {
    // 3.2 step 1: H0
    uint8_t h0[64 + 8];
    {
        Blake2b b;
        b.init(64);
        uint8_t w[4];
        store_le32(w, lanes); b.update(w, 4);
        store_le32(w, taglen); b.update(w, 4);
        store_le32(w, m_blocks); b.update(w, 4);
        store_le32(w, t_cost); b.update(w, 4);
        store_le32(w, ARGON_VERSION); b.update(w, 4);
        store_le32(w, ARGON_TYPE_D); b.update(w, 4);
        store_le32(w, (uint32_t)pwdlen); b.update(w, 4); b.update(pwd, pwdlen);
        store_le32(w, (uint32_t)saltlen); b.update(w, 4); b.update(salt, saltlen);
        store_le32(w, (uint32_t)secretlen); b.update(w, 4); b.update(secret, secretlen);
        store_le32(w, (uint32_t)adlen); b.update(w, 4); b.update(ad, adlen);
        b.final(h0);
    }

    // step 2: m' = 4 * p * floor(m / 4p)
    uint32_t m_prime = 4 * lanes * (m_blocks / (4 * lanes));
    Argon2dRun run;
    run.lanes = lanes;
    run.columns = m_prime / lanes;
    run.segment = run.columns / SLICES;
    run.passes = t_cost;

    std::vector<uint8_t> local;
    std::vector<uint8_t>& mem = memory_out ? *memory_out : local;
    mem.assign((size_t)m_prime * BLOCK_BYTES, 0);
    run.mem = &mem;

    // steps 3, 4: first two columns
    for (uint32_t lane = 0; lane < lanes; ++lane) {
        store_le32(h0 + 68, lane);
        store_le32(h0 + 64, 0);
        h_prime(run.block(lane, 0), (uint32_t)BLOCK_BYTES, h0, 72);
        store_le32(h0 + 64, 1);
        h_prime(run.block(lane, 1), (uint32_t)BLOCK_BYTES, h0, 72);
    }

    // steps 5, 6: passes; slices are synchronisation points, lanes within a slice are independent
    for (uint32_t pass = 0; pass < t_cost; ++pass)
        for (uint32_t slice = 0; slice < SLICES; ++slice)
            for (uint32_t lane = 0; lane < lanes; ++lane)
                run.fill_segment(pass, slice, lane);

    // steps 7, 8: final block and tag
    if (tag != nullptr && taglen > 0) {
        uint8_t c[BLOCK_BYTES];
        std::memcpy(c, run.block(0, run.columns - 1), BLOCK_BYTES);
        for (uint32_t lane = 1; lane < lanes; ++lane) {
            const uint8_t* last = run.block(lane, run.columns - 1);
            for (size_t i = 0; i < BLOCK_BYTES; ++i) c[i] ^= last[i];
        }
        h_prime(tag, taglen, c, BLOCK_BYTES);
    }
}

void argon2d_fill(const void* pwd, size_t pwdlen, const void* salt, size_t saltlen,
                  uint32_t m_blocks, uint32_t t_cost, uint32_t lanes,
                  std::vector<uint8_t>& memory_out) {
    // spec table 7.1.1: output size 0, no secret, no associated data, finalisation omitted
    argon2d_tag(pwd, pwdlen, salt, saltlen, nullptr, 0, nullptr, 0, m_blocks, t_cost, lanes, nullptr, 0, &memory_out);
}

} // namespace spec
