// BLAKE2b per RFC 7693 (sequential mode, no salt / personalisation).
#include "specmodel.hpp"

#include <cstring>

namespace spec {

namespace {

// RFC 7693 section 2.6: IV = fractional parts of the square roots of the first eight primes.
const uint64_t IV[8] = {
    0x6a09e667f3bcc908ull, 0xbb67ae8584caa73bull, 0x3c6ef372fe94f82bull, 0xa54ff53a5f1d36f1ull,
    0x510e527fade682d1ull, 0x9b05688c2b3e6c1full, 0x1f83d9abfb41bd6bull, 0x5be0cd19137e2179ull
};

// RFC 7693 section 2.7: message word schedule.
const uint8_t SIGMA[10][16] = {
    { 0, 1, 2, 3, 4, 5, 6, 7, 8, 9, 10, 11, 12, 13, 14, 15 },
    { 14, 10, 4, 8, 9, 15, 13, 6, 1, 12, 0, 2, 11, 7, 5, 3 },
    { 11, 8, 12, 0, 5, 2, 15, 13, 10, 14, 3, 6, 7, 1, 9, 4 },
    { 7, 9, 3, 1, 13, 12, 11, 14, 2, 6, 5, 10, 4, 0, 15, 8 },
    { 9, 0, 5, 7, 2, 4, 10, 15, 14, 1, 11, 12, 6, 8, 3, 13 },
    { 2, 12, 6, 10, 0, 11, 8, 3, 4, 13, 7, 5, 15, 14, 1, 9 },
    { 12, 5, 1, 15, 14, 13, 4, 10, 0, 7, 6, 3, 9, 2, 8, 11 },
    { 13, 11, 7, 14, 12, 1, 3, 9, 5, 0, 15, 4, 8, 6, 2, 10 },
    { 6, 15, 14, 9, 11, 3, 0, 8, 12, 2, 13, 7, 1, 4, 10, 5 },
    { 10, 2, 8, 4, 7, 6, 1, 5, 15, 11, 9, 14, 3, 12, 13, 0 }
};

inline uint64_t rotr64(uint64_t x, unsigned n) { return (x >> n) | (x << (64 - n)); }

// Mixing function G (RFC 7693 section 3.1) with R1..R4 = 32, 24, 16, 63.
inline void mix(uint64_t v[16], int a, int b, int c, int d, uint64_t x, uint64_t y) {
    v[a] = v[a] + v[b] + x;
    v[d] = rotr64(v[d] ^ v[a], 32);
    v[c] = v[c] + v[d];
    v[b] = rotr64(v[b] ^ v[c], 24);
    v[a] = v[a] + v[b] + y;
    v[d] = rotr64(v[d] ^ v[a], 16);
    v[c] = v[c] + v[d];
    v[b] = rotr64(v[b] ^ v[c], 63);
}

} // namespace

// Compression function F (RFC 7693 section 3.2).
void blake2b_compress(uint64_t h[8], const uint8_t block[128], uint64_t t_lo, uint64_t t_hi, bool last) {
    uint64_t m[16];
    for (int i = 0; i < 16; ++i) m[i] = load_le64(block + 8 * i);

    uint64_t v[16];
    for (int i = 0; i < 8; ++i) { v[i] = h[i]; v[i + 8] = IV[i]; }
    v[12] ^= t_lo;
    v[13] ^= t_hi;
    if (last) v[14] = ~v[14];

    for (int round = 0; round < 12; ++round) {
        const uint8_t* s = SIGMA[round % 10];
        mix(v, 0, 4, 8, 12, m[s[0]], m[s[1]]);
        mix(v, 1, 5, 9, 13, m[s[2]], m[s[3]]);
        mix(v, 2, 6, 10, 14, m[s[4]], m[s[5]]);
        mix(v, 3, 7, 11, 15, m[s[6]], m[s[7]]);
        mix(v, 0, 5, 10, 15, m[s[8]], m[s[9]]);
        mix(v, 1, 6, 11, 12, m[s[10]], m[s[11]]);
        mix(v, 2, 7, 8, 13, m[s[12]], m[s[13]]);
        mix(v, 3, 4, 9, 14, m[s[14]], m[s[15]]);
    }
    for (int i = 0; i < 8; ++i) h[i] ^= v[i] ^ v[i + 8];
}

bool Blake2b::init(size_t outlen, const void* key, size_t keylen) {
    outlen_ = 0;
    if (outlen < 1 || outlen > 64 || keylen > 64 || (keylen > 0 && key == nullptr)) return false;
    for (int i = 0; i < 8; ++i) h_[i] = IV[i];
    // parameter block word 0: digest length, key length, fanout = 1, depth = 1
    h_[0] ^= 0x01010000ull ^ ((uint64_t)keylen << 8) ^ (uint64_t)outlen;
    t_lo_ = t_hi_ = 0;
    buflen_ = 0;
    outlen_ = outlen;
    std::memset(buf_, 0, sizeof buf_);
    if (keylen > 0) {
        // the key, padded with zeros to a full block, is the first data block
        uint8_t kb[128];
        std::memset(kb, 0, sizeof kb);
        std::memcpy(kb, key, keylen);
        update(kb, 128);
        std::memset(kb, 0, sizeof kb);
    }
    return true;
}

void Blake2b::bump(uint64_t n) {
    uint64_t before = t_lo_;
    t_lo_ += n;
    if (t_lo_ < before) ++t_hi_;   // carry into the high word
}

void Blake2b::update(const void* p, size_t n) {
    const uint8_t* in = (const uint8_t*)p;
    while (n > 0) {
        // A full buffer is compressed only when more input follows, so that the
        // final block (possibly a full one) is always processed by final().
        if (buflen_ == 128) {
            bump(128);
            blake2b_compress(h_, buf_, t_lo_, t_hi_, false);
            buflen_ = 0;
        }
        size_t take = 128 - buflen_;
        if (take > n) take = n;
        std::memcpy(buf_ + buflen_, in, take);
        buflen_ += take;
        in += take;
        n -= take;
    }
}

void Blake2b::final(void* out) {
    bump(buflen_);
    std::memset(buf_ + buflen_, 0, 128 - buflen_);
    blake2b_compress(h_, buf_, t_lo_, t_hi_, true);
    uint8_t full[64];
    for (int i = 0; i < 8; ++i) store_le64(full + 8 * i, h_[i]);
    std::memcpy(out, full, outlen_);
}

void blake2b(void* out, size_t outlen, const void* in, size_t inlen, const void* key, size_t keylen) {
    Blake2b b;
    if (!b.init(outlen, key, keylen)) { std::memset(out, 0, outlen <= 64 ? outlen : 64); return; }
    b.update(in, inlen);
    b.final(out);
}

} // namespace spec
