// specmodel.hpp - independent reference model ("oracle") of the RandomX proof of work.
//
// Written from doc/specs.md (RandomX incl. the v2 variant), RFC 7693 (BLAKE2b),
// FIPS-197 (AES round transformations) and RFC 9106 (Argon2d, version 0x13).
// This code includes NO header of the implementation under test and copies none
// of its tables.  Everything that depends on a configurable parameter takes the
// parameter at run time through spec::Params.
//
// Build:  g++ -O2 -std=c++17 -frounding-math  *.cpp
// (-frounding-math is required: the VM changes the IEEE rounding mode with
// fesetround and the compiler must not assume round-to-nearest.)
#pragma once

#include <array>
#include <cstddef>
#include <cstdint>
#include <functional>
#include <string>
#include <vector>

namespace spec {

// ---------------------------------------------------------------------------
// Instruction types of the main VM (spec chapter 5).
//
// Numbering: tables 5.2.1, 5.3.1, 5.4.1, 5.5.1 in order, EXCEPT that CBRANCH
// precedes CFROUND.  The spec text never states how the 256 opcodes are mapped
// to instructions; the public hash test vectors are only reproduced when the
// opcode ranges are assigned cumulatively in exactly this order.
// ---------------------------------------------------------------------------
enum class IType : uint8_t {
    IADD_RS = 0, IADD_M, ISUB_R, ISUB_M, IMUL_R, IMUL_M, IMULH_R, IMULH_M,
    ISMULH_R, ISMULH_M, IMUL_RCP, INEG_R, IXOR_R, IXOR_M, IROR_R, IROL_R, ISWAP_R,
    FSWAP_R, FADD_R, FADD_M, FSUB_R, FSUB_M, FSCAL_R, FMUL_R, FDIV_M, FSQRT_R,
    CBRANCH, CFROUND, ISTORE, NOP
};
constexpr int ITYPE_COUNT = 30;
const char* itype_name(IType t);

// ---------------------------------------------------------------------------
// Configurable parameters (spec table 1.2.1 and the frequency columns of
// tables 5.2.1, 5.3.1, 5.4.1, 5.5.1).
// ---------------------------------------------------------------------------
struct Params {
    uint32_t argon_memory_kib = 262144;
    uint32_t argon_iterations = 3;
    uint32_t argon_lanes = 1;
    std::string argon_salt = "RandomX\x03";
    uint32_t cache_accesses = 8;
    uint32_t superscalar_latency = 170;
    uint64_t dataset_base_size = 2147483648ull;
    uint64_t dataset_extra_size = 33554368;
    uint32_t program_size_v1 = 256;
    uint32_t program_size_v2 = 384;
    uint32_t program_iterations = 2048;
    uint32_t program_count = 8;
    uint32_t scratchpad_l3 = 2097152;
    uint32_t scratchpad_l2 = 262144;
    uint32_t scratchpad_l1 = 16384;
    uint32_t jump_bits = 8;
    uint32_t jump_offset = 8;

    // Opcode counts per instruction ("frequency" x/256), indexed by IType.
    // Values transcribed from the spec tables.
    uint32_t freq[ITYPE_COUNT] = {
        /* IADD_RS  */ 16, /* IADD_M   */ 7,  /* ISUB_R   */ 16, /* ISUB_M   */ 7,
        /* IMUL_R   */ 16, /* IMUL_M   */ 4,  /* IMULH_R  */ 4,  /* IMULH_M  */ 1,
        /* ISMULH_R */ 4,  /* ISMULH_M */ 1,  /* IMUL_RCP */ 8,  /* INEG_R   */ 2,
        /* IXOR_R   */ 15, /* IXOR_M   */ 5,  /* IROR_R   */ 8,  /* IROL_R   */ 2,
        /* ISWAP_R  */ 4,
        /* FSWAP_R  */ 4,  /* FADD_R   */ 16, /* FADD_M   */ 5,  /* FSUB_R   */ 16,
        /* FSUB_M   */ 5,  /* FSCAL_R  */ 6,  /* FMUL_R   */ 32, /* FDIV_M   */ 4,
        /* FSQRT_R  */ 6,
        /* CBRANCH  */ 25, /* CFROUND  */ 1,
        /* ISTORE   */ 16,
        /* NOP      */ 0
    };

    uint32_t program_size(bool v2) const { return v2 ? program_size_v2 : program_size_v1; }
    uint64_t cache_items() const { return (uint64_t)argon_memory_kib * 1024 / 64; }
    uint64_t dataset_items() const { return (dataset_base_size + dataset_extra_size) / 64; }

    static Params production();
    static Params mini();   // small memory, 16 iterations
    static Params iter();   // production geometry, 16 iterations
};

// ---------------------------------------------------------------------------
// BLAKE2b (RFC 7693)
// ---------------------------------------------------------------------------
// One application of the compression function F.  h is updated in place.
void blake2b_compress(uint64_t h[8], const uint8_t block[128], uint64_t t_lo, uint64_t t_hi, bool last);

class Blake2b {
public:
    // outlen 1..64, keylen 0..64.  Returns false (and leaves the object unusable) on bad parameters.
    bool init(size_t outlen, const void* key = nullptr, size_t keylen = 0);
    void update(const void* p, size_t n);
    void final(void* out);
    // Overwrite the 128-bit byte counter t (number of bytes compressed so far).
    // Intended for tests of the carry from the low into the high counter word.
    void set_counter(uint64_t lo, uint64_t hi) { t_lo_ = lo; t_hi_ = hi; }
    uint64_t counter_lo() const { return t_lo_; }
    uint64_t counter_hi() const { return t_hi_; }
private:
    uint64_t h_[8];
    uint64_t t_lo_ = 0, t_hi_ = 0;
    uint8_t buf_[128];
    size_t buflen_ = 0;
    size_t outlen_ = 0;
    void bump(uint64_t n);
};

void blake2b(void* out, size_t outlen, const void* in, size_t inlen, const void* key = nullptr, size_t keylen = 0);
// same function under a name that survives the repository's `#define blake2b randomx_blake2b` when a harness
// includes both worlds (include this header first)
inline void blake2b_ref(void* out, size_t outlen, const void* in, size_t inlen, const void* key = nullptr, size_t keylen = 0) { blake2b(out, outlen, in, inlen, key, keylen); }

// ---------------------------------------------------------------------------
// AES round primitives (FIPS-197).  The 16 state bytes are in the FIPS input
// order: byte i sits in row i%4, column i/4.  This is also the memory order of
// an x86 XMM register, so aes_enc_round == AESENC and aes_dec_round == AESDEC.
// ---------------------------------------------------------------------------
uint8_t aes_sbox(uint8_t x);       // computed: GF(2^8) inverse followed by the affine map
uint8_t aes_inv_sbox(uint8_t x);
void aes_sub_bytes(uint8_t s[16]);
void aes_shift_rows(uint8_t s[16]);
void aes_mix_columns(uint8_t s[16]);
void aes_inv_sub_bytes(uint8_t s[16]);
void aes_inv_shift_rows(uint8_t s[16]);
void aes_inv_mix_columns(uint8_t s[16]);
// state = MixColumns(SubBytes(ShiftRows(state))) xor key
void aes_enc_round(uint8_t state[16], const uint8_t key[16]);
// state = InvMixColumns(InvSubBytes(InvShiftRows(state))) xor key
void aes_dec_round(uint8_t state[16], const uint8_t key[16]);

// Spec chapter 3.2 - 3.4.  Sizes must be multiples of 64.
void fill_aes_1rx4(uint8_t state[64], size_t outSize, uint8_t* out);   // AesGenerator1R, state updated in place
void fill_aes_4rx4(uint8_t state[64], size_t outSize, uint8_t* out);   // AesGenerator4R, state updated in place
void hash_aes_1rx4(const uint8_t* in, size_t inSize, uint8_t hash[64]); // AesHash1R

// Constants of chapter 3, derived at first use from the Hash512/Hash256 string constructions.
struct AesConstants {
    uint8_t gen1_keys[4][16];
    uint8_t gen4_keys[8][16];
    uint8_t hash_state[4][16];
    uint8_t hash_xkeys[2][16];
};
const AesConstants& aes_constants();

// ---------------------------------------------------------------------------
// Argon2d, version 0x13 (RFC 9106)
// ---------------------------------------------------------------------------
// Memory array after all passes, without finalisation. m_blocks is the requested
// memory in 1 KiB blocks (rounded down to a multiple of 4*lanes as in the RFC).
// Block B[lane][column] is at byte offset (lane * columns + column) * 1024.
void argon2d_fill(const void* pwd, size_t pwdlen, const void* salt, size_t saltlen,
                  uint32_t m_blocks, uint32_t t_cost, uint32_t lanes,
                  std::vector<uint8_t>& memory_out);
// Complete Argon2d with secret, associated data and tag.
void argon2d_tag(const void* pwd, size_t pwdlen, const void* salt, size_t saltlen,
                 const void* secret, size_t secretlen, const void* ad, size_t adlen,
                 uint32_t m_blocks, uint32_t t_cost, uint32_t lanes,
                 uint8_t* tag, uint32_t taglen,
                 std::vector<uint8_t>* memory_out = nullptr);

// ---------------------------------------------------------------------------
// Reciprocal (spec 5.2.6): floor(2^x / d) with the largest x such that the result is < 2^64.
// d == 0 returns 0 (never used by the VM: IMUL_RCP is a no-op for 0 and powers of two).
// ---------------------------------------------------------------------------
uint64_t reciprocal(uint32_t d);
inline bool is_zero_or_power_of_2(uint32_t d) { return (d & (d - 1)) == 0; }

// ---------------------------------------------------------------------------
// BlakeGenerator (spec 3.5)
// ---------------------------------------------------------------------------
struct BlakeGenerator {
    BlakeGenerator(const void* key, size_t n, int nonce = 0);
    uint8_t byte();
    uint32_t u32();
    uint64_t rehash_count = 0;  // number of Hash512 applications so far
private:
    uint8_t s_[64];
    size_t pos_;
    void need(size_t n);
};

// ---------------------------------------------------------------------------
// SuperscalarHash (spec chapter 6)
// ---------------------------------------------------------------------------
enum SsOpcode : uint8_t {
    SS_ISUB_R = 0, SS_IXOR_R = 1, SS_IADD_RS = 2, SS_IMUL_R = 3, SS_IROR_C = 4,
    SS_IADD_C7 = 5, SS_IXOR_C7 = 6, SS_IADD_C8 = 7, SS_IXOR_C8 = 8, SS_IADD_C9 = 9, SS_IXOR_C9 = 10,
    SS_IMULH_R = 11, SS_ISMULH_R = 12, SS_IMUL_RCP = 13, SS_COUNT = 14
};
const char* ss_opcode_name(uint8_t opcode);

struct SsInstr {
    uint8_t opcode, dst, src, mod;   // src == dst for instructions without a source operand
    uint32_t imm32;
};

struct SsProgram {
    std::vector<SsInstr> ins;
    int addr_reg = 0;
    // Optional: reciprocal(imm32) for every IMUL_RCP, parallel to ins (0 elsewhere).
    // Filled by generate_superscalar; execute_superscalar computes on the fly if empty.
    std::vector<uint64_t> rcp;
    // Generator by-products (informative)
    int dep_chain[8] = {0,0,0,0,0,0,0,0};   // per-register dependency chain length
    int cpu_latency = 0, code_size = 0, macro_ops = 0, decode_cycles = 0, mul_count = 0;
    // 8-byte-per-instruction serialisation: opcode,dst,src,mod,imm32(LE)
    std::vector<uint8_t> serialize() const;
};

// Path coverage of the generator; counters accumulate over calls.
struct GenStats {
    uint64_t programs = 0;
    uint64_t instructions = 0;
    uint64_t thrown_away = 0;           // instruction discarded because no operand was found
    uint64_t stall_cycles = 0;          // look-ahead: scheduling cycle advanced while searching operands
    uint64_t r5_source_rule = 0;        // IADD_RS with two candidates one of which is r5 -> r5 forced as source
    uint64_t mul_port_saturation = 0;   // decode group 4 (4-4-4-4) chosen because multiplications <= decode cycle
    uint64_t size_cap_reached = 0;      // instruction count reached 3*latency+2
    uint64_t latency_reached = 0;       // a macro-op was scheduled at cycle >= target latency
    uint64_t port_map_exhausted = 0;    // no free port inside the cycle map
    uint64_t group_aborted = 0;         // more than 256 discards in a row: decode group abandoned
    uint64_t chained_mul_allowed = 0;   // destination searched with allowChainedMul == true
    uint64_t group_chosen[6] = {0,0,0,0,0,0};
    uint64_t opcode_count[SS_COUNT] = {};
};

SsProgram generate_superscalar(BlakeGenerator& gen, const Params& p, GenStats* stats = nullptr);
void execute_superscalar(uint64_t r[8], const SsProgram& prog);

// ---------------------------------------------------------------------------
// Cache and Dataset items (spec chapter 7)
// ---------------------------------------------------------------------------
struct Cache {
    Params p;
    std::vector<uint8_t> memory;
    std::vector<SsProgram> programs;
    GenStats gen_stats;
    void init(const void* key, size_t keylen);
    void item(uint64_t index, uint8_t out[64]) const;
};

// ---------------------------------------------------------------------------
// Virtual machine (spec chapters 4 and 5)
// ---------------------------------------------------------------------------
struct FpMonitor {
    uint64_t nan_result = 0;         // an FP instruction produced NaN
    uint64_t subnormal_result = 0;   // an FP instruction produced a subnormal number
    uint64_t f_infinite = 0;         // a group F instruction produced +-infinity (not expected: |f| stays below ~3e14 * 2^15)
    uint64_t a_out_of_range = 0;     // group A value outside [1, 2^32)
    uint64_t e_not_positive = 0;     // group E value (register or memory operand) <= 0 or NaN
    // Informative only, not a violation: group E may overflow to +infinity through repeated
    // FMUL_R; the spec only promises "always positive" and no NaN / denormal.
    uint64_t e_infinite = 0;
    bool any() const { return nan_result || subnormal_result || f_infinite || a_out_of_range || e_not_positive; }
};

struct VmState {
    uint64_t r[8] = {};
    double f[4][2] = {}, e[4][2] = {}, a[4][2] = {};   // [register][0 = low half, 1 = high half]
    uint32_t ma = 0, mx = 0;
    int fprc = 0;
    std::vector<uint8_t> scratchpad;
    uint64_t emask[2] = {};          // per half: fraction mask (bits 0-21) | exponent 0b011 mmmm 0000 << 52
    uint32_t read_reg[4] = {};
    uint64_t dataset_offset = 0;     // bytes
    // bookkeeping
    uint64_t executed = 0;           // executed instructions (all types)
    uint64_t executed_by_type[ITYPE_COUNT] = {};
    uint64_t branches_taken = 0;
    uint64_t fprc_changes = 0;       // CFROUND executions that wrote fprc
    FpMonitor mon;
    // 256-byte Register File: r0-r7, f0-f3, e0-e3, a0-a3, little endian
    void register_file(uint8_t out[256]) const;
};

IType decode_type(uint8_t opcode, const Params& p);

struct DecodedInstr {
    IType type;                 // IMUL_RCP with zero/power-of-two imm32 and ISWAP_R with src==dst keep their type, see nop
    bool nop;                   // instruction has no effect (and is not a register writer)
    uint8_t opcode, dst, src, mod;   // raw fields
    uint32_t imm32;
    uint8_t rd, rs;             // register indices after reduction to the operand's group
    bool src_is_imm;            // integer register instruction with src == dst using the immediate / zero
    uint64_t imm64;             // sign-extended imm32, or cimm (CBRANCH), or reciprocal (IMUL_RCP), or rotation count
    uint32_t mem_mask;          // address mask for memory operands
    uint32_t shift;             // IADD_RS shift; CBRANCH: bit position b
    uint64_t cond_mask;         // CBRANCH: bits tested
    int target;                 // CBRANCH: index of the last writer of dst (-1: none); jump goes to target+1
};

struct ProgramCtx {
    bool v2 = false;
    uint32_t size = 0;
    std::vector<DecodedInstr> ins;
    // last_writer[i][reg] = index of the last instruction before i that modified reg (-1 = none);
    // row 'size' is the table after the whole program.
    std::vector<std::array<int, 8>> last_writer;
    uint32_t l1_mask = 0, l2_mask = 0, l3_mask = 0, l3_mask64 = 0;
};

// prog_bytes = 128 bytes of configuration data followed by 8 * program_size(v2) bytes of instructions
void decode_program(const uint8_t* prog_bytes, bool v2, const Params& p, ProgramCtx& ctx);
// Executes instruction pc and returns the next pc.  FP arithmetic is done under
// st.fprc (the hardware rounding mode is switched if necessary and NOT restored;
// use RoundingGuard around direct calls).
int step(VmState& st, const ProgramCtx& ctx, int pc, bool v2);

struct RoundingGuard {   // saves and restores the hardware rounding mode
    RoundingGuard();
    ~RoundingGuard();
    int saved;
};

void program_configure(VmState& st, const uint8_t cfg[128], const Params& p);   // spec 4.5
void run_program(VmState& st, const uint8_t* prog_bytes, bool v2, const Params& p,
                 const std::function<void(uint64_t item_index, uint8_t out[64])>& dataset_item);   // spec 4.5 + 4.6

// Conversions of chapter 4.3
void convert_f(const uint8_t mem[8], double out[2]);
void convert_e(const uint8_t mem[8], const uint64_t emask[2], double out[2]);
// Mask that reduces ma/mx to the dataset item address they denote: (base_size-1) & ~63
uint32_t dataset_address_mask(const Params& p);

// ---------------------------------------------------------------------------
// The hash (spec chapter 2)
// ---------------------------------------------------------------------------
struct HashTrace {
    std::vector<std::vector<uint8_t>> program_bytes;           // 128 + 8*N bytes per program
    std::vector<std::array<uint8_t, 256>> regfile_after;       // Register File after each program
    std::vector<uint8_t> seed;                                 // Hash512(input)
    std::vector<uint8_t> scratchpad_hash;                      // AesHash1R(Scratchpad), 64 bytes
    uint64_t executed = 0;
    uint64_t executed_by_type[ITYPE_COUNT] = {};
    uint64_t branches_taken = 0;
    uint64_t fprc_changes = 0;
    FpMonitor mon;
};

void hash(const Cache& cache, const void* input, size_t inlen, bool v2, uint8_t out[32], HashTrace* trace = nullptr);
// Same algorithm with an arbitrary dataset item provider (e.g. a full dataset in memory).
void hash_with(const Params& p, const std::function<void(uint64_t, uint8_t*)>& dataset_item,
               const void* input, size_t inlen, bool v2, uint8_t out[32], HashTrace* trace = nullptr);
void commitment(const void* input, size_t n, const uint8_t hash[32], uint8_t out[32]);

// little-endian helpers (plain loads/stores on little-endian hosts, byte-wise elsewhere)
#if defined(__BYTE_ORDER__) && (__BYTE_ORDER__ == __ORDER_LITTLE_ENDIAN__)
inline uint64_t load_le64(const uint8_t* p) { uint64_t v; __builtin_memcpy(&v, p, 8); return v; }
inline uint32_t load_le32(const uint8_t* p) { uint32_t v; __builtin_memcpy(&v, p, 4); return v; }
inline void store_le64(uint8_t* p, uint64_t v) { __builtin_memcpy(p, &v, 8); }
inline void store_le32(uint8_t* p, uint32_t v) { __builtin_memcpy(p, &v, 4); }
#else
inline uint64_t load_le64(const uint8_t* p) { uint64_t v = 0; for (int i = 7; i >= 0; --i) v = (v << 8) | p[i]; return v; }
inline uint32_t load_le32(const uint8_t* p) { return (uint32_t)p[0] | ((uint32_t)p[1] << 8) | ((uint32_t)p[2] << 16) | ((uint32_t)p[3] << 24); }
inline void store_le64(uint8_t* p, uint64_t v) { for (int i = 0; i < 8; ++i) { p[i] = (uint8_t)v; v >>= 8; } }
inline void store_le32(uint8_t* p, uint32_t v) { for (int i = 0; i < 4; ++i) { p[i] = (uint8_t)v; v >>= 8; } }
#endif

} // namespace spec
