// AES round transformations (FIPS-197) and the three AES based custom
// functions of the RandomX specification, chapter 3.
#include "specmodel.hpp"

#include <cstring>

namespace spec {

namespace {

// Multiplication in GF(2^8) modulo x^8 + x^4 + x^3 + x + 1 (FIPS-197 section 4.2).
uint8_t gf_mul(uint8_t a, uint8_t b) {
    uint8_t result = 0;
    while (b) {
        if (b & 1) result ^= a;
        uint8_t carry = a & 0x80;
        a = (uint8_t)(a << 1);
        if (carry) a ^= 0x1b;
        b >>= 1;
    }
    return result;
}

struct AesTables {
    uint8_t sbox[256];
    uint8_t inv_sbox[256];
    uint8_t mul2[256], mul3[256], mul9[256], mul11[256], mul13[256], mul14[256];

    AesTables() {
        for (int x = 0; x < 256; ++x) {
            // multiplicative inverse, 0 maps to 0 (FIPS-197 section 5.1.1 step 1)
            uint8_t inv = 0;
            if (x != 0) {
                for (int y = 1; y < 256; ++y) {
                    if (gf_mul((uint8_t)x, (uint8_t)y) == 1) { inv = (uint8_t)y; break; }
                }
            }
            // affine transformation: b'_i = b_i ^ b_(i+4) ^ b_(i+5) ^ b_(i+6) ^ b_(i+7) ^ c_i, c = 0x63
            uint8_t out = 0;
            for (int i = 0; i < 8; ++i) {
                int bit = ((inv >> i) & 1) ^ ((inv >> ((i + 4) % 8)) & 1) ^ ((inv >> ((i + 5) % 8)) & 1) ^
                          ((inv >> ((i + 6) % 8)) & 1) ^ ((inv >> ((i + 7) % 8)) & 1) ^ ((0x63 >> i) & 1);
                out |= (uint8_t)(bit << i);
            }
            sbox[x] = out;
        }
        for (int x = 0; x < 256; ++x) inv_sbox[sbox[x]] = (uint8_t)x;
        for (int x = 0; x < 256; ++x) {
            mul2[x] = gf_mul((uint8_t)x, 2);
            mul3[x] = gf_mul((uint8_t)x, 3);
            mul9[x] = gf_mul((uint8_t)x, 9);
            mul11[x] = gf_mul((uint8_t)x, 11);
            mul13[x] = gf_mul((uint8_t)x, 13);
            mul14[x] = gf_mul((uint8_t)x, 14);
        }
    }
};

const AesTables& tables() {
    static const AesTables t;
    return t;
}

} // namespace

uint8_t aes_sbox(uint8_t x) { return tables().sbox[x]; }
uint8_t aes_inv_sbox(uint8_t x) { return tables().inv_sbox[x]; }

void aes_sub_bytes(uint8_t s[16]) {
    const AesTables& t = tables();
    for (int i = 0; i < 16; ++i) s[i] = t.sbox[s[i]];
}

void aes_inv_sub_bytes(uint8_t s[16]) {
    const AesTables& t = tables();
    for (int i = 0; i < 16; ++i) s[i] = t.inv_sbox[s[i]];
}

// ShiftRows: row r is rotated left by r positions.  s'[r][c] = s[r][(c + r) mod 4]
void aes_shift_rows(uint8_t s[16]) {
    uint8_t o[16];
    for (int c = 0; c < 4; ++c)
        for (int r = 0; r < 4; ++r)
            o[4 * c + r] = s[4 * ((c + r) % 4) + r];
    std::memcpy(s, o, 16);
}

// InvShiftRows: row r is rotated right by r positions.  s'[r][(c + r) mod 4] = s[r][c]
void aes_inv_shift_rows(uint8_t s[16]) {
    uint8_t o[16];
    for (int c = 0; c < 4; ++c)
        for (int r = 0; r < 4; ++r)
            o[4 * ((c + r) % 4) + r] = s[4 * c + r];
    std::memcpy(s, o, 16);
}

// MixColumns: each column is multiplied by {03}x^3 + {01}x^2 + {01}x + {02}
void aes_mix_columns(uint8_t s[16]) {
    const AesTables& t = tables();
    for (int c = 0; c < 4; ++c) {
        uint8_t a0 = s[4 * c], a1 = s[4 * c + 1], a2 = s[4 * c + 2], a3 = s[4 * c + 3];
        s[4 * c + 0] = t.mul2[a0] ^ t.mul3[a1] ^ a2 ^ a3;
        s[4 * c + 1] = a0 ^ t.mul2[a1] ^ t.mul3[a2] ^ a3;
        s[4 * c + 2] = a0 ^ a1 ^ t.mul2[a2] ^ t.mul3[a3];
        s[4 * c + 3] = t.mul3[a0] ^ a1 ^ a2 ^ t.mul2[a3];
    }
}

// InvMixColumns: each column is multiplied by {0b}x^3 + {0d}x^2 + {09}x + {0e}
void aes_inv_mix_columns(uint8_t s[16]) {
    const AesTables& t = tables();
    for (int c = 0; c < 4; ++c) {
        uint8_t a0 = s[4 * c], a1 = s[4 * c + 1], a2 = s[4 * c + 2], a3 = s[4 * c + 3];
        s[4 * c + 0] = t.mul14[a0] ^ t.mul11[a1] ^ t.mul13[a2] ^ t.mul9[a3];
        s[4 * c + 1] = t.mul9[a0] ^ t.mul14[a1] ^ t.mul11[a2] ^ t.mul13[a3];
        s[4 * c + 2] = t.mul13[a0] ^ t.mul9[a1] ^ t.mul14[a2] ^ t.mul11[a3];
        s[4 * c + 3] = t.mul11[a0] ^ t.mul13[a1] ^ t.mul9[a2] ^ t.mul14[a3];
    }
}

void aes_enc_round(uint8_t state[16], const uint8_t key[16]) {
    aes_shift_rows(state);
    aes_sub_bytes(state);
    aes_mix_columns(state);
    for (int i = 0; i < 16; ++i) state[i] ^= key[i];
}

void aes_dec_round(uint8_t state[16], const uint8_t key[16]) {
    aes_inv_shift_rows(state);
    aes_inv_sub_bytes(state);
    aes_inv_mix_columns(state);
    for (int i = 0; i < 16; ++i) state[i] ^= key[i];
}

// ---------------------------------------------------------------------------
// Constants of spec chapter 3, generated the way the spec says they were generated.
// ---------------------------------------------------------------------------
const AesConstants& aes_constants() {
    static const AesConstants c = [] {
        AesConstants k;
        uint8_t h[64];
        const char* s1 = "RandomX AesGenerator1R keys";
        blake2b(h, 64, s1, std::strlen(s1));
        std::memcpy(k.gen1_keys, h, 64);
        const char* s2 = "RandomX AesGenerator4R keys 0-3";
        blake2b(h, 64, s2, std::strlen(s2));
        std::memcpy(k.gen4_keys[0], h, 64);
        const char* s3 = "RandomX AesGenerator4R keys 4-7";
        blake2b(h, 64, s3, std::strlen(s3));
        std::memcpy(k.gen4_keys[4], h, 64);
        const char* s4 = "RandomX AesHash1R state";
        blake2b(h, 64, s4, std::strlen(s4));
        std::memcpy(k.hash_state, h, 64);
        const char* s5 = "RandomX AesHash1R xkeys";
        blake2b(h, 32, s5, std::strlen(s5));
        std::memcpy(k.hash_xkeys, h, 32);
        return k;
    }();
    return c;
}

// 3.2 AesGenerator1R: columns 0,2 decrypted, columns 1,3 encrypted, one key per column.
void fill_aes_1rx4(uint8_t state[64], size_t outSize, uint8_t* out) {
    const AesConstants& k = aes_constants();
    for (size_t done = 0; done < outSize; done += 64) {
        aes_dec_round(state + 0, k.gen1_keys[0]);
        aes_enc_round(state + 16, k.gen1_keys[1]);
        aes_dec_round(state + 32, k.gen1_keys[2]);
        aes_enc_round(state + 48, k.gen1_keys[3]);
        std::memmove(out + done, state, 64);
    }
}

// 3.3 AesGenerator4R: four rounds per column, keys 0-3 for columns 0,1 and keys 4-7 for columns 2,3.
void fill_aes_4rx4(uint8_t state[64], size_t outSize, uint8_t* out) {
    const AesConstants& k = aes_constants();
    for (size_t done = 0; done < outSize; done += 64) {
        for (int round = 0; round < 4; ++round) {
            aes_dec_round(state + 0, k.gen4_keys[round]);
            aes_enc_round(state + 16, k.gen4_keys[round]);
            aes_dec_round(state + 32, k.gen4_keys[4 + round]);
            aes_enc_round(state + 48, k.gen4_keys[4 + round]);
        }
        std::memmove(out + done, state, 64);
    }
}

// 3.4 AesHash1R: input blocks are round keys; columns 0,2 encrypted, columns 1,3 decrypted.
void hash_aes_1rx4(const uint8_t* in, size_t inSize, uint8_t hash[64]) {
    const AesConstants& k = aes_constants();
    uint8_t st[64];
    std::memcpy(st, k.hash_state, 64);
    for (size_t pos = 0; pos + 64 <= inSize; pos += 64) {
        aes_enc_round(st + 0, in + pos + 0);
        aes_dec_round(st + 16, in + pos + 16);
        aes_enc_round(st + 32, in + pos + 32);
        aes_dec_round(st + 48, in + pos + 48);
    }
    for (int x = 0; x < 2; ++x) {
        aes_enc_round(st + 0, k.hash_xkeys[x]);
        aes_dec_round(st + 16, k.hash_xkeys[x]);
        aes_enc_round(st + 32, k.hash_xkeys[x]);
        aes_dec_round(st + 48, k.hash_xkeys[x]);
    }
    std::memcpy(hash, st, 64);
}

} // namespace spec
