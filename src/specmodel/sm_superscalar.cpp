// SuperscalarHash: program generator and interpreter (spec chapter 6).
//
// The prose of chapter 6 does not fix the order in which random numbers are
// drawn; that order was learned from the reference generator.  The data model
// below (tables of macro-ops, a Candidate instruction, a Simulator object) is
// this model's own.
#include "specmodel.hpp"

#include <cstring>

namespace spec {

namespace {

// Execution ports as bit masks
const uint8_t PORT_NONE = 0, P0 = 1, P1 = 2, P5 = 4;
const uint8_t P01 = P0 | P1, P05 = P0 | P5, P015 = P0 | P1 | P5;

// Table 6.2.1 - macro-ops
struct MacroOp {
    int size;          // bytes in the decoder
    int latency;       // cycles
    uint8_t uop1;      // ports of the 1st micro-op (PORT_NONE: eliminated, needs no port)
    uint8_t uop2;      // ports of the 2nd micro-op (PORT_NONE: single micro-op)
    bool dependent;    // must wait for the result of the previous macro-op of the same instruction
};

const MacroOp MOP_SUB_RR   = { 3, 1, P015, PORT_NONE, false };
const MacroOp MOP_XOR_RR   = { 3, 1, P015, PORT_NONE, false };
const MacroOp MOP_LEA_SIB  = { 4, 1, P01, PORT_NONE, false };
const MacroOp MOP_IMUL_RR  = { 4, 3, P1, PORT_NONE, false };
const MacroOp MOP_ROR_RI   = { 4, 1, P05, PORT_NONE, false };
const MacroOp MOP_ADD_RI   = { 7, 1, P015, PORT_NONE, false };   // may be padded to 8 or 9 bytes
const MacroOp MOP_XOR_RI   = { 7, 1, P015, PORT_NONE, false };
const MacroOp MOP_MOV_RR   = { 3, 0, PORT_NONE, PORT_NONE, false };
const MacroOp MOP_MUL_R    = { 3, 4, P1, P5, false };
const MacroOp MOP_IMUL_R   = { 3, 4, P1, P5, false };
const MacroOp MOP_MOV_RI   = { 10, 1, P015, PORT_NONE, false };
const MacroOp MOP_IMUL_RR_DEP = { 4, 3, P1, PORT_NONE, true };   // second half of IMUL_RCP

// Table 6.1.1 - instructions and the macro-op index at which operands are chosen / the result is written
struct InstrDesc {
    uint8_t opcode;
    int mop_count;
    MacroOp mops[3];
    int src_at;      // macro-op index where the source register is selected (-1: no source register)
    int dst_at;      // macro-op index where the destination register is selected
    int result_at;   // macro-op index that produces the result
};

const InstrDesc DESC[SS_COUNT] = {
    { SS_ISUB_R,   1, { MOP_SUB_RR },  0, 0, 0 },
    { SS_IXOR_R,   1, { MOP_XOR_RR },  0, 0, 0 },
    { SS_IADD_RS,  1, { MOP_LEA_SIB }, 0, 0, 0 },
    { SS_IMUL_R,   1, { MOP_IMUL_RR }, 0, 0, 0 },
    { SS_IROR_C,   1, { MOP_ROR_RI }, -1, 0, 0 },
    { SS_IADD_C7,  1, { MOP_ADD_RI }, -1, 0, 0 },
    { SS_IXOR_C7,  1, { MOP_XOR_RI }, -1, 0, 0 },
    { SS_IADD_C8,  1, { MOP_ADD_RI }, -1, 0, 0 },
    { SS_IXOR_C8,  1, { MOP_XOR_RI }, -1, 0, 0 },
    { SS_IADD_C9,  1, { MOP_ADD_RI }, -1, 0, 0 },
    { SS_IXOR_C9,  1, { MOP_XOR_RI }, -1, 0, 0 },
    { SS_IMULH_R,  3, { MOP_MOV_RR, MOP_MUL_R, MOP_MOV_RR },  1, 0, 1 },
    { SS_ISMULH_R, 3, { MOP_MOV_RR, MOP_IMUL_R, MOP_MOV_RR }, 1, 0, 1 },
    { SS_IMUL_RCP, 2, { MOP_MOV_RI, MOP_IMUL_RR_DEP },       -1, 1, 1 },
};

// Table 6.3.1 - decoder groups
struct DecodeGroup { int id; int slots; int size[4]; };
const DecodeGroup GROUPS[6] = {
    { 0, 3, { 4, 8, 4, 0 } },
    { 1, 4, { 7, 3, 3, 3 } },
    { 2, 4, { 3, 7, 3, 3 } },
    { 3, 3, { 4, 9, 3, 0 } },
    { 4, 4, { 4, 4, 4, 4 } },
    { 5, 3, { 3, 3, 10, 0 } },
};

const int NO_OPCODE = -1;
const int LOOK_AHEAD_CYCLES = 4;
const int MAX_DISCARDS_IN_A_ROW = 256;
const int REG_R5 = 5;

bool is_multiplication(int opcode) {
    return opcode == SS_IMUL_R || opcode == SS_IMULH_R || opcode == SS_ISMULH_R || opcode == SS_IMUL_RCP;
}

// State of one integer register in the simulated CPU
struct RegTrack {
    int ready = 0;            // cycle at which the value is available
    int last_group = -1;      // "operation group" of the last instruction that wrote the register
    int32_t last_par = -1;    // its parameter: source register, -1 for constants, random tag for IMULH/ISMULH
};

// An instruction that is being placed
struct Candidate {
    const InstrDesc* desc = nullptr;   // nullptr: no instruction
    int src = -1, dst = -1;
    uint8_t mod = 0;
    uint32_t imm32 = 0;
    int group = -1;
    int32_t group_par = -1;
    bool dst_may_equal_src = false;
    bool par_is_source = false;

    int opcode() const { return desc ? desc->opcode : NO_OPCODE; }
    int mop_count() const { return desc ? desc->mop_count : 0; }
};

class Simulator {
public:
    Simulator(BlakeGenerator& g, const Params& p, GenStats* st)
        : gen(g), target((int)p.superscalar_latency), map_size(target + 4), max_instructions(3 * target + 2),
          stats(st ? *st : dummy), busy((size_t)map_size) {
        for (auto& row : busy) row = { 0, 0, 0 };
    }

    SsProgram run();

private:
    BlakeGenerator& gen;
    const int target, map_size, max_instructions;
    GenStats dummy;
    GenStats& stats;
    std::vector<std::array<uint8_t, 3>> busy;   // [cycle][0 = P0, 1 = P1, 2 = P5]
    RegTrack regs[8];

    // --- 6.3.1 decoding stage
    const DecodeGroup& next_group(int last_opcode, int decode_cycle, int mul_count) {
        if (last_opcode == SS_IMULH_R || last_opcode == SS_ISMULH_R) return GROUPS[5];
        if (mul_count < decode_cycle + 1) { stats.mul_port_saturation++; return GROUPS[4]; }
        if (last_opcode == SS_IMUL_RCP) return (gen.byte() & 1) ? GROUPS[0] : GROUPS[3];
        return GROUPS[gen.byte() & 3];
    }

    // --- 6.3.2 instruction selection
    Candidate new_instruction(int slot_size, int group_id, bool last_slot) {
        int opcode;
        switch (slot_size) {
        case 3:
            if (last_slot) {
                const int pick[4] = { SS_ISUB_R, SS_IXOR_R, SS_IMULH_R, SS_ISMULH_R };
                opcode = pick[gen.byte() & 3];
            } else {
                const int pick[2] = { SS_ISUB_R, SS_IXOR_R };
                opcode = pick[gen.byte() & 1];
            }
            break;
        case 4:
            if (group_id == 4 && !last_slot) {
                opcode = SS_IMUL_R;
            } else {
                const int pick[2] = { SS_IROR_C, SS_IADD_RS };
                opcode = pick[gen.byte() & 1];
            }
            break;
        case 7: { const int pick[2] = { SS_IXOR_C7, SS_IADD_C7 }; opcode = pick[gen.byte() & 1]; } break;
        case 8: { const int pick[2] = { SS_IXOR_C8, SS_IADD_C8 }; opcode = pick[gen.byte() & 1]; } break;
        case 9: { const int pick[2] = { SS_IXOR_C9, SS_IADD_C9 }; opcode = pick[gen.byte() & 1]; } break;
        default: opcode = SS_IMUL_RCP; break;   // 10
        }

        Candidate c;
        c.desc = &DESC[opcode];
        switch (opcode) {
        case SS_ISUB_R:
            c.group = SS_IADD_RS;      // subtraction and addition of a register count as the same operation
            c.par_is_source = true;
            break;
        case SS_IXOR_R:
            c.group = SS_IXOR_R;
            c.par_is_source = true;
            break;
        case SS_IADD_RS:
            c.mod = gen.byte();
            c.group = SS_IADD_RS;
            c.par_is_source = true;
            break;
        case SS_IMUL_R:
            c.group = SS_IMUL_R;
            c.par_is_source = true;
            break;
        case SS_IROR_C:
            do { c.imm32 = gen.byte() & 63; } while (c.imm32 == 0);
            c.group = SS_IROR_C;
            break;
        case SS_IADD_C7: case SS_IADD_C8: case SS_IADD_C9:
            c.imm32 = gen.u32();
            c.group = SS_IADD_C7;
            break;
        case SS_IXOR_C7: case SS_IXOR_C8: case SS_IXOR_C9:
            c.imm32 = gen.u32();
            c.group = SS_IXOR_C7;
            break;
        case SS_IMULH_R: case SS_ISMULH_R:
            c.dst_may_equal_src = true;
            c.group = opcode;
            c.group_par = (int32_t)gen.u32();   // random tag: two high multiplications never look "the same"
            break;
        case SS_IMUL_RCP:
            do { c.imm32 = gen.u32(); } while (is_zero_or_power_of_2(c.imm32));
            c.group = SS_IMUL_RCP;
            break;
        }
        return c;
    }

    // --- 6.3.3 port assignment.  Ports are tried in the order P5, P0, P1.
    // Returns the cycle (>= from) in which the micro-op can execute, -1 if none inside the map.
    int place_uop(uint8_t ports, int from, bool commit) {
        for (int c = from; c < map_size; ++c) {
            if ((ports & P5) && !busy[c][2]) { if (commit) busy[c][2] = ports; return c; }
            if ((ports & P0) && !busy[c][0]) { if (commit) busy[c][0] = ports; return c; }
            if ((ports & P1) && !busy[c][1]) { if (commit) busy[c][1] = ports; return c; }
        }
        return -1;
    }

    int place_mop(const MacroOp& m, int from, int dep_cycle, bool commit) {
        if (m.dependent && dep_cycle > from) from = dep_cycle;
        if (m.uop1 == PORT_NONE) return from;                       // eliminated (register move)
        if (m.uop2 == PORT_NONE) return place_uop(m.uop1, from, commit);
        // two micro-ops must execute in the same cycle
        for (int c = from; c < map_size; ++c) {
            int c1 = place_uop(m.uop1, c, false);
            int c2 = place_uop(m.uop2, c, false);
            if (c1 >= 0 && c1 == c2) {
                if (commit) { place_uop(m.uop1, c1, true); place_uop(m.uop2, c2, true); }
                return c1;
            }
        }
        return -1;
    }

    // --- 6.3.4 operand assignment
    bool draw(const std::vector<int>& candidates, int& out) {
        if (candidates.empty()) return false;
        size_t k = 0;
        if (candidates.size() > 1) k = gen.u32() % candidates.size();
        out = candidates[k];
        return true;
    }

    bool choose_source(Candidate& c, int at_cycle) {
        std::vector<int> ok;
        for (int i = 0; i < 8; ++i)
            if (regs[i].ready <= at_cycle) ok.push_back(i);
        // r5 cannot be the destination of IADD_RS; with only two candidates make it the source
        if (ok.size() == 2 && c.opcode() == SS_IADD_RS && (ok[0] == REG_R5 || ok[1] == REG_R5)) {
            stats.r5_source_rule++;
            c.src = REG_R5;
            c.group_par = REG_R5;
            return true;
        }
        if (!draw(ok, c.src)) return false;
        if (c.par_is_source) c.group_par = c.src;
        return true;
    }

    bool choose_destination(Candidate& c, int at_cycle, bool allow_chained_mul) {
        if (allow_chained_mul) stats.chained_mul_allowed++;
        std::vector<int> ok;
        for (int i = 0; i < 8; ++i) {
            if (regs[i].ready > at_cycle) continue;                                       // not ready
            if (!c.dst_may_equal_src && i == c.src) continue;                              // dst != src
            if (!allow_chained_mul && c.group == SS_IMUL_R && regs[i].last_group == SS_IMUL_R) continue;
            if (regs[i].last_group == c.group && regs[i].last_par == c.group_par) continue; // same operation twice
            if (c.opcode() == SS_IADD_RS && i == REG_R5) continue;
            ok.push_back(i);
        }
        return draw(ok, c.dst);
    }
};

SsProgram Simulator::run() {
    SsProgram prog;
    Candidate cur;                 // instruction whose macro-ops are being issued
    int mop_index = 0;             // next macro-op of cur
    int cycle = 0;                 // current front-end cycle
    int dep_cycle = 0;             // cycle at which the previous macro-op's result is ready
    int retire_cycle = 0;
    int mul_count = 0;
    int discards = 0;              // discards in a row
    int code_size = 0, macro_ops = 0;
    bool finished = false;
    int decode_cycle = 0;

    for (; decode_cycle < target && !finished && (int)prog.ins.size() < max_instructions; ++decode_cycle) {
        const DecodeGroup& grp = next_group(cur.opcode(), decode_cycle, mul_count);
        stats.group_chosen[grp.id]++;

        int slot = 0;
        while (slot < grp.slots) {
            const int cycle_at_slot_start = cycle;

            if (mop_index >= cur.mop_count()) {
                if (finished) break;
                if ((int)prog.ins.size() >= max_instructions) break;   // termination condition 2 (6.3)
                cur = new_instruction(grp.size[slot], grp.id, slot + 1 == grp.slots);
                mop_index = 0;
            }
            const MacroOp& mop = cur.desc->mops[mop_index];

            // earliest cycle in which all micro-ops of this macro-op find a port
            int sched = place_mop(mop, cycle, dep_cycle, false);
            if (sched < 0) { stats.port_map_exhausted++; finished = true; break; }

            bool placed = true;
            for (int operand = 0; operand < 2 && placed; ++operand) {
                bool wanted = (operand == 0) ? (mop_index == cur.desc->src_at) : (mop_index == cur.desc->dst_at);
                if (!wanted) continue;
                int tries = 0;
                for (; tries < LOOK_AHEAD_CYCLES; ++tries) {
                    bool found = (operand == 0) ? choose_source(cur, sched)
                                                : choose_destination(cur, sched, discards > 0);
                    if (found) break;
                    // nothing suitable is ready yet: look one cycle further
                    stats.stall_cycles++;
                    ++sched;
                    ++cycle;
                }
                if (tries == LOOK_AHEAD_CYCLES) placed = false;
            }

            if (!placed) {
                if (discards < MAX_DISCARDS_IN_A_ROW) {
                    // throw the instruction away and try another one in the same slot
                    // (the front-end cycle keeps the stall cycles added above)
                    ++discards;
                    stats.thrown_away++;
                    mop_index = cur.mop_count();
                    continue;
                }
                // give up on this decode group
                stats.group_aborted++;
                cur = Candidate();
                break;
            }
            discards = 0;

            // the real reservation, now that the operands are known
            sched = place_mop(mop, sched, sched, true);
            if (sched < 0) { stats.port_map_exhausted++; finished = true; break; }

            dep_cycle = sched + mop.latency;
            if (mop_index == cur.desc->result_at) {
                RegTrack& rt = regs[cur.dst];
                retire_cycle = dep_cycle;
                rt.ready = dep_cycle;
                rt.last_group = cur.group;
                rt.last_par = cur.group_par;
            }
            code_size += mop.size;
            ++slot;
            ++mop_index;
            ++macro_ops;

            // termination condition 1 (6.3)
            if (sched >= target) { if (!finished) stats.latency_reached++; finished = true; }
            cycle = cycle_at_slot_start;

            if (mop_index >= cur.mop_count()) {
                SsInstr out;
                out.opcode = (uint8_t)cur.opcode();
                out.dst = (uint8_t)cur.dst;
                out.src = (uint8_t)(cur.src >= 0 ? cur.src : cur.dst);
                out.mod = cur.mod;
                out.imm32 = cur.imm32;
                prog.ins.push_back(out);
                stats.opcode_count[out.opcode]++;
                if (is_multiplication(cur.opcode())) ++mul_count;
            }
        }
        ++cycle;
    }
    if ((int)prog.ins.size() >= max_instructions) stats.size_cap_reached++;

    // 7.3 step 7: the register with the longest dependency chain
    // (all operations cost 1, unlimited parallelism; ties go to the lowest register index)
    int chain[8] = { 0, 0, 0, 0, 0, 0, 0, 0 };
    for (const SsInstr& in : prog.ins) {
        int via_dst = chain[in.dst] + 1;
        int via_src = (in.dst != in.src) ? chain[in.src] + 1 : 0;
        chain[in.dst] = via_dst > via_src ? via_dst : via_src;
    }
    int longest = 0;
    prog.addr_reg = 0;
    for (int i = 0; i < 8; ++i) {
        prog.dep_chain[i] = chain[i];
        if (chain[i] > longest) { longest = chain[i]; prog.addr_reg = i; }
    }

    prog.rcp.assign(prog.ins.size(), 0);
    for (size_t i = 0; i < prog.ins.size(); ++i)
        if (prog.ins[i].opcode == SS_IMUL_RCP) prog.rcp[i] = reciprocal(prog.ins[i].imm32);

    prog.cpu_latency = retire_cycle;
    prog.code_size = code_size;
    prog.macro_ops = macro_ops;
    prog.decode_cycles = decode_cycle;
    prog.mul_count = mul_count;
    stats.programs++;
    stats.instructions += prog.ins.size();
    return prog;
}

inline uint64_t rotr64(uint64_t x, unsigned n) { n &= 63; return n ? (x >> n) | (x << (64 - n)) : x; }

} // namespace

const char* ss_opcode_name(uint8_t opcode) {
    static const char* names[SS_COUNT] = {
        "ISUB_R", "IXOR_R", "IADD_RS", "IMUL_R", "IROR_C", "IADD_C7", "IXOR_C7", "IADD_C8", "IXOR_C8",
        "IADD_C9", "IXOR_C9", "IMULH_R", "ISMULH_R", "IMUL_RCP"
    };
    return opcode < SS_COUNT ? names[opcode] : "INVALID";
}

std::vector<uint8_t> SsProgram::serialize() const {
    std::vector<uint8_t> out(ins.size() * 8);
    for (size_t i = 0; i < ins.size(); ++i) {
        uint8_t* p = &out[8 * i];
        p[0] = ins[i].opcode; p[1] = ins[i].dst; p[2] = ins[i].src; p[3] = ins[i].mod;
        store_le32(p + 4, ins[i].imm32);
    }
    return out;
}

SsProgram generate_superscalar(BlakeGenerator& gen, const Params& p, GenStats* stats) {
    Simulator sim(gen, p, stats);
    return sim.run();
}

void execute_superscalar(uint64_t r[8], const SsProgram& prog) {
    const bool have_rcp = prog.rcp.size() == prog.ins.size();
    for (size_t i = 0; i < prog.ins.size(); ++i) {
        const SsInstr& in = prog.ins[i];
        uint64_t& d = r[in.dst & 7];
        const uint64_t s = r[in.src & 7];
        const uint64_t simm = (uint64_t)(int64_t)(int32_t)in.imm32;
        switch (in.opcode) {
        case SS_ISUB_R: d -= s; break;
        case SS_IXOR_R: d ^= s; break;
        case SS_IADD_RS: d += s << ((in.mod >> 2) & 3); break;
        case SS_IMUL_R: d *= s; break;
        case SS_IROR_C: d = rotr64(d, in.imm32 & 63); break;
        case SS_IADD_C7: case SS_IADD_C8: case SS_IADD_C9: d += simm; break;
        case SS_IXOR_C7: case SS_IXOR_C8: case SS_IXOR_C9: d ^= simm; break;
        case SS_IMULH_R: d = (uint64_t)(((unsigned __int128)d * s) >> 64); break;
        case SS_ISMULH_R: d = (uint64_t)(((__int128)(int64_t)d * (int64_t)s) >> 64); break;
        case SS_IMUL_RCP: d *= have_rcp ? prog.rcp[i] : reciprocal(in.imm32); break;
        default: break;
        }
    }
}

} // namespace spec
