// Self test of the specification model.  Prints PASS/FAIL lines; exit status 0 only if all pass.
//
//   g++ -O2 -std=c++17 -frounding-math -o selftest selftest.cpp specmodel.cpp sm_*.cpp && ./selftest
//
// Options:  --quick   skip everything that needs the 256 MiB production Cache
#include "specmodel.hpp"

#include <cfenv>
#include <chrono>
#include <cstdio>
#include <cstring>
#include <string>
#include <vector>

using namespace spec;

static int g_pass = 0, g_fail = 0;

static void check(bool ok, const std::string& name) {
    std::printf("%s  %s\n", ok ? "PASS" : "FAIL", name.c_str());
    std::fflush(stdout);
    if (ok) ++g_pass; else ++g_fail;
}

static std::string to_hex(const uint8_t* p, size_t n) {
    static const char* d = "0123456789abcdef";
    std::string s;
    for (size_t i = 0; i < n; ++i) { s += d[p[i] >> 4]; s += d[p[i] & 15]; }
    return s;
}

static std::vector<uint8_t> from_hex(const char* hex) {
    std::vector<uint8_t> out;
    auto val = [](char c) -> int { return c >= '0' && c <= '9' ? c - '0' : c >= 'a' && c <= 'f' ? c - 'a' + 10 : c >= 'A' && c <= 'F' ? c - 'A' + 10 : -1; };
    while (*hex) {
        while (*hex == ' ') ++hex;
        if (!hex[0] || !hex[1]) break;
        out.push_back((uint8_t)(val(hex[0]) * 16 + val(hex[1])));
        hex += 2;
    }
    return out;
}

static bool eq_hex(const uint8_t* p, size_t n, const char* hex) { return to_hex(p, n) == hex; }

static double now() {
    using namespace std::chrono;
    return duration<double>(steady_clock::now().time_since_epoch()).count();
}

// same generator as gen_vectors.py
static std::vector<uint8_t> lcg_bytes(uint64_t seed, size_t n) {
    std::vector<uint8_t> out(n);
    uint64_t x = seed;
    for (size_t i = 0; i < n; ++i) {
        x = x * 6364136223846793005ull + 1442695040888963407ull;
        out[i] = (uint8_t)(x >> 56);
    }
    return out;
}

struct B2Case { int outlen, keylen; uint32_t inlen; uint64_t seed; const char* hex; };
static const B2Case B2_CASES[] = {
#include "selftest_vectors.inc"
};

// ---------------------------------------------------------------------------
static void test_blake2b() {
    uint8_t h[64];
    blake2b(h, 64, "abc", 3);
    check(eq_hex(h, 64, "ba80a53f981c4d0d6a2797b69f12f6e94c212f14685ac4b74b12bb6fdbffa2d1"
                        "7d87c5392aab792dc252d5de4533cc9518d38aa8dbf1925ab92386edd4009923"),
          "blake2b-512 RFC 7693 appendix A (\"abc\")");
    blake2b(h, 64, "", 0);
    check(eq_hex(h, 64, "786a02f742015903c6c6fd852552d272912f4740e15847618a86e217f71f5419"
                        "d25e1031afee585313896444934eb04b903a685b1448b755d56f701afe9be2ce"),
          "blake2b-512 of the empty string");

    // keyed vectors from the BLAKE2 known-answer file: key = 00..3f, message = 00..(n-1)
    uint8_t key[64], msg[255];
    for (int i = 0; i < 64; ++i) key[i] = (uint8_t)i;
    for (int i = 0; i < 255; ++i) msg[i] = (uint8_t)i;
    blake2b(h, 64, msg, 0, key, 64);
    bool k0 = eq_hex(h, 64, "10ebb67700b1868efb4417987acf4690ae9d972fb7a590c2f02871799aaa4786"
                            "b5e996e8f0f4eb981fc214b005f42d2ff4233499391653df7aefcbc13fc51568");
    blake2b(h, 64, msg, 1, key, 64);
    bool k1 = eq_hex(h, 64, "961f6dd1e4dd30f63901690c512e78e4b45e4742ed197c3c5e45c549fd25f2e4"
                            "187b0bc9fe30492b16b0d0bc4ef9b0f34c7003fac09a5ef1532e69430234cebd");
    blake2b(h, 64, msg, 255, key, 64);
    bool k255 = eq_hex(h, 64, "142709d62e28fcccd0af97fad0f8465b971e82201dc51070faa0372aa43e9248"
                              "4be1c1e73ba10906d5d1853db6a4106e0a7bf9800d373d6dee2d46d62ef2a461");
    check(k0 && k1 && k255, "blake2b keyed known answers (len 0, 1, 255)");

    // python3 hashlib agreement
    size_t n_cases = sizeof(B2_CASES) / sizeof(B2_CASES[0]);
    size_t bad = 0, bad_stream = 0;
    for (size_t i = 0; i < n_cases; ++i) {
        const B2Case& c = B2_CASES[i];
        std::vector<uint8_t> k = lcg_bytes(c.seed ^ 0x5555555555555555ull, (size_t)c.keylen);
        std::vector<uint8_t> m = lcg_bytes(c.seed, c.inlen);
        uint8_t out[64];
        blake2b(out, (size_t)c.outlen, m.data(), m.size(), k.data(), k.size());
        if (!eq_hex(out, (size_t)c.outlen, c.hex)) ++bad;
        // streaming in uneven pieces must give the same result
        Blake2b s;
        s.init((size_t)c.outlen, k.data(), k.size());
        size_t pos = 0, piece = 1 + i % 200;
        while (pos < m.size()) {
            size_t take = piece < m.size() - pos ? piece : m.size() - pos;
            s.update(m.data() + pos, take);
            pos += take;
            piece = piece * 3 % 301 + 1;
        }
        uint8_t out2[64];
        s.final(out2);
        if (std::memcmp(out, out2, (size_t)c.outlen) != 0) ++bad_stream;
    }
    check(n_cases >= 1000 && bad == 0, "blake2b agrees with python3 hashlib on " + std::to_string(n_cases) + " parameterised cases");
    check(bad_stream == 0, "blake2b streaming == one-shot on the same cases");

    // Counter carry: preset t = 2^64 - 128 and feed 3 full blocks + 5 bytes.  Expected value is
    // computed with explicit 128-bit counters through the bare compression function.
    {
        std::vector<uint8_t> data = lcg_bytes(77, 3 * 128 + 5);
        Blake2b s;
        s.init(64);
        s.set_counter(0xffffffffffffff80ull, 0);
        s.update(data.data(), data.size());
        bool mid = (s.counter_hi() == 1 && s.counter_lo() == 0x100);  // three full blocks compressed, 5 bytes buffered
        uint8_t got[64];
        s.final(got);
        bool end = (s.counter_hi() == 1 && s.counter_lo() == 0x80 + 128 + 5);

        // initial chaining value for outlen 64, no key: IV with the parameter word 0x01010040 xored into h0
        uint64_t hh[8];
        const uint64_t iv[8] = { 0x6a09e667f3bcc908ull, 0xbb67ae8584caa73bull, 0x3c6ef372fe94f82bull, 0xa54ff53a5f1d36f1ull,
                                 0x510e527fade682d1ull, 0x9b05688c2b3e6c1full, 0x1f83d9abfb41bd6bull, 0x5be0cd19137e2179ull };
        for (int i = 0; i < 8; ++i) hh[i] = iv[i];
        hh[0] ^= 0x01010040ull;
        unsigned __int128 t = ((unsigned __int128)0 << 64) | 0xffffffffffffff80ull;
        uint8_t block[128];
        for (int b = 0; b < 3; ++b) {
            t += 128;
            blake2b_compress(hh, data.data() + 128 * b, (uint64_t)t, (uint64_t)(t >> 64), false);
        }
        t += 5;
        std::memset(block, 0, 128);
        std::memcpy(block, data.data() + 384, 5);
        blake2b_compress(hh, block, (uint64_t)t, (uint64_t)(t >> 64), true);
        uint8_t want[64];
        for (int i = 0; i < 8; ++i) store_le64(want + 8 * i, hh[i]);
        check(mid && end && std::memcmp(got, want, 64) == 0, "blake2b 128-bit counter: carry from t0 into t1 (set_counter)");

        // crossing 2^32 is an ordinary 64-bit addition; still exercise it
        Blake2b a;
        a.init(32);
        a.set_counter(0xffffff80ull, 0);
        a.update(data.data(), 300);
        check(a.counter_lo() == 0xffffff80ull + 256 && a.counter_hi() == 0, "blake2b counter crosses 2^32 without wrapping");
    }
}

// ---------------------------------------------------------------------------
static void test_aes() {
    // a few well known S-box entries (FIPS-197 figure 7) as a sanity check of the computed table
    check(aes_sbox(0x00) == 0x63 && aes_sbox(0x01) == 0x7c && aes_sbox(0x53) == 0xed && aes_sbox(0xff) == 0x16 &&
          aes_inv_sbox(0x63) == 0x00 && aes_inv_sbox(0xed) == 0x53,
          "AES S-box computed from GF(2^8) inverse + affine map (spot values)");

    // FIPS-197 appendix B, round 1
    std::vector<uint8_t> start = from_hex("193de3bea0f4e22b9ac68d2ae9f84808");
    std::vector<uint8_t> after_sub = from_hex("d42711aee0bf98f1b8b45de51e415230");
    std::vector<uint8_t> after_shift = from_hex("d4bf5d30e0b452aeb84111f11e2798e5");
    std::vector<uint8_t> after_mix = from_hex("046681e5e0cb199a48f8d37a2806264c");
    std::vector<uint8_t> round_key = from_hex("a0fafe1788542cb123a339392a6c7605");
    std::vector<uint8_t> round2_start = from_hex("a49c7ff2689f352b6b5bea43026a5049");

    uint8_t s[16];
    std::memcpy(s, start.data(), 16);
    aes_sub_bytes(s);
    bool ok1 = std::memcmp(s, after_sub.data(), 16) == 0;
    aes_shift_rows(s);
    bool ok2 = std::memcmp(s, after_shift.data(), 16) == 0;
    aes_mix_columns(s);
    bool ok3 = std::memcmp(s, after_mix.data(), 16) == 0;
    check(ok1 && ok2 && ok3, "FIPS-197 appendix B round 1: SubBytes, ShiftRows, MixColumns individually");

    std::memcpy(s, start.data(), 16);
    aes_enc_round(s, round_key.data());
    check(std::memcmp(s, round2_start.data(), 16) == 0, "FIPS-197 appendix B round 1: aes_enc_round == start of round 2");

    // inverse transformations undo the forward ones
    bool inv_ok = true;
    for (int trial = 0; trial < 200; ++trial) {
        std::vector<uint8_t> a = lcg_bytes(1000 + (uint64_t)trial, 16), k = lcg_bytes(5000 + (uint64_t)trial, 16);
        uint8_t t[16];
        std::memcpy(t, a.data(), 16); aes_sub_bytes(t); aes_inv_sub_bytes(t); inv_ok &= std::memcmp(t, a.data(), 16) == 0;
        std::memcpy(t, a.data(), 16); aes_shift_rows(t); aes_inv_shift_rows(t); inv_ok &= std::memcmp(t, a.data(), 16) == 0;
        std::memcpy(t, a.data(), 16); aes_mix_columns(t); aes_inv_mix_columns(t); inv_ok &= std::memcmp(t, a.data(), 16) == 0;
        // aes_dec_round(x,k) = InvMixColumns(InvSubBytes(InvShiftRows(x))) ^ k, hence it maps
        // ShiftRows(SubBytes(MixColumns(a))) back to a ^ k
        std::memcpy(t, a.data(), 16);
        aes_mix_columns(t); aes_sub_bytes(t); aes_shift_rows(t);
        aes_dec_round(t, k.data());
        for (int i = 0; i < 16; ++i) t[i] ^= k[i];
        inv_ok &= std::memcmp(t, a.data(), 16) == 0;
        // and undoing an encryption round step by step returns the input
        std::memcpy(t, a.data(), 16);
        aes_enc_round(t, k.data());
        for (int i = 0; i < 16; ++i) t[i] ^= k[i];
        aes_inv_mix_columns(t); aes_inv_sub_bytes(t); aes_inv_shift_rows(t);
        inv_ok &= std::memcmp(t, a.data(), 16) == 0;
    }
    check(inv_ok, "aes_dec_round / inverse transformations invert the forward transformations (200 random states)");

    // FIPS-197 appendix B from the other side: the decryption round applied to the state after
    // ShiftRows of round 1 with the round-1 state as expected InvSubBytes(InvShiftRows()) result
    {
        uint8_t t[16];
        std::memcpy(t, after_shift.data(), 16);
        aes_inv_shift_rows(t);
        aes_inv_sub_bytes(t);
        check(std::memcmp(t, start.data(), 16) == 0, "FIPS-197 appendix B round 1 reversed: InvShiftRows, InvSubBytes");
    }
}

static void test_aes_constants() {
    const AesConstants& k = aes_constants();
    bool ok = true;
    ok &= eq_hex(k.gen1_keys[0], 16, "53a5ac6d096671622b55b5db1749f4b4");
    ok &= eq_hex(k.gen1_keys[1], 16, "07af7c6d0d716a8478d325174edca10d");
    ok &= eq_hex(k.gen1_keys[2], 16, "f162123fc67e949f4f79c0f445e3203e");
    ok &= eq_hex(k.gen1_keys[3], 16, "3581ef6a7c31bab1884c311654911649");
    check(ok, "AesGenerator1R keys = Hash512(\"RandomX AesGenerator1R keys\") match spec 3.2");
    ok = true;
    ok &= eq_hex(k.gen4_keys[0], 16, "ddaa2164db3d83d12b6d542f3fd2e599");
    ok &= eq_hex(k.gen4_keys[1], 16, "50340eb2553f91b6539df706e5cddfa5");
    ok &= eq_hex(k.gen4_keys[2], 16, "04d93e5caf7b5e519f67a40abf021c17");
    ok &= eq_hex(k.gen4_keys[3], 16, "63376285085d8fe7853767cd91d2ded8");
    ok &= eq_hex(k.gen4_keys[4], 16, "736f82b5a6a7d6e36d8b513db4ff9e22");
    ok &= eq_hex(k.gen4_keys[5], 16, "f36b56c7d9b3109c4e4d02e9d2b772b2");
    ok &= eq_hex(k.gen4_keys[6], 16, "e7c973f28ba365f70a66a92ba7ef3bf6");
    ok &= eq_hex(k.gen4_keys[7], 16, "09d67c7ade395891fdd1060c2d76b0c0");
    check(ok, "AesGenerator4R keys 0-7 match spec 3.3");
    ok = true;
    ok &= eq_hex(k.hash_state[0], 16, "0d2cb592de56a89f47db82ccad3a98d7");
    ok &= eq_hex(k.hash_state[1], 16, "6e998d3398b7c7155a129ef55780e7ac");
    ok &= eq_hex(k.hash_state[2], 16, "1700776ad0c762ae6b507950e47ca0e8");
    ok &= eq_hex(k.hash_state[3], 16, "0c240a638d82ad070500a1794849997e");
    ok &= eq_hex(k.hash_xkeys[0], 16, "8983faf69f94248bbf56dc9001028906");
    ok &= eq_hex(k.hash_xkeys[1], 16, "d163b2613ce0f451c64310ee9bf918ed");
    check(ok, "AesHash1R initial state and xkeys match spec 3.4");

    // 7.3: XOR constants of the dataset item initialisation
    uint8_t h[64];
    const char* s = "RandomX SuperScalarHash initialize";
    blake2b(h, 64, s, std::strlen(s));
    uint64_t c[7];
    for (int i = 0; i < 7; ++i) c[i] = load_le64(h + 8 + 8 * i);
    c[0] += (1ull << 33) + 700;
    c[2] += 1ull << 14;
    ok = c[0] == 9298411001130361340ull && c[1] == 12065312585734608966ull && c[2] == 9306329213124626780ull &&
         c[3] == 5281919268842080866ull && c[4] == 10536153434571861004ull && c[5] == 3398623926847679864ull &&
         c[6] == 9549104520008361294ull;
    check(ok, "dataset item XOR constants = Hash512(\"RandomX SuperScalarHash initialize\") with the two adjustments (spec 7.3)");
}

// ---------------------------------------------------------------------------
static void test_argon2() {
    // RFC 9106 section 5.1
    uint8_t pwd[32], salt[16], secret[8], ad[12], tag[32];
    std::memset(pwd, 1, sizeof pwd);
    std::memset(salt, 2, sizeof salt);
    std::memset(secret, 3, sizeof secret);
    std::memset(ad, 4, sizeof ad);
    std::vector<uint8_t> mem;
    argon2d_tag(pwd, 32, salt, 16, secret, 8, ad, 12, 32, 3, 4, tag, 32, &mem);
    check(eq_hex(tag, 32, "512b391b6f1162975371d30919734294f868e3be3984f3c1a13a4db9fabe4acb"),
          "Argon2d RFC 9106 section 5.1 tag (32 KiB, 3 passes, 4 lanes, secret, ad)");
    check(mem.size() == 32 * 1024, "Argon2d memory size = m' * 1024");
}

static void test_reciprocal() {
    bool ok = reciprocal(3) == 12297829382473034410ull && reciprocal(13) == 11351842506898185609ull &&
              reciprocal(33) == 17887751829051686415ull && reciprocal(65537) == 18446462603027742720ull &&
              reciprocal(15000001) == 10316166306300415204ull && reciprocal(3845182035u) == 10302264209224146340ull &&
              reciprocal(0xffffffffu) == 9223372039002259456ull;
    check(ok, "reciprocal: 7 public values");
}

// ---------------------------------------------------------------------------
static void test_generators() {
    // AesGenerator1R public vector: 32 bytes of state given, upper 32 bytes zero
    uint8_t state[64];
    std::memset(state, 0, 64);
    std::vector<uint8_t> s = from_hex("6c19536eb2de31b6c0065f7f116e86f960d8af0c57210a6584c3237b9d064dc7");
    std::memcpy(state, s.data(), 32);
    fill_aes_1rx4(state, 64, state);
    check(eq_hex(state, 32, "fa89397dd6ca422513aeadba3f124b5540324c4ad4b6db434394307a17c833ab"), "AesGenerator1R public vector");

    // SuperscalarHash generator: digests of the first 10 programs for key "test key 000".
    // Digest = Hash256 over 8 bytes per instruction: opcode, dst, src, mod, imm32 (little endian).
    static const char* ref[10] = {
        "d3a4a6623738756f77e6104469102f082eff2a3e60be7ad696285ef7dfc72a61",
        "f5e7e0bbc7e93c609003d6359208688070afb4a77165a552ff7be63b38dfbc86",
        "85ed8b11734de5b3e9836641413a8f36e99e89694f419c8cd25c3f3f16c40c5a",
        "5dd956292cf5d5704ad99e362d70098b2777b2a1730520be52f772ca48cd3bc0",
        "6f14018ca7d519e9b48d91af094c0f2d7e12e93af0228782671a8640092af9e5",
        "134be097c92e2c45a92f23208cacd89e4ce51f1009a0b900dbe83b38de11d791",
        "268f9392c20c6e31371a5131f82bd7713d3910075f2f0468baafaa1abd2f3187",
        "c668a05fd909714ed4a91e8d96d67b17e44329e88bc71e0672b529a3fc16be47",
        "99739351315840963011e4c5d8e90ad0bfed3facdcb713fe8f7138fbf01c4c94",
        "14ab53d61880471f66e80183968d97effd5492b406876060e595fcf9682f9295",
    };
    Params p = Params::production();
    BlakeGenerator gen("test key 000", 12);
    GenStats gs;
    int good = 0;
    for (int i = 0; i < 10; ++i) {
        SsProgram prog = generate_superscalar(gen, p, &gs);
        std::vector<uint8_t> bytes = prog.serialize();
        uint8_t d[32];
        blake2b(d, 32, bytes.data(), bytes.size());
        if (eq_hex(d, 32, ref[i])) ++good;
        else std::printf("      program %d: %zu instructions, digest %s\n", i, prog.ins.size(), to_hex(d, 32).c_str());
    }
    check(good == 10, "SuperscalarHash generator: 10 public program digests (key \"test key 000\")");
    std::printf("      generator paths over 10 programs: instr=%llu thrown_away=%llu stall_cycles=%llu r5_rule=%llu "
                "mul_saturation=%llu size_cap=%llu latency_reached=%llu map_exhausted=%llu aborted=%llu chained_mul=%llu\n",
                (unsigned long long)gs.instructions, (unsigned long long)gs.thrown_away, (unsigned long long)gs.stall_cycles,
                (unsigned long long)gs.r5_source_rule, (unsigned long long)gs.mul_port_saturation,
                (unsigned long long)gs.size_cap_reached, (unsigned long long)gs.latency_reached,
                (unsigned long long)gs.port_map_exhausted, (unsigned long long)gs.group_aborted,
                (unsigned long long)gs.chained_mul_allowed);
}

// ---------------------------------------------------------------------------
static void test_decoder() {
    Params p = Params::production();
    uint32_t sum = 0;
    for (int i = 0; i < ITYPE_COUNT; ++i) sum += p.freq[i];
    uint32_t integer = 0, fp = 0;
    for (int i = (int)IType::IADD_RS; i <= (int)IType::ISWAP_R; ++i) integer += p.freq[i];
    for (int i = (int)IType::FSWAP_R; i <= (int)IType::FSQRT_R; ++i) fp += p.freq[i];
    // table 5.1.1: 120 integer, 94 floating point, 26 control, 16 store opcodes
    check(sum == 256 && integer == 120 && fp == 94 && p.freq[(int)IType::CBRANCH] + p.freq[(int)IType::CFROUND] == 26 &&
          p.freq[(int)IType::ISTORE] == 16, "instruction frequencies add up as in table 5.1.1");
    check(decode_type(0, p) == IType::IADD_RS && decode_type(15, p) == IType::IADD_RS && decode_type(16, p) == IType::IADD_M &&
          decode_type(119, p) == IType::ISWAP_R && decode_type(120, p) == IType::FSWAP_R && decode_type(213, p) == IType::FSQRT_R &&
          decode_type(214, p) == IType::CBRANCH && decode_type(238, p) == IType::CBRANCH && decode_type(239, p) == IType::CFROUND &&
          decode_type(240, p) == IType::ISTORE && decode_type(255, p) == IType::ISTORE,
          "decode_type boundaries");

    // hand-made program: last-writer rules of 5.4.2
    std::vector<uint8_t> prog(128 + 8 * 256, 0);
    auto put = [&](int i, uint8_t opcode, uint8_t dst, uint8_t src, uint8_t mod, uint32_t imm) {
        uint8_t* w = &prog[128 + 8 * (size_t)i];
        w[0] = opcode; w[1] = dst; w[2] = src; w[3] = mod; store_le32(w + 4, imm);
    };
    // opcodes: IMUL_RCP 76..83, ISWAP_R 116..119, CBRANCH 214..238, ISTORE 240.., IADD_RS 0..15, FADD_R 124..139
    for (int i = 0; i < 256; ++i) put(i, 124, 0, 0, 0, 0);     // FADD_R filler (no integer writer)
    put(0, 0, 1, 2, 0, 0);            // IADD_RS r1 += r2          -> writer[1] = 0
    put(1, 76, 1, 0, 0, 16);          // IMUL_RCP r1, 16 (power of 2) -> nop, not a writer
    put(2, 76, 2, 0, 0, 0);           // IMUL_RCP r2, 0            -> nop
    put(3, 76, 3, 0, 0, 3);           // IMUL_RCP r3, 3            -> writer[3] = 3
    put(4, 116, 4, 4, 0, 0);          // ISWAP_R r4, r4            -> nop
    put(5, 116, 4, 5, 0, 0);          // ISWAP_R r4, r5            -> writer[4] = writer[5] = 5
    put(6, 240, 6, 7, 0xe0, 0);       // ISTORE (cond 14 -> L3)    -> no writer
    put(7, 214, 1, 0, 0x30, 0);       // CBRANCH r1: target = writer[1] = 0; afterwards all = 7
    put(8, 214, 6, 0, 0, 0);          // CBRANCH r6: target 7
    ProgramCtx ctx;
    decode_program(prog.data(), false, p, ctx);
    bool ok = ctx.size == 256;
    ok &= ctx.ins[1].nop && ctx.ins[2].nop && !ctx.ins[3].nop && ctx.ins[3].imm64 == reciprocal(3);
    ok &= ctx.ins[4].nop && !ctx.ins[5].nop;
    ok &= ctx.last_writer[7][1] == 0 && ctx.last_writer[7][2] == -1 && ctx.last_writer[7][3] == 3 &&
          ctx.last_writer[7][4] == 5 && ctx.last_writer[7][5] == 5 && ctx.last_writer[7][6] == -1 && ctx.last_writer[7][0] == -1;
    ok &= ctx.ins[7].target == 0 && ctx.ins[8].target == 7;
    ok &= ctx.ins[6].mem_mask == ctx.l3_mask;
    // cimm for b = 3 + 8 = 11: bit 11 set, bit 10 clear
    ok &= ctx.ins[7].shift == 11 && ctx.ins[7].imm64 == (1ull << 11) && ctx.ins[7].cond_mask == (0xffull << 11);
    for (int r = 0; r < 8; ++r) ok &= ctx.last_writer[8][r] == 7;
    check(ok, "decode_program: IMUL_RCP / ISWAP_R no-ops, last-writer table, CBRANCH target and cimm, ISTORE L3");

    // v2 program size
    std::vector<uint8_t> prog2(128 + 8 * 384, 0);
    decode_program(prog2.data(), true, p, ctx);
    check(ctx.size == 384, "v2 program size 384");

    // CFROUND v1 / v2 and group E conversion
    VmState st;
    st.scratchpad.assign(p.scratchpad_l3, 0);
    std::vector<uint8_t> prog3(128 + 8 * 256, 0);
    {
        uint8_t* w = &prog3[128];
        w[0] = 239; w[1] = 0; w[2] = 3; w[3] = 0; store_le32(w + 4, 64 + 4);   // CFROUND r3, rotate by 4 (68 & 63)
    }
    decode_program(prog3.data(), false, p, ctx);
    {
        RoundingGuard g;
        st.r[3] = 0x3ull << 4 | 0xfull << 8;    // rotated right by 4: low bits ...1111 0011 -> bits 2-5 = 1100b != 0
        st.fprc = 0;
        step(st, ctx, 0, false);
        bool v1 = st.fprc == 3;
        st.fprc = 0;
        step(st, ctx, 0, true);
        bool v2_skip = st.fprc == 0;
        st.r[3] = 0x2ull << 4 | 0x5ull << 10;   // rotated: bits 0-1 = 10b, bits 2-5 = 0, higher bits set
        step(st, ctx, 0, true);
        bool v2_set = st.fprc == 2;
        check(v1 && v2_skip && v2_set, "CFROUND: v1 always sets fprc, v2 only if bits 2-5 of the rotated value are zero");
    }
    {
        uint64_t emask[2] = { 0x3fffffull | (0x3a0ull << 52), 0x155555ull | (0x300ull << 52) };
        uint8_t mem[8];
        store_le32(mem, (uint32_t)-123456789);
        store_le32(mem + 4, 0x7fffffff);
        double e[2], f[2];
        convert_f(mem, f);
        convert_e(mem, emask, e);
        uint64_t u0, u1;
        std::memcpy(&u0, &e[0], 8); std::memcpy(&u1, &e[1], 8);
        bool ok2 = f[0] == -123456789.0 && f[1] == 2147483647.0;
        ok2 &= (u0 >> 63) == 0 && ((u0 >> 52) & 0x7f0) == 0x3a0 && (u0 & 0x3fffff) == 0x3fffff;
        ok2 &= (u1 >> 63) == 0 && ((u1 >> 52) & 0x7f0) == 0x300 && (u1 & 0x3fffff) == 0x155555;
        // low four exponent bits and upper 30 fraction bits are those of the converted integer
        uint64_t w0; double d0 = -123456789.0; std::memcpy(&w0, &d0, 8);
        ok2 &= ((u0 >> 52) & 0xf) == ((w0 >> 52) & 0xf) && ((u0 & 0xfffffffffffffull) >> 22) == ((w0 & 0xfffffffffffffull) >> 22);
        ok2 &= e[0] > 0 && e[1] > 0;
        check(ok2, "group F / group E conversion (signed 32-bit, masks)");
    }
    // FSCAL_R and rounding modes
    {
        RoundingGuard g;
        std::vector<uint8_t> prog4(128 + 8 * 256, 0);
        uint8_t* w = &prog4[128];
        // take the opcodes from the table instead of assuming them
        int op_fscal = -1, op_fdiv = -1, op_fsqrt = -1, op_fmul = -1, op_faddr = -1;
        for (int o = 0; o < 256; ++o) {
            IType t = decode_type((uint8_t)o, p);
            if (t == IType::FSCAL_R && op_fscal < 0) op_fscal = o;
            if (t == IType::FDIV_M && op_fdiv < 0) op_fdiv = o;
            if (t == IType::FSQRT_R && op_fsqrt < 0) op_fsqrt = o;
            if (t == IType::FMUL_R && op_fmul < 0) op_fmul = o;
            if (t == IType::FADD_R && op_faddr < 0) op_faddr = o;
        }
        w[0] = (uint8_t)op_fscal; w[1] = 1;
        w[8] = (uint8_t)op_faddr; w[9] = 0; w[10] = 0;          // FADD_R f0, a0
        decode_program(prog4.data(), false, p, ctx);
        st.f[1][0] = 3.0; st.f[1][1] = -0.75;
        step(st, ctx, 0, false);
        uint64_t a, b;
        std::memcpy(&a, &st.f[1][0], 8); std::memcpy(&b, &st.f[1][1], 8);
        double three = 3.0, m075 = -0.75; uint64_t ua, ub;
        std::memcpy(&ua, &three, 8); std::memcpy(&ub, &m075, 8);
        bool okx = a == (ua ^ 0x80F0000000000000ull) && b == (ub ^ 0x80F0000000000000ull);
        // 1 + 2^-60 in the four rounding modes
        double tiny = 1.0 / 1152921504606846976.0;   // 2^-60
        double up = 1.0 + 2.220446049250313e-16;
        bool okr = true;
        for (int mode = 0; mode < 4; ++mode) {
            st.fprc = mode;
            st.f[0][0] = 1.0; st.f[0][1] = -1.0;
            st.a[0][0] = tiny; st.a[0][1] = tiny;
            step(st, ctx, 1, false);
            double want_lo = (mode == 2) ? up : 1.0;                                   // only round-up moves 1+tiny
            double want_hi = (mode == 2 || mode == 3) ? -(1.0 - 1.1102230246251565e-16) : -1.0;   // -1+tiny: up and to-zero
            okr &= st.f[0][0] == want_lo && st.f[0][1] == want_hi;
        }
        st.fprc = 0;
        check(okx, "FSCAL_R xors 0x80F0000000000000");
        check(okr, "FADD_R honours fprc in all four rounding modes");
    }
    check(std::fegetround() == FE_TONEAREST, "hardware rounding mode restored after direct step() calls under RoundingGuard");
}

// ---------------------------------------------------------------------------
struct HashCase { const char* name; const char* key; std::vector<uint8_t> input; const char* v1; const char* v2; };

static std::vector<uint8_t> str_bytes(const char* s) { return std::vector<uint8_t>(s, s + std::strlen(s)); }

static void test_production(bool quick) {
    if (quick) { std::printf("SKIP  production Cache tests (--quick)\n"); return; }

    std::vector<HashCase> cases = {
        { "1a", "test key 000", str_bytes("This is a test"),
          "639183aae1bf4c9a35884cb46b09cad9175f04efd7684e7262a0ac1c2f0b4e3f",
          "22ec6b861b3eb23686b2efbad69513c967ecfce80983df66c9c5b4fbfb4cdb6f" },
        { "1b", "test key 000", str_bytes("Lorem ipsum dolor sit amet"),
          "300a0adb47603dedb42228ccb2b211104f4da45af709cd7547cd049e9489c969",
          "9e2c772c12fd48f93c14c97fdc89d556264d9100597023f44d9163e279012ecf" },
        { "1c", "test key 000", str_bytes("sed do eiusmod tempor incididunt ut labore et dolore magna aliqua"),
          "c36d4ed4191e617309867ed66a443be4075014e2b061bcdaf9ce7b721d2b77a8",
          "4d6b063a1a603751d525f18a171336a4002f2f06df6c17e4b25fe17e17796e42" },
        { "1d", "test key 001", str_bytes("sed do eiusmod tempor incididunt ut labore et dolore magna aliqua"),
          "e9ff4503201c0c2cca26d285c93ae883f9b1d30c9eb240b820756f2d5a7905fc",
          "97024134686ce27d362ea8d86d8ef16483ac272abdabd46ef13359400777fe5e" },
        { "1e", "test key 001",
          from_hex("0b0b98bea7e805e0010a2126d287a2a0cc833d312cb786385a7c2f9de69d25537f584a9bc9977b00000000666fd8753bf61a8631f12984e3fd44f4014eca629276817b56f32e9b68bd82f416"),
          "c56414121acda1713c2f2a819d8ae38aed7c80c35c2a769298d34f03833cd5f1",
          "c8e92c5f7c1946fecf06bc382b92e3111da38ee3e6a5ad90704e1a9d8aaf6e76" },
    };

    Cache cache;
    cache.p = Params::production();
    std::string current_key;
    uint8_t digest_1a_v2[32] = {};
    std::vector<std::string> computed_v1(cases.size()), computed_v2(cases.size());

    for (size_t ci = 0; ci < cases.size(); ++ci) {
        const HashCase& c = cases[ci];
        if (current_key != c.key) {
            double t0 = now();
            cache.init(c.key, std::strlen(c.key));
            double t1 = now();
            std::printf("      Cache init (production, key \"%s\"): %.2f s\n", c.key, t1 - t0);
            current_key = c.key;

            if (current_key == "test key 000") {
                const uint8_t* m = cache.memory.data();
                check(cache.memory.size() == 268435456ull && load_le64(m) == 0x191e0e1d23c02186ull &&
                      load_le64(m + 8 * 1568413ull) == 0xf1b62fe6210bf8b1ull &&
                      load_le64(m + 8 * 33554431ull) == 0x1f47f056d05cd99bull,
                      "Cache (Argon2d fill) 3 public words for key \"test key 000\"");
                const uint64_t idx[4] = { 0, 10000000, 20000000, 30000000 };
                const uint64_t want[4] = { 0x680588a85ae222dbull, 0x7943a1f6186ffb72ull, 0x9035244d718095e1ull, 0x145a5091f7853099ull };
                bool ok = true;
                for (int i = 0; i < 4; ++i) {
                    uint8_t item[64];
                    cache.item(idx[i], item);
                    ok &= load_le64(item) == want[i];
                }
                check(ok, "Dataset items 0, 10000000, 20000000, 30000000 (first word)");
                const GenStats& gs = cache.gen_stats;
                std::printf("      8 cache programs: instr=%llu thrown_away=%llu stall_cycles=%llu r5_rule=%llu mul_saturation=%llu "
                            "size_cap=%llu latency_reached=%llu\n",
                            (unsigned long long)gs.instructions, (unsigned long long)gs.thrown_away, (unsigned long long)gs.stall_cycles,
                            (unsigned long long)gs.r5_source_rule, (unsigned long long)gs.mul_port_saturation,
                            (unsigned long long)gs.size_cap_reached, (unsigned long long)gs.latency_reached);
            }
        }
        for (int v = 0; v < 2; ++v) {
            uint8_t out[32];
            HashTrace tr;
            double t0 = now();
            hash(cache, c.input.data(), c.input.size(), v == 1, out, &tr);
            double t1 = now();
            const char* want = v ? c.v2 : c.v1;
            check(eq_hex(out, 32, want), std::string("Hash test ") + c.name + (v ? " v2" : " v1"));
            if (!eq_hex(out, 32, want)) std::printf("      got %s\n", to_hex(out, 32).c_str());
            (v ? computed_v2 : computed_v1)[ci] = to_hex(out, 32);
            if (ci == 0) {
                std::printf("      one production hash (%s): %.3f s, %llu instructions executed, %llu branches taken, "
                            "%llu fprc writes, fp monitor %s\n", v ? "v2" : "v1", t1 - t0,
                            (unsigned long long)tr.executed, (unsigned long long)tr.branches_taken,
                            (unsigned long long)tr.fprc_changes, tr.mon.any() ? "FLAGGED" : "clean");
                check(!tr.mon.any() && tr.program_bytes.size() == 8 && tr.regfile_after.size() == 8,
                      std::string("FP domain monitors clean, trace complete (") + (v ? "v2" : "v1") + ")");
                if (v == 1) std::memcpy(digest_1a_v2, out, 32);
            }
        }
    }
    check(std::fegetround() == FE_TONEAREST, "hardware rounding mode is round-to-nearest after hashing");

    // Batch test of the public suite (first/next/last pipeline): the expected outputs are the
    // digests of the three inputs in order, v1 then v2.
    {
        const char* batch_v1[3] = { "639183aae1bf4c9a35884cb46b09cad9175f04efd7684e7262a0ac1c2f0b4e3f",
                                    "300a0adb47603dedb42228ccb2b211104f4da45af709cd7547cd049e9489c969",
                                    "c36d4ed4191e617309867ed66a443be4075014e2b061bcdaf9ce7b721d2b77a8" };
        const char* batch_v2[3] = { "22ec6b861b3eb23686b2efbad69513c967ecfce80983df66c9c5b4fbfb4cdb6f",
                                    "9e2c772c12fd48f93c14c97fdc89d556264d9100597023f44d9163e279012ecf",
                                    "4d6b063a1a603751d525f18a171336a4002f2f06df6c17e4b25fe17e17796e42" };
        bool ok = true;
        for (int i = 0; i < 3; ++i) ok &= computed_v1[(size_t)i] == batch_v1[i] && computed_v2[(size_t)i] == batch_v2[i];
        check(ok, "6 batch digests (hash_first/next/last outputs) equal the model's digests of inputs 1a, 1b, 1c");
    }
    // Commitment test: key "test key 000", input "This is a test", v2 hash
    {
        uint8_t com[32];
        commitment("This is a test", 14, digest_1a_v2, com);
        check(eq_hex(com, 32, "133be717399046b03ae82ce8ddd9d1ee4d3ea7fca03a50dec09b6848cbb98e18"), "Commitment test value");
    }
}

// ---------------------------------------------------------------------------
static void test_mini() {
    Cache cache;
    cache.p = Params::mini();
    double t0 = now();
    cache.init("", 0);
    double t1 = now();
    uint8_t out1[32], out2[32], out3[32];
    HashTrace tr;
    hash(cache, "", 0, false, out1, &tr);
    double t2 = now();
    hash(cache, "", 0, true, out2);
    double t3 = now();
    hash(cache, "", 0, false, out3);
    std::printf("      mini: cache init %.4f s, hash v1 %.4f s, hash v2 %.4f s\n", t1 - t0, t2 - t1, t3 - t2);
    std::printf("      mini (\"\",\"\") v1 = %s\n      mini (\"\",\"\") v2 = %s\n", to_hex(out1, 32).c_str(), to_hex(out2, 32).c_str());
    check(cache.memory.size() == 256 * 1024 && cache.programs.size() == 8, "Params::mini(): cache geometry");
    check(std::memcmp(out1, out3, 32) == 0 && std::memcmp(out1, out2, 32) != 0 && !tr.mon.any(),
          "Params::mini(): hash of (\"\", \"\") computes, is repeatable, v1 != v2, FP monitors clean");

    Params it = Params::iter();
    check(it.program_iterations == 16 && it.argon_memory_kib == 262144 && it.scratchpad_l3 == 2097152, "Params::iter() geometry");
}

int main(int argc, char** argv) {
    bool quick = false;
    for (int i = 1; i < argc; ++i) if (std::string(argv[i]) == "--quick") quick = true;

    test_blake2b();
    test_aes();
    test_aes_constants();
    test_argon2();
    test_reciprocal();
    test_generators();
    test_decoder();
    test_mini();
    test_production(quick);

    std::printf("%d passed, %d failed\n", g_pass, g_fail);
    if (g_fail == 0) std::printf("ALL PASS\n");
    return g_fail == 0 ? 0 : 1;
}
