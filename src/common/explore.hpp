// explore.hpp - depth-bounded explicit-state search over API histories on the real objects.
// States are cloned with fork() (copy-on-write); each enabled operation is applied in the child; the canonical
// digest of the successor is looked up in a depth-aware visited table in memory shared by the exploration's
// process tree; the child recurses.  Sequential inside one exploration (the parent waits), so the table needs
// no atomics; explorations run in parallel as separate shards.
#pragma once
#include "common/hist.hpp"
#include <sys/wait.h>
#include <sys/syscall.h>

namespace hist {

struct Shared {
	uint64_t states, transitions, hashes, dedup_hits, max_depth_reached, crashes, nviol, noutcomes;
	uint64_t replays_checked;
	struct V { char what[400]; int hlen; int h[24]; int signal; } viol[8];
	uint64_t tabsize; struct E { uint64_t key; int depth_left; } tab[1];
};
static Shared* SH; static const uint64_t TAB = 1u << 21;

static bool visit(uint64_t d, int depth_left) {   // true if the state must be (re)expanded
	if (!d) d = 1; uint64_t i = d & (TAB - 1);
	for (;;) { auto& e = SH->tab[i];
		if (e.key == 0) { e.key = d; e.depth_left = depth_left; ++SH->states; return true; }
		if (e.key == d) { if (e.depth_left >= depth_left) { ++SH->dedup_hits; return false; } e.depth_left = depth_left; return true; }
		i = (i + 1) & (TAB - 1); }
}
static void record(const std::vector<Op>& h, const std::string& what, int sig) {
	if (SH->nviol < 8) { auto& v = SH->viol[SH->nviol]; snprintf(v.what, sizeof v.what, "%s", what.c_str()); v.hlen = (int)std::min<size_t>(h.size(), 24); for (int i = 0; i < v.hlen; ++i) v.h[i] = h[i].code | (h[i].a << 8) | (h[i].b << 16); v.signal = sig; }
	++SH->nviol;
}

static World W; static std::vector<Op> H; static std::vector<Op> OPS; static bool dedup = true;
// optional per-state oracle (C15: accounting, C16: page protections); returns "" or a description
static std::function<std::string(World&)> state_check;

static void explore(int depth_left) {
	if ((uint64_t)H.size() > SH->max_depth_reached) SH->max_depth_reached = H.size();
	if (depth_left == 0 || SH->nviol >= 8) return;
	for (const Op& o : OPS) {
		if (!W.enabled(o)) continue;
		fflush(stdout); pid_t pid = fork();
		if (pid < 0) { perror("fork"); _exit(2); }
		if (pid == 0) {
			H.push_back(o); ++SH->transitions; alarm(300);   // an operation that does not return is reported by the parent as abnormal termination
			unsigned long before = W.hashes_checked;
			bool ok = W.apply(o); SH->hashes += W.hashes_checked - before; alarm(0);
			if (!ok) { record(H, W.problem, 0); _exit(0); }
			if (state_check) { std::string sc = state_check(W); if (!sc.empty()) { record(H, sc, 0); _exit(0); } }
			uint64_t d = W.digest();
			if (!dedup || visit(d, depth_left - 1)) { if (!dedup) ++SH->states; explore(depth_left - 1); }
			_exit(0);
		}
		int st = 0; waitpid(pid, &st, 0);
		if (WIFSIGNALED(st) || (WIFEXITED(st) && WEXITSTATUS(st) != 0)) {
			std::vector<Op> h2 = H; h2.push_back(o); ++SH->crashes;
			// a crash deeper in the subtree was recorded by the process that saw it; only record if it is ours
			bool deeper = false; for (uint64_t i = 0; i < std::min<uint64_t>(SH->nviol, 8); ++i) if (SH->viol[i].hlen > (int)h2.size()) deeper = true;
			if (!deeper) record(h2, "abnormal termination while applying the last operation (" + (WIFSIGNALED(st) ? "signal " + std::to_string(WTERMSIG(st)) : "exit " + std::to_string(WEXITSTATUS(st))) + ")", WIFSIGNALED(st) ? WTERMSIG(st) : -1);
		}
	}
}


inline void explore_init() { SH = (Shared*)syscall(SYS_mmap, nullptr, sizeof(Shared) + TAB * sizeof(Shared::E), PROT_READ | PROT_WRITE, MAP_SHARED | MAP_ANONYMOUS, -1, 0); }

} // namespace hist
