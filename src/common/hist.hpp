// hist.hpp - API histories on the REAL objects: operations, contract guards (DESIGN.md appendix B),
// application with oracle, canonical concrete state digest.  Shared by C03 / C15 / C16.
#pragma once
#include "common/rxh.hpp"
#include "jit_compiler_x86.hpp"
#ifndef RX_NO_ENVALLOC
#include "common/envalloc.hpp"
#define HIST_TRACK env::Track _trk
#define HIST_OWNER(x) env::S().cur_owner = (x)
#else
#define HIST_TRACK (void)0
#define HIST_OWNER(x) (void)0
#endif

namespace hist {

enum OpCode : uint8_t { ALLOC_CACHE, INIT_CACHE, RELEASE_CACHE, ALLOC_DS, INIT_DS, RELEASE_DS, CREATE_VM, DESTROY_VM, SET_CACHE, SET_DS, SET_V2, CLEAR_V2, HASH, FIRST, NEXT, LAST, NOPS };
static const char* OPNAME[] = { "alloc_cache", "init_cache", "release_cache", "alloc_dataset", "init_dataset", "release_dataset", "create_vm", "destroy_vm", "vm_set_cache", "vm_set_dataset", "set_v2", "clear_v2", "hash", "hash_first", "hash_next", "hash_last" };
struct Op { uint8_t code, a, b; };
inline std::string op_str(const Op& o) {
	char b[64];
	switch (o.code) {
	case ALLOC_CACHE: snprintf(b, sizeof b, "alloc_cache(c%d,%s)", o.a, o.b ? "JIT" : "default"); break;
	case INIT_CACHE: snprintf(b, sizeof b, "init_cache(c%d,K%d)", o.a, o.b); break;
	case RELEASE_CACHE: snprintf(b, sizeof b, "release_cache(c%d)", o.a); break;
	case INIT_DS: snprintf(b, sizeof b, "init_dataset(d0,c%d)", o.a); break;
	case CREATE_VM: snprintf(b, sizeof b, "create_vm(c%d)", o.a); break;
	case SET_CACHE: snprintf(b, sizeof b, "vm_set_cache(c%d)", o.a); break;
	case HASH: case FIRST: case NEXT: snprintf(b, sizeof b, "%s(X%d)", OPNAME[o.code], o.a); break;
	default: snprintf(b, sizeof b, "%s()", OPNAME[o.code]); break;
	}
	return b;
}
inline vf::Json hist_json(const std::vector<Op>& h) { vf::Json a = vf::Json::arr(); for (auto& o : h) a.push(op_str(o)); return a; }
inline vf::Json hist_raw(const std::vector<Op>& h) { vf::Json a = vf::Json::arr(); for (auto& o : h) a.push((int)(o.code | (o.a << 8) | (o.b << 16))); return a; }
inline std::vector<Op> hist_from(const vf::Json& j) { std::vector<Op> h; for (auto& x : j.a) { int v = (int)x.num(); h.push_back(Op{ (uint8_t)(v & 255), (uint8_t)((v >> 8) & 255), (uint8_t)((v >> 16) & 255) }); } return h; }

struct Alphabet {
	std::vector<std::string> keys, inputs;
	int ncaches = 2; bool cache_jit_variants = false;   // offer alloc_cache(JIT) as well as alloc_cache(default)
	int vm_flags = 0;                                    // flag set of the VM under exploration
	bool with_batch = true, with_version = true, with_dataset_ops = true;
	bool full() const { return vm_flags & RANDOMX_FLAG_FULL_MEM; }
};

inline uint64_t mix64(const void* p, size_t n, uint64_t h = 0x9E3779B97F4A7C15ull) {
	const uint8_t* b = (const uint8_t*)p; size_t i = 0;
	for (; i + 8 <= n; i += 8) { uint64_t w; memcpy(&w, b + i, 8); h = (h ^ w) * 0xFF51AFD7ED558CCDull; h ^= h >> 29; }
	for (; i < n; ++i) { h = (h ^ b[i]) * 0x100000001B3ull; }
	return h ^ (h >> 32);
}

// members a refactoring may remove or rename without touching behaviour are read through SFINAE helpers: the harness must keep compiling (a check that does not
// build is a broken check, seeded change agent8_C03 removed randomx_vm::cacheKey) - such a member is only part of the state digest, never of an oracle
template<class T> auto opt_cache_key(T* v, int) -> decltype(std::string(v->cacheKey)) { return std::string(v->cacheKey); }
template<class T> std::string opt_cache_key(T*, long) { return std::string(); }

struct World {
	const Alphabet* A = nullptr;
	// real objects
	randomx_cache* cache[2] = { nullptr, nullptr }; bool cache_jit[2] = { false, false }; int cache_key[2] = { -1, -1 }; unsigned cache_gen[2] = { 0, 0 };
	randomx_dataset* ds = nullptr; int ds_key = -1;
	randomx_vm* vm = nullptr; bool v2 = false;
	int bound_cache = -1; unsigned bound_gen = 0; bool bound_ds = false;
	int pending = -1;                       // input of the open batch, -1 = no open batch
	// stale identities for the digest
	void* freed_cache_struct[2] = { nullptr, nullptr }; void* freed_cache_mem[2] = { nullptr, nullptr };
	// expected digests [key][input][v2]
	std::vector<std::vector<std::array<std::array<uint8_t, 32>, 2>>> expect;
	std::string problem;                    // filled by apply() when an oracle fails
	unsigned long hashes_checked = 0;

	bool light_valid() const { return vm && bound_cache >= 0 && cache[bound_cache] && cache_key[bound_cache] >= 0 && bound_gen == cache_gen[bound_cache]; }
	bool fast_valid() const { return vm && bound_ds && ds && ds_key >= 0; }
	bool vm_valid() const { return A->full() ? fast_valid() : light_valid(); }
	int current_key() const { return A->full() ? ds_key : cache_key[bound_cache]; }

	bool enabled(const Op& o) const {
		switch (o.code) {
		case ALLOC_CACHE: return !cache[o.a] && (o.b == 0 || A->cache_jit_variants);
		case INIT_CACHE: return cache[o.a] && !(pending >= 0 && bound_cache == o.a);
		case RELEASE_CACHE: return cache[o.a] && !(pending >= 0 && bound_cache == o.a);
		case ALLOC_DS: return A->full() && A->with_dataset_ops && !ds;
		case INIT_DS: return A->full() && A->with_dataset_ops && ds && cache[o.a] && cache_key[o.a] >= 0 && pending < 0;
		case RELEASE_DS: return A->full() && A->with_dataset_ops && ds && pending < 0;
		case CREATE_VM: return !vm && (A->full() ? (ds && ds_key >= 0 && o.a == 0) : (cache[o.a] && cache_key[o.a] >= 0));
		case DESTROY_VM: return vm != nullptr;
		case SET_CACHE: return vm && !A->full() && pending < 0 && cache[o.a] && cache_key[o.a] >= 0;
		case SET_DS: return vm && A->full() && A->with_dataset_ops && pending < 0 && ds && ds_key >= 0;
		case SET_V2: return vm && A->with_version && pending < 0 && !v2;
		case CLEAR_V2: return vm && A->with_version && pending < 0 && v2;
		case HASH: case FIRST: return vm_valid() && (pending < 0 || A->with_batch) && (o.code == HASH || A->with_batch);   // with an open pipeline: the pipeline is abandoned (HASH) or restarted (FIRST) - the API does not forbid it and miners do it on every new job
		case NEXT: return A->with_batch && vm_valid() && pending >= 0;
		case LAST: return A->with_batch && vm_valid() && pending >= 0;
		}
		return false;
	}
	std::vector<Op> alphabet_ops() const {
		std::vector<Op> v;   // simplest first
		for (int x = 0; x < (int)A->inputs.size(); ++x) v.push_back({ HASH, (uint8_t)x, 0 });
		for (int c = 0; c < A->ncaches; ++c) v.push_back({ SET_CACHE, (uint8_t)c, 0 });
		v.push_back({ SET_DS, 0, 0 }); v.push_back({ SET_V2, 0, 0 }); v.push_back({ CLEAR_V2, 0, 0 });
		for (int c = 0; c < A->ncaches; ++c) for (int k = 0; k < (int)A->keys.size(); ++k) v.push_back({ INIT_CACHE, (uint8_t)c, (uint8_t)k });
		for (int x = 0; x < (int)A->inputs.size(); ++x) v.push_back({ FIRST, (uint8_t)x, 0 });
		for (int x = 0; x < (int)A->inputs.size(); ++x) v.push_back({ NEXT, (uint8_t)x, 0 });
		v.push_back({ LAST, 0, 0 });
		for (int c = 0; c < A->ncaches; ++c) { v.push_back({ RELEASE_CACHE, (uint8_t)c, 0 }); v.push_back({ ALLOC_CACHE, (uint8_t)c, 0 }); v.push_back({ ALLOC_CACHE, (uint8_t)c, 1 }); }
		for (int c = 0; c < A->ncaches; ++c) v.push_back({ INIT_DS, (uint8_t)c, 0 });
		v.push_back({ RELEASE_DS, 0, 0 }); v.push_back({ ALLOC_DS, 0, 0 });
		v.push_back({ DESTROY_VM, 0, 0 });
		for (int c = 0; c < A->ncaches; ++c) v.push_back({ CREATE_VM, (uint8_t)c, 0 });
		return v;
	}

	void check_digest(const uint8_t out[32], int key, int input, const char* what) {
		++hashes_checked;
		if (memcmp(out, expect[key][input][v2 ? 1 : 0].data(), 32))
			problem = std::string(what) + " returned " + vf::hex(out, 32) + " but a fresh cache + fresh VM give " + vf::hex(expect[key][input][v2 ? 1 : 0].data(), 32) + " for (K" + std::to_string(key) + ", X" + std::to_string(input) + ", " + (v2 ? "v2" : "v1") + ")";
	}

	// applies an enabled operation to the real objects; returns false and sets `problem` when an oracle fails
	bool apply(const Op& o) {
		problem.clear();
		// entry FP state chosen by the harness per operation (rounding mode varies with the operation; masks/flags default): the
		// documented results may not depend on it, and the pipelined interface may leave it changed, so it is set before EVERY call
		_mm_setcsr(0x1F80 | (((unsigned)(o.code + o.a + o.b) & 3) << 13));
		switch (o.code) {
		case ALLOC_CACHE: { HIST_TRACK; HIST_OWNER(10 + o.a); cache[o.a] = randomx_alloc_cache(o.b ? RANDOMX_FLAG_JIT : RANDOMX_FLAG_DEFAULT); cache_jit[o.a] = o.b; cache_key[o.a] = -1; ++cache_gen[o.a]; if (!cache[o.a]) problem = "randomx_alloc_cache returned NULL"; break; }
		case INIT_CACHE: { HIST_TRACK; if (cache_key[o.a] != o.b) ++cache_gen[o.a]; randomx_init_cache(cache[o.a], A->keys[o.b].data(), A->keys[o.b].size()); cache_key[o.a] = o.b; break; }
		case RELEASE_CACHE: { HIST_TRACK; freed_cache_struct[o.a] = cache[o.a]; freed_cache_mem[o.a] = cache[o.a]->memory; randomx_release_cache(cache[o.a]); cache[o.a] = nullptr; cache_key[o.a] = -1; ++cache_gen[o.a]; break; }
		case ALLOC_DS: { HIST_TRACK; ds = randomx_alloc_dataset(RANDOMX_FLAG_DEFAULT); ds_key = -1; if (!ds) problem = "randomx_alloc_dataset returned NULL"; break; }
		case INIT_DS: { HIST_TRACK; randomx_init_dataset(ds, cache[o.a], 0, randomx_dataset_item_count()); ds_key = cache_key[o.a]; break; }
		case RELEASE_DS: { HIST_TRACK; randomx_release_dataset(ds); ds = nullptr; ds_key = -1; bound_ds = false; break; }
		case CREATE_VM: {
			HIST_TRACK; HIST_OWNER(20); int f = A->vm_flags | (v2 ? RANDOMX_FLAG_V2 : 0);
			vm = randomx_create_vm((randomx_flags)f, A->full() ? nullptr : cache[o.a], A->full() ? ds : nullptr);
			if (!vm) { problem = "randomx_create_vm returned NULL"; break; }
			if (A->full()) { bound_ds = true; bound_cache = -1; } else { bound_cache = o.a; bound_gen = cache_gen[o.a]; }
			pending = -1; break; }
		case DESTROY_VM: { HIST_TRACK; randomx_destroy_vm(vm); vm = nullptr; bound_cache = -1; bound_ds = false; pending = -1; break; }
		case SET_CACHE: { HIST_TRACK; randomx_vm_set_cache(vm, cache[o.a]); bound_cache = o.a; bound_gen = cache_gen[o.a]; break; }
		case SET_DS: { HIST_TRACK; randomx_vm_set_dataset(vm, ds); bound_ds = true; break; }
		case SET_V2: { HIST_TRACK; vm->setFlagV2(); v2 = true; break; }
		case CLEAR_V2: { HIST_TRACK; vm->clearFlagV2(); v2 = false; break; }
		case HASH: { uint8_t out[32]; memset(out, 0xEE, 32); { HIST_TRACK; randomx_calculate_hash(vm, A->inputs[o.a].data(), A->inputs[o.a].size(), out); } pending = -1; check_digest(out, current_key(), o.a, "randomx_calculate_hash"); break; }
		case FIRST: { HIST_TRACK; randomx_calculate_hash_first(vm, A->inputs[o.a].data(), A->inputs[o.a].size()); pending = o.a; break; }
		case NEXT: { uint8_t out[32]; memset(out, 0xEE, 32); { HIST_TRACK; randomx_calculate_hash_next(vm, A->inputs[o.a].data(), A->inputs[o.a].size(), out); } int was = pending; pending = o.a; check_digest(out, current_key(), was, "randomx_calculate_hash_next"); break; }
		case LAST: { uint8_t out[32]; memset(out, 0xEE, 32); { HIST_TRACK; randomx_calculate_hash_last(vm, out); } int was = pending; pending = -1; check_digest(out, current_key(), was, "randomx_calculate_hash_last"); break; }
		}
		HIST_OWNER(0);
		_mm_setcsr(0x1F80);   // the harness sets MXCSR before every API call (pipelined calls may leave it changed, by contract)
		return problem.empty();
	}

	// identity of a pointer held by the VM, in terms of objects (never raw addresses)
	std::string ident(const void* p) const {
		if (!p) return "null";
		for (int i = 0; i < 2; ++i) { if (cache[i] && p == cache[i]) return "cache" + std::to_string(i); if (cache[i] && p == cache[i]->memory) return "cmem" + std::to_string(i); }
		if (ds && p == ds) return "ds"; if (ds && p == ds->memory) return "dsmem";
		for (int i = 0; i < 2; ++i) { if (p == freed_cache_struct[i]) return "freed-cache" + std::to_string(i); if (p == freed_cache_mem[i]) return "freed-cmem" + std::to_string(i); }
		return "other";
	}

	// canonical concrete digest of everything that can influence the future (see DESIGN.md 2.4 for the argued exclusions)
	uint64_t digest() const {
		uint64_t h = 0x5157ull; auto add = [&](const void* p, size_t n) { h = mix64(p, n, h); }; auto adds = [&](const std::string& s) { h = mix64(s.data(), s.size(), h ^ 0x55); }; auto addi = [&](uint64_t v) { h = mix64(&v, 8, h); };
		for (int i = 0; i < A->ncaches; ++i) {
			addi(cache[i] ? 1 : 0); if (!cache[i]) continue;
			randomx_cache* c = cache[i]; addi(cache_jit[i]); addi((uint64_t)cache_key[i] + 7); adds(opt_cache_key(c, 0)); addi(c->isInitialized());
			if (cache_key[i] >= 0) { add(c->memory, randomx::CacheSize); for (auto& p : c->programs) { addi(p.size); addi((uint64_t)p.addrReg); add(p.programBuffer, 8 * p.size); } add(c->reciprocalCache.data(), 8 * c->reciprocalCache.size());
				if (c->jit) add(c->jit->getCode(), c->jit->getCodeSize()); }
		}
		addi(ds ? 1 : 0); if (ds) { addi((uint64_t)ds_key + 7); if (ds_key >= 0) add(ds->memory, randomx::DatasetSize); }
		addi(vm ? 1 : 0);
		if (vm) {
			addi((uint64_t)vm->vmFlags); adds(opt_cache_key(vm, 0)); add(vm->tempHash, 64); add(vm->scratchpad, randomx::ScratchpadSize); add(&vm->reg, 256); add(&vm->program, sizeof(randomx::Program));
			add(&vm->config, sizeof vm->config); addi(vm->mem.mx); addi(vm->mem.ma); addi(vm->datasetOffset);
			adds(ident(vm->mem.memory)); adds(ident(vm->cachePtr));
			addi((uint64_t)bound_cache + 3); addi(light_valid() || fast_valid()); addi(bound_ds); addi((uint64_t)pending + 3);
			if (vm->vmFlags & RANDOMX_FLAG_JIT) { rxh::Engine e; e.vm = vm; e.flags = vm->vmFlags; auto* jc = rxh::jit_of(e); add(jc->getCode(), jc->getCodeSize()); e.vm = nullptr; }
		}
		addi(v2); addi(_mm_getcsr());
#ifndef RX_NO_ENVALLOC
		env::State& s = env::S();
		for (unsigned i = 0; i < s.ncls; ++i) { bool reuse = s.cls[i].size >= env::BIG ? s.reuse_large : s.reuse_small; if (reuse) { addi(s.cls[i].size); addi(s.cls[i].nfree); } }
		// would the next allocation of the cache-memory / cache-struct class land on an address a live object still points to?
		if (vm) for (unsigned i = 0; i < s.ncls; ++i) { bool reuse = s.cls[i].size >= env::BIG ? s.reuse_large : s.reuse_small; if (reuse && s.cls[i].free_head) adds(ident(s.cls[i].free_head)); }
#endif
		return h;
	}
};

// fresh cache + fresh VM digests for every (key,input,version) of the alphabet (computed once, untracked)
inline void compute_expected(World& w) {
	const Alphabet& A = *w.A; w.expect.assign(A.keys.size(), std::vector<std::array<std::array<uint8_t, 32>, 2>>(A.inputs.size()));
	for (size_t k = 0; k < A.keys.size(); ++k) {
		randomx_cache* c = randomx_alloc_cache(RANDOMX_FLAG_DEFAULT); randomx_init_cache(c, A.keys[k].data(), A.keys[k].size());
		for (size_t x = 0; x < A.inputs.size(); ++x) for (int v2 = 0; v2 < 2; ++v2) {
			randomx_vm* vm = randomx_create_vm((randomx_flags)(v2 ? RANDOMX_FLAG_V2 : 0), c, nullptr);
			randomx_calculate_hash(vm, A.inputs[x].data(), A.inputs[x].size(), w.expect[k][x][v2].data());
			randomx_destroy_vm(vm);
		}
		randomx_release_cache(c);
	}
	_mm_setcsr(0x1F80);
}

} // namespace hist
