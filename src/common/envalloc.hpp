// envalloc.hpp - the harness owns the process environment of the library (plain builds only):
// malloc family, operator new/delete, mmap/munmap/mprotect are defined here and therefore interpose every
// request the library makes.  Deterministic; exposes as ENVIRONMENT ANSWERS that an explorer enumerates:
//   (a) address reuse policy (fresh / reuse most recently freed block of the same size, per size class),
//   (b) fill pattern of fresh memory, (c) failure of the k-th request, (d) huge pages available or not.
// Also keeps the accounting (live blocks, live mappings, unmap lengths) and the page-protection map.
// Include in exactly ONE translation unit of a harness executable.
#pragma once
#include <cstdint>
#include <cstddef>
#include <cstring>
#include <cstdio>
#include <cstdlib>
#include <cerrno>
#include <new>
#include <unistd.h>
#include <sys/mman.h>
#include <sys/syscall.h>

namespace env {

static const size_t ARENA = 6ull << 30;       // library blocks (virtual; MAP_NORESERVE)
static const size_t HARENA = 2ull << 30;      // harness blocks
static const size_t MARENA = 8ull << 30;      // library page mappings (mmap)
static const uint64_t MAGIC = 0xB10CB10CB10CB10Cull;
static const size_t BIG = 60000;            // "large" = memory buffers (cache memory, scratchpad, dataset); "small" = object structs, containers

struct Hdr { uint64_t magic; uint64_t size; uint32_t lib; uint32_t cls; void* base; uint64_t pad; };   // 40 -> padded to 48
struct FreeNode { FreeNode* next; };
struct Class { size_t size; size_t align; FreeNode* free_head; unsigned nfree; unsigned live; };
struct Mapping { uint8_t* addr; size_t len; size_t live_len; int prot; bool huge; bool live; int owner; };

struct State {
	uint8_t* arena = nullptr; size_t bump = 0;
	uint8_t* harena = nullptr; size_t hbump = 0; void* hfree[40] = { nullptr };
	uint8_t* marena = nullptr; size_t mbump = 0;
	bool tracking = false;          // true while the harness is inside a library API call
	// environment answers
	unsigned reuse_small = 1, reuse_large = 1;   // reuse policy for blocks below / at least BIG bytes
	unsigned reuse_maps = 1;
	int fill = 0xA5;                // fill pattern of fresh library memory
	int poison = 0xDD;              // pattern written into freed library blocks
	long fail_at = -1;              // 1-based index of the request that fails (-1: none)
	bool fail_sticky = false;       // the failing request and all later ones fail
	bool hugepages = false;         // answer to MAP_HUGETLB requests
	bool efence = false;            // electric-fence mode: every library block >= 4096 bytes ends at (and is preceded by) a PROT_NONE page
	// accounting
	long requests = 0;              // allocation requests issued while tracking (heap + mappings)
	long failed = 0;
	Class cls[64]; unsigned ncls = 0;
	Mapping maps[1024]; unsigned nmaps = 0;
	long live_blocks = 0; long live_bytes = 0; long live_map_bytes = 0;
	long short_unmaps = 0; long bad_frees = 0;
	long wx_events = 0; char wx_what[160] = { 0 };     // W+X requested on a library mapping (any owner)
	long wx_cache_events = 0;                           // ... on a mapping owned by a cache (owner 10..19)
	int cur_owner = 0;                                  // set by the harness around creating calls: 10+i cache i, 20 VM
	long rwx_allowed = 0;                               // set by the harness when RWX is legitimate (non-secure VM buffers)
	struct EF { uint8_t* user; size_t size; uint8_t* base; size_t body; }; EF ef[64]; unsigned nef = 0; long ef_overruns = 0;
	char last_req[96] = { 0 }; char failed_req[96] = { 0 };   // description of the most recent / the first failed request
};
inline State& S() { static State s; return s; }

inline void* sys_mmap(void* a, size_t n, int prot, int flags) { return (void*)syscall(SYS_mmap, a, n, prot, flags, -1, 0); }

inline void init() {
	State& s = S(); if (s.arena) return;
	s.arena = (uint8_t*)sys_mmap(nullptr, ARENA, PROT_READ | PROT_WRITE, MAP_PRIVATE | MAP_ANONYMOUS | MAP_NORESERVE);
	s.harena = (uint8_t*)sys_mmap(nullptr, HARENA, PROT_READ | PROT_WRITE, MAP_PRIVATE | MAP_ANONYMOUS | MAP_NORESERVE);
	s.marena = (uint8_t*)sys_mmap(nullptr, MARENA, PROT_NONE, MAP_PRIVATE | MAP_ANONYMOUS | MAP_NORESERVE);
	if (s.arena == MAP_FAILED || s.harena == MAP_FAILED || s.marena == MAP_FAILED) { const char m[] = "envalloc: cannot reserve arenas\n"; if (write(2, m, sizeof m - 1)) {} _exit(2); }
}

inline bool should_fail() {
	State& s = S(); ++s.requests;
	if (s.fail_at > 0 && (s.requests == s.fail_at || (s.fail_sticky && s.requests > s.fail_at))) { if (!s.failed) memcpy(s.failed_req, s.last_req, sizeof s.failed_req); ++s.failed; return true; }
	return false;
}

inline Class* find_class(size_t size, size_t align) {
	State& s = S();
	for (unsigned i = 0; i < s.ncls; ++i) if (s.cls[i].size == size && s.cls[i].align == align) return &s.cls[i];
	if (s.ncls >= 64) return nullptr;
	s.cls[s.ncls] = Class{ size, align, nullptr, 0, 0 }; return &s.cls[s.ncls++];
}

inline void* alloc(size_t size, size_t align, bool zero) {
	init(); State& s = S();
	if (align < 16) align = 16;
	if (!s.tracking) {   // harness allocation: separate arena, power-of-two size classes with LIFO reuse
		size_t need = size < 32 ? 32 : size; unsigned k = 5; while (((size_t)1 << k) < need) ++k;
		if (align <= 64 && k < 40 && s.hfree[k]) { void* u = s.hfree[k]; s.hfree[k] = *(void**)u; Hdr* h = (Hdr*)((uint8_t*)u - sizeof(Hdr)); h->magic = MAGIC; h->size = size; if (zero) memset(u, 0, size); return u; }
		size_t cap = (size_t)1 << k; size_t al = align < 64 ? 64 : align;
		size_t p = (s.hbump + sizeof(Hdr) + al - 1) & ~(al - 1);
		if (p + cap > HARENA) { const char m[] = "envalloc: harness arena exhausted\n"; if (write(2, m, sizeof m - 1)) {} _exit(2); }
		Hdr* h = (Hdr*)(s.harena + p - sizeof(Hdr)); h->magic = MAGIC; h->size = size; h->lib = 0; h->cls = k; h->base = nullptr;
		s.hbump = p + cap; if (zero) memset(s.harena + p, 0, size);
		return s.harena + p;
	}
	snprintf(s.last_req, sizeof s.last_req, "heap %zu align %zu", size, align);
	if (should_fail()) { errno = ENOMEM; return nullptr; }
	if (s.efence && size >= 4096) {   // [guard page][slack | block ends at a page boundary][guard page], inside the reserved mapping arena
		size_t body = (size + 4095) & ~(size_t)4095, tot = body + 8192;
		if (s.mbump + tot > MARENA) { errno = ENOMEM; return nullptr; }
		uint8_t* base = s.marena + s.mbump; s.mbump += tot;
		if ((void*)syscall(SYS_mmap, base + 4096, body, PROT_READ | PROT_WRITE, MAP_PRIVATE | MAP_ANONYMOUS | MAP_NORESERVE | MAP_FIXED, -1, 0) == MAP_FAILED) { errno = ENOMEM; return nullptr; }
		uint8_t* user = base + 4096 + ((body - size) & ~(align - 1));
		size_t slack_hi = (size_t)((base + 4096 + body) - (user + size));      // < align bytes, canary-filled, checked on release
		memset(user + size, 0xEF, slack_hi);
		if (user - (base + 4096) >= (long)sizeof(Hdr)) { Hdr* h = (Hdr*)(user - sizeof(Hdr)); h->magic = MAGIC ^ 0xEFEF; h->size = size; h->lib = 2; h->cls = 63; h->base = base; }
		if (s.nef < 64) s.ef[s.nef++] = State::EF{ user, size, base, body };
		++s.live_blocks; s.live_bytes += (long)size;
		return user;
	}
	Class* c = find_class(size, align); void* user = nullptr;
	bool reuse = size >= BIG ? s.reuse_large : s.reuse_small;
	if (c && reuse && c->free_head) { user = c->free_head; c->free_head = c->free_head->next; --c->nfree; }
	else {
		size_t p = (s.bump + sizeof(Hdr) + align - 1) & ~(align - 1);
		if (p + size > ARENA) { static const char m[] = "envalloc: the harness' heap arena for library blocks is exhausted (framework limit, not a library failure)\n"; if (write(2, m, sizeof m - 1)) {} _exit(3); }
		user = s.arena + p; s.bump = p + size;
	}
	Hdr* h = (Hdr*)((uint8_t*)user - sizeof(Hdr)); h->magic = MAGIC; h->size = size; h->lib = 1; h->cls = c ? (uint32_t)(c - s.cls) : 63; h->base = nullptr;
	if (c) ++c->live;
	memset(user, zero ? 0 : s.fill, size);
	++s.live_blocks; s.live_bytes += (long)size;
	return user;
}

inline void release(void* p) {
	if (!p) return; State& s = S();
	for (unsigned i = 0; i < s.nef; ++i) if (s.ef[i].user == p) {   // electric-fence block: check the slack canary, then make the whole body inaccessible
		uint8_t* end = s.ef[i].base + 4096 + s.ef[i].body; for (uint8_t* q = s.ef[i].user + s.ef[i].size; q < end; ++q) if (*q != 0xEF) { ++s.ef_overruns; break; }
		syscall(SYS_mmap, s.ef[i].base + 4096, s.ef[i].body, PROT_NONE, MAP_PRIVATE | MAP_ANONYMOUS | MAP_NORESERVE | MAP_FIXED, -1, 0);
		--s.live_blocks; s.live_bytes -= (long)s.ef[i].size; s.ef[i] = s.ef[--s.nef]; return;
	}
	Hdr* h = (Hdr*)((uint8_t*)p - sizeof(Hdr));
	if (h->magic != MAGIC) { ++s.bad_frees; return; }
	if (!h->lib) { h->magic = 0; if (h->cls >= 5 && h->cls < 40) { *(void**)p = s.hfree[h->cls]; s.hfree[h->cls] = p; } return; }
	h->magic = ~MAGIC;   // double free detection
	--s.live_blocks; s.live_bytes -= (long)h->size;
	memset(p, s.poison, h->size);
	if (h->cls < 63) { Class& c = s.cls[h->cls]; --c.live; FreeNode* n = (FreeNode*)p; n->next = c.free_head; c.free_head = n; ++c.nfree; }
}
inline size_t usable(void* p) { if (!p) return 0; State& s = S(); for (unsigned i = 0; i < s.nef; ++i) if (s.ef[i].user == p) return s.ef[i].size; Hdr* h = (Hdr*)((uint8_t*)p - sizeof(Hdr)); return h->size; }

// ---- page mappings requested by the library ----
inline void note_prot(Mapping& m, int prot, const char* how) {
	State& s = S();
	if ((prot & PROT_WRITE) && (prot & PROT_EXEC)) { ++s.wx_events; if (m.owner >= 10 && m.owner < 20) ++s.wx_cache_events; if (!s.wx_what[0] || (m.owner >= 10 && m.owner < 20)) snprintf(s.wx_what, sizeof s.wx_what, "%s requests PROT_WRITE|PROT_EXEC on a %zu-byte code buffer owned by %s", how, m.len, m.owner >= 20 ? "the VM" : m.owner >= 10 ? "a cache" : "the library"); }
	m.prot = prot;
}
inline void* map(void* addr, size_t len, int prot, int flags, int fd, off_t off) {
	init(); State& s = S();
	if (!s.tracking || fd != -1 || addr != nullptr) return (void*)syscall(SYS_mmap, addr, len, prot, flags, fd, off);
	snprintf(s.last_req, sizeof s.last_req, "mmap %zu prot %d flags 0x%x", len, prot, flags);
	bool huge = flags & MAP_HUGETLB;
	if (should_fail()) { errno = ENOMEM; return MAP_FAILED; }
	if (huge && !s.hugepages) { errno = ENOMEM; return MAP_FAILED; }
	size_t plen = (len + 4095) & ~(size_t)4095;
	uint8_t* at = nullptr; Mapping* slot = nullptr;
	if (s.reuse_maps) for (int i = (int)s.nmaps - 1; i >= 0; --i) if (!s.maps[i].live && s.maps[i].live_len == 0 && ((s.maps[i].len + 4095) & ~(size_t)4095) == plen) { at = s.maps[i].addr; slot = &s.maps[i]; break; }
	if (!at) { at = s.marena + s.mbump + 4096; s.mbump += plen + 8192; if (s.nmaps >= 1024 || s.mbump > MARENA) { static const char m[] = "envalloc: the harness' mapping table / arena is exhausted (framework limit, not a library failure)\n"; if (write(2, m, sizeof m - 1)) {} _exit(3); } slot = &s.maps[s.nmaps++]; }
	void* r = (void*)syscall(SYS_mmap, at, plen, prot, (flags & ~(MAP_HUGETLB | MAP_POPULATE)) | MAP_FIXED, -1, 0);
	if (r == MAP_FAILED) return r;
	*slot = Mapping{ at, len, len, 0, huge, true, s.cur_owner }; note_prot(*slot, prot, "mmap");
	s.live_map_bytes += (long)len;
	return r;
}
inline Mapping* find_map(void* p) { State& s = S(); for (unsigned i = 0; i < s.nmaps; ++i) if (s.maps[i].live && (uint8_t*)p >= s.maps[i].addr && (uint8_t*)p < s.maps[i].addr + s.maps[i].len) return &s.maps[i]; return nullptr; }
inline int unmap(void* p, size_t len) {
	State& s = S(); Mapping* m = find_map(p);
	if (!m || p != m->addr) return (int)syscall(SYS_munmap, p, len);
	size_t plen = (len + 4095) & ~(size_t)4095, full = (m->len + 4095) & ~(size_t)4095;
	if (plen < full) { ++s.short_unmaps; }
	// give the pages back to the reserved arena (PROT_NONE) instead of unmapping, so addresses stay ours
	syscall(SYS_mmap, m->addr, plen < full ? plen : full, PROT_NONE, MAP_PRIVATE | MAP_ANONYMOUS | MAP_NORESERVE | MAP_FIXED, -1, 0);
	long freed = (long)(len < m->len ? len : m->len);
	s.live_map_bytes -= freed; m->live_len -= (size_t)freed; m->live = false;
	return 0;
}
inline int protect(void* p, size_t len, int prot) {
	Mapping* m = find_map(p);
	if (m) note_prot(*m, prot, "mprotect");
	return (int)syscall(SYS_mprotect, p, len, prot);
}

struct Track { bool prev; Track() { init(); prev = S().tracking; S().tracking = true; } ~Track() { S().tracking = prev; } };
struct Untrack { bool prev; Untrack() { prev = S().tracking; S().tracking = false; } ~Untrack() { S().tracking = prev; } };

} // namespace env

// ---- interposition (strong definitions in the executable win over libc's) ----
extern "C" {
void* malloc(size_t n) { return env::alloc(n ? n : 1, 16, false); }
void* calloc(size_t a, size_t b) { size_t n = a * b; return env::alloc(n ? n : 1, 16, true); }
void free(void* p) { env::release(p); }
void* realloc(void* p, size_t n) {
	if (!p) return malloc(n); if (!n) { free(p); return nullptr; }
	size_t old = env::usable(p); void* q = malloc(n); if (!q) return nullptr; memcpy(q, p, old < n ? old : n); free(p); return q;
}
int posix_memalign(void** out, size_t align, size_t n) { void* p = env::alloc(n ? n : 1, align, false); if (!p) return ENOMEM; *out = p; return 0; }
void* aligned_alloc(size_t align, size_t n) { return env::alloc(n ? n : 1, align, false); }
void* memalign(size_t align, size_t n) { return env::alloc(n ? n : 1, align, false); }
size_t malloc_usable_size(void* p) { return env::usable(p); }
void* mmap(void* a, size_t n, int prot, int flags, int fd, off_t off) __THROW { return env::map(a, n, prot, flags, fd, off); }
void* mmap64(void* a, size_t n, int prot, int flags, int fd, off_t off) __THROW { return env::map(a, n, prot, flags, fd, off); }
int munmap(void* p, size_t n) __THROW { return env::unmap(p, n); }
int mprotect(void* p, size_t n, int prot) __THROW { return env::protect(p, n, prot); }
}
void* operator new(size_t n) { void* p = env::alloc(n ? n : 1, 16, false); if (!p) throw std::bad_alloc(); return p; }
void* operator new[](size_t n) { void* p = env::alloc(n ? n : 1, 16, false); if (!p) throw std::bad_alloc(); return p; }
void* operator new(size_t n, const std::nothrow_t&) noexcept { return env::alloc(n ? n : 1, 16, false); }
void* operator new[](size_t n, const std::nothrow_t&) noexcept { return env::alloc(n ? n : 1, 16, false); }
void operator delete(void* p) noexcept { env::release(p); }
void operator delete[](void* p) noexcept { env::release(p); }
void operator delete(void* p, size_t) noexcept { env::release(p); }
void operator delete[](void* p, size_t) noexcept { env::release(p); }
