// vf.hpp - shared plumbing of all check executables: arguments, tiny JSON, forked shards,
// evidence files, replay files, known findings.  Header-only, no dependency on /repo.
#pragma once
#include <cstdint>
#include <cstdio>
#include <cstdlib>
#include <cstring>
#include <string>
#include <vector>
#include <map>
#include <set>
#include <functional>
#include <sstream>
#include <fstream>
#include <algorithm>
#include <chrono>
#include <unistd.h>
#include <fcntl.h>
#include <cctype>
#include <sys/select.h>
#include <signal.h>
#include <sys/wait.h>
#include <sys/mman.h>
#include <sys/stat.h>

namespace vf {

// ---------------------------------------------------------------- time
inline double now() {
	using namespace std::chrono;
	return duration_cast<duration<double>>(steady_clock::now().time_since_epoch()).count();
}

// ---------------------------------------------------------------- hex
inline std::string hex(const void* p, size_t n) {
	static const char* d = "0123456789abcdef";
	std::string s; s.resize(2 * n);
	const uint8_t* b = (const uint8_t*)p;
	for (size_t i = 0; i < n; ++i) { s[2 * i] = d[b[i] >> 4]; s[2 * i + 1] = d[b[i] & 15]; }
	return s;
}
inline std::vector<uint8_t> unhex(const std::string& s) {
	std::vector<uint8_t> v; v.reserve(s.size() / 2);
	auto val = [](char c) -> int { return c <= '9' ? c - '0' : (c | 32) - 'a' + 10; };
	for (size_t i = 0; i + 1 < s.size(); i += 2) v.push_back((uint8_t)(val(s[i]) * 16 + val(s[i + 1])));
	return v;
}
inline std::string hex64(uint64_t x) { char b[32]; snprintf(b, sizeof b, "0x%016llx", (unsigned long long)x); return b; }

// ---------------------------------------------------------------- JSON (value tree, writer, parser)
struct Json {
	enum T { NUL, BOOL, INT, DBL, STR, ARR, OBJ } t = NUL;
	bool b = false; int64_t i = 0; double d = 0; std::string s;
	std::vector<Json> a; std::vector<std::pair<std::string, Json>> o;
	Json() {}
	Json(bool v) : t(BOOL), b(v) {}
	Json(int v) : t(INT), i(v) {}
	Json(unsigned v) : t(INT), i(v) {}
	Json(long v) : t(INT), i(v) {}
	Json(unsigned long v) : t(INT), i((int64_t)v) {}
	Json(long long v) : t(INT), i(v) {}
	Json(unsigned long long v) : t(INT), i((int64_t)v) {}
	Json(double v) : t(DBL), d(v) {}
	Json(const char* v) : t(STR), s(v) {}
	Json(const std::string& v) : t(STR), s(v) {}
	static Json arr() { Json j; j.t = ARR; return j; }
	static Json obj() { Json j; j.t = OBJ; return j; }
	Json& push(const Json& v) { t = ARR; a.push_back(v); return *this; }
	Json& set(const std::string& k, const Json& v) {
		t = OBJ;
		for (auto& kv : o) if (kv.first == k) { kv.second = v; return *this; }
		o.push_back({ k, v }); return *this;
	}
	const Json* get(const std::string& k) const { for (auto& kv : o) if (kv.first == k) return &kv.second; return nullptr; }
	bool has(const std::string& k) const { return get(k) != nullptr; }
	const Json& at(const std::string& k) const {
		const Json* j = get(k);
		if (!j) { fprintf(stderr, "vf: replay/json key '%s' missing\n", k.c_str()); exit(2); }
		return *j;
	}
	int64_t num() const { return t == DBL ? (int64_t)d : i; }
	const std::string& str() const { return s; }
	static void esc(std::string& out, const std::string& s) {
		out += '"';
		for (unsigned char c : s) {
			if (c == '"') out += "\\\""; else if (c == '\\') out += "\\\\"; else if (c == '\n') out += "\\n";
			else if (c == '\t') out += "\\t"; else if (c == '\r') out += "\\r";
			else if (c < 0x20 || c >= 0x7f) { char b[8]; snprintf(b, sizeof b, "\\u%04x", c); out += b; }
			else out += (char)c;
		}
		out += '"';
	}
	void dump(std::string& out) const {
		switch (t) {
		case NUL: out += "null"; break;
		case BOOL: out += b ? "true" : "false"; break;
		case INT: out += std::to_string(i); break;
		case DBL: { char buf[64]; snprintf(buf, sizeof buf, "%.6g", d); out += buf; break; }
		case STR: esc(out, s); break;
		case ARR: { out += '['; for (size_t k = 0; k < a.size(); ++k) { if (k) out += ','; a[k].dump(out); } out += ']'; break; }
		case OBJ: { out += '{'; for (size_t k = 0; k < o.size(); ++k) { if (k) out += ','; esc(out, o[k].first); out += ':'; o[k].second.dump(out); } out += '}'; break; }
		}
	}
	std::string dump() const { std::string s; dump(s); return s; }
	// parser
	struct P {
		const char* p; const char* e;
		void ws() { while (p < e && (*p == ' ' || *p == '\n' || *p == '\t' || *p == '\r')) ++p; }
		[[noreturn]] void fail(const char* m) { fprintf(stderr, "vf: json parse error: %s\n", m); exit(2); }
		Json val() {
			ws(); if (p >= e) fail("eof");
			Json j;
			if (*p == '{') { ++p; j.t = OBJ; ws(); if (*p == '}') { ++p; return j; }
				for (;;) { ws(); Json k = val(); ws(); if (*p != ':') fail(":"); ++p; Json v = val(); j.o.push_back({ k.s, v }); ws(); if (*p == ',') { ++p; continue; } if (*p == '}') { ++p; break; } fail("obj"); }
				return j; }
			if (*p == '[') { ++p; j.t = ARR; ws(); if (*p == ']') { ++p; return j; }
				for (;;) { j.a.push_back(val()); ws(); if (*p == ',') { ++p; continue; } if (*p == ']') { ++p; break; } fail("arr"); }
				return j; }
			if (*p == '"') { ++p; j.t = STR;
				while (p < e && *p != '"') {
					if (*p == '\\') { ++p; char c = *p++;
						if (c == 'n') j.s += '\n'; else if (c == 't') j.s += '\t'; else if (c == 'r') j.s += '\r';
						else if (c == 'u') { unsigned v = 0; sscanf(p, "%4x", &v); p += 4; j.s += (char)v; }
						else j.s += c; }
					else j.s += *p++;
				}
				++p; return j; }
			if (!strncmp(p, "true", 4)) { p += 4; return Json(true); }
			if (!strncmp(p, "false", 5)) { p += 5; return Json(false); }
			if (!strncmp(p, "null", 4)) { p += 4; return Json(); }
			char* end;
			bool isd = false; for (const char* q = p; q < e && (isdigit((unsigned char)*q) || strchr("+-.eE", *q)); ++q) if (*q == '.' || *q == 'e' || *q == 'E') isd = true;
			if (isd) { j.t = DBL; j.d = strtod(p, &end); }
			else if (*p == '-') { j.t = INT; j.i = strtoll(p, &end, 10); }
			else { j.t = INT; j.i = (int64_t)strtoull(p, &end, 10); }
			if (end == p) fail("value"); p = end; return j;
		}
	};
	static Json parse(const std::string& s) { P p{ s.data(), s.data() + s.size() }; return p.val(); }
	static Json load(const std::string& path) {
		std::ifstream f(path); if (!f) { fprintf(stderr, "vf: cannot read %s\n", path.c_str()); exit(2); }
		std::stringstream ss; ss << f.rdbuf(); return parse(ss.str());
	}
};

// ---------------------------------------------------------------- arguments
struct Args {
	std::string prop, tier = "quick", replay, self;
	uint64_t seed = 0; int jobs = 16; double deadline_s = 0; double t0 = 0;
	std::map<std::string, std::string> opt;
	bool thorough() const { return tier == "thorough"; }
	bool expired() const { return deadline_s > 0 && now() - t0 > deadline_s; }
	std::string get(const std::string& k, const std::string& def = "") const { auto it = opt.find(k); return it == opt.end() ? def : it->second; }
};
inline std::string verif_dir() { const char* e = getenv("VERIF_DIR"); return e ? e : "/verif"; }
inline Args parse_args(int argc, char** argv, const char* prop) {
	Args a; a.prop = prop; a.self = argv[0]; a.t0 = now();
	if (const char* e = getenv("VERIF_TIER")) a.tier = e;
	if (const char* e = getenv("VERIF_SEED")) a.seed = strtoull(e, nullptr, 10);
	if (const char* e = getenv("VERIF_JOBS")) a.jobs = atoi(e);
	for (int i = 1; i < argc; ++i) {
		std::string s = argv[i];
		auto next = [&]() -> std::string { if (i + 1 >= argc) { fprintf(stderr, "missing value for %s\n", s.c_str()); exit(2); } return argv[++i]; };
		if (s == "--tier") a.tier = next();
		else if (s == "--seed") a.seed = strtoull(next().c_str(), nullptr, 10);
		else if (s == "--replay") a.replay = next();
		else if (s == "--jobs") a.jobs = atoi(next().c_str());
		else if (s == "--deadline") a.deadline_s = atof(next().c_str());
		else if (s.rfind("--", 0) == 0) { std::string k = s.substr(2); a.opt[k] = (i + 1 < argc && argv[i + 1][0] != '-') ? argv[++i] : "1"; }
		else { fprintf(stderr, "unknown argument %s\n", s.c_str()); exit(2); }
	}
	if (a.tier != "quick" && a.tier != "thorough") { fprintf(stderr, "bad tier\n"); exit(2); }
	if (a.jobs < 1) a.jobs = 1;
	return a;
}

// ---------------------------------------------------------------- results of a shard
struct Violation {
	std::string key;      // stable identity, matched against known_findings.txt
	std::string what;     // one line, human readable
	Json replay;          // self-contained case
};
struct Result {
	std::map<std::string, uint64_t> n;        // counters, summed over shards
	std::map<std::string, uint64_t> mx;       // maxima
	std::set<std::string> tags;               // set union over shards (coverage notes, distinct outcomes)
	std::vector<Json> samples;                // a few cases written out
	std::vector<Violation> viol;
	bool incomplete = false;                  // deadline hit or cap reached
	void sample(const Json& j, size_t cap = 4) { if (samples.size() < cap) samples.push_back(j); }
	void merge(const Result& r) {
		for (auto& kv : r.n) n[kv.first] += kv.second;
		for (auto& kv : r.mx) mx[kv.first] = std::max(mx[kv.first], kv.second);
		tags.insert(r.tags.begin(), r.tags.end());
		for (auto& s : r.samples) if (samples.size() < 8) samples.push_back(s);
		for (auto& v : r.viol) if (viol.size() < 64) viol.push_back(v);
		incomplete |= r.incomplete;
	}
	Json to_json() const {
		Json j = Json::obj(); Json jn = Json::obj(), jm = Json::obj(), jt = Json::arr(), js = Json::arr(), jv = Json::arr();
		for (auto& kv : n) jn.set(kv.first, (unsigned long long)kv.second);
		for (auto& kv : mx) jm.set(kv.first, (unsigned long long)kv.second);
		for (auto& t : tags) jt.push(t);
		for (auto& s : samples) js.push(s);
		for (auto& v : viol) { Json o = Json::obj(); o.set("key", v.key).set("what", v.what).set("replay", v.replay); jv.push(o); }
		j.set("n", jn).set("mx", jm).set("tags", jt).set("samples", js).set("viol", jv).set("incomplete", incomplete);
		return j;
	}
	static Result from_json(const Json& j) {
		Result r;
		for (auto& kv : j.at("n").o) r.n[kv.first] = (uint64_t)kv.second.i;
		for (auto& kv : j.at("mx").o) r.mx[kv.first] = (uint64_t)kv.second.i;
		for (auto& t : j.at("tags").a) r.tags.insert(t.s);
		r.samples = j.at("samples").a;
		for (auto& v : j.at("viol").a) r.viol.push_back({ v.at("key").s, v.at("what").s, v.at("replay") });
		r.incomplete = j.at("incomplete").b;
		return r;
	}
};

// The case a shard is working on, in memory shared with the parent, so that a child that dies
// (SIGSEGV, abort, watchdog) still tells the parent what it was running.
struct CurrentCase { volatile uint32_t len; char text[(1 << 20) - 4]; };
inline CurrentCase*& current_slot() { static CurrentCase* p = nullptr; return p; }
inline void set_current(const std::string& s) {
	CurrentCase* c = current_slot(); if (!c) return;
	size_t n = std::min(s.size(), sizeof(c->text) - 1);
	memcpy(c->text, s.data(), n); c->text[n] = 0; c->len = (uint32_t)n;
}

// Per-case watchdog inside a shard child: re-arm before every case; a case that does not finish in time terminates the
// child with exit code 99 and the parent reports the child's current case ("did not terminate") when crashes are verdicts.
inline void watchdog(unsigned seconds) {
	static bool installed = false;
	if (!installed) { struct sigaction sa; memset(&sa, 0, sizeof sa); sa.sa_handler = [](int) { _exit(99); }; sigaction(SIGALRM, &sa, nullptr); installed = true; }
	alarm(seconds);
}

// Run fn(shard) for shard in [0,n) in forked children, at most `jobs` at a time.
// crash_is_violation: a child that terminates abnormally yields a Violation whose replay is the
// child's current case (otherwise it is a framework error: exit 2).
inline Result run_shards(const Args& a, int n, const std::function<Result(int)>& fn, bool crash_is_violation = false, int child_timeout_s = 0) {
	Result total;
	struct Child { pid_t pid; int fd; int shard; std::string buf; CurrentCase* cc; double t0; };
	std::vector<Child> live; int next = 0;
	auto spawn = [&](int shard) {
		int pfd[2]; if (pipe(pfd)) { perror("pipe"); exit(2); }
		CurrentCase* cc = (CurrentCase*)mmap(nullptr, sizeof(CurrentCase), PROT_READ | PROT_WRITE, MAP_SHARED | MAP_ANONYMOUS, -1, 0);
		cc->len = 0; cc->text[0] = 0;
		fflush(stdout); fflush(stderr);
		pid_t pid = fork();
		if (pid < 0) { perror("fork"); exit(2); }
		if (pid == 0) {
			close(pfd[0]); current_slot() = cc;
			for (auto& c : live) close(c.fd);
			Result r = fn(shard);
			std::string s = r.to_json().dump();
			size_t off = 0; while (off < s.size()) { ssize_t w = write(pfd[1], s.data() + off, s.size() - off); if (w <= 0) _exit(3); off += (size_t)w; }
			close(pfd[1]); fflush(stdout); fflush(stderr); _exit(0);
		}
		close(pfd[1]);
		live.push_back({ pid, pfd[0], shard, "", cc, now() });
	};
	while (next < n || !live.empty()) {
		while (next < n && (int)live.size() < a.jobs) spawn(next++);
		// read from all live children until one finishes
		fd_set rs; FD_ZERO(&rs); int mxfd = 0;
		for (auto& c : live) { FD_SET(c.fd, &rs); mxfd = std::max(mxfd, c.fd); }
		timeval tv{ 1, 0 };
		int sel = select(mxfd + 1, &rs, nullptr, nullptr, &tv);
		for (size_t k = 0; k < live.size();) {
			Child& c = live[k]; bool done = false;
			if (sel > 0 && FD_ISSET(c.fd, &rs)) {
				char buf[65536]; ssize_t r = read(c.fd, buf, sizeof buf);
				if (r > 0) c.buf.append(buf, (size_t)r); else done = true;
			}
			if (!done && child_timeout_s > 0 && now() - c.t0 > child_timeout_s) { kill(c.pid, SIGKILL); done = true; }
			if (done) {
				int st = 0; waitpid(c.pid, &st, 0); close(c.fd);
				if (WIFEXITED(st) && WEXITSTATUS(st) == 0 && !c.buf.empty()) total.merge(Result::from_json(Json::parse(c.buf)));
				else {
					std::string cur(c.cc->text, c.cc->len);
					std::string how = WIFSIGNALED(st) ? ("signal " + std::to_string(WTERMSIG(st))) : (WEXITSTATUS(st) == 99 ? std::string("watchdog: the case did not terminate in time") : ("exit " + std::to_string(WEXITSTATUS(st))));
					if (crash_is_violation) {
						Violation v; v.what = "abnormal termination of the case (" + how + ")";
						v.replay = cur.empty() ? Json::obj() : Json::parse(cur);
						v.key = v.replay.has("finding_key") ? v.replay.at("finding_key").s : "crash";
						total.viol.push_back(v);
					} else {
						fprintf(stderr, "vf: shard %d died (%s); framework error, not a verdict. current case: %.400s\n", c.shard, how.c_str(), cur.c_str());
						for (auto& o : live) if (o.pid != c.pid) kill(o.pid, SIGKILL);
						exit(2);
					}
				}
				munmap(c.cc, sizeof(CurrentCase));
				live.erase(live.begin() + (long)k);
			} else ++k;
		}
	}
	return total;
}

// ---------------------------------------------------------------- known findings
// /verif/known_findings.txt: lines "finding: property=<id> key=<key> <text>" and "fixed: property=<id> <commit> <text>".
inline std::map<std::string, std::string> known_findings(const std::string& prop) {
	std::map<std::string, std::string> m;
	const char* home = getenv("VERIF_HOME"); std::ifstream f(std::string(home ? home : verif_dir().c_str()) + "/known_findings.txt"); std::string line;
	while (std::getline(f, line)) {
		if (line.rfind("finding:", 0) != 0) continue;
		std::istringstream ss(line.substr(8)); std::string tok, p, k, rest;
		while (ss >> tok) {
			if (tok.rfind("property=", 0) == 0) p = tok.substr(9);
			else if (tok.rfind("key=", 0) == 0) k = tok.substr(4);
			else rest += (rest.empty() ? "" : " ") + tok;
		}
		if (p == prop && !k.empty()) m[k] = rest;
	}
	return m;
}

// ---------------------------------------------------------------- evidence + verdict
struct Evidence {
	std::string level;       // exploration | fault_enumeration | model_checking | translation_validation | other
	Json coverage = Json::obj();
	std::vector<std::string> assumptions;
};

inline void mkdirs(const std::string& p) { std::string c = "mkdir -p '" + p + "'"; if (system(c.c_str())) {} }

// Re-run a violation from its replay file in a fresh process of this executable; true if it reproduces (exit 1).
inline int replay_exit(const Args& a, const std::string& path) {
	fflush(stdout); fflush(stderr);
	pid_t pid = fork();
	if (pid == 0) {
		int dn = open("/dev/null", 1); dup2(dn, 1);
		execl(a.self.c_str(), a.self.c_str(), "--replay", path.c_str(), "--tier", a.tier.c_str(), (char*)nullptr);
		_exit(127);
	}
	int st = 0; double t0 = now();
	for (;;) { pid_t r = waitpid(pid, &st, WNOHANG); if (r == pid) break; if (now() - t0 > 600) { kill(pid, SIGKILL); waitpid(pid, &st, 0); return 124; } usleep(20000); }
	if (WIFSIGNALED(st)) return 128 + WTERMSIG(st);
	return WEXITSTATUS(st);
}

// Writes evidence, confirms and prints violations, returns the process exit code.
// confirm: re-run each violation from its replay file before reporting it (a violation that does not
// reproduce is a framework error -> exit 2, no VIOLATION line).
inline int finish(const Args& a, const Result& r, Evidence ev, bool confirm = true, bool crash_replays = false) {
	std::string dir = verif_dir();
	mkdirs(dir + "/evidence"); mkdirs(dir + "/build/replay");
	auto known = known_findings(a.prop);
	int nviol = 0, nknown = 0, nflaky = 0;
	std::set<std::string> seen_known;
	Json vlist = Json::arr();
	int idx = 0;
	for (auto& v : r.viol) {
		if (known.count(v.key)) {
			if (!seen_known.count(v.key)) { printf("KNOWN-FINDING: property=%s %s (%s)\n", a.prop.c_str(), v.key.c_str(), known[v.key].c_str()); seen_known.insert(v.key); }
			++nknown; continue;
		}
		if (idx >= 10) { ++nviol; continue; }
		std::string path = dir + "/build/replay/" + a.prop + "-" + a.tier + (a.get("part").empty() ? "" : "-" + a.get("part")) + "-" + std::to_string(idx++) + ".json";
		Json rp = v.replay; if (rp.t != Json::OBJ) rp = Json::obj();
		rp.set("property", a.prop).set("finding_key", v.key).set("what", v.what); if (!a.get("part").empty()) rp.set("part", a.get("part"));
		{ std::ofstream f(path); f << rp.dump() << "\n"; }
		if (confirm) {
			int rc = replay_exit(a, path);
			bool repro = (rc == 1) || (crash_replays && (rc >= 128 || rc == 124 || rc == 99));   // 99 / 124: the replay did not terminate either
			if (!repro) { fprintf(stderr, "vf: violation '%s' did not reproduce from %s (replay exit %d): framework error, not reported\n", v.what.c_str(), path.c_str(), rc); ++nflaky; continue; }
		}
		printf("VIOLATION property=%s replay=%s\n  %s\n", a.prop.c_str(), path.c_str(), v.what.c_str());
		Json o = Json::obj(); o.set("key", v.key).set("what", v.what).set("replay", path); vlist.push(o);
		++nviol;
	}
	Json e = Json::obj();
	e.set("property_id", a.prop).set("tier", a.tier).set("seed", (unsigned long long)a.seed).set("level", ev.level);
	if (!ev.coverage.has("samples")) { Json s = Json::arr(); for (auto& x : r.samples) s.push(x); ev.coverage.set("samples", s); }
	Json cnt = Json::obj(); for (auto& kv : r.n) cnt.set(kv.first, (unsigned long long)kv.second); for (auto& kv : r.mx) cnt.set("max_" + kv.first, (unsigned long long)kv.second);
	ev.coverage.set("counters", cnt);
	if (!r.tags.empty()) { Json t = Json::arr(); for (auto& x : r.tags) t.push(x); ev.coverage.set("tags", t); }
	if (r.incomplete) { ev.coverage.set("exhaustive", false); ev.coverage.set("stopped_early", "deadline or cap reached; counters show what was completed"); }
	e.set("coverage", ev.coverage);
	Json as = Json::arr(); for (auto& s : ev.assumptions) as.push(s); e.set("assumptions", as);
	e.set("wall_s", now() - a.t0).set("violations", nviol).set("known_findings_seen", nknown);
	if (nviol) e.set("violation_list", vlist);
	std::string part = a.get("part");
	if (!part.empty()) { mkdirs(dir + "/build/parts"); std::ofstream f(dir + "/build/parts/" + a.prop + "." + part + ".json"); f << e.dump() << "\n"; }
	else { std::ofstream f(dir + "/evidence/" + a.prop + ".json"); f << e.dump() << "\n"; }
	fflush(stdout);
	if (nflaky && !nviol) return 2;
	return nviol ? 1 : 0;
}

// ---------------------------------------------------------------- deterministic PRNG for order/packing only
struct Rng {
	uint64_t s;
	explicit Rng(uint64_t seed) : s(seed * 0x9E3779B97F4A7C15ull + 0x1234567ull) {}
	uint64_t next() { uint64_t z = (s += 0x9E3779B97F4A7C15ull); z = (z ^ (z >> 30)) * 0xBF58476D1CE4E5B9ull; z = (z ^ (z >> 27)) * 0x94D049BB133111EBull; return z ^ (z >> 31); }
	uint64_t below(uint64_t n) { return next() % n; }
};

// FNV-1a 64 for cheap digests of observable state
inline uint64_t fnv(const void* p, size_t n, uint64_t h = 1469598103934665603ull) {
	const uint8_t* b = (const uint8_t*)p; for (size_t i = 0; i < n; ++i) { h ^= b[i]; h *= 1099511628211ull; } return h;
}

} // namespace vf
