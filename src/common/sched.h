/* sched.h - see sched.c */
#pragma once
#ifdef __cplusplus
extern "C" {
#endif
#define SCH_MAXT 8
#define SCH_MAXP 262144
struct sch_pt { unsigned enabled; int chosen; int running; int kind; unsigned site; };   /* kind: 1 = operation-level point (API call boundary, thread start/end), 0 = inside an operation (allocation / mapping call) */
void sch_init(int nthreads, const int* prefix, int prefix_len);
void sch_thread_begin(int tid);
void sch_point(int tid);
void sch_point_k(int tid, int kind);
void sch_point_ks(int tid, int kind, unsigned site);   /* site: identity of the program location (call site) that reached the point */
void sch_thread_end(int tid);
void sch_disable(void);
int sch_active(void);
int sch_diverged(void);
int sch_trace(const struct sch_pt** out);
#ifdef __cplusplus
}
#endif
