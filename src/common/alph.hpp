// alph.hpp - key and input alphabets (DESIGN.md 2.3)
#pragma once
#include <string>
#include <vector>
#include <cstdint>

namespace alph {

inline std::string pattern(size_t len, int pat) {
	std::string s(len, '\0');
	for (size_t i = 0; i < len; ++i) {
		switch (pat) {
		case 0: s[i] = (char)(i * 7 + 1); break;                       // counting
		case 1: s[i] = (char)0xFF; break;                              // all ones
		case 2: s[i] = (char)((i * 2654435761u) >> 13); break;         // scrambled, contains NULs
		default: s[i] = 0; break;                                      // all NUL
		}
	}
	return s;
}

// key shapes: lengths around the 60-byte generator clamp, Blake2b block boundaries, multi-block Argon2 H0 input,
// pairs sharing their first 60 bytes, embedded NULs
inline std::vector<std::string> key_shapes(bool thorough) {
	std::vector<std::string> k;
	k.push_back(""); k.push_back("test key 000"); k.push_back("test key 001");
	for (size_t len : { 1u, 2u, 59u, 60u, 61u, 64u, 65u, 127u, 128u, 129u, 200u, 300u }) k.push_back(pattern(len, 0));
	// same first 60 bytes, different tails
	std::string base = pattern(60, 2); k.push_back(base); k.push_back(base + "A"); k.push_back(base + "B"); k.push_back(base + std::string(40, 'z'));
	k.push_back(std::string("\0", 1)); k.push_back(std::string("a\0b", 3)); k.push_back(std::string(60, '\0')); k.push_back(std::string(61, '\0'));
	if (thorough) {
		for (size_t len : { 3u, 12u, 31u, 32u, 33u, 63u, 255u, 256u, 257u, 512u }) k.push_back(pattern(len, 2));
		for (size_t len : { 60u, 61u, 128u, 256u }) k.push_back(pattern(len, 1));
	}
	return k;
}

inline std::vector<size_t> input_lengths(bool thorough, bool every) {
	std::vector<size_t> v;
	if (every) { for (size_t i = 0; i <= (thorough ? 300u : 80u); ++i) v.push_back(i); for (size_t x : { 127u, 128u, 129u, 255u, 256u, 257u, 1000u, 4096u }) if (x > (thorough ? 300u : 80u)) v.push_back(x); }
	else for (size_t x : { 0u, 1u, 63u, 64u, 65u, 76u, 127u, 128u, 129u, 255u, 256u, 257u, 1000u, 1024u, 1152u, 1153u, 2176u, 4096u, 65664u }) v.push_back(x);   // incl. 128 + 1024k (one block + whole kilobytes)
	return v;
}

inline std::string input(size_t len, int variant) {
	if (variant == 0) { std::string s = "This is a test"; if (len <= s.size()) return s.substr(0, len); return s + pattern(len - s.size(), 2); }
	return pattern(len, variant);
}

} // namespace alph
