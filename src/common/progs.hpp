// progs.hpp - the enumerated program families shared by the engine-equivalence checks
// (C04 x86 JIT, C06 bounds, C17 portable build, and the sequence part of C05/C07).
// Every family is a finite list: (family, index) -> program buffer, deterministic.
#pragma once
#include "common/rxh.hpp"

namespace rxh {

struct Family {
	std::string name;
	uint64_t count;
	std::function<void(uint64_t idx, bool v2, ProgBuf& out)> make;
	bool sampling = false;      // true only for the AES-generated sanity floor
};

inline int prog_size(bool v2) { return v2 ? RANDOMX_PROGRAM_SIZE_V2 : RANDOMX_PROGRAM_SIZE_V1; }

// w1mode: 0 = all 256 mod values x whole imm set; 1 = 16 mod classes x 4 imms; 2 = 16 mod classes x 1 imm.  seqlen 0 = no sequence family.
inline std::vector<Family> families(bool thorough, uint64_t seed, int seqlen /*0, 2 or 3*/, int w1mode = 0, unsigned n_aesrand = 0) {
	const bool reduced_w1 = w1mode != 0;
	std::vector<Family> fam;
	auto B = std::make_shared<std::vector<uint32_t>>(imm_set(thorough));
	auto S = std::make_shared<std::vector<Word>>(sigma_alphabet());
	const int ncfg = n_config_blocks(thorough);
	// mod alphabet: all 256 values, or 16 class representatives when reduced
	auto MODS = std::make_shared<std::vector<int>>();
	if (!reduced_w1) for (int m = 0; m < 256; ++m) MODS->push_back(m);
	else for (int m : { 0x00, 0x01, 0x02, 0x03, 0x04, 0x08, 0x0C, 0x10, 0x70, 0xD0, 0xD1, 0xE0, 0xE3, 0xF0, 0xFF, 0x5A }) MODS->push_back(m);
	auto IMMS = std::make_shared<std::vector<uint32_t>>();
	if (!reduced_w1) *IMMS = *B; else if (w1mode == 1) *IMMS = { 0u, 0x80000000u, 0xFFFFFFFFu, 0x12345678u }; else *IMMS = { 0x80000000u };
	uint64_t rot = seed;   // VERIF_SEED permutes packing only

	// ---- W1, packing a: a program holds every opcode once (slots = opcodes), fixed (dst,src,mod,imm)
	fam.push_back({ "w1a", (uint64_t)IMMS->size() * MODS->size() * 64, [=](uint64_t idx, bool v2, ProgBuf& p) {
		set_config_block(p, (int)(idx % ncfg));
		uint64_t k = idx; int sr = k % 8; k /= 8; int d = k % 8; k /= 8; int mod = (*MODS)[k % MODS->size()]; k /= MODS->size(); uint32_t imm = (*IMMS)[k];
		bool high = ((d + sr + mod) % 5) == 0;
		for (int s = 0; s < RANDOMX_PROGRAM_MAX_SIZE; ++s) {
			int round = s / 256; int op = (int)((s + rot) % 256);
			int dd = (d + round) & 7, ss = (sr + 3 * round) & 7;
			p.set_word(s, W(op, high ? (0xF8 | dd) : dd, high ? (0xF8 | ss) : ss, mod, imm));
		}
	} });
	// ---- W1, packing b: a program holds one opcode with every mod value (slots = mod), fixed (op,dst,src,imm)
	auto OPS = std::make_shared<std::vector<int>>();
	if (w1mode != 2) for (int o = 0; o < 256; ++o) OPS->push_back(o); else for (auto& r : op_ranges()) if (r.hi > r.lo) OPS->push_back(r.lo);
	fam.push_back({ "w1b", (uint64_t)IMMS->size() * OPS->size() * 64, [=](uint64_t idx, bool v2, ProgBuf& p) {
		set_config_block(p, (int)((idx / 7) % ncfg));
		uint64_t k = idx; int sr = k % 8; k /= 8; int d = k % 8; k /= 8; int op = (*OPS)[k % OPS->size()]; k /= OPS->size(); size_t ii = k;
		for (int s = 0; s < RANDOMX_PROGRAM_MAX_SIZE; ++s) {
			int mod = (*MODS)[(s + rot) % MODS->size()];
			uint32_t imm = (*IMMS)[(ii + s / 256) % IMMS->size()];
			p.set_word(s, W(op, d, sr, mod, imm));
		}
	} });
	// ---- sequences of Sigma words at start / middle / end, rest no-op
	if (seqlen > 0) {
		uint64_t n = 1; for (int i = 0; i < seqlen; ++i) n *= S->size();
		// position 3 straddles the END of the program: the first word is the last executed slot, the following word(s) lie in the part of the
		// 384-word buffer a v1 program must ignore (in a real hash that part holds generator output, not no-ops) - seeded change agent6_C04
		fam.push_back({ seqlen == 2 ? "seq2" : "seq3", n * 4, [=](uint64_t idx, bool v2, ProgBuf& p) {
			set_config_block(p, (int)(idx % ncfg));
			p.fill_noop();
			int pos = (int)(idx % 4); uint64_t k = idx / 4;
			int N = prog_size(v2);
			int base = pos == 0 ? 0 : pos == 1 ? N / 2 - 1 : pos == 2 ? N - seqlen : std::min(N - 1, RANDOMX_PROGRAM_MAX_SIZE - seqlen);
			for (int i = seqlen - 1; i >= 0; --i) { p.set_word(base + i, (*S)[k % S->size()]); k /= S->size(); }
		} });
	}
	// ---- saturated: every slot the same Sigma word
	fam.push_back({ "sat", (uint64_t)S->size(), [=](uint64_t idx, bool v2, ProgBuf& p) {
		set_config_block(p, (int)(idx % ncfg));
		for (int s = 0; s < RANDOMX_PROGRAM_MAX_SIZE; ++s) p.set_word(s, (*S)[idx]);
	} });
	// ---- branch distance: optional writer of r at slot 0, CBRANCH on r at slot k, body = FDIV_M (longest encoding)
	{
		static const int ks[] = { 1, 2, 3, 8, 40, 75, 100, 255, 383 };
		fam.push_back({ "brdist", 9 * 2 * 4, [=](uint64_t idx, bool v2, ProgBuf& p) {
			set_config_block(p, (int)(idx % ncfg));
			int k = ks[idx % 9]; bool writer = (idx / 9) % 2; int reg = (int)((idx / 18) % 4) * 2 + 1;
			int N = prog_size(v2); if (k >= N) k = N - 1;
			Word body = W(op_of("FDIV_M"), 1, 4, 1, 0x7FFFFFF0);
			for (int s = 0; s < RANDOMX_PROGRAM_MAX_SIZE; ++s) p.set_word(s, body);
			if (writer) p.set_word(0, W(op_of("IADD_RS"), reg, (reg + 1) & 7, 0, 0));
			p.set_word(k, W(op_of("CBRANCH"), reg, 0, (int)((idx % 16) << 4), 0x00010000u << (idx % 5)));
		} });
	}
	// ---- last-writer bookkeeping: [writer of r][observable X][w][observable X][CBRANCH r] for every Sigma word w and register r,
	//      so that "does w count as a modification of r" must be answered identically by every translator (code is emitted
	//      between the candidate targets, unlike with the no-op filler)
	fam.push_back({ "writer", (uint64_t)S->size() * 8 * 4, [=](uint64_t idx, bool v2, ProgBuf& p) {
		set_config_block(p, (int)(idx % ncfg));
		p.fill_noop();
		int r = (int)(idx % 8); bool at_start = (idx / 8) % 2; bool twice = (idx / 16) % 2; const Word& w = (*S)[idx / 32];
		int base = at_start ? 0 : prog_size(v2) - 7;
		Word X = W(op_of("FSCAL_R"), 1, 0, 0, 0), Y = W(op_of("ISTORE"), (r + 1) & 7, (r + 2) & 7, 0x11, 64);
		int k = base;
		p.set_word(k++, W(op_of("IADD_RS"), r, (r + 3) & 7, 0, 0x55));
		p.set_word(k++, X); p.set_word(k++, w); if (twice) p.set_word(k++, w);   // the same word twice in a row: translators that remember the previous word must still treat each on its own
		p.set_word(k++, Y);
		p.set_word(k++, W(op_of("CBRANCH"), r, 0, (int)((idx % 16) << 4), 0x00020000u << (idx % 5)));
		p.set_word(k++, X);
	} });
	// ---- counter thresholds: exactly k effective IMUL_RCP / exactly k large immediates, rest no-op
	{
		static const int ks[] = { 0, 1, 2, 3, 4, 5, 9, 10, 11, 12, 13, 63, 64, 65, 237, 238, 239, 255, 256, 383, 384 };
		const int nk = (int)(sizeof ks / sizeof ks[0]);
		fam.push_back({ "count", (uint64_t)nk * 2, [=](uint64_t idx, bool v2, ProgBuf& p) {
			set_config_block(p, (int)(idx % ncfg));
			p.fill_noop();
			int k = ks[idx % nk]; bool rcp = (idx / nk) == 0; int N = prog_size(v2); if (k > N) k = N;
			for (int s = 0; s < k; ++s) {
				if (rcp) p.set_word(s, W(op_of("IMUL_RCP"), s & 7, 0, 0, 3 + 2 * (uint32_t)s));
				else p.set_word(s, W(op_of("IXOR_R"), s & 7, s & 7, 0, 0x12345678u + (uint32_t)s * 0x01010101u));
			}
		} });
	}
	// ---- entry at a branch target: [r := K][w1: writer of r that depends on r alone][w2][clobbers][CBRANCH r, taken exactly once per iteration].
	//      The branch re-enters the code at w2 without passing through w1, so whatever the translator assumed about machine state between w1 and w2
	//      (a scratch register still holding a constant, a fused pair, flags) must not matter. K is searched with the interpreter's own single step so
	//      that bits [b, b+8) of r are all ones after w1 (seeded change agent7_C18: the second of two adjacent IMUL_RCP reuses rax).
	{
		auto U = [](int r) { std::vector<Word> u = { W(op_of("IMUL_RCP"), r, 0, 0, 3), W(op_of("IMUL_RCP"), r, 0, 0, 6), W(op_of("IMUL_RCP"), r, 0, 0, 0xFFFFFFFFu), W(op_of("IMUL_RCP"), r, 0, 0, 0x80000001u),
			W(op_of("IMUL_R"), r, r, 0, 0x12345679), W(op_of("IXOR_R"), r, r, 0, 0x7FFFFFFF), W(op_of("ISUB_R"), r, r, 0, 0x80000000u), W(op_of("INEG_R"), r, 0, 0, 0), W(op_of("IROR_R"), r, r, 0, 13), W(op_of("IROL_R"), r, r, 0, 1),
			W(op_of("IADD_RS"), r, r, 0x08, 0x55) }; return u; };
		static const int RS[3] = { 1, 4, 6 }; static const int CONDS[3] = { 0, 7, 15 };
		const size_t NU = U(1).size();
		fam.push_back({ "entry", (uint64_t)S->size() * NU * 3 * 3, [=](uint64_t idx, bool v2, ProgBuf& p) {
			set_config_block(p, (int)(idx % ncfg));
			p.fill_noop();
			int cond = CONDS[idx % 3]; uint64_t k = idx / 3; int r = RS[k % 3]; k /= 3; Word w1 = U(r)[k % NU]; k /= NU; Word w2 = (*S)[k];
			if (optype_of(w2.op) == std::string("CBRANCH")) w2 = W(op_of("ISTORE"), (r + 1) & 7, (r + 2) & 7, 0x11, 64);
			if ((w2.dst & 7) == r) w2.dst = (uint8_t)((w2.dst & 0xF8) | ((r + 1) & 7));
			if (optype_of(w2.op) == std::string("ISWAP_R") && (w2.src & 7) == r) w2.src = (uint8_t)((w2.src & 0xF8) | ((r + 2) & 7));
			// search K: after r := sext(K); w1 the bits [b, b+8) of r are all ones  (b = cond + 8)
			const int b = cond + 8; uint32_t K = 0; bool found = false;
			{ randomx::NativeRegisterFile nreg; randomx::BytecodeMachine bm; randomx::InstructionByteCode bc; randomx::ProgramConfiguration cfg{}; alignas(64) uint8_t sp[64] = { 0 };
			  memset(&nreg, 0, sizeof nreg); bm.beginCompilation(nreg); randomx::Instruction ins; ins.opcode = w1.op; ins.dst = w1.dst; ins.src = w1.src; ins.mod = w1.mod; ins.setImm32(w1.imm); bm.compileInstruction(ins, 0, bc);
			  for (uint32_t t = 0; t < 200000 && !found; ++t) { uint32_t c = t * 0x9E3779B1u + (uint32_t)idx * 0x85EBCA6Bu + 0x1234567u; nreg.r[r] = (uint64_t)(int64_t)(int32_t)c; int pc = 0;
				randomx::BytecodeMachine::executeInstruction(bc, pc, sp, cfg, RANDOMX_FLAG_DEFAULT); if (((nreg.r[r] >> b) & 0xFF) == 0xFF) { K = c; found = true; } } }
			int s0 = 0;
			p.set_word(s0++, W(op_of("IMUL_R"), r, r, 0, 0)); p.set_word(s0++, W(op_of("IXOR_R"), r, r, 0, K));
			p.set_word(s0++, w1); p.set_word(s0++, w2);
			p.set_word(s0++, W(op_of("IMULH_R"), (r + 2) & 7, (r + 3) & 7, 0, 0)); p.set_word(s0++, W(op_of("ISMULH_M"), (r + 3) & 7, (r + 5) & 7, 0x01, 0x100)); p.set_word(s0++, W(op_of("ISTORE"), (r + 1) & 7, (r + 2) & 7, 0x11, 64));
			p.set_word(s0++, W(op_of("CBRANCH"), r, 0, cond << 4, 0)); p.set_word(s0++, W(op_of("IADD_RS"), (r + 1) & 7, (r + 3) & 7, 0, 0));
			(void)found;
		} });
	}
	// families that leave the ignored tail of a v1 buffer as no-ops get it filled with a copy of the program's own first words (v2 has no tail)
	for (auto& f : fam) if (f.name == "writer" || f.name == "count" || f.name == "entry") { auto inner = f.make; f.make = [inner](uint64_t idx, bool v2, ProgBuf& p) { inner(idx, v2, p); if (!v2) for (int s = RANDOMX_PROGRAM_SIZE_V1; s < RANDOMX_PROGRAM_MAX_SIZE; ++s) p.set_word(s, p.word(s - RANDOMX_PROGRAM_SIZE_V1)); }; }
	// ---- sanity floor: AES-generated programs, as a real hash would produce (sampling, reported separately)
	{
		Family f{ "aesrand", n_aesrand ? n_aesrand : (thorough ? 2000u : 300u), [=](uint64_t idx, bool v2, ProgBuf& p) {
			alignas(16) uint8_t st[64]; for (int i = 0; i < 64; ++i) st[i] = (uint8_t)(idx * 131 + i * 7 + seed);
			fillAes4Rx4<true>(st, ProgBytes, p.b);
		} };
		f.sampling = true; fam.push_back(f);
	}
	return fam;
}

} // namespace rxh
