// rxh.hpp - harness access to the REAL RandomX objects (compiled with -fno-access-control):
// program injection into real InterpretedVm / CompiledVm objects, instruction alphabets,
// machine-state alphabets.  Everything here goes through /repo's own code; nothing is re-implemented.
#pragma once
#include <cstdint>
#include <cstring>
#include <vector>
#include <string>
#include <functional>
#include <memory>
#include <xmmintrin.h>
#include <sys/mman.h>

#include "randomx.h"
#include "common.hpp"
#include "program.hpp"
#include "dataset.hpp"
#include "virtual_machine.hpp"
#include "vm_interpreted.hpp"
#include "vm_interpreted_light.hpp"
#include "vm_compiled.hpp"
#include "vm_compiled_light.hpp"
#include "bytecode_machine.hpp"
#include "aes_hash.hpp"
#include "blake2/blake2.h"
#include "common/vf.hpp"

namespace rxh {

using Alloc = randomx::AlignedAllocator<randomx::CacheLineSize>;
constexpr size_t ProgBytes = sizeof(randomx::Program);       // 128 + 8*RANDOMX_PROGRAM_MAX_SIZE
constexpr size_t SpSize = randomx::ScratchpadSize;

// ------------------------------------------------------------------ flag sets
struct FlagSet { int flags; const char* name; };
// the 12 supported (non large page) VM configurations
inline const std::vector<FlagSet>& vm_flagsets() {
	static const std::vector<FlagSet> v = {
		{ RANDOMX_FLAG_DEFAULT, "int-soft-light" },
		{ RANDOMX_FLAG_HARD_AES, "int-hard-light" },
		{ RANDOMX_FLAG_JIT, "jit-soft-light" },
		{ RANDOMX_FLAG_JIT | RANDOMX_FLAG_HARD_AES, "jit-hard-light" },
		{ RANDOMX_FLAG_JIT | RANDOMX_FLAG_SECURE, "sec-soft-light" },
		{ RANDOMX_FLAG_JIT | RANDOMX_FLAG_SECURE | RANDOMX_FLAG_HARD_AES, "sec-hard-light" },
		{ RANDOMX_FLAG_FULL_MEM, "int-soft-fast" },
		{ RANDOMX_FLAG_FULL_MEM | RANDOMX_FLAG_HARD_AES, "int-hard-fast" },
		{ RANDOMX_FLAG_FULL_MEM | RANDOMX_FLAG_JIT, "jit-soft-fast" },
		{ RANDOMX_FLAG_FULL_MEM | RANDOMX_FLAG_JIT | RANDOMX_FLAG_HARD_AES, "jit-hard-fast" },
		{ RANDOMX_FLAG_FULL_MEM | RANDOMX_FLAG_JIT | RANDOMX_FLAG_SECURE, "sec-soft-fast" },
		{ RANDOMX_FLAG_FULL_MEM | RANDOMX_FLAG_JIT | RANDOMX_FLAG_SECURE | RANDOMX_FLAG_HARD_AES, "sec-hard-fast" },
	};
	return v;
}

// ------------------------------------------------------------------ MXCSR
inline unsigned get_mxcsr() { return _mm_getcsr(); }
inline void set_mxcsr(unsigned v) { _mm_setcsr(v); }
inline void set_fprc(unsigned mode) { _mm_setcsr(0x9FC0 | (mode << 13)); }
inline unsigned get_fprc() { return (_mm_getcsr() >> 13) & 3; }

// ------------------------------------------------------------------ program injection
// An Engine wraps a real VM object created by randomx_create_vm and knows how to run an injected
// program buffer through the object's own initialize() / code generation / execute().
struct Engine {
	randomx_vm* vm = nullptr;
	int flags = 0;
	std::function<void(const void* prog)> run;       // replicate <Vm>::run() minus generateProgram(seed)
	uint8_t* scratchpad() { return vm->scratchpad; }
	randomx::RegisterFile& reg() { return vm->reg; }
	void set_v2(bool v2) { if (v2) vm->setFlagV2(); else vm->clearFlagV2(); }
	~Engine() { if (vm) randomx_destroy_vm(vm); }
	Engine() {}
	Engine(const Engine&) = delete;
};

template<class VM> inline void run_interpreted(VM* vm, const void* prog) {
	memcpy(&vm->program, prog, ProgBytes);
	vm->randomx_vm::initialize();
	vm->execute();
}
template<class VM, bool secure> inline void run_compiled(VM* vm, const void* prog) {
	memcpy(&vm->program, prog, ProgBytes);
	vm->randomx_vm::initialize();
	if (secure) vm->compiler.enableWriting();
	vm->compiler.generateProgram(vm->program, vm->config);
	if (secure) vm->compiler.enableExecution();
	vm->mem.memory = vm->datasetPtr->memory + vm->datasetOffset;
	vm->execute();
}
template<class VM, bool secure> inline void run_compiled_light(VM* vm, const void* prog) {
	memcpy(&vm->program, prog, ProgBytes);
	vm->randomx_vm::initialize();
	if (secure) vm->compiler.enableWriting();
	vm->compiler.generateProgramLight(vm->program, vm->config, vm->datasetOffset);
	if (secure) vm->compiler.enableExecution();
	vm->execute();
}

// Binds the injection closures for the concrete VM class that randomx_create_vm instantiated (allocator policy A).
template<class A> inline bool bind_engine(Engine& e, randomx_vm* vm, int flags) {
	using namespace randomx;
	bool full = flags & RANDOMX_FLAG_FULL_MEM, hard = flags & RANDOMX_FLAG_HARD_AES, jit = flags & RANDOMX_FLAG_JIT, sec = (flags & RANDOMX_FLAG_SECURE) && jit;
	using IL1 = InterpretedLightVm<A, true>; using IL0 = InterpretedLightVm<A, false>; using IF1 = InterpretedVm<A, true>; using IF0 = InterpretedVm<A, false>;
	using CL10 = CompiledLightVm<A, true, false>; using CL00 = CompiledLightVm<A, false, false>; using CL11 = CompiledLightVm<A, true, true>; using CL01 = CompiledLightVm<A, false, true>;
	using CF10 = CompiledVm<A, true, false>; using CF00 = CompiledVm<A, false, false>; using CF11 = CompiledVm<A, true, true>; using CF01 = CompiledVm<A, false, true>;
#define RXH_I(cond, TYPE) if (cond) { auto* p = static_cast<TYPE*>(vm); e.run = [p](const void* prog) { run_interpreted(p, prog); }; return true; }
#define RXH_C(cond, TYPE, FN, SEC) if (cond) { auto* p = static_cast<TYPE*>(vm); e.run = [p](const void* prog) { FN<TYPE, SEC>(p, prog); }; return true; }
	RXH_I(!jit && !full && !hard, IL1) RXH_I(!jit && !full && hard, IL0) RXH_I(!jit && full && !hard, IF1) RXH_I(!jit && full && hard, IF0)
	RXH_C(jit && !full && !hard && !sec, CL10, run_compiled_light, false) RXH_C(jit && !full && hard && !sec, CL00, run_compiled_light, false)
	RXH_C(jit && !full && !hard && sec, CL11, run_compiled_light, true) RXH_C(jit && !full && hard && sec, CL01, run_compiled_light, true)
	RXH_C(jit && full && !hard && !sec, CF10, run_compiled, false) RXH_C(jit && full && hard && !sec, CF00, run_compiled, false)
	RXH_C(jit && full && !hard && sec, CF11, run_compiled, true) RXH_C(jit && full && hard && sec, CF01, run_compiled, true)
#undef RXH_I
#undef RXH_C
	return false;
}

// flags: any of the 12 flag sets, optionally | RANDOMX_FLAG_V2 | RANDOMX_FLAG_LARGE_PAGES. Returns nullptr if creation failed.
inline std::unique_ptr<Engine> make_engine(int flags, randomx_cache* cache, randomx_dataset* dataset) {
	std::unique_ptr<Engine> e(new Engine());
	e->flags = flags;
	bool full = flags & RANDOMX_FLAG_FULL_MEM;
	e->vm = randomx_create_vm((randomx_flags)flags, full ? nullptr : cache, full ? dataset : nullptr);
	if (!e->vm) return nullptr;
	bool ok = (flags & RANDOMX_FLAG_LARGE_PAGES) ? bind_engine<randomx::LargePageAllocator>(*e, e->vm, flags) : bind_engine<Alloc>(*e, e->vm, flags);
	if (!ok) return nullptr;
	return e;
}

// JIT internals of a compiled engine (translation state; used to localise failures and by C06/C07)
template<class A> inline randomx::JitCompilerX86* jit_of_t(Engine& e) {
	using namespace randomx;
	bool hard = e.flags & RANDOMX_FLAG_HARD_AES, sec = e.flags & RANDOMX_FLAG_SECURE, full = e.flags & RANDOMX_FLAG_FULL_MEM; randomx_vm* vm = e.vm;
	if (full) {
		if (!hard && !sec) return &static_cast<CompiledVm<A, true, false>*>(vm)->compiler;
		if (hard && !sec) return &static_cast<CompiledVm<A, false, false>*>(vm)->compiler;
		if (!hard && sec) return &static_cast<CompiledVm<A, true, true>*>(vm)->compiler;
		return &static_cast<CompiledVm<A, false, true>*>(vm)->compiler;
	}
	if (!hard && !sec) return &static_cast<CompiledLightVm<A, true, false>*>(vm)->compiler;
	if (hard && !sec) return &static_cast<CompiledLightVm<A, false, false>*>(vm)->compiler;
	if (!hard && sec) return &static_cast<CompiledLightVm<A, true, true>*>(vm)->compiler;
	return &static_cast<CompiledLightVm<A, false, true>*>(vm)->compiler;
}
inline randomx::JitCompilerX86* jit_of(Engine& e) {
	if (!(e.flags & RANDOMX_FLAG_JIT)) return nullptr;
	return (e.flags & RANDOMX_FLAG_LARGE_PAGES) ? jit_of_t<randomx::LargePageAllocator>(e) : jit_of_t<Alloc>(e);
}

// decoded bytecode of an interpreter engine (translation state of the interpreter)
inline randomx::InstructionByteCode* bytecode_of(Engine& e) {
	using namespace randomx;
	if (e.flags & RANDOMX_FLAG_JIT) return nullptr;
	bool hard = e.flags & RANDOMX_FLAG_HARD_AES;
	if (e.flags & RANDOMX_FLAG_LARGE_PAGES) return hard ? static_cast<InterpretedVm<LargePageAllocator, false>*>(e.vm)->bytecode : static_cast<InterpretedVm<LargePageAllocator, true>*>(e.vm)->bytecode;
	return hard ? static_cast<InterpretedVm<Alloc, false>*>(e.vm)->bytecode : static_cast<InterpretedVm<Alloc, true>*>(e.vm)->bytecode;
}

// Decodes the x86 code the JIT emitted for a CBRANCH in slot s: add r64,imm (imm32 or sign-extended imm8 form), test r64,imm32,
// jz (rel32 or rel8 form).  Returns false if the bytes are not one of these forms (then the caller skips the comparison and
// counts it - an unknown but possibly correct encoding must not raise an alarm).
struct X86Branch { int64_t add_imm; uint32_t test_mask; int32_t target_off; int reg; };
inline bool decode_x86_cbranch(randomx::JitCompilerX86* jc, int s, int32_t end_off, X86Branch& out) {
	const uint8_t* code = jc->getCode(); int32_t off = jc->instructionOffsets[s]; const uint8_t* c = code + off; int32_t len = end_off - off; int k = 0;
	if (len < 12) return false;
	if (c[0] == 0x49 && c[1] == 0x81 && (c[2] & 0xF8) == 0xC0) { int32_t v; memcpy(&v, c + 3, 4); out.add_imm = v; out.reg = c[2] & 7; k = 7; }
	else if (c[0] == 0x49 && c[1] == 0x83 && (c[2] & 0xF8) == 0xC0) { out.add_imm = (int8_t)c[3]; out.reg = c[2] & 7; k = 4; }
	else return false;
	if (!(c[k] == 0x49 && c[k + 1] == 0xF7 && c[k + 2] == (0xC0 | out.reg))) return false;
	memcpy(&out.test_mask, c + k + 3, 4); k += 7;
	if (c[k] == 0x0F && c[k + 1] == 0x84 && k + 6 == len) { int32_t rel; memcpy(&rel, c + k + 2, 4); out.target_off = end_off + rel; return true; }
	if (c[k] == 0x74 && k + 2 == len) { out.target_off = end_off + (int8_t)c[k + 1]; return true; }
	return false;
}

// ------------------------------------------------------------------ instruction words and program buffers
struct Word {
	uint8_t op, dst, src, mod; uint32_t imm;
	uint64_t bits() const { return (uint64_t)op | ((uint64_t)dst << 8) | ((uint64_t)src << 16) | ((uint64_t)mod << 24) | ((uint64_t)imm << 32); }
};
inline Word W(int op, int dst, int src, int mod, uint32_t imm) { return Word{ (uint8_t)op, (uint8_t)dst, (uint8_t)src, (uint8_t)mod, imm }; }

// first opcode of every instruction type, in table order (taken from the tree's own ceil_ constants so a
// changed frequency table moves the alphabets with it; the spec-side table is the model's business)
struct OpRange { const char* name; int lo, hi; };
inline std::vector<OpRange> op_ranges() {
	using namespace randomx;
	std::vector<OpRange> v;
	int prev = 0;
#define RXH_R(x) v.push_back({ #x, prev, ceil_##x }); prev = ceil_##x;
	RXH_R(IADD_RS) RXH_R(IADD_M) RXH_R(ISUB_R) RXH_R(ISUB_M) RXH_R(IMUL_R) RXH_R(IMUL_M) RXH_R(IMULH_R) RXH_R(IMULH_M)
	RXH_R(ISMULH_R) RXH_R(ISMULH_M) RXH_R(IMUL_RCP) RXH_R(INEG_R) RXH_R(IXOR_R) RXH_R(IXOR_M) RXH_R(IROR_R) RXH_R(IROL_R)
	RXH_R(ISWAP_R) RXH_R(FSWAP_R) RXH_R(FADD_R) RXH_R(FADD_M) RXH_R(FSUB_R) RXH_R(FSUB_M) RXH_R(FSCAL_R) RXH_R(FMUL_R)
	RXH_R(FDIV_M) RXH_R(FSQRT_R) RXH_R(CBRANCH) RXH_R(CFROUND) RXH_R(ISTORE) RXH_R(NOP)
#undef RXH_R
	return v;
}
inline std::string optype_of(int opcode) { static const std::vector<OpRange> R = op_ranges(); for (auto& r : R) if (opcode >= r.lo && opcode < r.hi) return r.name; return "NOP"; }
inline int op_of(const char* name) { for (auto& r : op_ranges()) if (!strcmp(r.name, name)) return r.lo; fprintf(stderr, "rxh: no opcode for %s\n", name); exit(2); }

// imm32 boundary sets (DESIGN.md appendix A). quick=B0, thorough=B.
inline std::vector<uint32_t> imm_set(bool thorough) {
	std::vector<uint32_t> v;
	auto add = [&](uint64_t x) { uint32_t y = (uint32_t)x; if (std::find(v.begin(), v.end(), y) == v.end()) v.push_back(y); };
	// B0: one or two values per case split
	for (uint32_t x : { 0u, 1u, 2u, 3u, 13u, 14u, 31u, 32u, 63u, 64u, 65u, 77u, 0x7FFFFFFFu, 0x80000000u, 0x80000001u, 0xFFFFFFFFu, 0xFFFFFFFEu,
		0x100u, 0x8000u, 0x10000u, 0x7FFu, 0x800u, 0xFFFu, 0x1000u, 0xFFFFu, 0xFFF000u, 0xFFFFFFu, 0x1000000u, 0xFF000001u,
		0xFFFFF7FFu, 0xFFFFF800u, 0x00FFFF00u, 0xFF0000FFu, 16376u, 16384u, 2097144u, 2097152u, 0x12345678u, 0xDEADBEEFu, 3234567890u, 0x55555555u,
		// two's-complement boundaries of 8- and 16-bit immediate/displacement forms: no translator uses such forms today, but
		// a size optimisation would introduce exactly these case splits (x86 disp8/imm8, A64 imm12, RV64 compressed immediates)
		0x7Fu, 0x80u, 0x81u, 0xFFu, 0xFFFFFF80u, 0xFFFFFF7Fu, 0x7FFFu, 0xFFFF8000u }) add(x);
	if (!thorough) return v;
	for (int k = 1; k <= 32; ++k) { uint64_t p = 1ull << k; add(p - 1); add(p); add(p + 1); add((1ull << 32) - p); add((1ull << 32) - p - 1); add((1ull << 32) - p + 1); }
	for (uint32_t x : { 4u, 5u, 6u, 7u, 8u, 9u, 12u, 33u, 62u, 16392u, 262136u, 262144u, 262152u, 2097160u, 0x1001u, 0x1F7FFu, 0x1F800u, 0x1FFFFu, 0x20000u,
		0x7FFFF7FFu, 0x7FFFF800u, 0xFFFE0000u, 0xFFFDFFFFu }) add(x);
	for (int b = 7; b <= 24; ++b) { add(1u << b); add(~(1u << b)); add(0xFFu << (b > 24 ? 24 : b)); }
	for (uint32_t x : { 0xAAAAAAAAu, 0x0F0F0F0Fu, 0xF0F0F0F0u, 0x01010101u, 0x80808080u, 0xCAFEBABEu, 0x00C0FFEEu, 0x31415926u }) add(x);
	return v;
}

struct ProgBuf {
	alignas(64) uint8_t b[ProgBytes];
	ProgBuf() { memset(b, 0, sizeof b); }
	void set_word(int slot, const Word& w) { uint8_t* p = b + 128 + 8 * slot; p[0] = w.op; p[1] = w.dst; p[2] = w.src; p[3] = w.mod; memcpy(p + 4, &w.imm, 4); }
	Word word(int slot) const { const uint8_t* p = b + 128 + 8 * slot; Word w{ p[0], p[1], p[2], p[3], 0 }; memcpy(&w.imm, p + 4, 4); return w; }
	void set_entropy(int i, uint64_t v) { memcpy(b + 8 * i, &v, 8); }
	uint64_t entropy(int i) const { uint64_t v; memcpy(&v, b + 8 * i, 8); return v; }
	void fill_noop() { for (int s = 0; s < RANDOMX_PROGRAM_MAX_SIZE; ++s) set_word(s, noop()); }
	static Word noop() { return W(op_of("IMUL_RCP"), 0, 0, 0, 0); }   // emits no code, does not touch the last-writer table
};

// Configuration blocks (16 entropy quadwords). id selects a member of a small alphabet.
inline int n_config_blocks(bool thorough) { return thorough ? 12 : 6; }
inline void set_config_block(ProgBuf& p, int id) {
	static const uint64_t G1 = 0x243F6A8885A308D3ull, G2 = 0x13198A2E03707344ull, G3 = 0xA4093822299F31D0ull, G4 = 0x082EFA98EC4E6C89ull;
	// A registers: entropy 0..7 ; ma: 8 ; mx: 10 ; address registers: 12 ; dataset offset: 13 ; eMask: 14,15
	uint64_t a[8], ma, mx, ar, off, e0, e1;
	for (int i = 0; i < 8; ++i) a[i] = G1 * (i + 1) ^ G2;
	ma = G3; mx = G4; ar = id & 15; off = G2 ^ id; e0 = G1 ^ G4; e1 = G3 ^ G2;
	// id 0..2: generic / all-zero / all-ones (max offset); 3..6: dataset-offset boundaries; 7..11: the remaining special blocks
	if (id >= 7) id -= 4; else if (id >= 3) id += 5;   // -> internal numbering: 0..7 special blocks, 8..11 offset boundaries
	if (id >= 8) {   // dataset-offset boundaries (in items): 8/16-bit immediate edges for translators that add the offset as an immediate
		static const uint64_t offs[4] = { 128, 255, 127, 32768 }; off = offs[(id - 8) & 3]; ar = (uint64_t)(id & 15);
		for (int i = 0; i < 8; ++i) p.set_entropy(i, a[i]);
		p.set_entropy(8, ma); p.set_entropy(9, G1); p.set_entropy(10, mx); p.set_entropy(11, G2);
		p.set_entropy(12, ar); p.set_entropy(13, off); p.set_entropy(14, e0); p.set_entropy(15, e1);
		return;
	}
	switch (id & 7) {
	case 0: break;
	case 1: for (int i = 0; i < 8; ++i) a[i] = 0; ma = 0; mx = 0; ar = 5; off = 0; e0 = 0; e1 = 0; break;                    // exponent 0, fraction 0, offset 0
	case 2: for (int i = 0; i < 8; ++i) a[i] = ~0ull; ma = ~0ull; mx = ~0ull; ar = 10; off = randomx::DatasetExtraItems; e0 = ~0ull; e1 = ~0ull; break; // exponent 31, max offset
	case 3: ar = 15; off = 1; e0 = 0; e1 = ~0ull; ma = 0xFFFFFFC0; mx = 0x3F; break;
	case 4: ar = 0; off = randomx::DatasetExtraItems; for (int i = 0; i < 8; ++i) a[i] = (uint64_t)31 << 59; break;
	case 5: ar = 3; off = randomx::DatasetExtraItems + 1; ma = 0x80000000; mx = 0x7FFFFFFF; break;
	case 6: ar = 12; off = 7; for (int i = 0; i < 8; ++i) a[i] = (i & 1) ? ~0ull : 0; break;
	case 7: ar = 9; off = G4; e0 = 0x3FFFFF; e1 = 0xF000000000000000ull; break;
	}
	for (int i = 0; i < 8; ++i) p.set_entropy(i, a[i]);
	p.set_entropy(8, ma); p.set_entropy(9, G1); p.set_entropy(10, mx); p.set_entropy(11, G2);
	p.set_entropy(12, ar); p.set_entropy(13, off); p.set_entropy(14, e0); p.set_entropy(15, e1);
}

// Scratchpad images. id 0..: AES-filled (as a real hash does) from seed id; then boundary images.
inline int n_sp_images(bool thorough) { return thorough ? 6 : 3; }
inline void fill_scratchpad(uint8_t* sp, int id) {
	alignas(16) uint8_t seed[64];
	switch (id) {
	case 0: case 3: case 4: {
		for (int i = 0; i < 64; ++i) seed[i] = (uint8_t)(i * 37 + id * 101 + 11);
		fillAes1Rx4<true>(seed, SpSize, sp); break; }
	case 1: { // register-forcing / INT_MIN image: 64-byte lines of boundary quadwords
		static const uint64_t q[16] = { 0, 1, ~0ull, 1ull << 63, (1ull << 63) - 1, 0xFFFFFFFFull, 0x80000000ull, 0x8000000080000000ull,
			0x7FFFFFFF7FFFFFFFull, 2097144, (1ull << 21) - 8, 0x00000000FFFFFFFFull, 0xFFFFFFFF00000000ull, 0x0000000100000000ull, 2, 0x8000000000000001ull };
		for (size_t i = 0; i < SpSize / 8; ++i) { uint64_t v = q[(i * 7 + i / 8) & 15]; memcpy(sp + 8 * i, &v, 8); }
		break; }
	case 2: memset(sp, 0xFF, SpSize); break;
	case 5: memset(sp, 0, SpSize); break;
	}
}

// Dataset image for full-memory engines: content = cheap mixing function of the quadword index, so that
// a wrong line, a wrong offset inside the line or a wrong high address bit all change the value read.
inline void fill_dataset_image(uint8_t* mem, uint64_t bytes, uint64_t salt) {
	uint64_t* q = (uint64_t*)mem;
	for (uint64_t i = 0; i < bytes / 8; ++i) { uint64_t z = (i + salt) * 0x9E3779B97F4A7C15ull; z ^= z >> 29; z *= 0xBF58476D1CE4E5B9ull; q[i] = z ^ (z >> 32); }
}
inline uint8_t* map_bytes(size_t n) {
	void* p = mmap(nullptr, n, PROT_READ | PROT_WRITE, MAP_PRIVATE | MAP_ANONYMOUS | MAP_NORESERVE, -1, 0);
	if (p == MAP_FAILED) { perror("mmap"); exit(2); }
	return (uint8_t*)p;
}

inline vf::Json word_json(const Word& w) {
	char b[96]; snprintf(b, sizeof b, "op=%u dst=%u src=%u mod=0x%02x imm=0x%08x", w.op, w.dst, w.src, w.mod, w.imm);
	return vf::Json(std::string(b));
}

} // namespace rxh

// ------------------------------------------------------------------ sequence alphabet Sigma (DESIGN.md appendix A)
namespace rxh {
inline std::vector<Word> sigma_alphabet() {
	std::vector<Word> s;
	auto op = [](const char* n) { return op_of(n); };
	auto M = [](int mem, int shift, int cond) { return (cond << 4) | (shift << 2) | mem; };
	s.push_back(W(op("IADD_RS"), 0, 1, M(0, 0, 0), 0)); s.push_back(W(op("IADD_RS"), 5, 5, M(0, 3, 0), 0x80000001)); s.push_back(W(op("IADD_RS"), 3, 3, M(0, 2, 0), 7)); s.push_back(W(op("IADD_RS"), 5, 4, M(0, 1, 0), 0x7FFFFFFF));
	s.push_back(W(op("IADD_M"), 0, 1, M(0, 0, 0), 0x12345678)); s.push_back(W(op("IADD_M"), 2, 3, M(1, 0, 0), 0xFFFFFFF8)); s.push_back(W(op("IADD_M"), 4, 4, M(0, 0, 0), 0xFFFFFFFF)); s.push_back(W(op("IADD_M"), 6, 4, M(2, 0, 0), 8));
	s.push_back(W(op("ISUB_R"), 1, 2, 0, 0)); s.push_back(W(op("ISUB_R"), 3, 3, 0, 0x80000000)); s.push_back(W(op("ISUB_R"), 4, 4, 0, 1));
	s.push_back(W(op("ISUB_M"), 6, 7, M(1, 0, 0), 16376)); s.push_back(W(op("ISUB_M"), 5, 5, 0, 2097144)); s.push_back(W(op("ISUB_M"), 7, 5, M(0, 0, 0), 0x80000000));
	s.push_back(W(op("IMUL_R"), 2, 0, 0, 0)); s.push_back(W(op("IMUL_R"), 6, 6, 0, 0xFFFFFFFF)); s.push_back(W(op("IMUL_R"), 4, 4, 0, 0x80000000));
	s.push_back(W(op("IMUL_M"), 7, 4, M(0, 0, 0), 0xDEADBEEF)); s.push_back(W(op("IMUL_M"), 1, 1, 0, 0x55555555)); s.push_back(W(op("IMUL_M"), 4, 5, M(3, 0, 0), 0));
	s.push_back(W(op("IMULH_R"), 0, 3, 0, 0)); s.push_back(W(op("IMULH_R"), 4, 4, 0, 0));
	s.push_back(W(op("IMULH_M"), 3, 5, M(1, 0, 0), 0xFFFFFFFF)); s.push_back(W(op("IMULH_M"), 2, 2, 0, 0xFFFFFFFF)); s.push_back(W(op("IMULH_M"), 5, 4, M(0, 0, 0), 64));
	s.push_back(W(op("ISMULH_R"), 5, 6, 0, 0)); s.push_back(W(op("ISMULH_R"), 7, 7, 0, 0));
	s.push_back(W(op("ISMULH_M"), 6, 4, M(0, 0, 0), 0x7FFFFFFF)); s.push_back(W(op("ISMULH_M"), 0, 0, 0, 0x80000000)); s.push_back(W(op("ISMULH_M"), 4, 0, M(1, 0, 0), 0));
	s.push_back(W(op("IMUL_RCP"), 1, 0, 0, 3)); s.push_back(W(op("IMUL_RCP"), 4, 0, 0, 0x80000000)); s.push_back(W(op("IMUL_RCP"), 4, 0, 0, 0xFFFFFFFF)); s.push_back(W(op("IMUL_RCP"), 5, 0, 0, 1)); s.push_back(W(op("IMUL_RCP"), 0, 0, 0, 0x80000001));
	s.push_back(W(op("INEG_R"), 2, 0, 0, 0)); s.push_back(W(op("INEG_R"), 5, 0, 0, 0));
	s.push_back(W(op("IXOR_R"), 3, 4, 0, 0)); s.push_back(W(op("IXOR_R"), 5, 5, 0, 0x7FFFFFFF)); s.push_back(W(op("IXOR_R"), 0, 0, 0, 0x80000000));
	s.push_back(W(op("IXOR_M"), 4, 5, M(1, 0, 0), 0x1000)); s.push_back(W(op("IXOR_M"), 6, 6, 0, 0x1FFFF8)); s.push_back(W(op("IXOR_M"), 5, 4, M(0, 0, 0), 0xFFFFF800));
	s.push_back(W(op("IROR_R"), 0, 7, 0, 0)); s.push_back(W(op("IROR_R"), 1, 1, 0, 0)); s.push_back(W(op("IROR_R"), 2, 2, 0, 77)); s.push_back(W(op("IROR_R"), 4, 4, 0, 63));
	s.push_back(W(op("IROL_R"), 7, 0, 0, 0)); s.push_back(W(op("IROL_R"), 3, 3, 0, 64)); s.push_back(W(op("IROL_R"), 3, 3, 0, 1)); s.push_back(W(op("IROL_R"), 5, 4, 0, 0));
	s.push_back(W(op("ISWAP_R"), 0, 1, 0, 0)); s.push_back(W(op("ISWAP_R"), 2, 2, 0, 0)); s.push_back(W(op("ISWAP_R"), 4, 5, 0, 0));
	s.push_back(W(op("FSWAP_R"), 1, 0, 0, 0)); s.push_back(W(op("FSWAP_R"), 6, 0, 0, 0));
	s.push_back(W(op("FADD_R"), 0, 1, 0, 0)); s.push_back(W(op("FADD_R"), 7, 6, 0, 0));
	s.push_back(W(op("FADD_M"), 1, 4, M(1, 0, 0), 0x7FFFFFF8)); s.push_back(W(op("FADD_M"), 2, 5, M(0, 0, 0), 0x80000000));
	s.push_back(W(op("FSUB_R"), 2, 3, 0, 0));
	s.push_back(W(op("FSUB_M"), 3, 0, M(0, 0, 0), 0xFFFFFFFF)); s.push_back(W(op("FSUB_M"), 0, 4, M(3, 0, 0), 4));
	s.push_back(W(op("FSCAL_R"), 0, 0, 0, 0)); s.push_back(W(op("FSCAL_R"), 3, 0, 0, 0));
	s.push_back(W(op("FMUL_R"), 1, 2, 0, 0)); s.push_back(W(op("FMUL_R"), 4, 7, 0, 0));
	s.push_back(W(op("FDIV_M"), 2, 4, M(1, 0, 0), 0xFFFFFFF0)); s.push_back(W(op("FDIV_M"), 3, 7, M(0, 0, 0), 0x3FFF8)); s.push_back(W(op("FDIV_M"), 0, 5, M(2, 0, 0), 0));
	s.push_back(W(op("FSQRT_R"), 3, 0, 0, 0)); s.push_back(W(op("FSQRT_R"), 0, 0, 0, 0));
	s.push_back(W(op("CBRANCH"), 0, 0, M(0, 0, 0), 0)); s.push_back(W(op("CBRANCH"), 1, 0, M(0, 0, 15), 0xFFFFFFFF)); s.push_back(W(op("CBRANCH"), 0, 0, M(0, 0, 7), 0x00FFFF00)); s.push_back(W(op("CBRANCH"), 4, 0, M(0, 0, 3), 0x80000000));
	s.push_back(W(op("CFROUND"), 0, 0, 0, 0)); s.push_back(W(op("CFROUND"), 0, 1, 0, 13)); s.push_back(W(op("CFROUND"), 0, 2, 0, 0x12345678)); s.push_back(W(op("CFROUND"), 0, 4, 0, 2));
	s.push_back(W(op("ISTORE"), 0, 1, M(1, 0, 13), 0xFFFFFFF8)); s.push_back(W(op("ISTORE"), 4, 2, M(0, 0, 14), 0x1FFFF8)); s.push_back(W(op("ISTORE"), 5, 5, M(0, 0, 0), 0)); s.push_back(W(op("ISTORE"), 3, 4, M(3, 0, 15), 0x80000000));
	return s;
}
} // namespace rxh
