/* sched.c - cooperative, replayable thread scheduler for schedule exploration.
 * Compiled WITHOUT -fsanitize=thread and built only on raw futex syscalls and plain memory accesses, so that
 * ThreadSanitizer sees NO happens-before edge from the hand-offs: operations this scheduler serialises remain
 * concurrent for TSan's vector clocks, and any conflicting unsynchronised access pair between them is reported
 * whichever order they happened to run in.
 * One runnable thread at a time.  A schedule is the list of thread ids chosen at scheduling points.  Replays a
 * given prefix (an impossible choice is a hard error), then follows the default policy: keep running the current
 * thread while it is enabled, otherwise the lowest enabled id.  Every point is recorded for the explorer. */
#define _GNU_SOURCE
#include <stdint.h>
#include <stdlib.h>
#include <stdio.h>
#include <string.h>
#include <unistd.h>
#include <sys/syscall.h>
#include <linux/futex.h>
#include <time.h>
#include "sched.h"

static volatile int g_turn = -1;              /* thread id allowed to run, -1: scheduler decides */
static volatile int g_futex[SCH_MAXT];        /* per-thread wake word */
static volatile int g_state[SCH_MAXT];        /* 0 = not started, 1 = waiting at a point, 2 = running, 3 = finished */
static int g_n = 0;
static int g_prefix[SCH_MAXP]; static int g_prefix_len = 0;
static struct sch_pt g_trace[SCH_MAXP]; static int g_trace_len = 0;
static volatile int g_lock = 0;               /* protects the decision (only one thread is ever running, but starts race) */
static int g_kind = 1; static unsigned g_site = 0;                        /* kind of the point being decided */
static int g_active = 0; static int g_diverged = 0; static int g_current = -1; static volatile int g_started = 0;

static void fwait(volatile int* addr, int val) { syscall(SYS_futex, addr, FUTEX_WAIT, val, NULL, NULL, 0); }
static void fwake(volatile int* addr) { syscall(SYS_futex, addr, FUTEX_WAKE, 1, NULL, NULL, 0); }
static void lock(void) { while (__sync_lock_test_and_set(&g_lock, 1)) syscall(SYS_sched_yield); }
static void unlock(void) { __sync_lock_release(&g_lock); }

void sch_init(int nthreads, const int* prefix, int prefix_len) {
	g_n = nthreads; g_prefix_len = prefix_len < SCH_MAXP ? prefix_len : SCH_MAXP; if (prefix_len > 0) memcpy(g_prefix, prefix, sizeof(int) * (size_t)g_prefix_len);
	g_trace_len = 0; g_turn = -1; g_active = 1; g_diverged = 0; g_current = -1; g_started = 0;
	for (int i = 0; i < SCH_MAXT; ++i) { g_futex[i] = 0; g_state[i] = 0; }
}
int sch_active(void) { return g_active; }
int sch_diverged(void) { return g_diverged; }
int sch_trace(const struct sch_pt** out) { *out = g_trace; return g_trace_len; }

/* choose the next thread among those waiting; called with the lock held by the thread that just stopped */
static void decide(int from) {
	unsigned enabled = 0; int cnt = 0;
	for (int i = 0; i < g_n; ++i) if (g_state[i] == 1) { enabled |= 1u << i; ++cnt; }
	if (!cnt) { g_turn = -1; return; }
	int choice;
	if (g_trace_len < g_prefix_len) {
		choice = g_prefix[g_trace_len];
		if (choice < 0 || choice >= g_n || !(enabled & (1u << choice))) { g_diverged = 1; choice = -1; }
	} else choice = -1;
	if (choice < 0) { if (from >= 0 && (enabled & (1u << from))) choice = from; else for (int i = 0; i < g_n; ++i) if (enabled & (1u << i)) { choice = i; break; } }
	if (g_trace_len < SCH_MAXP) { g_trace[g_trace_len].enabled = enabled; g_trace[g_trace_len].chosen = choice; g_trace[g_trace_len].running = (from >= 0 && (enabled & (1u << from))) ? from : -1; g_trace[g_trace_len].kind = from >= 0 ? g_kind : 1; g_trace[g_trace_len].site = from >= 0 ? g_site : 0; ++g_trace_len; }
	g_current = choice; g_turn = choice; g_state[choice] = 2;
	g_futex[choice] = 1; fwake(&g_futex[choice]);
}

static void park(int tid) {
	while (g_turn != tid) { fwait(&g_futex[tid], 0); }
	g_futex[tid] = 0;
}

void sch_thread_begin(int tid) {
	if (!g_active) return;
	lock(); g_state[tid] = 1; int all = ++g_started == g_n; if (all) decide(-1); unlock();   /* the first decision waits until every thread has arrived: deterministic start */
	park(tid);
}
void sch_point_ks(int tid, int kind, unsigned site) {
	if (!g_active || tid < 0) return;
	lock(); g_state[tid] = 1; g_turn = -1; g_kind = kind; g_site = site; decide(tid); unlock();
	park(tid);
}
void sch_point_k(int tid, int kind) { sch_point_ks(tid, kind, 0); }
void sch_point(int tid) { sch_point_k(tid, 0); }
void sch_thread_end(int tid) {
	if (!g_active) return;
	lock(); g_state[tid] = 3; g_turn = -1; decide(-1); unlock();
}
void sch_disable(void) { g_active = 0; }
