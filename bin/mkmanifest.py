#!/usr/bin/env python3
"""Regenerates /verif/MANIFEST.json from the table below (single source of truth for what is claimed)."""
import json, os, subprocess
VERIF = os.path.dirname(os.path.dirname(os.path.abspath(__file__)))

def hook_commits():
    try:
        out = subprocess.run(["git", "-C", "/repo", "log", "--format=%h %s"], stdout=subprocess.PIPE, text=True).stdout
        return [l.split()[0] for l in out.splitlines() if l.split(" ", 1)[1].startswith("verif hook")]
    except Exception:
        return []

CHECKS = {
 "C01": dict(cat="exploration", tech="bounded exhaustive enumeration of the configuration lattice on the real code (72 configurations x key/input alphabets), equality + reference model",
   text="Every (key,input,version) of the alphabets is hashed by every configuration of the complete lattice (6 cache configurations x 12 VM flag sets, both dataset initialisers) on the reduced-geometry build and by 42 configurations at production size; all digests must agree with each other and with the independent specification model. Exhaustive over configurations, bounded over inputs.",
   note="Same sources with smaller memory constants for the large product (profile 'mini'); the LARGE_PAGES variants of all 72 configurations run with the harness answering MAP_HUGETLB requests (no huge pages in the sandbox); inputs are a finite alphabet.", ref="3/C01"),
 "C02": dict(cat="exploration", tech="bounded exhaustive enumeration against an independent executable specification model, with intermediates",
   text="Digest of the public call == independent reading of doc/specs.md for every (key,input,version) of the alphabets, plus all cache bytes, the 8 SuperscalarHash programs, dataset items, generated program bytes and the register file after each program; repeated on clang, ASan/UBSan and portable builds in separate processes (determinism across builds).",
   note="The model is validated against RFC 7693, FIPS-197, RFC 9106 and the published RandomX vectors at setup; host IEEE-754 arithmetic is trusted.", ref="3/C02"),
 "C04": dict(cat="translation_validation", tech="exhaustive enumeration of bounded program families through both engines (program injection into real VM objects)",
   text="Every program of the enumerated families (all 256 opcodes x 64 register pairs x all mod bytes x imm32 boundary set in two packings, all Sigma^k sequences at three positions, saturated, last-writer, branch-distance, counter-threshold programs) is run through a real InterpretedVm and a real x86 CompiledVm; register file, complete scratchpad and rounding mode must be bit-identical, and the x86 branch target of every CBRANCH must equal the interpreter's target (translation state, independent of whether the branch was taken), for v1/v2 x soft/hard AES x fast/light.",
   note="Programs are compositions of enumerated words; dataset content is one pseudo-random image; the 6-line run() glue is replicated in the harness (the real run() is covered by C01/C02).", ref="3/C04"),
 "C05": dict(cat="exploration", tech="exhaustive single-step enumeration (word x machine-state alphabet) on the interpreter against the specification model's step function",
   text="All 256 opcodes map to the specified instruction type; every word of W1 and of the sequence families is decoded in context by the interpreter and by the model (types, branch targets, constants) and executed alone from a 384-element machine-state alphabet incl. forced taken/not-taken branches; registers, touched scratchpad, rounding mode, next pc compared; FP-domain invariants (no NaN/subnormal, A in [1,2^32), E>0) monitored on every step and on whole programs.",
   note="FP operand values are boundary and generated values, not all 2^128 pairs; host IEEE arithmetic trusted.", ref="3/C05"),
 "C08": dict(cat="model_checking", tech="explicit-state search over init_dataset call histories on the real code with canary/guard-page oracle; whole-dataset enumeration of item indices",
   text="States are dataset-image contents after a history of randomx_init_dataset(start,count) calls, explored on the implementation: every (start,count) in 24-item windows at the beginning/middle/end x count 0..12, all 2048 compositions of a 12-item range and all call orders of compositions with <=4 parts, both initialisers; after every call covered items equal the light-mode item and everything else is still canary. All items of the dataset (mini; production in thorough) are compared between the compiled and interpreted initialiser, and an index set against the specification model.",
   note="Thread assignment of calls is decided by C14's schedule explorer (shared harness); one key.", ref="3/C08"),
 "C09": dict(cat="exploration", tech="bounded exhaustive enumeration over a key set against a second implementation of the generator; interpreter vs native execution on a register-vector alphabet",
   text="For every key of the key set (all keys of length <=1, 4096/65536 two-byte keys, long shapes) the 8 programs terminate, satisfy Table 6.1.1, equal the model generator field by field incl. the address register, and executeSuperscalar == generated x86 code == model executor on ~100-300 register vectors; rare generator paths reached are reported.",
   note="Chapter 6 under-specifies RNG consumption order, so the model generator detects changes but cannot certify against prose; keys reach the generator only through Blake2b.", ref="3/C09"),
 "C10": dict(cat="exploration", tech="bounded exhaustive enumeration of reduced Argon2 instances through the real fill entry points against an RFC 9106 model",
   text="Reduced instances (m x t x key length lattice) through randomx_argon2_initialize/fill_memory_blocks with each of ref/SSSE3/AVX2: every byte == model Argon2d; production-size cache: all 256 MiB per key x 3 implementations; re-initialisation over ordered key pairs leaves exactly the new key's bytes.",
   note="lanes > 1 not driven (outside RandomX configuration).", ref="3/C10"),
 "C11": dict(cat="model_checking", tech="explicit-state exploration of the streaming hash state machine on the implementation (states = bytes consumed; every update/final transition), against an RFC 7693 model",
   text="Because blake2b_state is a POD, states are copied: from every state n every update of every chunk length must reach the canonical state of n+k and final() must give the model digest of the prefix; this covers all chunkings of every prefix up to Lmax for 8 (outlen,keylen) combinations; plus one-shot calls over all lengths x outlen 1..64 x key lengths, parameter rejection with guarded buffers, injected 128-bit counters, commitment for all input lengths 0..300.",
   note="> 4 GiB real message only in the thorough tier.", ref="3/C11"),
 "C12": dict(cat="exploration", tech="bounded exhaustive enumeration of round inputs (all states with <=2 non-zero bytes) and composite function parameters; soft == hard == FIPS-197 model",
   text="7.9M single-round cases: soft tables == AES-NI == template dispatch == round built from the GF(2^8) definition; all T-table entries; fillAes1Rx4/4Rx4, hashAes1Rx4, hashAndFillAes1Rx4 in both instantiations == model over seeds x sizes x buffer images x buffer placements (128-byte aligned / 64 mod 128), combined step == fingerprint + refill + state.",
   note="Byte-deviation bound on states; the JIT's in-loop AES is covered by C04.", ref="3/C12"),
 "C13": dict(cat="exploration", tech="exhaustive enumeration of entry MXCSR states (thorough: all 2^16) x configurations x versions",
   text="For every entry MXCSR state, VM configuration, version and pre-selected input: digest == default-state digest and MXCSR on return == entry (all bits); pipelined interface with independent entry states before first/next/last; portable build with complete fegetenv images.",
   note="x86-64 SSE only; inputs chosen by a pre-pass so that default and non-default final rounding modes both occur.", ref="3/C13"),
 "C18": dict(cat="exploration", tech="exhaustive enumeration of the complete domain (all 2^32 divisors) against 128-bit division; no-op rule on decode/emit/execute",
   text="Every 32-bit divisor that is not zero or a power of two: randomx_reciprocal == randomx_reciprocal_fast == floor(2^(63+bitlen)/d) >= 2^63; the 33 no-op divisors on all 8 destination registers and all IMUL_RCP opcodes leave the interpreter's and the x86 emitter's last-writer table and all registers untouched, with 62 neighbours as negative control.",
   note="unsigned __int128 division of the host compiler is the reference.", ref="3/C18"),
 "C03": dict(cat="model_checking", tech="explicit-state search over API histories executed on the real objects (fork-cloned states, canonical concrete digest, depth-aware visited table), environment answers of a harness allocator enumerated",
   text="For each explored VM flag set and each allocator answer (address reuse policy x fill pattern of fresh memory) all histories of documented-contract operations up to the depth bound, from two root states (one cache; two live caches with different keys), are executed on the real objects with iterative deepening; every digest returned anywhere must equal the digest of a fresh cache + fresh VM; crashes are violations; a second search without state merging must agree; the same search runs under ASan.",
   note="Two caches, one VM per flag set at a time, 2-4 keys and 2-3 inputs; histories longer than the depth bound are covered only through state merging; contract guards per DESIGN.md appendix B.", ref="3/C03"),
 "C06": dict(cat="exploration", tech="bounded exhaustive enumeration of adversarial programs in an environment where every out-of-bounds access faults (electric-fence allocator, guard pages), with code-buffer integrity oracle",
   text="Adversarial program families on x86 JIT and interpreter (fast/light, v1/v2, soft/hard AES) with every library buffer ending at a PROT_NONE page and code buffers bracketed by PROT_NONE pages; after every code generation the emitted program ends inside the program area and all earlier emitted code is byte-identical; worst-case code size per instruction word obtained by enumeration and a 384-slot program of it generated for every configuration; inputs of every length 0..300 ending at / starting after a guard page, output ending at one.",
   note="4 KiB guard granularity on the low side of aligned buffers; wrong line inside the right buffer is C04's business.", ref="3/C06"),
 "C07": dict(cat="model_checking", tech="exhaustive exploration of an abstract carry model of the branch arithmetic, every abstract state concretised and replayed on the real decoder/executor (conformance), plus structural enumeration of all short programs",
   text="All 8.4M abstract states of three consecutive branch steps satisfy 'not taken three times in a row'; the real decoder (thorough: all 2^32 immediates x 16 shifts) and the x86 emitter satisfy the model's premises; concretised traces replayed on exe_CBRANCH; registers a word can modify are recorded as written; all programs up to length 5 over a structural alphabet satisfy the branch-body invariant on real decoded targets and an exhaustive adversary executes <= 3*|P| instructions.",
   note="The 3*|P| bound at length 384 is inferred from the invariant on all short programs plus per-slot facts; not enumerated at length 384.", ref="3/C07"),
 "C14": dict(cat="model_checking", tech="preemption-bounded exhaustive schedule exploration of real threads under a cooperative futex scheduler that is invisible to ThreadSanitizer; happens-before race detection on every explored execution",
   text="For each scenario (pairs of create/hash/destroy over a shared cache or dataset for the 12 flag sets, init_dataset on disjoint blocks with both initialisers, own-object lifecycles) every schedule with at most 2 (thorough 3) preemptions at API/allocation/datasetInit points is executed on the implementation; results must equal the sequential execution and TSan must report nothing; a free-running pass is sampled and reported separately.",
   note="JIT-emitted accesses are visible only through ranges declared at call boundaries; weak-memory reorderings not modelled; per-scenario schedule cap reported when hit.", ref="3/C14"),
 "C15": dict(cat="fault_enumeration", tech="exhaustive enumeration of fault positions (every allocation request of every creating call, single and sticky) with interposed allocator accounting; lifecycle state search",
   text="For 57 creating-call shapes every request index fails once (single and sticky) in a forked child: NULL result, accounting back to pre-call, epilogue hash correct; all ownership-respecting lifecycle histories to the depth bound with 'release everything in a clone == baseline' checked in every state; short munmap and foreign frees flagged.",
   note="mprotect failure is not injected; all allocation paths are interposed by the harness allocator.", ref="3/C15"),
 "C16": dict(cat="model_checking", tech="explicit-state search over API histories with a page-protection monitor on every mmap/mprotect request, cross-checked against /proc/self/maps",
   text="Secure family (SECURE JIT sets and interpreter sets with the SECURE bit): no protection request carries WRITE and EXEC together; non-secure JIT family: none on cache-owned buffers; kernel view compared after every call; positive control shows the monitor sees RWX of a non-secure VM.",
   note="Linux/x86-64 only.", ref="3/C16"),
 "C17": dict(cat="exploration", tech="bounded exhaustive enumeration executed by two builds (default, portable) with line-by-line comparison of result streams",
   text="The same enumerations (integer helpers on all boundary pairs and the limb lattice, program families on the interpreter, hashes/items/cache digests, FP-environment preservation) are run by an executable linked against the default build and one linked against the portable build; the streams must be identical and the portable build must preserve the caller's FP environment.",
   note="Portable path as compiled by this host's g++ for x86-64.", ref="3/C17"),
 "C19": dict(cat="translation_validation", tech="exhaustive enumeration of bounded program families; emitted AArch64 code executed by an instruction-subset emulator (bound to the ISA by self-tests and llvm-objdump) against the real interpreter",
   text="The ARM64 back-end's C++ is compiled for the host unmodified, the static runtime cross-assembled, and the emitted code executed under an emulator that refuses any encoding outside the audited subset; every program of the W1/sequence/saturated/branch/count families, v1/v2, soft/hard AES, full/light, plus dataset items from the emitted SuperscalarHash code, must leave the same register file and scratchpad as the interpreter.",
   note="CompiledVm glue for aarch64 replicated in the harness; emulator FP uses host IEEE arithmetic.", ref="3/C19"),
 "C20": dict(cat="translation_validation", tech="exhaustive enumeration of bounded program families; emitted RV64GC code executed by an instruction-subset emulator (bound to the ISA by self-tests and llvm-objdump) against the real interpreter",
   text="Same construction for the scalar RISC-V back-end: host-compiled emitter, cross-assembled runtime, subset emulator with whitelisted memory; program families, branch-distance and literal-pool threshold programs, v1/v2, full/light and emitted dataset-init code must agree with the interpreter.",
   note="Vector (RVV) back-end out of scope; CompiledVm glue replicated in the harness.", ref="3/C20"),
}

PENDING = {
}

def main():
    extra = os.path.join(VERIF, "bin", "manifest_extra.json")
    checks = dict(CHECKS); pending = dict(PENDING)
    props = [json.loads(l) for l in open(os.path.join(VERIF, "properties.jsonl"))]
    m = {"version": 1, "setup_cmd": "bin/setup",
         "hooks": {"guard": "RANDOMX_VERIF",
                   "enable": "-DRANDOMX_VERIF -DRANDOMX_VERIF_CONFIG_H='\"/verif/profiles/<profile>.h\"' -DRANDOMX_UNSAFE (reduced-geometry profiles only; the production profile is built with no define at all)",
                   "baseline_off_cmd": "bin/baseline_off", "source_commits": hook_commits(), "add_only": True},
         "engines": [
            {"name": "vcheck", "path": "bin/vcheck", "serves_properties": sorted(checks), "kind_free_text": "driver: rebuilds /repo's working tree into build/<variant>, runs the check's parts, merges evidence"},
            {"name": "envalloc+explore", "path": "src/common/envalloc.hpp", "serves_properties": ["C03", "C06", "C15", "C16"], "kind_free_text": "harness-owned allocator / mmap / mprotect (deterministic, enumerated answers, accounting, protection map, electric-fence mode) and fork-cloning explicit-state explorer over API histories"},
            {"name": "sched", "path": "src/common/sched.c", "serves_properties": ["C14", "C08"], "kind_free_text": "cooperative futex scheduler hidden from TSan + iterative-context-bounding explorer"},
            {"name": "a64emu", "path": "src/emu/a64", "serves_properties": ["C19"], "kind_free_text": "AArch64 instruction-subset emulator, host build of the ARM64 JIT"},
            {"name": "rv64emu", "path": "src/emu/rv64", "serves_properties": ["C20"], "kind_free_text": "RV64GC instruction-subset emulator, host build of the RISC-V JIT"},
            {"name": "specmodel", "path": "src/specmodel", "serves_properties": ["C01", "C02", "C05", "C08", "C09", "C10", "C11", "C12"], "kind_free_text": "independent executable reading of doc/specs.md + RFC 7693 / FIPS-197 / RFC 9106 (reference model, never includes /repo headers)"},
         ],
         "checks": [], "not_applicable": [],
         "notes": "All checks are bounded exhaustive explorations executed on the real code (program injection into real VM objects, real API histories); no check is decided by sampling or by a solver. See DESIGN.md."}
    for p in props:
        pid = p["id"]
        if pid in checks:
            c = checks[pid]
            m["checks"].append({"property_id": pid, "quick_cmd": "bin/vcheck %s --tier quick" % pid, "thorough_cmd": "bin/vcheck %s --tier thorough" % pid,
                                "evidence_file": "evidence/%s.json" % pid, "replay_cmd_template": "bin/vcheck %s --replay {path}" % pid, "engine": "vcheck",
                                "level_claimed": {"category": c["cat"], "text": c["text"], "design_ref": "DESIGN.md section " + c["ref"]},
                                "level_note": c["note"], "technique": c["tech"]})
        else:
            m["not_applicable"].append({"property_id": pid, "reason": pending.get(pid, "not claimed")})
    json.dump(m, open(os.path.join(VERIF, "MANIFEST.json"), "w"), indent=1)
    print("checks:", len(m["checks"]), "not_applicable:", len(m["not_applicable"]))

if __name__ == "__main__":
    main()
