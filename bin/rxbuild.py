#!/usr/bin/env python3
"""Build /repo's library (current working tree) and harness executables into /verif/build.

Variant string:  <profile>[-asan|-tsan][-portable][-clang]
  profile  full | iter | mini         (profiles/<profile>.h through the RANDOMX_VERIF hook)
Objects are reused only when the hash of (all files under /repo/src, the profile header,
the flags) is unchanged.
"""
import hashlib, os, subprocess, sys, shlex, concurrent.futures as cf

VERIF = os.path.dirname(os.path.dirname(os.path.abspath(__file__)))
REPO = os.environ.get("RX_REPO", "/repo")
SRC = os.path.join(REPO, "src")
BUILD = os.environ.get("RX_BUILD", os.path.join(VERIF, "build"))

LIB_SOURCES = """aes_hash.cpp argon2_ref.c argon2_ssse3.c argon2_avx2.c bytecode_machine.cpp cpu.cpp
dataset.cpp soft_aes.cpp virtual_memory.c vm_interpreted.cpp allocator.cpp assembly_generator_x86.cpp
instruction.cpp randomx.cpp superscalar.cpp vm_compiled.cpp vm_interpreted_light.cpp argon2_core.c
blake2_generator.cpp instructions_portable.cpp reciprocal.c virtual_machine.cpp vm_compiled_light.cpp
blake2/blake2b.c jit_compiler_x86.cpp jit_compiler_x86_static.S""".split()

PORTABLE_U = "-U__SSE__ -U__SSE2__ -U__SSE3__ -U__SSSE3__ -U__SSE4_1__ -U__SSE4_2__ -U__AES__ -U__AVX__ -U__AVX2__".split()

def parse_variant(v):
    parts = v.split("-")
    d = dict(profile=parts[0], san="plain", portable=False, cc="gcc")
    for p in parts[1:]:
        if p in ("asan", "tsan"): d["san"] = p
        elif p == "portable": d["portable"] = True
        elif p == "clang": d["cc"] = "clang"
        elif p == "plain": pass
        else: raise SystemExit("bad variant part " + p)
    if d["profile"] not in ("full", "iter", "mini"): raise SystemExit("bad profile " + d["profile"])
    return d

def tree_hash():
    h = hashlib.sha256()
    for root, dirs, files in os.walk(SRC):
        dirs.sort()
        if "tests" in dirs and root == SRC: dirs.remove("tests")
        for f in sorted(files):
            p = os.path.join(root, f)
            h.update(p.encode()); h.update(open(p, "rb").read())
    for f in sorted(os.listdir(os.path.join(VERIF, "profiles"))):
        h.update(open(os.path.join(VERIF, "profiles", f), "rb").read())
    return h.hexdigest()

def defines(d):
    fl = []
    if d["profile"] != "full":
        hdr = os.path.join(VERIF, "profiles", d["profile"] + ".h")
        fl += ["-DRANDOMX_VERIF", '-DRANDOMX_VERIF_CONFIG_H="%s"' % hdr, "-DRANDOMX_UNSAFE"]
    return fl

def san_flags(d):
    if d["san"] == "asan": return ["-fsanitize=address,undefined", "-fno-sanitize-recover=undefined", "-fno-omit-frame-pointer", "-g"]
    if d["san"] == "tsan": return ["-fsanitize=thread", "-fno-omit-frame-pointer", "-g"]
    return []

def compilers(d):
    return ("clang", "clang++") if d["cc"] == "clang" else ("gcc", "g++")

def lib_flags(d, src):
    fl = ["-O2", "-DNDEBUG", "-maes"] + defines(d) + san_flags(d)
    if src == "argon2_ssse3.c": fl.append("-mssse3")
    if src == "argon2_avx2.c": fl.append("-mavx2")
    if d["portable"] and src not in ("argon2_ssse3.c", "argon2_avx2.c", "jit_compiler_x86_static.S", "jit_compiler_x86.cpp", "cpu.cpp"):
        fl += PORTABLE_U
        if src == "instructions_portable.cpp": fl.append("-U__SIZEOF_INT128__")
    if src.endswith(".cpp"): fl.append("-std=c++11")
    return fl

def run(cmd):
    r = subprocess.run(cmd, stdout=subprocess.PIPE, stderr=subprocess.STDOUT, text=True)
    if r.returncode != 0:
        sys.stderr.write("BUILD FAILED: %s\n%s\n" % (" ".join(shlex.quote(c) for c in cmd), r.stdout))
        raise SystemExit(2)
    return r.stdout

def build_lib(variant, quiet=True):
    d = parse_variant(variant)
    out = os.path.join(BUILD, "lib", variant)
    os.makedirs(out, exist_ok=True)
    stamp = os.path.join(out, "stamp")
    key = tree_hash() + "|" + variant + "|" + " ".join(lib_flags(d, "x.cpp"))
    lib = os.path.join(out, "librandomx.a")
    if os.path.exists(stamp) and open(stamp).read() == key and os.path.exists(lib):
        return lib
    cc, cxx = compilers(d)
    jobs = []
    objs = []
    for s in LIB_SOURCES:
        o = os.path.join(out, s.replace("/", "_") + ".o")
        objs.append(o)
        comp = cxx if s.endswith(".cpp") else cc
        jobs.append([comp, "-c", os.path.join(SRC, s), "-o", o, "-I", SRC] + lib_flags(d, s))
    with cf.ThreadPoolExecutor(16) as ex:
        list(ex.map(run, jobs))
    if os.path.exists(lib): os.remove(lib)
    run(["ar", "rcs", lib] + objs)
    open(stamp, "w").write(key)
    return lib

def build_specmodel():
    """The independent reference model: never sees /repo headers."""
    sm = os.path.join(VERIF, "src", "specmodel")
    out = os.path.join(BUILD, "specmodel"); os.makedirs(out, exist_ok=True)
    srcs = sorted(f for f in os.listdir(sm) if f.endswith(".cpp") and f != "selftest.cpp")
    h = hashlib.sha256()
    for f in sorted(os.listdir(sm)): h.update(open(os.path.join(sm, f), "rb").read())
    lib = os.path.join(out, "libspecmodel.a"); stamp = os.path.join(out, "stamp")
    if os.path.exists(stamp) and open(stamp).read() == h.hexdigest() and os.path.exists(lib): return lib
    objs = []; jobs = []
    for f in srcs:
        o = os.path.join(out, f + ".o"); objs.append(o)
        jobs.append(["g++", "-c", "-O2", "-std=c++17", "-frounding-math", os.path.join(sm, f), "-o", o])
    with cf.ThreadPoolExecutor(8) as ex: list(ex.map(run, jobs))
    if os.path.exists(lib): os.remove(lib)
    run(["ar", "rcs", lib] + objs)
    open(stamp, "w").write(h.hexdigest())
    return lib

def build_exe(variant, out, sources, extra=(), link_lib=True, std="c++17", opt="-O2", specmodel=False, nosan_c=()):
    """Harness executables: compiled with -fno-access-control against the variant's library."""
    d = parse_variant(variant)
    cc, cxx = compilers(d)
    os.makedirs(os.path.dirname(out), exist_ok=True)
    libs = [build_lib(variant)] if link_lib else []
    smlib = [build_specmodel()] if specmodel else []
    h = hashlib.sha256()
    if smlib: h.update(open(os.path.join(BUILD, "specmodel", "stamp"), "rb").read())
    for s in list(sources) + list(nosan_c) + [os.path.join(VERIF, "src", "common", f) for f in sorted(os.listdir(os.path.join(VERIF, "src", "common")))]:
        h.update(open(s, "rb").read())
    flags = [opt, "-std=" + std, "-maes", "-fno-access-control", "-I", SRC, "-I", os.path.join(VERIF, "src"), "-DNDEBUG"] + defines(d) + san_flags(d) + list(extra)
    if d["portable"]: flags += PORTABLE_U
    key = h.hexdigest() + "|" + (open(os.path.join(os.path.dirname(libs[0]), "stamp")).read() if libs else "") + "|" + " ".join(flags)
    stamp = out + ".stamp"
    if os.path.exists(stamp) and open(stamp).read() == key and os.path.exists(out):
        return out
    extra_objs = []
    for i, cfile in enumerate(nosan_c):   # C sources that must stay uninstrumented (the scheduler)
        o = out + ".nosan%d.o" % i
        run([cc, "-c", "-O2", "-I", os.path.join(VERIF, "src", "common"), cfile, "-o", o]); extra_objs.append(o)
    run([cxx] + flags + list(sources) + extra_objs + libs + smlib + ["-o", out, "-lpthread"])
    open(stamp, "w").write(key)
    return out

if __name__ == "__main__":
    if len(sys.argv) >= 3 and sys.argv[1] == "lib":
        print(build_lib(sys.argv[2]))
    elif len(sys.argv) >= 5 and sys.argv[1] == "exe":
        extra = []
        srcs = []
        for a in sys.argv[4:]:
            (extra if a.startswith("-") else srcs).append(a)
        print(build_exe(sys.argv[2], sys.argv[3], srcs, extra))
    else:
        print(__doc__); sys.exit(2)
